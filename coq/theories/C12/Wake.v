(* C12 - the two regimes of a run of the domain (before / after the first unsubscribe call has started executing), and
   the wake-up invariant of the renewal task: while no unsubscribe has started, the renewal task is not cancelled, and
   whenever it has something to do (not started yet / its response has arrived / its timer has fired) its step is
   queued on the event loop. *)
From Coq Require Import List Bool Arith ZArith Lia.
From AUC Require Import Prelude.PyDict C12.Model C12.Spec C12.Frame C12.InvDef C12.InvStep C12.InvStep2 C12.InvStep3
  C12.Reach C12.StepFrame C12.Yields C12.Clean.
Import ListNotations.

(* ---- the ready queue only grows within a step -------------------------------------------------------------------------- *)
Definition RM (s s' : state) : Prop := exists l, ready s' = ready s ++ l.
Lemma RM_refl s : RM s s. Proof. exists []. now rewrite app_nil_r. Qed.
Lemma RM_trans a b c : RM a b -> RM b c -> RM a c.
Proof. intros [l1 E1] [l2 E2]. exists (l1 ++ l2). now rewrite E2, E1, app_assoc. Qed.
Lemma RM_same s s' : ready s' = ready s -> RM s s'.
Proof. intros E. exists []. now rewrite app_nil_r. Qed.
Ltac msame := apply RM_same; autorewrite with fr_ready; sproj; reflexivity.

Lemma RM_enqueue s h : RM s (enqueue s h). Proof. now exists [h]. Qed.
Lemma RM_fold_enqueue l : forall s, RM s (fold_left enqueue l s).
Proof. intros s. rewrite fold_enqueue. now exists l. Qed.
Lemma RM_finish s t st : RM s (finish s t st).
Proof.
  unfold finish. set (s1 := with_tasks s _ _).
  assert (A : RM s (fold_left enqueue (t_waiters (tasks s t)) s1)).
  { eapply RM_trans; [|apply RM_fold_enqueue]. now apply RM_same. }
  destruct (t_kind (tasks s t)); try exact A. eapply RM_trans; [exact A|apply RM_enqueue].
Qed.
Lemma RM_spawn s kd : RM s (spawn s kd). Proof. unfold spawn. now exists [HStep (ntasks s)]. Qed.
Lemma RM_spawn_kids c sids : forall s, RM s (fold_left (fun s x => spawn s (KOne c x)) sids s).
Proof. induction sids as [|x l IH]; intros s; cbn [fold_left]; [apply RM_refl|]. eapply RM_trans; [apply RM_spawn|apply IH]. Qed.
Lemma RM_unsub_return s t re : RM s (unsub_return s t re).
Proof. unfold unsub_return. destruct re; apply RM_finish. Qed.
Lemma RM_unsub_gather s t sids re : RM s (unsub_gather s t sids re).
Proof.
  unfold unsub_gather. destruct sids; [apply RM_unsub_return|].
  eapply RM_trans; [apply RM_spawn_kids|]. now apply RM_same.
Qed.
Lemma RM_cancel s t : RM s (cancel s t).
Proof.
  unfold cancel. destruct (t_pc (tasks s t)) as [| ? ? ? r|? ? r|? []| | |r|]; try (now apply RM_same);
    try (destruct (q_state (reqs s r)); try (now apply RM_same)); eexists; reflexivity.
Qed.
Lemma RM_await_task s t sids lt re : RM s (await_task s t sids lt re).
Proof.
  unfold await_task. destruct (t_pc (tasks s lt)) as [| | | | | | |[?|e|]];
    try (now apply RM_same); try apply RM_finish; (eapply RM_trans; [|apply RM_unsub_gather]); now apply RM_same.
Qed.
Lemma RM_unsub_services s t re : RM s (unsub_services s t re).
Proof.
  unfold unsub_services. destruct (rtask _) as [lt|].
  - eapply RM_trans; [|apply RM_await_task]. eapply RM_trans; [|apply RM_cancel]. msame.
  - eapply RM_trans; [|apply RM_unsub_gather]. msame.
Qed.
Lemma RM_sub_post s t auto now0 : RM s (sub_post s t auto now0).
Proof.
  unfold sub_post. destruct (subs s); [apply RM_finish|]. destruct auto; [|apply RM_finish].
  eapply RM_trans; [|apply RM_finish]. destruct (rtask (forget_cancelled s)); [msame|].
  eapply RM_trans with (b := spawn (forget_cancelled s) KLoop); [|now apply RM_same].
  eapply RM_trans; [|apply RM_spawn]. msame.
Qed.
Lemma RM_pass_scan s t pn nf todo : RM s (ost (pass_scan s t pn nf todo)). Proof. msame. Qed.
Lemma RM_pass_resume s t p st rho hdr : RM s (ost (pass_resume s t p st rho hdr)). Proof. msame. Qed.
Lemma RM_run_pass s t : RM s (ost (run_pass s t)). Proof. msame. Qed.
Lemma RM_loop_head fuel : forall s t, RM s (loop_head fuel s t).
Proof.
  induction fuel as [|f IH]; intros s t; cbn [loop_head].
  - destruct (subs s); [apply RM_finish|]. destruct (0 <? _)%Z; [now apply RM_same|].
    pose proof (RM_run_pass s t) as R. destruct (run_pass s t) as [s'|s'|s' e]; cbn [ost] in R; auto.
    + destruct (_ <? _)%nat; (eapply RM_trans; [exact R|now apply RM_same]).
    + eapply RM_trans; [exact R|apply RM_finish].
  - destruct (subs s); [apply RM_finish|]. destruct (0 <? _)%Z; [now apply RM_same|].
    pose proof (RM_run_pass s t) as R. destruct (run_pass s t) as [s'|s'|s' e]; cbn [ost] in R; auto.
    + destruct (_ <? _)%nat; [eapply RM_trans; [exact R|apply IH]|eapply RM_trans; [exact R|now apply RM_same]].
    + eapply RM_trans; [exact R|apply RM_finish].
Qed.
Lemma RM_after_loop t o : RM (ost o) (after_pass_loop t o).
Proof. unfold after_pass_loop. destruct o; cbn [ost]; [apply RM_refl|apply RM_loop_head|apply RM_finish]. Qed.
Lemma RM_after_sub t auto now0 o : RM (ost o) (after_pass_sub t auto now0 o).
Proof.
  unfold after_pass_sub. destruct o as [s'|s'|s' e]; cbn [ost]; [apply RM_refl|apply RM_sub_post|].
  destruct (is_upnp e); [apply RM_unsub_services|apply RM_finish].
Qed.
Lemma RM_sub_next s t auto now0 todo : RM s (sub_next s t auto now0 todo).
Proof. unfold sub_next. destruct todo; [apply RM_sub_post|]. msame. Qed.
Lemma RM_sub_resume s t auto now0 todo v rho hdr : RM s (sub_resume s t auto now0 todo v rho hdr).
Proof.
  unfold sub_resume. cbv zeta. destruct rho as [m g| | |]; try apply RM_unsub_services.
  destruct hdr; [|apply RM_unsub_services]. eapply RM_trans; [|apply RM_sub_next]. now apply RM_same.
Qed.
Lemma RM_start_body s t : RM s (start_body s t).
Proof.
  unfold start_body. destruct (t_kind (tasks s t)).
  - destruct (subs s); [apply RM_sub_next|]. eapply RM_trans; [|apply RM_after_sub]. apply RM_pass_scan.
  - apply RM_unsub_services.
  - apply RM_loop_head.
  - destruct (dget _ _ _); [|apply RM_finish]. cbv zeta. msame.
Qed.
Lemma RM_step_task s t : RM s (step_task s t).
Proof.
  unfold step_task.
  destruct (t_pc (tasks s t)) as [|now0 todo v r|p st r|w ws|sids lt re|n re|r|st]; try apply RM_refl.
  - destruct (t_must _); [apply RM_finish|apply RM_start_body].
  - destruct (q_state _); try apply RM_refl; [|apply RM_finish]. destruct (t_must _); [apply RM_finish|].
    destruct (t_kind _); try apply RM_refl. apply RM_sub_resume.
  - destruct (q_state _); try apply RM_refl; [|apply RM_finish]. destruct (t_must _); [apply RM_finish|].
    destruct (t_kind _); (eapply RM_trans; [apply RM_pass_resume|]); try apply RM_after_loop; apply RM_after_sub.
  - destruct ws; try apply RM_refl; [|apply RM_finish]. destruct (t_must _); [apply RM_finish|].
    eapply RM_trans; [apply RM_run_pass|apply RM_after_loop].
  - destruct (is_done _); [apply RM_await_task|apply RM_refl].
  - destruct n; [apply RM_unsub_return|apply RM_refl].
  - destruct (q_state _); try apply RM_refl; [|apply RM_finish]. destruct (t_must _); apply RM_finish.
Qed.
Lemma RM_run_handle s h : RM s (run_handle s h).
Proof.
  unfold run_handle. destruct (diverged s); [apply RM_refl|]. destruct h as [t|t|p].
  - apply RM_step_task.
  - destruct (t_pc _) as [| | |w [| |]| | | |]; try apply RM_refl. eexists; reflexivity.
  - destruct (t_pc _) as [| | | | |[|n] re| |]; try apply RM_refl. destruct n; [eexists; reflexivity|now apply RM_same].
Qed.

(* ---- the two regimes ---------------------------------------------------------------------------------------------------- *)
(* no unsubscribe call has started executing *)
Definition normal (s : state) : Prop := forall u, In u (tl (calls s)) -> pcof s u = PStart.
Definition is_pstart (p : pc) : bool := match p with PStart => true | _ => false end.
Definition normalb (s : state) : bool := forallb (fun u => is_pstart (pcof s u)) (tl (calls s)).
Lemma normalb_spec s : normalb s = true <-> normal s.
Proof.
  unfold normalb, normal. rewrite forallb_forall. split; intros H u Hu; specialize (H u Hu).
  - destruct (pcof s u); try discriminate. reflexivity.
  - now rewrite H.
Qed.
Lemma normal_dec s : normal s \/ ~ normal s.
Proof. destruct (normalb s) eqn:E; [left; now apply normalb_spec|right; intros H; apply normalb_spec in H; congruence]. Qed.

Lemma normal_ext s s' : calls s' = calls s -> (forall u, In u (tl (calls s)) -> pcof s' u = pcof s u) -> normal s <-> normal s'.
Proof. intros Ec Ep. unfold normal. rewrite Ec. split; intros H u Hu; specialize (H u Hu); rewrite Ep in *; auto. Qed.

Lemma few_calls_normal s : (length (calls s) <= 1)%nat -> normal s.
Proof. intros L u Hu. destruct (calls s) as [|c [|u' us]]; cbn in *; try contradiction. lia. Qed.

Section Structure.
  Variables (pend : list handle) (s : state).
  Hypothesis H : Inv pend s.

  Lemma call_lt t : In t (calls s) -> t < ntasks s.
  Proof.
    intros Hin. pose proof (iv_calls _ _ H) as K. unfold calls_ok in K. destruct (calls s); [destruct Hin|].
    destruct K as (_ & _ & X & _). now apply X.
  Qed.
  Lemma tl_call_kind u : In u (tl (calls s)) -> kindof s u = KUnsub.
  Proof.
    intros Hin. pose proof (iv_calls _ _ H) as K. unfold calls_ok in K. destruct (calls s) as [|c0 us]; [destruct Hin|].
    destruct K as (_ & X & _). specialize (X u Hin). destruct (kindof s u); try discriminate. reflexivity.
  Qed.
  Lemma tl_in u : In u (tl (calls s)) -> In u (calls s).
  Proof. destruct (calls s); [intros []|cbn; auto]. Qed.

  (* a subscribe call that has not returned is the only thing going on *)
  Lemma live_sub t a : t < ntasks s -> kindof s t = KSub a -> ~ donep s t -> rtask s = None /\ cur s = t /\ calls s <> [].
  Proof.
    intros Ht Hk Hnd.
    assert (Hk' : is_sub_kind (kindof s t) || is_unsub_kind (kindof s t) = true) by (rewrite Hk; reflexivity).
    destruct (live_call_is_cur _ _ _ H Ht Hk' Hnd) as [Hc Hcur].
    pose proof (iv_pc _ _ H t Ht) as Hpcok. unfold pc_ok in Hpcok. rewrite Hk in Hpcok.
    pose proof (iv_phase _ _ H) as Ph. unfold phase_ok in Ph. destruct (calls s) eqn:Ec; [congruence|]. rewrite <- Ec in *. cbv zeta in Ph.
    rewrite Hcur, Hk in Ph. split; [|split; [assumption|congruence]].
    destruct (pcof s t) as [| | | | |n [e|]| |st] eqn:Epc; try contradiction; try tauto.
    exfalso. apply Hnd. unfold is_done. now rewrite Epc.
  Qed.

  (* while no unsubscribe has started and a renewal task exists, nothing else is alive *)
  Lemma normal_others lt t :
    normal s -> rtask s = Some lt -> t < ntasks s -> t <> lt -> donep s t \/ (kindof s t = KUnsub /\ pcof s t = PStart).
  Proof.
    intros N Hrt Ht Hne. destruct (is_done (tasks s t)) eqn:Ed; [now left|]. assert (Hnd : ~ donep s t) by congruence.
    destruct (kindof s t) as [a| | |p x] eqn:Hk.
    - destruct (live_sub t a Ht Hk Hnd) as [X _]. congruence.
    - right. split; [reflexivity|]. apply N. pose proof (iv_census _ _ H t Ht) as C. unfold census in C. now rewrite Hk in C.
    - pose proof (loop_is_rtask _ _ _ H Ht Hk Hnd). congruence.
    - destruct (kid_context _ _ _ _ _ H Ht Hk Hnd) as (n & re & _ & _ & X & _). congruence.
  Qed.

  (* once an unsubscribe has started, every renewal task has ended or is about to take CancelledError *)
  Lemma shutdown_dd t : ~ normal s -> t < ntasks s -> kindof s t = KLoop -> donep s t \/ doomed s t.
  Proof.
    intros N Ht Hk. destruct (is_done (tasks s t)) eqn:Ed; [now left|]. assert (Hnd : ~ donep s t) by congruence.
    pose proof (loop_is_rtask _ _ _ H Ht Hk Hnd) as Hrt.
    assert (Ex : exists u, In u (tl (calls s)) /\ pcof s u <> PStart).
    { destruct (existsb (fun u => negb (is_pstart (pcof s u))) (tl (calls s))) eqn:E.
      - apply existsb_exists in E. destruct E as (u & Hu & E). exists u. split; [exact Hu|]. intros X. rewrite X in E. discriminate.
      - exfalso. apply N. intros u Hu. destruct (pcof s u) eqn:Ep; try reflexivity;
          (assert (X : existsb (fun u => negb (is_pstart (pcof s u))) (tl (calls s)) = true)
             by (apply existsb_exists; exists u; split; [exact Hu|now rewrite Ep]); congruence). }
    destruct Ex as (u & Hu & Hup).
    pose proof (iv_calls _ _ H) as K. pose proof (iv_phase _ _ H) as Ph. unfold calls_ok, phase_ok in *.
    destruct (calls s) as [|c0 us] eqn:Ec; [destruct Hu|]. cbn [tl] in Hu. cbv zeta in Ph.
    destruct K as (K0 & Kus & Klt & Kd & Knd).
    assert (Hcin : In (cur s) us).
    { unfold cur. rewrite Ec. destruct us as [|u1 us']; [destruct Hu|]. apply (last_in_tail c0 (u1 :: us') 0). discriminate. }
    pose proof (Kus _ Hcin) as Kc. destruct (kindof s (cur s)) eqn:Hkc; try discriminate.
    destruct (pcof s (cur s)) as [| | | |sids lt [e|]|nl [e|]| |st] eqn:Epc; try contradiction.
    - (* the current call has not started: an earlier unsubscribe call has run to completion *)
      assert (Hne : u <> cur s) by (intros ->; contradiction).
      assert (L : 2 < length (c0 :: us)).
      { destruct us as [|u1 [|u2 us']]; cbn; try lia; [destruct Hu|].
        exfalso. unfold cur in *. rewrite Ec in *. cbn in Hne, Hcin. destruct Hu as [->|[]]. now apply Hne. }
      destruct (Ph L) as (_ & X & _). congruence.
    - destruct Ph as (_ & _ & X & Y). assert (lt = t) by congruence. subst lt. tauto.
    - destruct Ph as (_ & _ & X). congruence.
    - destruct Ph as (_ & X & _). congruence.
  Qed.
End Structure.

(* ---- what a task's own step leaves in its own record --------------------------------------------------------------------- *)
Lemma tasks_fold_enqueue l : forall s, tasks (fold_left enqueue l s) = tasks s /\ reqs (fold_left enqueue l s) = reqs s.
Proof. intros s. rewrite fold_enqueue. auto. Qed.
Lemma tasks_finish s t st :
  tasks (finish s t st) = fupd (tasks s) t (mkTask (kindof s t) (PDone st) false []) /\ reqs (finish s t st) = reqs s.
Proof.
  unfold finish. set (s1 := with_tasks s _ _). destruct (tasks_fold_enqueue (t_waiters (tasks s t)) s1) as [A B].
  destruct (kindof s t); sproj; rewrite ?A, ?B; subst s1; sproj; auto.
Qed.
Lemma pc_finish s t st : pcof (finish s t st) t = PDone st.
Proof. destruct (tasks_finish s t st) as [A _]. now rewrite A, fupd_eq. Qed.
Lemma pc_unsub_return s t re : exists st, pcof (unsub_return s t re) t = PDone st.
Proof. unfold unsub_return. destruct re; eexists; apply pc_finish. Qed.
Lemma pc_unsub_gather s t sids re : pcof (unsub_gather s t sids re) t <> PStart.
Proof.
  unfold unsub_gather. destruct sids.
  - destruct (pc_unsub_return s t re) as [st ->]. discriminate.
  - sproj. rewrite fupd_eq. discriminate.
Qed.
Lemma pc_await_task s t sids lt re : pcof (await_task s t sids lt re) t <> PStart.
Proof.
  unfold await_task. destruct (t_pc (tasks s lt)) as [| | | | | | |[?|e|]];
    try (sproj; rewrite fupd_eq; discriminate); try (rewrite pc_finish; discriminate); apply pc_unsub_gather.
Qed.
Lemma pc_unsub_services s t re : pcof (unsub_services s t re) t <> PStart.
Proof. unfold unsub_services. destruct (rtask _); [apply pc_await_task|apply pc_unsub_gather]. Qed.

(* a task never goes back to PStart *)
Lemma unsub_no_restart pend s h u :
  Inv pend s -> In u (tl (calls s)) -> pcof (run_handle s h) u = PStart -> pcof s u = PStart.
Proof.
  intros H Hu Hp. pose proof (tl_call_kind _ _ H u Hu) as Hk. pose proof (call_lt _ _ H u (tl_in s u Hu)) as Hlt.
  pose proof (iv_pc _ _ H u Hlt) as Pc. unfold pc_ok in Pc. rewrite Hk in Pc.
  unfold run_handle in Hp. destruct (diverged s); [exact Hp|]. destruct h as [t|t|p].
  - destruct (Nat.eq_dec t u) as [->|Hne].
    + unfold step_task in Hp. destruct (pcof s u) as [| | | |sids lt [e|]|n [e|]| |st] eqn:Epc; try contradiction; try reflexivity; exfalso.
      * destruct (is_done (tasks s lt)); [now apply pc_await_task in Hp|congruence].
      * destruct n; [|congruence]. destruct (pc_unsub_return s u None) as [st E]. congruence.
      * congruence.
    + destruct (PF_step_task t s) as (_ & _ & F). destruct (F u Hlt ltac:(congruence)) as [E|E]; [now rewrite <- E|].
      destruct (iv_rtask _ _ H u E) as [_ X]. congruence.
  - destruct (pcof s t) as [| | |w [| |]| | | |] eqn:Epc; try exact Hp. sproj in Hp.
    destruct (Nat.eq_dec t u) as [->|Hne]; [rewrite fupd_eq in Hp; discriminate|now rewrite fupd_neq in Hp by exact Hne].
  - destruct (pcof s p) as [| | | | |[|n] re| |] eqn:Epc; try exact Hp.
    assert (X : pcof (set_pc s p (PUnsubGather n re)) u = PStart) by (destruct n; exact Hp). sproj in X.
    destruct (Nat.eq_dec p u) as [->|Hne]; [rewrite fupd_eq in X; discriminate|now rewrite fupd_neq in X by exact Hne].
Qed.

Lemma normal_back pend s h : Inv pend s -> normal (run_handle s h) -> normal s.
Proof.
  intros H N u Hu. eapply unsub_no_restart; [exact H|exact Hu|]. apply N. now rewrite fr_calls_run_handle.
Qed.

(* ---- the renewal task after a step of its own ------------------------------------------------------------------------------ *)
(* suspended on something that has not happened yet, or finished *)
Definition settled (s : state) (t : tid) : Prop :=
  t_must (tasks s t) = false /\
  match pcof s t with
  | PPass _ _ r => q_state (reqs s r) = QPending
  | PSleep _ WPending | PDone _ => True
  | _ => False
  end.
Definition out_ok (t : tid) (o : outcome) : Prop :=
  match o with OSusp s' => settled s' t | ODone s' | ORaise s' _ => t_must (tasks s' t) = false end.

Lemma settled_finish s t st : settled (finish s t st) t.
Proof. unfold settled. destruct (tasks_finish s t st) as [A _]. rewrite A, fupd_eq. cbn. auto. Qed.
Lemma settled_issue s t kd v x p st :
  t_must (tasks s t) = false -> settled (set_pc (issue s t kd v x) t (PPass p st (nreqs s))) t.
Proof. intros Hm. unfold settled, issue. sproj. rewrite fupd_eq. cbn. rewrite fupd_eq. cbn. auto. Qed.

Lemma pass_scan_ok t pn nf todo : forall s, t_must (tasks s t) = false -> out_ok t (pass_scan s t pn nf todo).
Proof.
  induction todo as [|[x d] r IH]; intros s Hm; cbn [pass_scan]; [exact Hm|].
  destruct (d <? pn - TOL)%Z; [now apply IH|]. destruct (negb _); [exact Hm|].
  destruct (dget _ _ _).
  - cbn [out_ok]. change (nreqs (with_subs s (ddel Nat.eqb (subs s) x))) with (nreqs s).
    apply (settled_issue (with_subs s (ddel Nat.eqb (subs s) x))). exact Hm.
  - apply IH. exact Hm.
Qed.
Lemma pass_error_ok s t p e : t_must (tasks s t) = false -> out_ok t (pass_error s t p e).
Proof.
  intros Hm. unfold pass_error. destruct (is_upnp e); [|exact Hm]. destruct (p_notify p).
  - apply pass_scan_ok. destruct (is_conn e); exact Hm.
  - destruct (is_conn e); exact Hm.
Qed.
Lemma pass_grant_ok s t p x g : t_must (tasks s t) = false -> out_ok t (pass_grant s t p x g).
Proof. intros Hm. unfold pass_grant. apply pass_scan_ok. exact Hm. Qed.
Lemma pass_resume_ok s t p st rho hdr : t_must (tasks s t) = false -> out_ok t (pass_resume s t p st rho hdr).
Proof.
  intros Hm. unfold pass_resume. cbv zeta. destruct st.
  - destruct rho as [m g| | |].
    + destruct (match hdr with Some y => _ | None => _ end).
      * destruct (dhas _ _ _); [|exact Hm]. apply pass_grant_ok. exact Hm.
      * apply pass_grant_ok. exact Hm.
    + destruct (dhas _ _ _); [|exact Hm]. cbn [out_ok].
      change (nreqs (with_routed s (ddel Nat.eqb (routed s) (p_sid p)))) with (nreqs s).
      apply (settled_issue (with_routed s (ddel Nat.eqb (routed s) (p_sid p)))). exact Hm.
    + destruct (dhas _ _ _); [|exact Hm]. apply pass_error_ok. exact Hm.
    + destruct (dhas _ _ _); [|exact Hm]. cbn [out_ok].
      change (nreqs (with_routed s (ddel Nat.eqb (routed s) (p_sid p)))) with (nreqs s).
      apply (settled_issue (with_routed s (ddel Nat.eqb (routed s) (p_sid p)))). exact Hm.
  - destruct rho as [m g| | |]; try (apply pass_error_ok; exact Hm).
    destruct hdr; [|apply pass_error_ok; exact Hm]. apply pass_grant_ok. exact Hm.
Qed.
Lemma run_pass_ok s t : t_must (tasks s t) = false -> out_ok t (run_pass s t).
Proof. intros Hm. unfold run_pass. apply pass_scan_ok. exact Hm. Qed.
Lemma loop_head_ok fuel : forall s t,
  t_must (tasks s t) = false -> diverged (loop_head fuel s t) = true \/ settled (loop_head fuel s t) t.
Proof.
  assert (Sl : forall s t w, t_must (tasks s t) = false -> settled (set_pc s t (PSleep w WPending)) t).
  { intros s t w Hm. unfold settled. sproj. rewrite fupd_eq. cbn. auto. }
  induction fuel as [|f IH]; intros s t Hm; cbn [loop_head].
  - destruct (subs s); [right; apply settled_finish|]. destruct (0 <? _)%Z; [right; now apply Sl|].
    pose proof (run_pass_ok s t Hm) as R. destruct (run_pass s t) as [s'|s'|s' e]; cbn [out_ok] in R.
    + now right.
    + left. now destruct (_ <? _)%nat.
    + right. apply settled_finish.
  - destruct (subs s); [right; apply settled_finish|]. destruct (0 <? _)%Z; [right; now apply Sl|].
    pose proof (run_pass_ok s t Hm) as R. destruct (run_pass s t) as [s'|s'|s' e]; cbn [out_ok] in R.
    + now right.
    + destruct (_ <? _)%nat; [now apply IH|now left].
    + right. apply settled_finish.
Qed.
Lemma after_loop_ok t o : out_ok t o -> diverged (after_pass_loop t o) = true \/ settled (after_pass_loop t o) t.
Proof.
  unfold after_pass_loop. destruct o as [s'|s'|s' e]; cbn [out_ok]; intros R; [now right|now apply loop_head_ok|].
  right. apply settled_finish.
Qed.

Lemma settled_calm s t : settled s t -> ~ doomed s t /\ t_must (tasks s t) = false.
Proof.
  intros [A B]. split; [|exact A]. unfold doomed. rewrite A.
  destruct (pcof s t) as [| | ? ? r|? []| | | |]; try contradiction; intros [X|X]; try discriminate; try contradiction. congruence.
Qed.

(* ---- the wake-up invariant -------------------------------------------------------------------------------------------------- *)
Definition needs_wake (s : state) (t : tid) : Prop :=
  match pcof s t with
  | PStart | PSleep _ WDone => True
  | PPass _ _ r => q_state (reqs s r) <> QPending
  | _ => False
  end.
Lemma settled_asleep s t : settled s t -> ~ needs_wake s t.
Proof. intros [_ B]. unfold needs_wake. destruct (pcof s t) as [| | ? ? r|? []| | | |]; try contradiction; tauto. Qed.

Record Winv (pend : list handle) (s : state) : Prop := mkW {
  w_calm : normal s -> forall lt, rtask s = Some lt -> ~ donep s lt -> ~ doomed s lt;
  w_wake : normal s -> forall lt, rtask s = Some lt -> needs_wake s lt -> In (HStep lt) pend
}.

(* ---- steps of the other tasks while no unsubscribe has started ------------------------------------------------------------ *)
Definition fresh_loop (s' : state) : Prop :=
  rtask s' = None \/
  exists lt', rtask s' = Some lt' /\ pcof s' lt' = PStart /\ t_must (tasks s' lt') = false /\ In (HStep lt') (ready s').

(* the subscribe call: afterwards there is no renewal task, or one that has just been created *)
Lemma sub_step_rtask rest s t a :
  Inv (HStep t :: rest ++ ready s) s -> t < ntasks s -> kindof s t = KSub a -> ~ donep s t -> fresh_loop (step_task s t).
Proof.
  intros H Ht Hk Hnd.
  destruct (live_sub _ _ H t a Ht Hk Hnd) as (Ert & Hcur & Hc).
  assert (Hnl : kindof s t <> KLoop) by (rewrite Hk; discriminate).
  pose proof (not_loop_not_doomed _ _ _ H Ht Hnl) as Hndm. pose proof (not_doomed_must _ _ Hndm) as Hm.
  pose proof (iv_pc _ _ H t Ht) as Hpcok. unfold pc_ok in Hpcok. rewrite Hk in Hpcok.
  pose proof (iv_phase _ _ H) as Ph. unfold phase_ok in Ph. destruct (calls s) eqn:Ec; [congruence|]. rewrite <- Ec in *. cbv zeta in Ph.
  rewrite Hcur, Hk in Ph.
  assert (Same : forall s', rtask s' = rtask s -> fresh_loop s') by (intros s' E; left; congruence).
  unfold step_task.
  destruct (pcof s t) as [|now0 todo v r| | | |n re| |st] eqn:Epc; try contradiction.
  - destruct Ph as (G & Es & Er & _ & En & Enr).
    rewrite Hm. unfold start_body. rewrite Hk, Es. unfold sub_next. destruct (interesting (svcs s)).
    + apply Same. unfold sub_post. rewrite Es. now autorewrite with fr_rtask.
    + apply Same. reflexivity.
  - destruct Ph as (G & _ & En & Efst & Eeq & Esort & Elt & Efresh & _ & Ekind). assert (E0 : t = 0) by lia. rewrite E0 in *. clear E0.
    destruct (q_state (reqs s r)) as [|rho hdr|] eqn:Eq.
    + now apply Same.
    + rewrite Hm, Hk.
      assert (Fail : forall e, fresh_loop (unsub_services s 0 (Some e))).
      { intros e. apply Same. unfold unsub_services. rewrite forget_cancelled_none by exact Ert. sproj. rewrite Ert.
        now autorewrite with fr_rtask. }
      unfold sub_resume. cbv zeta.
      destruct rho as [m g| | |]; try apply Fail. destruct hdr as [y|]; [|apply Fail].
      set (b := with_subs (with_routed s (dset Nat.eqb (routed s) y v)) (dset Nat.eqb (subs s) y (now0 + grant_secs g)%Z)).
      unfold sub_next. destruct todo as [|v' rest'].
      * assert (Bne : subs b <> []).
        { subst b. sproj. intros X. assert (Y : In y (dkeys (dset Nat.eqb (subs s) y (now0 + grant_secs g)%Z))) by (apply nin_set; now left).
          rewrite X in Y. destruct Y. }
        rewrite sub_post_nonempty by (try exact Ert; exact Bne). destruct a.
        -- rewrite (auto_state_eq b true) by (try exact En; exact Hk). right. exists 1. unfold auto_state. sproj.
           rewrite fupd_neq by lia. rewrite fupd_eq. cbn. repeat split; auto. apply in_or_app. left. apply in_or_app. right. now left.
        -- apply Same. now autorewrite with fr_rtask.
      * apply Same. reflexivity.
    + exfalso. apply Hndm. right. now rewrite Epc.
  - destruct n as [|n]; [|now apply Same]. apply Same. now autorewrite with fr_rtask.
  - exfalso. apply Hnd. unfold is_done. now rewrite Epc.
Qed.

Lemma kid_step_rtask pend s t p x :
  Inv pend s -> t < ntasks s -> kindof s t = KOne p x -> rtask (step_task s t) = rtask s.
Proof.
  intros H Ht Hk. pose proof (iv_pc _ _ H t Ht) as Hpcok. unfold pc_ok in Hpcok. rewrite Hk in Hpcok.
  unfold step_task. destruct (pcof s t) as [| | | | | |r|st] eqn:Epc; try contradiction; try reflexivity.
  - destruct (t_must _); [now autorewrite with fr_rtask|]. unfold start_body. rewrite Hk.
    destruct (dget _ _ _); [reflexivity|now autorewrite with fr_rtask].
  - destruct (q_state _); try reflexivity; [|now autorewrite with fr_rtask]. destruct (t_must _); now autorewrite with fr_rtask.
Qed.

Lemma loop_step_rtask pend s t :
  Inv pend s -> t < ntasks s -> kindof s t = KLoop -> rtask (step_task s t) = rtask s.
Proof.
  intros H Ht Hk. pose proof (iv_pc _ _ H t Ht) as Hpcok. unfold pc_ok in Hpcok. rewrite Hk in Hpcok.
  unfold step_task. destruct (pcof s t) as [| |p st r|w ws| | | |st] eqn:Epc; try contradiction; try reflexivity.
  - destruct (t_must _); [now autorewrite with fr_rtask|]. unfold start_body. rewrite Hk. now autorewrite with fr_rtask.
  - destruct (q_state _); try reflexivity; [|now autorewrite with fr_rtask]. destruct (t_must _); [now autorewrite with fr_rtask|].
    rewrite Hk. now autorewrite with fr_rtask.
  - destruct ws; try reflexivity; [|now autorewrite with fr_rtask]. destruct (t_must _); now autorewrite with fr_rtask.
Qed.

(* the renewal task, not cancelled, takes a step: it ends up suspended on something that has not happened, or has finished *)
Lemma loop_step_settled pend s t :
  Inv pend s -> t < ntasks s -> kindof s t = KLoop -> ~ donep s t -> ~ doomed s t ->
  step_task s t = s \/ diverged (step_task s t) = true \/ settled (step_task s t) t.
Proof.
  intros H Ht Hk Hnd Hndm. pose proof (not_doomed_must _ _ Hndm) as Hm.
  pose proof (iv_pc _ _ H t Ht) as Hpcok. unfold pc_ok in Hpcok. rewrite Hk in Hpcok.
  unfold step_task. destruct (pcof s t) as [| |p st r|w ws| | | |st] eqn:Epc; try contradiction.
  - rewrite Hm. unfold start_body. rewrite Hk. right. now apply loop_head_ok.
  - destruct (q_state (reqs s r)) as [|rho hdr|] eqn:Eq.
    + now left.
    + rewrite Hm, Hk. right. apply after_loop_ok. now apply pass_resume_ok.
    + exfalso. apply Hndm. right. now rewrite Epc.
  - destruct ws.
    + now left.
    + rewrite Hm. right. apply after_loop_ok. now apply run_pass_ok.
    + exfalso. apply Hndm. right. now rewrite Epc.
  - now left.
Qed.

(* ---- the invariant is kept by every handle ----------------------------------------------------------------------------------- *)
Lemma Winv_settled pend s lt : rtask s = Some lt -> settled s lt -> Winv pend s.
Proof.
  intros Hrt St. constructor; intros _ lt' Hrt'; assert (lt' = lt) by congruence; subst lt'.
  - intros _. now apply settled_calm.
  - intros X. now apply settled_asleep in X.
Qed.
Lemma Winv_fresh rest s' : fresh_loop s' -> Winv (rest ++ ready s') s'.
Proof.
  intros [E|(lt' & E & A & B & C)]; constructor; intros _ lt Hrt; try congruence; assert (lt = lt') by congruence; subst lt.
  - intros _ [D|D]; [congruence|]. now rewrite A in D.
  - intros _. apply in_or_app. now right.
Qed.

Lemma Winv_run_handle rest s h :
  Inv (h :: rest ++ ready s) s -> Winv (h :: rest ++ ready s) s -> diverged s = false ->
  let s' := run_handle s h in
  diverged s' = true \/ Winv (rest ++ ready s') s'.
Proof.
  intros H W Dv s'.
  destruct (diverged s') eqn:Dv'; [now left|right].
  destruct (normal_dec s') as [N'|N']; [|constructor; intros X; contradiction].
  pose proof (normal_back _ s h H N') as N. destruct W as [Wc Ww]. specialize (Wc N). specialize (Ww N).
  destruct (RM_run_handle s h) as [l El]. fold s' in El.
  assert (Stay : forall lt, lt < ntasks s -> In (HStep lt) (h :: rest ++ ready s) -> h <> HStep lt -> In (HStep lt) (rest ++ ready s')).
  { intros lt Hlt [X|X] Y; [congruence|]. rewrite El, app_assoc. apply in_or_app. now left. }
  assert (Unch : s' = s -> (forall lt, rtask s = Some lt -> needs_wake s lt -> h <> HStep lt) -> Winv (rest ++ ready s') s').
  { intros E Hh. rewrite E in *. constructor; intros _; [exact Wc|].
    intros lt Hrt Hw. apply Stay; auto. apply (iv_rtask _ _ H lt Hrt). }
  subst s'. unfold run_handle in *. rewrite Dv in *. destruct h as [t|t|p].
  - (* a task takes a step *)
    destruct (Nat.lt_ge_cases t (ntasks s)) as [Ht|Ht].
    2:{ apply Unch; [unfold step_task; now rewrite (beyond_noop _ _ _ H Ht)|].
        intros lt Hrt _ E. injection E as <-. destruct (iv_rtask _ _ H t Hrt). lia. }
    destruct (is_done (tasks s t)) eqn:Ed.
    { apply Unch; [unfold step_task; unfold is_done in Ed; destruct (pcof s t); try discriminate; reflexivity|].
      intros lt Hrt Hw E. injection E as <-. unfold needs_wake in Hw. unfold is_done in Ed. destruct (pcof s t); try discriminate; contradiction. }
    assert (Hnd : ~ donep s t) by congruence.
    assert (Leave : kindof s t = KUnsub -> False).
    { intros Hk. pose proof (iv_census _ _ H t Ht) as C. unfold census in C. rewrite Hk in C.
      pose proof (N t C) as Ep. assert (Hnl : kindof s t <> KLoop) by (rewrite Hk; discriminate).
      pose proof (not_doomed_must _ _ (not_loop_not_doomed _ _ _ H Ht Hnl)) as Hm.
      assert (X : pcof (step_task s t) t = PStart) by (apply N'; now rewrite fr_calls_step_task).
      unfold step_task in X. rewrite Ep, Hm in X. unfold start_body in X. rewrite Hk in X. now apply pc_unsub_services in X. }
    destruct (rtask s) as [lt|] eqn:Ert.
    + destruct (Nat.eq_dec t lt) as [->|Hne].
      * destruct (iv_rtask _ _ H lt Ert) as [_ Hkl]. specialize (Wc lt eq_refl Hnd).
        destruct (loop_step_settled _ _ _ H Ht Hkl Hnd Wc) as [E|[E|E]]; [|congruence|].
        -- apply Unch; [exact E|]. intros lt' Hrt' Hw _. assert (lt' = lt) by congruence. subst lt'.
           unfold needs_wake in Hw. unfold step_task in E.
           destruct (pcof s lt) as [| |p st r|w ws| | | |st] eqn:Epc; try contradiction.
           ++ rewrite (not_doomed_must _ _ Wc) in E. unfold start_body in E. rewrite Hkl in E.
              destruct (loop_head_ok (length (subs s)) s lt (not_doomed_must _ _ Wc)) as [X|[_ X]]; rewrite E in X; [congruence|].
              now rewrite Epc in X.
           ++ destruct (q_state (reqs s r)) as [|rho hdr|] eqn:Eq; [now apply Hw| |].
              ** rewrite (not_doomed_must _ _ Wc), Hkl in E.
                 destruct (after_loop_ok lt _ (pass_resume_ok s lt p st rho hdr (not_doomed_must _ _ Wc))) as [X|[_ X]]; rewrite E in X; [congruence|].
                 rewrite Epc, Eq in X. discriminate.
              ** apply Wc. right. now rewrite Epc.
           ++ destruct ws; try contradiction. rewrite (not_doomed_must _ _ Wc) in E.
              destruct (after_loop_ok lt _ (run_pass_ok s lt (not_doomed_must _ _ Wc))) as [X|[_ X]]; rewrite E in X; [congruence|].
              now rewrite Epc in X.
        -- eapply Winv_settled; [|exact E]. now rewrite (loop_step_rtask _ _ _ H Ht Hkl).
      * destruct (normal_others _ _ H lt t N Ert Ht Hne) as [X|[X _]]; [contradiction|now destruct (Leave X)].
    + destruct (kindof s t) as [a| | |p x] eqn:Hk.
      * apply Winv_fresh. eapply sub_step_rtask; eassumption.
      * now destruct Leave.
      * pose proof (loop_is_rtask _ _ _ H Ht Hk Hnd). congruence.
      * apply Winv_fresh. left. now rewrite (kid_step_rtask _ _ _ _ _ H Ht Hk).
  - (* a timer fires *)
    destruct (pcof s t) as [| | |w [| |]| | | |] eqn:Epc;
      try (apply Unch; [reflexivity|intros; discriminate]).
    set (s1 := enqueue (set_pc s t (PSleep w WDone)) (HStep t)).
    assert (T1 : forall lt, t <> lt -> tasks s1 lt = tasks s lt) by (intros lt Hne; subst s1; sproj; now apply fupd_neq).
    assert (T2 : tasks s1 t = mkTask (kindof s t) (PSleep w WDone) (t_must (tasks s t)) (t_waiters (tasks s t))) by (subst s1; sproj; now rewrite fupd_eq).
    constructor; intros _ lt Hrt; change (rtask s1) with (rtask s) in Hrt.
    + intros Hd D. destruct (Nat.eq_dec t lt) as [->|Hne].
      * assert (Hd0 : ~ donep s lt) by (unfold is_done; now rewrite Epc).
        apply (Wc lt Hrt Hd0). unfold doomed in D. rewrite T2 in D. cbn in D. destruct D as [D|[]]. now left.
      * unfold is_done in Hd. rewrite (T1 lt Hne) in Hd. apply (Wc lt Hrt Hd). eapply doomed_old; [exact (T1 lt Hne)|reflexivity|exact D].
    + intros Hw. destruct (Nat.eq_dec t lt) as [->|Hne].
      * apply in_or_app. right. subst s1. sproj. apply in_or_app. right. now left.
      * assert (E : needs_wake s lt) by (unfold needs_wake in *; now rewrite (T1 lt Hne) in Hw).
        specialize (Ww lt Hrt E). destruct Ww as [X|X]; [discriminate|]. subst s1. sproj. rewrite app_assoc. apply in_or_app. now left.
  - (* a child of a gather reports *)
    destruct (pcof s p) as [| | | | |[|n] re| |] eqn:Epc; try (apply Unch; [reflexivity|intros; discriminate]).
    assert (Hp : forall lt, rtask s = Some lt -> lt <> p).
    { intros lt Hrt ->. destruct (iv_rtask _ _ H p Hrt) as [Hlt Hk]. pose proof (iv_pc _ _ H p Hlt) as P. unfold pc_ok in P.
      rewrite Hk, Epc in P. exact P. }
    set (s1 := set_pc s p (PUnsubGather n re)).
    assert (T1 : forall lt, rtask s = Some lt -> tasks s1 lt = tasks s lt).
    { intros lt Hrt. subst s1. sproj. apply fupd_neq. intros E. now apply (Hp lt Hrt). }
    assert (W1 : Winv (rest ++ ready s) s1).
    { constructor; intros _ lt Hrt; change (rtask s1) with (rtask s) in Hrt.
      - intros Hd D. unfold is_done in Hd. rewrite (T1 lt Hrt) in Hd. apply (Wc lt Hrt Hd).
        eapply doomed_old; [exact (T1 lt Hrt)|reflexivity|exact D].
      - intros Hw. assert (E : needs_wake s lt) by (unfold needs_wake in *; now rewrite (T1 lt Hrt) in Hw).
        destruct (Ww lt Hrt E) as [X|X]; [discriminate|exact X]. }
    destruct n; [|exact W1]. destruct W1 as [A B]. constructor; [exact A|].
    intros X lt Hrt Hw. specialize (B X lt Hrt Hw). sproj. rewrite app_assoc. apply in_or_app. now left.
Qed.

(* ---- ... and by every action ---------------------------------------------------------------------------------------------------- *)
Lemma Winv_fold hs : forall s,
  Inv (hs ++ ready s) s -> Winv (hs ++ ready s) s -> diverged s = false ->
  let s' := fold_left run_handle hs s in diverged s' = true \/ Winv (ready s') s'.
Proof.
  induction hs as [|h hs IH]; intros s H W Dv; cbn [fold_left]; [right; exact W|].
  cbv zeta. destruct (Winv_run_handle hs s h H W Dv) as [D|W']; [left; now rewrite fold_run_diverged|].
  destruct (Inv_run_handle hs s h H) as [D|I']; [left; now rewrite fold_run_diverged|].
  destruct (diverged (run_handle s h)) eqn:D'; [left; now rewrite fold_run_diverged|]. now apply IH.
Qed.

Lemma Winv_ext pend pend' s s' :
  calls s' = calls s -> tasks s' = tasks s -> reqs s' = reqs s -> rtask s' = rtask s ->
  (forall h, In h pend -> In h pend') -> Winv pend s -> Winv pend' s'.
Proof.
  intros Ec Et Er Ert Hp [Wc Ww].
  assert (N : normal s' -> normal s) by (intros N u Hu; rewrite <- Et; apply N; now rewrite Ec).
  constructor; intros N' lt Hrt; rewrite Ert in Hrt; specialize (Wc (N N') lt Hrt); specialize (Ww (N N') lt Hrt).
  - unfold is_done, doomed in *. now rewrite Et, Er.
  - intros Hw. apply Hp, Ww. unfold needs_wake in *. now rewrite Et, Er in Hw.
Qed.

Lemma Inv_iterate_start s : Inv (ready s) s -> Inv ((ready s ++ map HTimer (due s)) ++ ready (with_ready s [])) (with_ready s []).
Proof.
  intros H. sproj. rewrite app_nil_r.
  assert (E : forall c, nchild (ready s ++ map HTimer (due s)) c = nchild (ready s) c).
  { intros c. rewrite nchild_app2. assert (Z : nchild (map HTimer (due s)) c = 0); [|lia].
    induction (due s) as [|x l IHl]; [reflexivity|]. cbn [map]. rewrite nchild_cons.
    destruct (handle_eq_dec (HTimer x) (HChild c)); [discriminate|]. exact IHl. }
  pose proof (iv_count _ _ H) as Cn. destruct H. constructor; try assumption. eapply count_ok_ext; [exact E|exact Cn].
Qed.

Notation WGood s := (diverged s = true \/ Winv (ready s) s).

Lemma Winv_step s a : Inv (ready s) s -> Winv (ready s) s -> allowed s a -> WGood (step s a).
Proof.
  intros H W Ha. unfold step. destruct (diverged s) eqn:Dv; [now left|].
  destruct a as [auto| |r rho|dt|].
  - (* a call *)
    right. unfold call. destruct (user_busy s); [exact W|].
    destruct W as [Wc Ww]. set (s' := with_calls (spawn s (KSub auto)) (calls s ++ [ntasks s])).
    assert (Old : forall t, t < ntasks s -> tasks s' t = tasks s t) by (intros t Ht; subst s'; unfold spawn; sproj; apply fupd_neq; lia).
    assert (N : normal s' -> normal s).
    { intros N u Hu. rewrite <- Old by (apply (call_lt _ _ H); now apply tl_in). apply N. subst s'. sproj.
      destruct (calls s); [destruct Hu|]. cbn in *. apply in_or_app. now left. }
    constructor; intros N' lt Hrt; change (rtask s') with (rtask s) in Hrt; destruct (iv_rtask _ _ H lt Hrt) as [Hlt _].
    + intros Hd D. unfold is_done in Hd. rewrite (Old lt Hlt) in Hd. apply (Wc (N N') lt Hrt Hd). eapply doomed_old; [exact (Old lt Hlt)|reflexivity|exact D].
    + intros Hw. subst s'. unfold spawn. sproj. apply in_or_app. left. apply (Ww (N N') lt Hrt).
      unfold needs_wake in *. now rewrite (Old lt Hlt) in Hw.
  - right. unfold call. destruct (user_busy s); [exact W|].
    destruct W as [Wc Ww]. set (s' := with_calls (spawn s KUnsub) (calls s ++ [ntasks s])).
    assert (Old : forall t, t < ntasks s -> tasks s' t = tasks s t) by (intros t Ht; subst s'; unfold spawn; sproj; apply fupd_neq; lia).
    assert (N : normal s' -> normal s).
    { intros N u Hu. rewrite <- Old by (apply (call_lt _ _ H); now apply tl_in). apply N. subst s'. sproj.
      destruct (calls s); [destruct Hu|]. cbn in *. apply in_or_app. now left. }
    constructor; intros N' lt Hrt; change (rtask s') with (rtask s) in Hrt; destruct (iv_rtask _ _ H lt Hrt) as [Hlt _].
    + intros Hd D. unfold is_done in Hd. rewrite (Old lt Hlt) in Hd. apply (Wc (N N') lt Hrt Hd). eapply doomed_old; [exact (Old lt Hlt)|reflexivity|exact D].
    + intros Hw. subst s'. unfold spawn. sproj. apply in_or_app. left. apply (Ww (N N') lt Hrt).
      unfold needs_wake in *. now rewrite (Old lt Hlt) in Hw.
  - (* a response is delivered *)
    right. unfold deliver. destruct (r <? nreqs s)%nat eqn:Hr; [|exact W]. apply Nat.ltb_lt in Hr.
    destruct (q_state (reqs s r)) eqn:Eq; try exact W.
    pose proof (fr_tasks_publisher s (reqs s r) rho) as F1. pose proof (fr_reqs_publisher s (reqs s r) rho) as F2.
    pose proof (fr_rtask_publisher s (reqs s r) rho) as F3. pose proof (fr_calls_publisher s (reqs s r) rho) as F4.
    pose proof (fr_ready_publisher s (reqs s r) rho) as F5.
    destruct (publisher s (reqs s r) rho) as [s1 hdr]. cbn [fst] in *.
    set (s' := enqueue (set_rstate s1 r (QDone rho hdr)) (HStep (q_task (reqs s r)))).
    assert (Et : tasks s' = tasks s) by (subst s'; sproj; exact F1).
    assert (Er : forall r', r' <> r -> reqs s' r' = reqs s r') by (intros r' Hne; subst s'; sproj; rewrite fupd_neq by congruence; now rewrite F2).
    assert (Err : q_state (reqs s' r) = QDone rho hdr) by (subst s'; sproj; now rewrite fupd_eq).
    destruct W as [Wc Ww].
    assert (N : normal s' -> normal s) by (intros N u Hu; rewrite <- Et; apply N; subst s'; sproj; now rewrite F4).
    constructor; intros N' lt Hrt; replace (rtask s') with (rtask s) in Hrt by (subst s'; sproj; now rewrite F3);
      specialize (Wc (N N') lt Hrt); specialize (Ww (N N') lt Hrt).
    + intros Hd D. unfold is_done in Hd. rewrite Et in Hd. apply (Wc Hd). unfold doomed in *. rewrite Et in D.
      destruct D as [D|D]; [now left|right].
      destruct (pcof s lt) as [| ? ? ? r'|? ? r'|? []| | |r'|]; try exact D;
        (destruct (Nat.eq_dec r' r) as [->|Hne]; [congruence|now rewrite Er in D by exact Hne]).
    + intros Hw. subst s'. sproj. rewrite F5. unfold needs_wake in *. sproj in Hw. rewrite F1 in Hw.
      destruct (pcof s lt) as [| |p st r'|w ws| | | |] eqn:Epc; try contradiction;
        try (apply in_or_app; left; apply Ww; exact Hw).
      destruct (Nat.eq_dec r' r) as [->|Hne].
      * apply in_or_app. right. left. f_equal. destruct (iv_rtask _ _ H lt Hrt) as [Hlt _]. apply (iv_reqo _ _ H lt Hlt). now rewrite Epc.
      * apply in_or_app. left. apply Ww. rewrite fupd_neq in Hw by congruence. now rewrite F2 in Hw.
  - right. eapply Winv_ext; [| | | | |exact W]; autorewrite with fr; try reflexivity. auto.
  - unfold iterate. apply Winv_fold; [now apply Inv_iterate_start| |exact Dv].
    eapply Winv_ext; [| | | | |exact W]; try reflexivity. intros h Hh. sproj. rewrite app_nil_r. apply in_or_app. now left.
Qed.

Lemma WGood_states sched : forall s,
  (diverged s = true \/ Inv (ready s) s) -> WGood s -> dom_sched (started s) sched = true -> Forall (fun s' => WGood s') (states_from s sched).
Proof.
  induction sched as [|a r IH]; intros s G W D; [constructor|].
  destruct (diverged s) eqn:Dv.
  { eapply Forall_impl; [|apply states_diverged; exact Dv]. intros s' ->. now left. }
  destruct G as [X|I]; [congruence|]. destruct W as [X|W]; [congruence|]. cbn [states_from].
  pose proof (Good_states (a :: r) s (or_intror I) D) as Gs. cbn [states_from] in Gs. inversion Gs as [|? ? G1 Gr]; subst.
  assert (Ha : allowed s a).
  { destruct a; cbn [dom_sched allowed] in *; try exact Logic.I.
    - apply andb_true_iff in D. destruct D as [D1 _]. apply negb_true_iff in D1. unfold started in D1. destruct (calls s); [reflexivity|discriminate].
    - apply andb_true_iff in D. destruct D as [D1 _]. unfold started in D1. destruct (calls s); discriminate. }
  constructor; [now apply Winv_step|]. apply IH; [exact G1|now apply Winv_step|now apply dom_sched_step].
Qed.

Lemma Winv_init sv : Winv [] (init sv).
Proof. constructor; intros _ lt Hrt; discriminate. Qed.
