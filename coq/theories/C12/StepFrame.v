(* C12 - what a step of one task leaves alone: the records of the other tasks (except that unsubscribing cancels the
   renewal task) and the completion state of requests (except that cancelling turns a pending one into a cancelled one). *)
From Coq Require Import List Bool Arith ZArith Lia.
From AUC Require Import Prelude.PyDict C12.Model C12.Frame.
Import ListNotations.

Lemma fupd_same A (f : nat -> A) k v : fupd f k v k = v.
Proof. unfold fupd. now rewrite Nat.eqb_refl. Qed.
Lemma fupd_other A (f : nat -> A) k v k' : k <> k' -> fupd f k v k' = f k'.
Proof. unfold fupd. intros H. destruct (Nat.eqb_spec k k'); congruence. Qed.

(* ---- request states ------------------------------------------------------------------------------------------------------ *)
Definition QS (s s' : state) : Prop :=
  forall r, r < nreqs s ->
    q_state (reqs s' r) = q_state (reqs s r) \/ (q_state (reqs s r) = QPending /\ q_state (reqs s' r) = QCancelled).

Lemma QS_refl s : QS s s. Proof. intros r _. now left. Qed.
Lemma QS_trans a b c : nreqs a <= nreqs b -> QS a b -> QS b c -> QS a c.
Proof.
  intros Hn A B r Hr. destruct (A r Hr) as [E|[E1 E2]]; destruct (B r ltac:(lia)) as [F|[F1 F2]].
  - left. congruence.
  - right. split; congruence.
  - right. split; congruence.
  - congruence.
Qed.
Lemma QS_same s s' : reqs s' = reqs s -> QS s s'.
Proof. intros E r _. left. now rewrite E. Qed.

(* the two together: requests only appended (ReqStatic gives that too, restated here for composition) *)
Definition QN (s s' : state) : Prop := nreqs s <= nreqs s' /\ QS s s'.
Lemma QN_refl s : QN s s. Proof. split; [lia|apply QS_refl]. Qed.
Lemma QN_trans a b c : QN a b -> QN b c -> QN a c.
Proof. intros [A1 A2] [B1 B2]. split; [lia|]. eapply QS_trans; eauto. Qed.
Lemma QN_same s s' : reqs s' = reqs s -> nreqs s' = nreqs s -> QN s s'.
Proof. intros A B. split; [lia|now apply QS_same]. Qed.
Ltac qsame := apply QN_same; autorewrite with fr_reqs fr_nreqs; sproj; reflexivity.

Lemma QN_issue s t kd v x : QN s (issue s t kd v x).
Proof. unfold issue. split; sproj; [lia|]. intros r Hr. left. sproj. rewrite fupd_other by lia. reflexivity. Qed.

Lemma QN_cancel s t : QN s (cancel s t).
Proof.
  unfold cancel. destruct (t_pc (tasks s t)) as [| ? ? ? r|? ? r|? []| | |r|]; try qsame;
    destruct (q_state (reqs s r)) eqn:E; try qsame;
    (split; sproj; [lia|]; intros r' Hr'; sproj; unfold fupd; destruct (Nat.eqb_spec r r') as [<-|]; cbn; [right; auto|now left]).
Qed.

Lemma QN_unsub_services s t re : QN s (unsub_services s t re).
Proof.
  unfold unsub_services. destruct (rtask _) as [lt|]; [|qsame].
  eapply QN_trans with (b := mark_inflight (forget_cancelled (with_subs s [])) lt); [qsame|].
  eapply QN_trans; [apply QN_cancel|]. qsame.
Qed.

Lemma QN_pass_scan t pn nf todo : forall s, QN s (ost (pass_scan s t pn nf todo)).
Proof.
  induction todo as [|[x d] r IH]; intros s; cbn [pass_scan]; [apply QN_refl|].
  destruct (d <? pn - TOL)%Z; [apply IH|]. destruct (negb _); [apply QN_refl|].
  destruct (dget _ _ _).
  - cbn [ost]. eapply QN_trans; [|apply QN_same; sproj; reflexivity]. eapply QN_trans; [|apply QN_issue]. qsame.
  - eapply QN_trans; [|apply IH]. qsame.
Qed.
Lemma QN_pass_error s t p e : QN s (ost (pass_error s t p e)).
Proof.
  unfold pass_error. destruct (is_upnp e); [|apply QN_refl]. destruct (p_notify p).
  - eapply QN_trans; [|apply QN_pass_scan]. destruct (is_conn e); qsame.
  - destruct (is_conn e); qsame.
Qed.
Lemma QN_pass_grant s t p x g : QN s (ost (pass_grant s t p x g)).
Proof. unfold pass_grant. eapply QN_trans; [|apply QN_pass_scan]. qsame. Qed.
Lemma QN_pass_resume s t p st rho hdr : QN s (ost (pass_resume s t p st rho hdr)).
Proof.
  unfold pass_resume. cbv zeta. destruct st.
  - destruct rho as [m g| | |].
    + destruct (match hdr with Some y => _ | None => _ end).
      * destruct (dhas _ _ _); [|apply QN_refl]. eapply QN_trans; [|apply QN_pass_grant]. qsame.
      * eapply QN_trans; [|apply QN_pass_grant]. qsame.
    + destruct (dhas _ _ _); [|apply QN_refl]. cbn [ost].
      eapply QN_trans; [|apply QN_same; sproj; reflexivity]. eapply QN_trans; [|apply QN_issue]. qsame.
    + destruct (dhas _ _ _); [|apply QN_refl]. eapply QN_trans; [|apply QN_pass_error]. qsame.
    + destruct (dhas _ _ _); [|apply QN_refl]. cbn [ost].
      eapply QN_trans; [|apply QN_same; sproj; reflexivity]. eapply QN_trans; [|apply QN_issue]. qsame.
  - destruct rho as [m g| | |]; try apply QN_pass_error.
    destruct hdr; [|apply QN_pass_error]. eapply QN_trans; [|apply QN_pass_grant]. qsame.
Qed.
Lemma QN_run_pass s t : QN s (ost (run_pass s t)).
Proof. unfold run_pass. eapply QN_trans; [|apply QN_pass_scan]. qsame. Qed.
Lemma QN_loop_head fuel : forall s t, QN s (loop_head fuel s t).
Proof.
  induction fuel as [|f IH]; intros s t; cbn [loop_head].
  - destruct (subs s); [qsame|]. destruct (0 <? _)%Z; [qsame|].
    pose proof (QN_run_pass s t) as R. destruct (run_pass s t) as [s'|s'|s' e]; cbn [ost] in R; auto.
    + destruct (_ <? _)%nat; (eapply QN_trans; [exact R|qsame]).
    + eapply QN_trans; [exact R|qsame].
  - destruct (subs s); [qsame|]. destruct (0 <? _)%Z; [qsame|].
    pose proof (QN_run_pass s t) as R. destruct (run_pass s t) as [s'|s'|s' e]; cbn [ost] in R; auto.
    + destruct (_ <? _)%nat; [eapply QN_trans; [exact R|apply IH]|eapply QN_trans; [exact R|qsame]].
    + eapply QN_trans; [exact R|qsame].
Qed.
Lemma QN_after_loop t o : QN (ost o) (after_pass_loop t o).
Proof. unfold after_pass_loop. destruct o; cbn [ost]; [apply QN_refl|apply QN_loop_head|qsame]. Qed.
Lemma QN_after_sub t auto now0 o : QN (ost o) (after_pass_sub t auto now0 o).
Proof.
  unfold after_pass_sub. destruct o as [s'|s'|s' e]; cbn [ost]; [apply QN_refl|qsame|].
  destruct (is_upnp e); [apply QN_unsub_services|qsame].
Qed.
Lemma QN_sub_next s t auto now0 todo : QN s (sub_next s t auto now0 todo).
Proof. unfold sub_next. destruct todo; [qsame|]. eapply QN_trans; [|apply QN_same; sproj; reflexivity]. apply QN_issue. Qed.
Lemma QN_sub_resume s t auto now0 todo v rho hdr : QN s (sub_resume s t auto now0 todo v rho hdr).
Proof.
  unfold sub_resume. cbv zeta. destruct rho as [m g| | |]; try apply QN_unsub_services.
  destruct hdr; [|apply QN_unsub_services]. eapply QN_trans; [|apply QN_sub_next]. qsame.
Qed.
Lemma QN_start_body s t : QN s (start_body s t).
Proof.
  unfold start_body. destruct (t_kind (tasks s t)).
  - destruct (subs s); [apply QN_sub_next|]. eapply QN_trans; [|apply QN_after_sub]. apply QN_pass_scan.
  - apply QN_unsub_services.
  - apply QN_loop_head.
  - destruct (dget _ _ _); [|qsame]. cbv zeta. eapply QN_trans; [|apply QN_same; sproj; reflexivity].
    eapply QN_trans; [|apply QN_issue]. qsame.
Qed.
Lemma QN_step_task s t : QN s (step_task s t).
Proof.
  unfold step_task.
  destruct (t_pc (tasks s t)) as [|now0 todo v r|p st r|w ws|sids lt re|n re|r|st]; try apply QN_refl.
  - destruct (t_must _); [qsame|apply QN_start_body].
  - destruct (q_state _); try apply QN_refl; [|qsame]. destruct (t_must _); [qsame|].
    destruct (t_kind _); try apply QN_refl. apply QN_sub_resume.
  - destruct (q_state _); try apply QN_refl; [|qsame]. destruct (t_must _); [qsame|].
    destruct (t_kind _); (eapply QN_trans; [apply QN_pass_resume|]); try apply QN_after_loop; apply QN_after_sub.
  - destruct ws; try apply QN_refl; [|qsame]. destruct (t_must _); [qsame|].
    eapply QN_trans; [apply QN_run_pass|apply QN_after_loop].
  - destruct (is_done _); [qsame|apply QN_refl].
  - destruct n; [qsame|apply QN_refl].
  - destruct (q_state _); try apply QN_refl; [|qsame]. destruct (t_must _); qsame.
Qed.
Lemma QN_run_handle s h : QN s (run_handle s h).
Proof.
  unfold run_handle. destruct (diverged s); [apply QN_refl|]. destruct h as [t|t|p].
  - apply QN_step_task.
  - destruct (t_pc _) as [| | |w [| |]| | | |]; try apply QN_refl. qsame.
  - destruct (t_pc _) as [| | | | |[|n] re| |]; try apply QN_refl. destruct n; qsame.
Qed.

(* ---- task records ------------------------------------------------------------------------------------------------------------ *)
(* a step of task t changes, among the tasks that already exist, only t itself and possibly the renewal task *)
Definition PF (t : tid) (s s' : state) : Prop :=
  ntasks s <= ntasks s' /\
  (forall t', rtask s' = Some t' -> rtask s = Some t' \/ ntasks s <= t') /\
  (forall t', t' < ntasks s -> t' <> t -> tasks s' t' = tasks s t' \/ rtask s = Some t').

Lemma PF_refl t s : PF t s s. Proof. repeat split; auto. Qed.
Lemma PF_trans t a b c : PF t a b -> PF t b c -> PF t a c.
Proof.
  intros (A1 & A2 & A3) (B1 & B2 & B3). split; [lia|]. split.
  - intros t' H. destruct (B2 t' H) as [H'|H']; [|right; lia]. destruct (A2 t' H'); auto.
  - intros t' Ht Hne. destruct (A3 t' Ht Hne) as [E|E]; [|now right].
    destruct (B3 t' ltac:(lia) Hne) as [F|F]; [left; congruence|]. destruct (A2 t' F) as [G|G]; [now right|lia].
Qed.
Lemma PF_same t s s' : tasks s' = tasks s -> ntasks s' = ntasks s -> rtask s' = rtask s -> PF t s s'.
Proof. intros A B C. repeat split; [lia| |]. - intros t' H. left. congruence. - intros t' _ _. left. now rewrite A. Qed.
Ltac psame := apply PF_same; autorewrite with fr_tasks fr_ntasks fr_rtask; sproj; reflexivity.

Lemma PF_set_pc t s p : PF t s (set_pc s t p).
Proof. repeat split; sproj; auto. intros t' _ Hne. left. now rewrite fupd_other by congruence. Qed.
Lemma PF_finish t s st : PF t s (finish s t st).
Proof.
  unfold finish. rewrite <- (app_nil_r (t_waiters (tasks s t))).
  assert (E : forall l s0, tasks (fold_left enqueue l s0) = tasks s0 /\ ntasks (fold_left enqueue l s0) = ntasks s0 /\ rtask (fold_left enqueue l s0) = rtask s0).
  { induction l as [|h l IH]; intros s0; cbn; [auto|]. destruct (IH (enqueue s0 h)) as (A & B & C). auto. }
  rewrite app_nil_r.
  set (s1 := with_tasks s _ _). destruct (E (t_waiters (tasks s t)) s1) as (A & B & C).
  assert (P1 : PF t s s1).
  { subst s1. repeat split; sproj; auto. intros t' _ Hne. left. now rewrite fupd_other by congruence. }
  eapply PF_trans; [exact P1|]. destruct (t_kind (tasks s t)); try (apply PF_same; sproj; assumption).
Qed.
Lemma PF_spawn t s kd : PF t s (spawn s kd).
Proof. unfold spawn. repeat split; sproj; auto. intros t' Ht _. left. now rewrite fupd_other by lia. Qed.
Lemma PF_spawn_kids t c sids : forall s, PF t s (fold_left (fun s x => spawn s (KOne c x)) sids s).
Proof. induction sids as [|x l IH]; intros s; cbn [fold_left]; [apply PF_refl|]. eapply PF_trans; [apply PF_spawn|apply IH]. Qed.

Lemma PF_unsub_return t s re : PF t s (unsub_return s t re).
Proof. unfold unsub_return. destruct re; apply PF_finish. Qed.
Lemma PF_unsub_gather t s sids re : PF t s (unsub_gather s t sids re).
Proof.
  unfold unsub_gather. destruct sids; [apply PF_unsub_return|].
  eapply PF_trans; [apply PF_spawn_kids|apply PF_set_pc].
Qed.

Lemma PF_rtask_none t s : PF t s (with_rtask s None).
Proof. repeat split; sproj; auto. discriminate. Qed.

Lemma PF_cancel t s lt : rtask s = Some lt -> PF t s (cancel s lt).
Proof.
  intros Hr. assert (X : forall k, PF t s (with_tasks s (fupd (tasks s) lt k) (ntasks s))).
  { intros k. repeat split; sproj; auto. intros t' _ _. destruct (Nat.eq_dec t' lt) as [->|]; [now right|left; now rewrite fupd_other by congruence]. }
  assert (Y : forall k r x h, PF t s (enqueue (set_rstate (with_tasks s (fupd (tasks s) lt k) (ntasks s)) r x) h)).
  { intros k r x h. eapply PF_trans; [apply X|]. apply PF_same; reflexivity. }
  assert (Z : forall r x h, PF t s (enqueue (set_rstate s r x) h)) by (intros; apply PF_same; reflexivity).
  unfold cancel. destruct (t_pc (tasks s lt)) as [| ? ? ? r|? ? r|w []| | |r|];
    try apply PF_refl; try (unfold set_must; apply X);
    try (destruct (q_state (reqs s r)); [apply Z|unfold set_must; apply X|unfold set_must; apply X]).
Qed.

Lemma PF_await_task t s sids lt re : rtask s = Some lt \/ is_done (tasks s lt) = true -> PF t s (await_task s t sids lt re).
Proof.
  intros H. unfold await_task. destruct (t_pc (tasks s lt)) as [| | | | | | |[?|e|]] eqn:E;
    try (eapply PF_trans; [apply PF_rtask_none|apply PF_unsub_gather]); try apply PF_finish;
    (destruct H as [H|H]; [|unfold is_done in H; rewrite E in H; discriminate]);
    (eapply PF_trans; [|apply PF_set_pc]); unfold add_waiter;
    (repeat split; sproj; auto; intros t' _ _; destruct (Nat.eq_dec t' lt) as [->|]; [now right|left; now rewrite fupd_other by congruence]).
Qed.

Lemma PF_unsub_services t s re : PF t s (unsub_services s t re).
Proof.
  unfold unsub_services.
  assert (F : PF t s (forget_cancelled (with_subs s []))).
  { unfold forget_cancelled. sproj. destruct (rtask s); [|psame]. destruct (is_cancelled _); [|psame].
    eapply PF_trans with (b := with_subs s []); [psame|apply PF_rtask_none]. }
  destruct (rtask (forget_cancelled (with_subs s []))) as [lt|] eqn:Er.
  - eapply PF_trans; [exact F|]. eapply PF_trans with (b := mark_inflight (forget_cancelled (with_subs s [])) lt); [psame|].
    eapply PF_trans; [apply PF_cancel; exact Er|]. apply PF_await_task. left.
    now autorewrite with fr_rtask.
  - eapply PF_trans; [exact F|apply PF_unsub_gather].
Qed.

Lemma PF_sub_post t s auto now0 : PF t s (sub_post s t auto now0).
Proof.
  unfold sub_post. destruct (subs s); [apply PF_finish|]. destruct auto; [|apply PF_finish].
  eapply PF_trans; [|apply PF_finish].
  assert (F : PF t s (forget_cancelled s)).
  { unfold forget_cancelled. destruct (rtask s); [|apply PF_refl]. destruct (is_cancelled _); [apply PF_rtask_none|apply PF_refl]. }
  eapply PF_trans; [exact F|]. destruct (rtask (forget_cancelled s)); [apply PF_refl|].
  unfold spawn. repeat split; sproj; auto.
  - intros t' H. injection H as <-. right. lia.
  - intros t' Ht _. left. now rewrite fupd_other by lia.
Qed.

Lemma PF_issue t s kd v x : PF t s (issue s t kd v x).
Proof. psame. Qed.

Lemma PF_pass_scan t pn nf todo : forall s, PF t s (ost (pass_scan s t pn nf todo)).
Proof.
  induction todo as [|[x d] r IH]; intros s; cbn [pass_scan]; [apply PF_refl|].
  destruct (d <? pn - TOL)%Z; [apply IH|]. destruct (negb _); [apply PF_refl|].
  destruct (dget _ _ _).
  - cbn [ost]. eapply PF_trans; [|apply PF_set_pc]. psame.
  - eapply PF_trans; [|apply IH]. psame.
Qed.
Lemma PF_pass_error t s p e : PF t s (ost (pass_error s t p e)).
Proof.
  unfold pass_error. destruct (is_upnp e); [|apply PF_refl]. destruct (p_notify p).
  - eapply PF_trans; [|apply PF_pass_scan]. destruct (is_conn e); psame.
  - destruct (is_conn e); psame.
Qed.
Lemma PF_pass_grant t s p x g : PF t s (ost (pass_grant s t p x g)).
Proof. unfold pass_grant. eapply PF_trans; [|apply PF_pass_scan]. psame. Qed.
Lemma PF_pass_resume t s p st rho hdr : PF t s (ost (pass_resume s t p st rho hdr)).
Proof.
  unfold pass_resume. cbv zeta. destruct st.
  - destruct rho as [m g| | |].
    + destruct (match hdr with Some y => _ | None => _ end).
      * destruct (dhas _ _ _); [|apply PF_refl]. eapply PF_trans; [|apply PF_pass_grant]. psame.
      * eapply PF_trans; [|apply PF_pass_grant]. psame.
    + destruct (dhas _ _ _); [|apply PF_refl]. cbn [ost]. eapply PF_trans; [|apply PF_set_pc]. psame.
    + destruct (dhas _ _ _); [|apply PF_refl]. eapply PF_trans; [|apply PF_pass_error]. psame.
    + destruct (dhas _ _ _); [|apply PF_refl]. cbn [ost]. eapply PF_trans; [|apply PF_set_pc]. psame.
  - destruct rho as [m g| | |]; try apply PF_pass_error.
    destruct hdr; [|apply PF_pass_error]. eapply PF_trans; [|apply PF_pass_grant]. psame.
Qed.
Lemma PF_run_pass t s : PF t s (ost (run_pass s t)).
Proof. unfold run_pass. eapply PF_trans; [|apply PF_pass_scan]. psame. Qed.
Lemma PF_loop_head t fuel : forall s, PF t s (loop_head fuel s t).
Proof.
  induction fuel as [|f IH]; intros s; cbn [loop_head].
  - destruct (subs s); [apply PF_finish|]. destruct (0 <? _)%Z; [apply PF_set_pc|].
    pose proof (PF_run_pass t s) as R. destruct (run_pass s t) as [s'|s'|s' e]; cbn [ost] in R; auto.
    + destruct (_ <? _)%nat; (eapply PF_trans; [exact R|psame]).
    + eapply PF_trans; [exact R|apply PF_finish].
  - destruct (subs s); [apply PF_finish|]. destruct (0 <? _)%Z; [apply PF_set_pc|].
    pose proof (PF_run_pass t s) as R. destruct (run_pass s t) as [s'|s'|s' e]; cbn [ost] in R; auto.
    + destruct (_ <? _)%nat; [eapply PF_trans; [exact R|apply IH]|eapply PF_trans; [exact R|psame]].
    + eapply PF_trans; [exact R|apply PF_finish].
Qed.
Lemma PF_after_loop t o : PF t (ost o) (after_pass_loop t o).
Proof. unfold after_pass_loop. destruct o; cbn [ost]; [apply PF_refl|apply PF_loop_head|apply PF_finish]. Qed.
Lemma PF_after_sub t auto now0 o : PF t (ost o) (after_pass_sub t auto now0 o).
Proof.
  unfold after_pass_sub. destruct o as [s'|s'|s' e]; cbn [ost]; [apply PF_refl|apply PF_sub_post|].
  destruct (is_upnp e); [apply PF_unsub_services|apply PF_finish].
Qed.
Lemma PF_sub_next t s auto now0 todo : PF t s (sub_next s t auto now0 todo).
Proof. unfold sub_next. destruct todo; [apply PF_sub_post|]. eapply PF_trans; [|apply PF_set_pc]. psame. Qed.
Lemma PF_sub_resume t s auto now0 todo v rho hdr : PF t s (sub_resume s t auto now0 todo v rho hdr).
Proof.
  unfold sub_resume. cbv zeta. destruct rho as [m g| | |]; try apply PF_unsub_services.
  destruct hdr; [|apply PF_unsub_services]. eapply PF_trans; [|apply PF_sub_next]. psame.
Qed.
Lemma PF_start_body t s : PF t s (start_body s t).
Proof.
  unfold start_body. destruct (t_kind (tasks s t)).
  - destruct (subs s); [apply PF_sub_next|]. eapply PF_trans; [|apply PF_after_sub]. apply PF_pass_scan.
  - apply PF_unsub_services.
  - apply PF_loop_head.
  - destruct (dget _ _ _); [|apply PF_finish]. cbv zeta. eapply PF_trans; [|apply PF_set_pc]. psame.
Qed.
Lemma PF_step_task t s : PF t s (step_task s t).
Proof.
  unfold step_task.
  destruct (t_pc (tasks s t)) as [|now0 todo v r|p st r|w ws|sids lt re|n re|r|st]; try apply PF_refl.
  - destruct (t_must _); [apply PF_finish|apply PF_start_body].
  - destruct (q_state _); try apply PF_refl; [|apply PF_finish]. destruct (t_must _); [apply PF_finish|].
    destruct (t_kind _); try apply PF_refl. apply PF_sub_resume.
  - destruct (q_state _); try apply PF_refl; [|apply PF_finish]. destruct (t_must _); [apply PF_finish|].
    destruct (t_kind _); (eapply PF_trans; [apply PF_pass_resume|]); try apply PF_after_loop; apply PF_after_sub.
  - destruct ws; try apply PF_refl; [|apply PF_finish]. destruct (t_must _); [apply PF_finish|].
    eapply PF_trans; [apply PF_run_pass|apply PF_after_loop].
  - destruct (is_done _) eqn:E; [apply PF_await_task; now right|apply PF_refl].
  - destruct n; [apply PF_unsub_return|apply PF_refl].
  - destruct (q_state _); try apply PF_refl; [|apply PF_finish]. destruct (t_must _); apply PF_finish.
Qed.
