(* C12 - the residual loop-yields clause (Spec.clause_yields_res) holds for every schedule of the domain, known finding D19
   included: a run can only stop yielding in a loop iteration, and only in an iteration before which the renewal task
   existed and had not ended (it is a section of the renewal task that spins). *)
From Coq Require Import List Bool Arith ZArith Lia.
From AUC Require Import Prelude.PyDict C12.Model C12.Spec C12.Frame C12.InvDef C12.InvStep C12.InvStep2 C12.InvStep3
  C12.Reach C12.StepFrame C12.ReqStatic C12.Yields C12.Clean C12.Wake C12.Fail C12.Handles.
Import ListNotations.

Ltac deq := autorewrite with fr_diverged; sproj; try reflexivity.

(* only a step of a live renewal task can diverge *)
Lemma div_handle pend s h :
  Inv pend s -> diverged s = false -> diverged (run_handle s h) = true ->
  exists t, h = HStep t /\ t < ntasks s /\ kindof s t = KLoop /\ ~ donep s t.
Proof.
  intros H Dv D'. unfold run_handle in D'. rewrite Dv in D'. destruct h as [t|t|p].
  - destruct (Nat.lt_ge_cases t (ntasks s)) as [Ht|Ht].
    2:{ unfold step_task in D'. rewrite (beyond_noop _ _ _ H Ht) in D'. congruence. }
    destruct (is_done (tasks s t)) eqn:Ed; [rewrite done_noop in D' by exact Ed; congruence|].
    destruct (kindof s t) as [a| | |q x] eqn:Hk.
    2:{ exfalso. pose proof (iv_pc _ _ H t Ht) as P. unfold pc_ok in P. rewrite Hk in P. unfold step_task, throw_cancel in D'.
        destruct (pcof s t) as [| | | |sids lt re|n re| |st]; try contradiction; try congruence.
        - destruct (t_must _); [rewrite fr_diverged_finish in D'; congruence|]. unfold start_body in D'. rewrite Hk, fr_diverged_unsub_services in D'. congruence.
        - destruct (is_done _); [rewrite fr_diverged_await_task in D'|]; congruence.
        - destruct n; [rewrite fr_diverged_unsub_return in D'|]; congruence. }
    2:{ exists t. repeat split; auto. congruence. }
    + exfalso. pose proof (iv_pc _ _ H t Ht) as P. unfold pc_ok in P. rewrite Hk in P. unfold step_task, throw_cancel in D'.
      destruct (pcof s t) as [|now0 todo v r| | | |n re| |st]; try contradiction; try congruence.
      * destruct (t_must _); [rewrite fr_diverged_finish in D'; congruence|]. unfold start_body in D'. rewrite Hk in D'.
        destruct (subs s); [rewrite fr_diverged_sub_next in D'; congruence|].
        rewrite fr_diverged_after_pass_sub, fr_diverged_pass_scan in D'. congruence.
      * destruct (q_state _); try congruence; [|rewrite fr_diverged_finish in D'; congruence].
        destruct (t_must _); [rewrite fr_diverged_finish in D'; congruence|]. rewrite Hk, fr_diverged_sub_resume in D'. congruence.
      * destruct n; [rewrite fr_diverged_unsub_return in D'|]; congruence.
    + exfalso. pose proof (iv_pc _ _ H t Ht) as P. unfold pc_ok in P. rewrite Hk in P. unfold step_task, throw_cancel in D'.
      destruct (pcof s t) as [| | | | | |r|st]; try contradiction; try congruence.
      * destruct (t_must _); [rewrite fr_diverged_finish in D'; congruence|]. unfold start_body in D'. rewrite Hk in D'.
        destruct (dget _ _ _); [cbv zeta in D'; sproj in D'; rewrite fr_diverged_issue in D'; sproj in D'; congruence|rewrite fr_diverged_finish in D'; congruence].
      * destruct (q_state _); try congruence; [|rewrite fr_diverged_finish in D'; congruence].
        destruct (t_must _); rewrite fr_diverged_finish in D'; congruence.
  - exfalso. destruct (pcof s t) as [| | |w [| |]| | | |]; sproj in D'; congruence.
  - exfalso. destruct (pcof s p) as [| | | | |[|n] re| |]; try congruence. destruct n; sproj in D'; congruence.
Qed.

(* a live renewal task that existed before a handle ran was the live renewal task before it *)
Lemma rtask_back rest s h t0 :
  Inv (h :: rest ++ ready s) s -> diverged s = false -> t0 < ntasks s ->
  rtask (run_handle s h) = Some t0 -> ~ donep (run_handle s h) t0 -> rtask s = Some t0 /\ ~ donep s t0.
Proof.
  intros H Dv Ht0 Hrt' Hnd'. unfold run_handle in *. rewrite Dv in *. destruct h as [t|t|p].
  - destruct (PF_step_task t s) as (_ & F2 & _). destruct (F2 t0 Hrt') as [Hrt|X]; [|lia]. split; [exact Hrt|].
    intros Hd. apply Hnd'.
    destruct (Nat.lt_ge_cases t (ntasks s)) as [Ht|Ht].
    2:{ unfold step_task. now rewrite (beyond_noop _ _ _ H Ht). }
    destruct (is_done (tasks s t)) eqn:Ed; [now rewrite done_noop|].
    assert (Hnd : ~ donep s t) by congruence.
    assert (Hne : t <> t0) by (intros ->; contradiction).
    assert (Keep : PCF t0 s (step_task s t) -> donep (step_task s t) t0).
    { intros (_ & _ & K). destruct (K Ht0) as [E|(w & E & _)]; [unfold is_done in *; now rewrite E|].
      unfold is_done in Hd. rewrite E in Hd. discriminate. }
    destruct (kindof s t) as [a| | |q x] eqn:Hk.
    + destruct (live_sub _ _ H t a Ht Hk Hnd) as [X _]. congruence.
    + apply Keep. eapply PCF_step_unsub; eauto.
    + pose proof (loop_is_rtask _ _ _ H Ht Hk Hnd). congruence.
    + apply Keep. eapply PCF_step_kid; eauto.
  - destruct (pcof s t) as [| | |w [| |]| | | |] eqn:Epc; try (split; assumption).
    sproj in Hrt'. split; [exact Hrt'|]. intros Hd. apply Hnd'. unfold is_done in *. sproj.
    destruct (Nat.eq_dec t t0) as [->|Hne]; [rewrite Epc in Hd; discriminate|now rewrite fupd_neq by exact Hne].
  - destruct (pcof s p) as [| | | | |[|n] re| |] eqn:Epc; try (split; assumption).
    assert (Y : rtask (set_pc s p (PUnsubGather n re)) = Some t0 /\ ~ donep (set_pc s p (PUnsubGather n re)) t0) by (destruct n; split; assumption).
    destruct Y as [Y1 Y2]. sproj in Y1. split; [exact Y1|]. intros Hd. apply Y2. unfold is_done in *. sproj.
    destruct (Nat.eq_dec p t0) as [->|Hne]; [rewrite Epc in Hd; discriminate|now rewrite fupd_neq by exact Hne].
Qed.

Lemma div_fold n : forall hs s,
  Inv (hs ++ ready s) s -> (forall t, In (HStep t) hs -> t < n) -> n <= ntasks s -> diverged s = false ->
  diverged (fold_left run_handle hs s) = true -> exists t0, t0 < n /\ rtask s = Some t0 /\ ~ donep s t0.
Proof.
  induction hs as [|h hs IH]; intros s H Hb Hn Dv D'; cbn [fold_left] in D'; [congruence|].
  destruct (diverged (run_handle s h)) eqn:D1.
  - destruct (div_handle _ s h H Dv D1) as (t & -> & Ht & Hk & Hnd). exists t.
    split; [apply Hb; now left|]. split; [|exact Hnd]. eapply loop_is_rtask; eauto.
  - destruct (Inv_run_handle hs s h H) as [D|I']; [congruence|].
    assert (Hn1 : n <= ntasks (run_handle s h)).
    { unfold run_handle. rewrite Dv. destruct h as [t|t|p].
      - destruct (PF_step_task t s) as (F1 & _). lia.
      - destruct (pcof s t) as [| | |w [| |]| | | |]; sproj; lia.
      - destruct (pcof s p) as [| | | | |[|m] re| |]; try lia. destruct m; sproj; lia. }
    destruct (IH (run_handle s h) I' ltac:(intros t Ht; apply Hb; now right) Hn1 D1 D') as (t0 & L & A & B).
    exists t0. split; [exact L|]. eapply rtask_back; eauto. lia.
Qed.

(* ---- the clause ------------------------------------------------------------------------------------------------------------------------ *)
Lemma div_step s a :
  Inv (ready s) s -> Xinv s -> diverged s = false -> diverged (step s a) = true -> a = AIter /\ rtask_obs s = RtPending.
Proof.
  intros H X Dv D'. unfold step in D'. rewrite Dv in D'. destruct a as [b| |r rho|dt|].
  - rewrite fr_diverged_call in D'. congruence.
  - rewrite fr_diverged_call in D'. congruence.
  - rewrite fr_diverged_deliver in D'. congruence.
  - rewrite fr_diverged_advance in D'. congruence.
  - split; [reflexivity|]. unfold iterate in D'.
    destruct (div_fold (ntasks s) (ready s ++ map HTimer (due s)) (with_ready s [])) as (t0 & _ & A & B); auto.
    + now apply Inv_iterate_start.
    + intros t Ht. apply in_app_or in Ht. destruct Ht as [Ht|Ht]; [now apply (x_hbs _ X)|].
      apply in_map_iff in Ht. destruct Ht as (u & E & _). discriminate.
    + unfold rtask_obs. sproj in A. rewrite A. unfold is_done in B. sproj in B.
      destruct (pcof s t0) as [| | | | | | |[v|e|]]; try reflexivity; exfalso; now apply B.
Qed.

Lemma yres_diverged sched : forall s prev,
  diverged s = true -> o_div prev = true -> Forall (fun b => b = true) (yields_res_steps prev sched (trace_from s sched)).
Proof.
  induction sched as [|a r IH]; intros s prev D P; cbn [trace_from yields_res_steps]; [constructor|].
  rewrite step_diverged by exact D. constructor; [|apply IH; [exact D|now rewrite observe_div]].
  unfold yields_res_step. rewrite P. now rewrite andb_false_r.
Qed.

Lemma yres_from sched : forall s prev,
  Good s -> (diverged s = true \/ Xinv s) -> dom_sched (started s) sched = true ->
  o_div prev = diverged s -> (diverged s = false -> o_rtask prev = rtask_obs s) ->
  Forall (fun b => b = true) (yields_res_steps prev sched (trace_from s sched)).
Proof.
  induction sched as [|a r IH]; intros s prev G X D P1 P2; [constructor|].
  destruct (diverged s) eqn:Dv; [now apply yres_diverged|].
  destruct G as [Y|I]; [congruence|]. destruct X as [Y|X]; [congruence|].
  cbn [trace_from yields_res_steps].
  pose proof (allowed_of_dom _ _ _ D) as Ha.
  pose proof (Inv_step s a I Ha) as G'. pose proof (Xinv_step s a I X Ha) as X'.
  constructor.
  - unfold yields_res_step. rewrite observe_div, P1. destruct (diverged (step s a)) eqn:Dv'; [|reflexivity]. cbn [andb negb].
    destruct (div_step s a I X Dv Dv') as [-> E]. now rewrite (P2 eq_refl), E.
  - apply IH; auto.
    + now apply dom_sched_step.
    + apply observe_div.
    + intros Dv'. unfold observe. now rewrite Dv'.
Qed.

Theorem loop_yields_residual i : in_domain i = true -> clause_yields_res i (model_run i) = None.
Proof.
  intros D. unfold clause_yields_res, model_run. apply first_false_none. apply yres_from.
  - right. apply Inv_init.
  - right. apply Xinv_init.
  - now apply in_domain_dom_sched.
  - reflexivity.
  - intros _. reflexivity.
Qed.
