(* C12 - Profile subscriptions are all-or-nothing, kept alive, and cleanly ended.  Property theorems only.

   input        = the services of the profile device (which of them belong to the profile) and a schedule of external
                  actions on one asyncio event loop in virtual time: ASubscribe auto | AUnsubscribe | ADeliver request
                  reaction | AAdvance seconds | AIter (one loop iteration)
   model_run i  = what is observed after every action (Model.observe)
   in_domain i  = the user's first call is async_subscribe_services, every later one async_unsubscribe_services
                  (each call is made after the previous one returned: the model ignores a call made earlier)
   clause_* i o = first step of the observation o at which the clause fails (Spec.v); None = holds throughout *)
From Coq Require Import List Bool Arith ZArith NArith.
From AUC Require Import C12.Model C12.Spec C12.Yields C12.Clean C12.Aon C12.Witness C12.Fail C12.Alive C12.Witness2 C12.Residual C12.YieldsRes.
Import ListNotations.

(* All or nothing, for every schedule of the domain - every number of services, every reaction sequence, every latency:
   no request ever targets a service outside the profile; when the subscribe call returns normally (before the renewal
   task has sent anything) exactly the profile's services are routed, under exactly the SIDs the profile holds; when it
   raises, it raises an UpnpError and nothing is routed, nothing is held and no request is outstanding. *)
Theorem C12_all_or_nothing :
  forall i : input, in_domain i = true -> clause_aon i (model_run i) = None.
Proof. exact all_or_nothing. Qed.
Print Assumptions C12_all_or_nothing.

(* The renewal loop always yields: REFUTED (known finding D19).  One service granted 61 s, the renewal sent at t = 1 s
   answered at t = 131 s: the section of the renewal task that follows never awaits. *)
Theorem C12_loop_yields_refuted :
  exists i : input, in_domain i = true /\ kf_overdue i = true /\ clause_yields i (model_run i) = Some 10%nat.
Proof. exists w_d19. exact d19_refuted. Qed.
Print Assumptions C12_loop_yields_refuted.

(* ... and it yields in every other case: for EVERY schedule (inside the domain or not) in which no renewal pass of the
   loop starts while a deadline it holds is more than the tolerance overdue, no section of any task runs forever. *)
Theorem C12_loop_yields_partial :
  forall i : input, kf_overdue i = false -> clause_yields i (model_run i) = None.
Proof. exact loop_yields_partial. Qed.
Print Assumptions C12_loop_yields_partial.

(* The loop yields, residual - for EVERY schedule of the domain, with NO guard premise (known finding D19 included): a run stops yielding
   only at a loop iteration (AIter), and only at one before which the renewal task existed and had not ended.  (Once a
   section spins the event loop is frozen and nothing further is observable: every later snapshot is div_snap.  The other
   clauses judge every step before the first divergent one.) *)
Theorem C12_loop_yields_residual :
  forall i : input, in_domain i = true -> clause_yields_res i (model_run i) = None.
Proof. exact loop_yields_residual. Qed.
Print Assumptions C12_loop_yields_residual.

(* Clean shutdown: REFUTED (known finding D20).  Three services; async_unsubscribe_services runs while the first
   renewal is in flight: when it has returned SID 0 is still routed to service 0 (and no UNSUBSCRIBE was sent for it). *)
Theorem C12_clean_shutdown_refuted :
  exists i : input,
    in_domain i = true /\ kf_inflight i = true /\ kf_overdue i = false /\
    clause_clean i (model_run i) = Some 21%nat /\
    map o_routed (skipn 21 (model_run i)) = [[(0%nat, 0%nat)]].
Proof. exists w_d20. exact d20_refuted. Qed.
Print Assumptions C12_clean_shutdown_refuted.

(* ... and it is clean under every other interleaving: for every schedule of the domain in which no unsubscribe call
   starts executing while the renewal task is inside _async_do_resubscribe, from the moment an unsubscribe call has
   returned no SID is routed, the profile holds none, no request is outstanding, the renewal task is not pending, every
   unsubscribe call returned None, and no further request is ever sent. *)
Theorem C12_clean_shutdown_partial :
  forall i : input, in_domain i = true -> kf_inflight i = false -> clause_clean i (model_run i) = None.
Proof. exact clean_shutdown_partial. Qed.
Print Assumptions C12_clean_shutdown_partial.

(* Clean shutdown, residual - for EVERY schedule of the domain, with NO guard premise (known finding D20 included): from the
   moment an unsubscribe call has returned, every unsubscribe call returned None, the profile holds nothing, no request is
   outstanding (the request of a cancelled renewal included), the renewal task is not pending, no further request is ever
   sent, and every SID that is still routed is the SID x of a request (QRenew, _, Some x, sent by the renewal task) that
   was outstanding at the step at which an unsubscribe call was made, or was first seen in the loop iteration in which that
   call started executing (the first AIter after the call was made) - read by Spec.res_acc off the schedule and the
   observed request log, not off the model.  This is clause 5 with exactly the SID(s) of D20 exempted from "nothing is
   routed"; every other way of failing clause 5 fails this clause too, whatever the guard of D20 says. *)
Theorem C12_clean_shutdown_residual :
  forall i : input, in_domain i = true -> clause_clean_res i (model_run i) = None.
Proof. exact clean_shutdown_residual. Qed.
Print Assumptions C12_clean_shutdown_residual.

(* Clause 5 outside the OBSERVATION-BASED guard of D20 (the one Run.report uses): if the specification's reading of the
   schedule and the observation finds no renewal in flight at the start of any unsubscribe call (nothing is ever
   exempted by clause 6), clean shutdown holds in full.  A consequence of the residual theorem on the specification side:
   no field of a model run occurs in the guard. *)
Theorem C12_clean_shutdown_partial_obs :
  forall i : input, in_domain i = true -> kf_inflight_obs i (model_run i) = false -> clause_clean i (model_run i) = None.
Proof. exact clean_shutdown_partial_obs. Qed.
Print Assumptions C12_clean_shutdown_partial_obs.

(* A failed renewal is reported once, for every schedule of the domain: at every step the on_event(service, []) calls made
   so far are a prefix of the services whose renewal has failed so far (a renewal SUBSCRIBE of the renewal task answered
   "unreachable", or its fresh SUBSCRIBE after a refused renewal answered with anything but a 200 carrying a SID), in
   the order in which the failures were delivered; the device is unavailable only if one of these failures was
   "unreachable"; and whenever the event loop is idle and no unsubscribe call has been made, every failure has been
   reported and the device is unavailable exactly when one of them was "unreachable". *)
Theorem C12_failure_reported :
  forall i : input, in_domain i = true -> clause_reported i (model_run i) = None.
Proof. exact failure_reported. Qed.
Print Assumptions C12_failure_reported.

(* Kept alive, for every schedule of the domain that satisfies lapse_premise (automatic renewal was requested; no
   subscribe call / renewal pass of the run waited longer than the tolerance, 60 s, for its responses in total; every
   timeout granted in the run exceeds the tolerance plus that longest wait): at every step every SID the profile holds is
   still held by the publisher, which will not expire it before the current time, and the publisher never accepted a
   renewal of a subscription it had already expired. *)
Theorem C12_kept_alive :
  forall i : input, in_domain i = true -> lapse_premise i = true -> clause_alive i (model_run i) = None.
Proof. exact kept_alive. Qed.
Print Assumptions C12_kept_alive.

(* Non-vacuity. *)
Example C12_clean_inhabited :
  in_domain w_clean = true /\ kf_inflight w_clean = false /\
  map o_calls (skipn 20 (model_run w_clean)) = [[Some (SRet None); Some (SRet None)]] /\
  length (concat (map o_newreqs (model_run w_clean))) = 6%nat.
Proof. exact clean_example. Qed.

Example C12_renewals_inhabited :
  in_domain w_alive = true /\ kf_overdue w_alive = false /\ lapse_premise w_alive = true /\
  length (concat (map o_newreqs (model_run w_alive))) = 31%nat /\
  o_now (last (model_run w_alive) snap0) = 7230%Z.
Proof. exact alive_example. Qed.

Example C12_rollback_inhabited :
  in_domain w_rollback = true /\
  map (fun x => (o_calls x, o_routed x, o_subs x)) (skipn 10 (model_run w_rollback)) = [([Some (SExc EResponse)], [], [])] /\
  map (fun q => fst (fst (fst q))) (concat (map o_newreqs (model_run w_rollback))) = [QSub; QSub; QUnsub].
Proof. exact rollback_example. Qed.

Example C12_failures_inhabited :
  in_domain w_failed = true /\
  concat (map o_events (model_run w_failed)) = [0%nat; 1%nat] /\
  map o_avail (skipn 10 (model_run w_failed)) = [true; false; false; false; false; false] /\
  map (fun q => fst (fst (fst q))) (concat (map o_newreqs (model_run w_failed))) = [QSub; QSub; QRenew; QRenew; QSub].
Proof. exact failed_example. Qed.

Example C12_kept_alive_inhabited :
  in_domain w_alive2 = true /\ lapse_premise w_alive2 = true /\ g_maxdur (run w_alive2) = 55%Z /\
  map (fun q => (fst (fst (fst q)), snd (fst q))) (concat (map o_newreqs (model_run w_alive2))) =
    [(QSub, None); (QSub, None); (QRenew, Some 0%nat); (QRenew, Some 1%nat); (QSub, None); (QRenew, Some 2%nat);
     (QRenew, Some 3%nat); (QRenew, Some 2%nat)] /\
  o_now (last (model_run w_alive2) snap0) = 291%Z /\
  o_live (last (model_run w_alive2) snap0) = [(1%nat, Some 175%Z); (2%nat, Some 770%Z); (3%nat, Some 391%Z)].
Proof. exact alive2_example. Qed.

(* the residual clause on the D20 witness: it holds where clause 5 fails, the exempted set is exactly {SID 0}, the
   observation-based reading of the guard agrees with the ghost flag on both witnesses ... *)
Example C12_clean_residual_inhabited :
  clause_clean_res w_d20 (model_run w_d20) = None /\ clause_clean w_d20 (model_run w_d20) = Some 21%nat /\
  c_exempt (res_final cacc0 snap0 (i_sched w_d20) (model_run w_d20)) = [0%nat] /\
  kf_inflight_obs w_d20 (model_run w_d20) = true /\ kf_inflight_obs w_clean (model_run w_clean) = false.
Proof. exact d20_residual. Qed.

(* ... and it is sharp: the same trace with a second SID left routed, with another SID left routed instead, with a
   subscription still held, or with the unsubscribe call raising fails it at the step at which the call returns; the same
   trace with nothing left routed (a repaired implementation) satisfies it *)
Example C12_clean_residual_sharp :
  clause_clean_res w_d20 (tamper_last (fun x => set_routed x [(0%nat, 0%nat); (1%nat, 1%nat)]) (model_run w_d20)) = Some 21%nat /\
  clause_clean_res w_d20 (tamper_last (fun x => set_routed x [(1%nat, 1%nat)]) (model_run w_d20)) = Some 21%nat /\
  clause_clean_res w_d20 (tamper_last (fun x => set_subs x [(1%nat, 120%Z)]) (model_run w_d20)) = Some 21%nat /\
  clause_clean_res w_d20 (tamper_last (fun x => set_calls x [Some (SRet None); Some (SExc EKey)]) (model_run w_d20)) = Some 21%nat /\
  clause_clean_res w_d20 (tamper_last (fun x => set_routed x []) (model_run w_d20)) = None.
Proof. exact d20_residual_sharp. Qed.

Example C12_yields_residual_inhabited :
  clause_yields_res w_d19 (model_run w_d19) = None /\ clause_yields w_d19 (model_run w_d19) = Some 10%nat /\
  clause_yields_res w_d19 (div_from 9 (model_run w_d19)) = Some 9%nat /\
  clause_yields_res w_d19 (div_from 1 (model_run w_d19)) = Some 1%nat.
Proof. exact d19_residual. Qed.
