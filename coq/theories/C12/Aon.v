(* C12 - all or nothing: when the subscribe call returns normally every service of the profile (and nothing else) is
   routed under the SIDs the profile holds; when it raises, nothing is routed, nothing is held, nothing is outstanding;
   no request ever goes to a service outside the profile. *)
From Coq Require Import List Bool Arith ZArith Lia.
From AUC Require Import Prelude.PyDict C12.Model C12.Spec C12.Frame C12.InvDef C12.InvStep C12.InvStep2 C12.InvStep3
  C12.Reach C12.Yields C12.Clean C12.ReqStatic.
Import ListNotations.

(* ---- sorting something sorted ------------------------------------------------------------------------------------------ *)
Lemma sort_by_sorted {A} (l : list (nat * A)) : sorted_lt (map fst l) -> sort_by l = l.
Proof.
  induction l as [|x l IH]; intros H; [reflexivity|]. destruct H as [H1 H2]. unfold sort_by in *. cbn [fold_right].
  rewrite (IH H2). destruct l as [|y l]; [reflexivity|]. cbn [insert_by].
  assert (fst x < fst y) by (apply H1; now left). destruct (Nat.leb_spec (fst x) (fst y)); [reflexivity|lia].
Qed.
Lemma sort_nat_sorted l : sorted_lt l -> sort_nat l = l.
Proof.
  induction l as [|x l IH]; intros H; [reflexivity|]. destruct H as [H1 H2]. unfold sort_nat in *. cbn [fold_right].
  rewrite (IH H2). destruct l as [|y l]; [reflexivity|]. cbn [insert_nat].
  assert (x < y) by (apply H1; now left). destruct (Nat.leb_spec x y); [reflexivity|lia].
Qed.
Lemma interesting_from_sorted l : forall i, sorted_lt (interesting_from i l) /\ forall v, In v (interesting_from i l) -> i <= v.
Proof.
  induction l as [|b l IH]; intros i; cbn; [split; [exact I|intros v []]|].
  destruct (IH (S i)) as [A B]. destruct b; cbn.
  - split; [split; [intros y Hy; specialize (B y Hy); lia|exact A]|]. intros v [<-|Hv]; [lia|specialize (B v Hv); lia].
  - split; [exact A|]. intros v Hv. specialize (B v Hv). lia.
Qed.
Lemma nat_list_eqb_refl l : nat_list_eqb l l = true.
Proof. induction l; cbn; [reflexivity|]. now rewrite Nat.eqb_refl. Qed.

Lemma subscribed_all_ok s0 s : diverged s = false -> all_subscribed s -> subscribed_all (svcs s) (observe s0 s) = true.
Proof.
  intros D (A & B & C). unfold subscribed_all, observe. rewrite D. cbn [o_routed o_subs].
  rewrite (sort_by_sorted (routed s)) by exact B.
  assert (B' : sorted_lt (map fst (subs s))) by (rewrite A; exact B). rewrite (sort_by_sorted (subs s)) by exact B'.
  rewrite C, A. rewrite sort_nat_sorted by (apply interesting_from_sorted). now rewrite !nat_list_eqb_refl.
Qed.

(* ---- the first call as a snapshot shows it ------------------------------------------------------------------------------ *)
Definition fc (s : state) : option (option status) :=
  match calls s with [] => None | c :: _ => Some (status_of (tasks s c)) end.
Lemma first_call_observe s0 s : diverged s = false -> first_call (observe s0 s) = fc s.
Proof. intros D. unfold observe, first_call, fc. rewrite D. cbn [o_calls]. now destruct (calls s). Qed.

Lemma calls_busy s a : user_busy s = true -> calls (step s a) = calls s.
Proof.
  intros B. unfold step. destruct (diverged s); [reflexivity|].
  destruct a; autorewrite with fr_calls; try reflexivity; unfold call; now rewrite B.
Qed.

Lemma completes_alone s a c0 us st :
  Inv (ready s) s -> (fc s = None \/ fc s = Some None) -> calls (step s a) = c0 :: us ->
  status_of (tasks (step s a) c0) = Some st -> us = [].
Proof.
  intros I Hs Ec Hst. unfold fc in Hs.
  destruct (calls s) as [|c0' us'] eqn:E.
  - (* nothing called yet: the step can only have created the call *)
    exfalso. unfold step in *. destruct (diverged s); [congruence|].
    destruct a; autorewrite with fr_calls in Ec; try congruence.
    + unfold call, user_busy in *. rewrite E in *. cbn [existsb app] in *. sproj in Ec. injection Ec as <- <-.
      unfold spawn in Hst. sproj in Hst. rewrite fupd_eq in Hst. discriminate.
    + unfold call, user_busy in *. rewrite E in *. cbn [existsb app] in *. sproj in Ec. injection Ec as <- <-.
      unfold spawn in Hst. sproj in Hst. rewrite fupd_eq in Hst. discriminate.
  - destruct Hs as [Hs|Hs]; [discriminate|]. injection Hs as Hs.
    pose proof (iv_calls _ _ I) as K. unfold calls_ok in K. rewrite E in K. destruct K as (_ & _ & _ & Kd & Knd).
    assert (Hnd : ~ donep s c0') by (unfold status_of in Hs; unfold is_done; destruct (pcof s c0'); congruence).
    assert (Hcur : c0' = cur s).
    { destruct (Nat.eq_dec c0' (cur s)); [assumption|]. exfalso. apply Hnd. apply Kd; [now left|assumption]. }
    assert (Hus : us' = []).
    { destruct us' as [|u us'']; [reflexivity|]. exfalso. apply NoDup_cons_iff in Knd. destruct Knd as [X _]. apply X.
      unfold cur in Hcur. rewrite E in Hcur. rewrite Hcur. apply (last_in_tail c0' (u :: us'') 0). discriminate. }
    subst us'.
    assert (B : user_busy s = true).
    { unfold user_busy. rewrite E. cbn. unfold is_done in *. destruct (pcof s c0'); try reflexivity. now destruct Hnd. }
    rewrite (calls_busy s a B), E in Ec. now injection Ec as _ <-.
Qed.

(* ---- one step of the clause ------------------------------------------------------------------------------------------------ *)
Definition nobg (s : state) : Prop := forall r, r < nreqs s -> q_bg (reqs s r) = false.

Lemma nobg_step s a bg :
  (bg = false -> nobg s) -> diverged (step s a) = false ->
  (bg || has_bg (observe s (step s a)) = false -> nobg (step s a)).
Proof.
  intros Hb D Hf. apply orb_false_iff in Hf. destruct Hf as [-> Hh]. specialize (Hb eq_refl).
  destruct (RS_step s a) as [R1 R2]. intros r Hr.
  destruct (Nat.lt_ge_cases r (nreqs s)) as [Hlo|Hhi].
  - specialize (R2 r Hlo). unfold req_static in R2. injection R2 as _ _ _ _ _ E. rewrite E. now apply Hb.
  - unfold has_bg, observe in Hh. rewrite D in Hh. cbn [o_newreqs] in Hh.
    destruct (q_bg (reqs (step s a) r)) eqn:E; [|reflexivity]. exfalso.
    assert (X : existsb (fun q : rkind * svc * option sid * bool => snd q)
                  (map (fun r0 => req_obs (reqs (step s a) r0)) (seq (nreqs s) (nreqs (step s a) - nreqs s))) = true).
    { apply existsb_exists. exists (req_obs (reqs (step s a) r)). split; [|exact E].
      apply in_map_iff. exists r. split; [reflexivity|]. apply in_seq. lia. }
    congruence.
Qed.

Lemma interesting_reqs pend s0 s :
  Inv pend s -> diverged s = false ->
  forallb (fun q : rkind * svc * option sid * bool => svc_interesting (svcs s) (snd (fst (fst q)))) (o_newreqs (observe s0 s)) = true.
Proof.
  intros H D. unfold observe. rewrite D. cbn [o_newreqs]. apply forallb_forall. intros q Hq.
  apply in_map_iff in Hq. destruct Hq as (r & <- & Hr). apply in_seq in Hr. cbn.
  destruct (Nat.le_gt_cases (nreqs s) (nreqs s0)) as [L|L]; [lia|]. apply (iv_svc _ _ H). lia.
Qed.

Lemma aon_step_ok prev bg s a :
  Inv (ready s) s -> Good (step s a) ->
  (diverged s = false -> first_call prev = fc s) ->
  (bg = false -> diverged (step s a) = false -> nobg (step s a)) ->
  aon_step (svcs s) prev bg (observe s (step s a)) = true.
Proof.
  intros I G' Hprev Hbg. unfold aon_step. rewrite observe_div.
  destruct (diverged (step s a)) eqn:D'; [reflexivity|].
  destruct G' as [X|I']; [congruence|].
  assert (D : diverged s = false).
  { destruct (diverged s) eqn:E; [|reflexivity]. rewrite step_diverged in D' by exact E. congruence. }
  replace (svcs s) with (svcs (step s a)) by apply fr_svcs_step.
  rewrite (interesting_reqs _ s _ I' D'). cbn [andb].
  rewrite (Hprev D), (first_call_observe _ _ D').
  destruct (fc (step s a)) as [[st|]|] eqn:Efc'; try (destruct (fc s) as [[?|]|]; reflexivity).
  assert (Hpend : fc s = None \/ fc s = Some None -> match st with
            | SRet _ => bg || subscribed_all (svcs (step s a)) (observe s (step s a))
            | SExc e => is_upnp e && subscribed_none (observe s (step s a))
            | SCancelled => false end = true).
  { intros Hs. unfold fc in Efc'. destruct (calls (step s a)) as [|c0 us] eqn:Ec; [discriminate|]. injection Efc' as Hst.
    pose proof (completes_alone s a c0 us st I Hs Ec Hst) as ->.
    pose proof (iv_calls _ _ I') as K. pose proof (iv_phase _ _ I') as Ph. unfold calls_ok, phase_ok in *. rewrite Ec in *. cbv zeta in Ph.
    assert (Hcur : cur (step s a) = c0) by (unfold cur; now rewrite Ec). rewrite Hcur in Ph.
    destruct K as (K0 & _ & Klt & _). specialize (Klt c0 (or_introl eq_refl)).
    pose proof (iv_pc _ _ I' c0 Klt) as Pc. unfold pc_ok in Pc.
    destruct (kindof (step s a) c0); try discriminate. unfold status_of in Hst.
    destruct (pcof (step s a) c0) as [| | | | | | |st']; try discriminate. injection Hst as ->.
    destruct st as [v|e|]; try contradiction.
    - destruct bg; [reflexivity|]. cbn [orb]. apply subscribed_all_ok; [exact D'|].
      destruct (rtask (step s a)); [apply Ph; now apply Hbg|now destruct Ph].
    - destruct Ph as (_ & F1 & F2 & F3 & F4). rewrite Pc. cbn [andb]. unfold subscribed_none, observe. rewrite D'.
      cbn [o_routed o_subs o_out]. rewrite F1, F2. cbn. rewrite outstanding_nil; [reflexivity|].
      intros r Hr Hq. destruct (iv_req _ _ I' r Hr Hq) as [A B]. specialize (F4 _ A). unfold is_done in F4.
      destruct (pcof (step s a) (q_task (reqs (step s a) r))); try discriminate. destruct B. }
  destruct (fc s) as [[st0|]|]; try reflexivity; apply Hpend; auto.
Qed.

Lemma first_false_all n l : Forall (fun b => b = true) l -> first_false n l = None.
Proof. apply first_false_none. Qed.

Lemma aon_from sched : forall s prev bg,
  Good s -> dom_sched (started s) sched = true ->
  (diverged s = false -> first_call prev = fc s) -> (bg = false -> diverged s = false -> nobg s) ->
  Forall (fun b => b = true) (aon_steps (svcs s) prev bg (trace_from s sched)).
Proof.
  induction sched as [|a r IH]; intros s prev bg G D Hprev Hbg; [constructor|].
  destruct (diverged s) eqn:Dv.
  { clear IH Hprev Hbg G D. revert prev bg. generalize (a :: r). intros l. induction l as [|a' l IHl]; intros prev bg; cbn [trace_from aon_steps]; [constructor|].
    rewrite step_diverged by exact Dv. constructor; [|apply IHl].
    unfold aon_step. now rewrite observe_div, Dv. }
  assert (I : Inv (ready s) s) by (destruct G as [X|X]; [discriminate|exact X]).
  cbn [trace_from aon_steps].
  pose proof (Good_states (a :: r) s (or_intror I) D) as Gs. cbn [states_from] in Gs. inversion Gs as [|? ? G1 Gr]; subst.
  assert (Hnb : bg || has_bg (observe s (step s a)) = false -> diverged (step s a) = false -> nobg (step s a)).
  { intros Hf D'. eapply nobg_step; eauto. }
  constructor.
  - apply aon_step_ok; auto.
  - replace (svcs s) with (svcs (step s a)) by apply fr_svcs_step. apply IH; auto.
    + now apply dom_sched_step.
    + intros D'. now apply first_call_observe.
Qed.

Lemma all_or_nothing i : in_domain i = true -> clause_aon i (model_run i) = None.
Proof.
  intros D. unfold clause_aon, model_run. apply first_false_none.
  change (i_svcs i) with (svcs (init (i_svcs i))) at 1. apply aon_from.
  - right. apply Inv_init.
  - now apply in_domain_dom_sched.
  - intros _. reflexivity.
  - intros _ _ r Hr. cbn in Hr. lia.
Qed.
