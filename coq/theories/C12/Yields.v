(* C12 - the renewal loop yields: a section of the renewal task diverges only if a pass started with a deadline that
   was more than the tolerance overdue (ghost g_overdue).  No global invariant is needed. *)
From Coq Require Import List Bool Arith ZArith Lia.
From AUC Require Import Prelude.PyDict C12.Model C12.Spec C12.Frame.
Import ListNotations.

Ltac nlia := unfold sid, svc, tid, rid in *; lia.

(* what a transition may do to the two flags *)
Definition Q (s s' : state) : Prop :=
  (g_overdue s = true -> g_overdue s' = true) /\
  (diverged s' = true -> diverged s = true \/ g_overdue s' = true).

Lemma Q_refl s : Q s s.
Proof. split; auto. Qed.
Lemma Q_trans a b c : Q a b -> Q b c -> Q a c.
Proof. intros [A1 A2] [B1 B2]. split; [auto|]. intros H. destruct (B2 H) as [H'|H']; [|auto]. destruct (A2 H'); auto. Qed.
Lemma Q_same s s' : g_overdue s' = g_overdue s -> diverged s' = diverged s -> Q s s'.
Proof. intros A B. split; [rewrite A; auto | rewrite B; auto]. Qed.

Ltac qsame := apply Q_same; autorewrite with fr_g_overdue fr_diverged; sproj; reflexivity.

(* a pass that ends without awaiting has removed an entry unless every entry of its snapshot was skipped *)
Lemma pass_scan_done s t pn nf todo s' :
  pass_scan s t pn nf todo = ODone s' ->
  (length (subs s') <= length (subs s))%nat /\
  (existsb (fun p => negb (overdue pn p)) todo = true -> (length (subs s') < length (subs s))%nat).
Proof.
  revert s. induction todo as [|[x d] r IH]; intros s H; cbn [pass_scan] in H.
  - injection H as <-. cbn. split; [lia|discriminate].
  - cbn [existsb]. unfold overdue at 1. cbn [snd].
    destruct (d <? pn - TOL)%Z eqn:Hd.
    + apply IH in H. cbn. exact H.
    + destruct (dhas Nat.eqb (subs s) x) eqn:Hh; cbn [negb] in H; [|discriminate].
      destruct (dget Nat.eqb (routed (with_subs s (ddel Nat.eqb (subs s) x))) x); [discriminate|].
      apply IH in H. destruct H as [H _]. cbn [subs with_subs] in H.
      rewrite length_ddel, Hh in H. unfold dhas in Hh.
      destruct (subs s) as [|p0 l0]; [discriminate|]. cbn [length Nat.pred] in *. unfold sid in *. split; [lia | intros _; lia].
Qed.

Lemma existsb_all_overdue pn (l : list (sid * Z)) :
  l <> [] -> existsb (fun p => negb (overdue pn p)) l = false -> existsb (overdue pn) l = true.
Proof.
  destruct l as [|p l]; [congruence|]. intros _ H. cbn in *.
  apply orb_false_iff in H. destruct H as [H _]. apply negb_false_iff in H. now rewrite H.
Qed.

Lemma run_pass_flags s t :
  diverged (ost (run_pass s t)) = diverged s /\
  g_overdue (ost (run_pass s t)) = (g_overdue s || existsb (overdue (now s)) (subs s)).
Proof.
  split; [now rewrite fr_diverged_run_pass|]. unfold run_pass. now rewrite fr_g_overdue_pass_scan.
Qed.

Lemma run_pass_done s t s' :
  run_pass s t = ODone s' ->
  (length (subs s') <= length (subs s))%nat /\
  (existsb (fun p => negb (overdue (now s) p)) (subs s) = true -> (length (subs s') < length (subs s))%nat).
Proof. unfold run_pass. intros H. apply pass_scan_done in H. exact H. Qed.

Lemma Q_loop_head fuel : forall s t, (length (subs s) <= fuel)%nat -> Q s (loop_head fuel s t).
Proof.
  induction fuel as [|f IH]; intros s t Hf; cbn [loop_head].
  - destruct (subs s) eqn:E; [qsame|]. cbn in Hf. nlia.
  - destruct (subs s) eqn:E; [qsame|].
    rewrite <- E in *.
    destruct (0 <? _)%Z; [qsame|].
    destruct (run_pass_flags s t) as [Fd Fo].
    destruct (run_pass s t) as [s'|s'|s' e] eqn:R; cbn [ost] in Fd, Fo.
    + split; [rewrite Fo; intros ->; reflexivity | rewrite Fd; auto].
    + pose proof (run_pass_done _ _ _ R) as [Hle Hlt].
      destruct (length (subs s') <? length (subs s))%nat eqn:Hs.
      * apply Nat.ltb_lt in Hs.
        eapply Q_trans; [|apply IH; nlia].
        split; [rewrite Fo; intros ->; reflexivity | rewrite Fd; auto].
      * apply Nat.ltb_ge in Hs. split; cbn.
        -- rewrite Fo. intros ->. reflexivity.
        -- intros _. right. rewrite Fo.
           destruct (existsb (fun p => negb (overdue (now s) p)) (subs s)) eqn:Hex; [specialize (Hlt eq_refl); nlia|].
           rewrite existsb_all_overdue; [apply orb_true_r | rewrite E; discriminate | exact Hex].
    + split; autorewrite with fr_g_overdue fr_diverged; [rewrite Fo; intros ->; reflexivity | rewrite Fd; auto].
Qed.

Lemma Q_after_loop t o : Q (ost o) (after_pass_loop t o).
Proof.
  unfold after_pass_loop. destruct o as [s'|s'|s' e]; cbn [ost].
  - apply Q_refl.
  - apply Q_loop_head. nlia.
  - qsame.
Qed.

Lemma Q_after_sub t auto now0 o : Q (ost o) (after_pass_sub t auto now0 o).
Proof. qsame. Qed.

Lemma Q_run_pass s t : Q s (ost (run_pass s t)).
Proof.
  destruct (run_pass_flags s t) as [Fd Fo]. split; [rewrite Fo; intros ->; reflexivity | rewrite Fd; auto].
Qed.

Lemma Q_start_body s t : Q s (start_body s t).
Proof.
  unfold start_body. destruct (t_kind (tasks s t)).
  - destruct (subs s).
    + qsame.
    + eapply Q_trans; [|apply Q_after_sub]. qsame.
  - qsame.
  - apply Q_loop_head. nlia.
  - destruct (dget _ _ _); qsame.
Qed.

Lemma Q_step_task s t : Q s (step_task s t).
Proof.
  unfold step_task.
  destruct (t_pc (tasks s t)) as [|now0 todo v r|p st r|w ws|sids lt re|n re|r|st].
  - destruct (t_must _); [qsame | apply Q_start_body].
  - destruct (q_state _); try apply Q_refl; [|qsame].
    destruct (t_must _); [qsame|].
    destruct (t_kind _); try apply Q_refl. qsame.
  - destruct (q_state _); try apply Q_refl; [|qsame].
    destruct (t_must _); [qsame|].
    destruct (t_kind _).
    + eapply Q_trans; [|apply Q_after_sub]. qsame.
    + eapply Q_trans; [|apply Q_after_loop]. qsame.
    + eapply Q_trans; [|apply Q_after_loop]. qsame.
    + eapply Q_trans; [|apply Q_after_loop]. qsame.
  - destruct ws; try apply Q_refl; [|qsame].
    destruct (t_must _); [qsame|].
    eapply Q_trans; [apply Q_run_pass | apply Q_after_loop].
  - destruct (is_done _); [|apply Q_refl]. qsame.
  - destruct n; [|apply Q_refl]. qsame.
  - destruct (q_state _); try apply Q_refl; [|qsame].
    destruct (t_must _); qsame.
  - apply Q_refl.
Qed.

Lemma Q_run_handle s h : Q s (run_handle s h).
Proof.
  unfold run_handle. destruct (diverged s); [apply Q_refl|].
  destruct h as [t|t|p].
  - apply Q_step_task.
  - destruct (t_pc _) as [| | |w [| |]| | | |]; try apply Q_refl. qsame.
  - destruct (t_pc _) as [| | | | |[|n] re| |]; try apply Q_refl. destruct n; qsame.
Qed.

Lemma Q_fold hs : forall s, Q s (fold_left run_handle hs s).
Proof.
  induction hs as [|h hs IH]; intros s; cbn [fold_left]; [apply Q_refl|].
  eapply Q_trans; [apply Q_run_handle | apply IH].
Qed.

Lemma Q_step s a : Q s (step s a).
Proof.
  unfold step. destruct (diverged s); [apply Q_refl|].
  destruct a.
  - qsame.
  - qsame.
  - qsame.
  - qsame.
  - unfold iterate. eapply Q_trans; [|apply Q_fold]. qsame.
Qed.

Lemma step_diverged_id s a : diverged s = true -> step s a = s.
Proof. unfold step. now intros ->. Qed.
Lemma run_from_diverged sched : forall s, diverged s = true -> run_from s sched = s.
Proof.
  induction sched as [|a r IH]; intros s H; [reflexivity|]. unfold run_from in *. cbn [fold_left].
  rewrite step_diverged_id by exact H. now apply IH.
Qed.

Definition J (s : state) : Prop := diverged s = true -> g_overdue s = true.
Lemma J_step s a : J s -> J (step s a).
Proof.
  intros Hj H. destruct (Q_step s a) as [M D]. destruct (D H) as [H'|H']; [|exact H']. apply M, Hj, H'.
Qed.

Lemma observe_div s0 s : o_div (observe s0 s) = diverged s.
Proof. unfold observe. destruct (diverged s); reflexivity. Qed.

Lemma first_false_none n l : Forall (fun b => b = true) l -> first_false n l = None.
Proof. intros H. revert n. induction H as [|b l Hb _ IH]; intros n; cbn; [reflexivity|]. rewrite Hb. apply IH. Qed.

Lemma yields_from sched : forall s,
  J s -> g_overdue (run_from s sched) = false ->
  Forall (fun b => b = true) (map (fun x => negb (o_div x)) (trace_from s sched)).
Proof.
  induction sched as [|a r IH]; intros s Hj Hg; cbn [trace_from map]; [constructor|].
  assert (Hj' : J (step s a)) by now apply J_step.
  change (run_from s (a :: r)) with (run_from (step s a) r) in Hg.
  constructor.
  - rewrite observe_div. destruct (diverged (step s a)) eqn:Hd; [|reflexivity].
    rewrite run_from_diverged in Hg by exact Hd. rewrite (Hj' Hd) in Hg. discriminate.
  - apply IH; assumption.
Qed.

Lemma loop_yields_partial i : kf_overdue i = false -> clause_yields i (model_run i) = None.
Proof.
  unfold kf_overdue, clause_yields, model_run, run. intros H.
  apply first_false_none. apply yields_from; [|exact H]. intros D. discriminate.
Qed.
