(* C12 - three small invariants of reachable states used by the residual clean-shutdown clause (Residual.v):
     HBS     every task step queued on the event loop, and every waiter of a task, names a task that exists
     SidInv  the renewal SUBSCRIBE the renewal task is waiting for carries the SID of its pass frame
     NG      while no unsubscribe call has started executing the ghost flag g_inflight is down *)
From Coq Require Import List Bool Arith ZArith Lia.
From AUC Require Import Prelude.PyDict C12.Model C12.Spec C12.Frame C12.InvDef C12.InvStep C12.InvStep2 C12.InvStep3
  C12.Reach C12.StepFrame C12.ReqStatic C12.Yields C12.Clean C12.Wake.
Import ListNotations.

(* ---- waiters ----------------------------------------------------------------------------------------------------------------- *)
Definition wts (s : state) (t : tid) : list handle := t_waiters (tasks s t).

(* nothing is queued, no task is created, every task keeps its waiters *)
Definition WS (s s' : state) : Prop :=
  ready s' = ready s /\ ntasks s' = ntasks s /\ forall t, wts s' t = wts s t.
Lemma WS_refl s : WS s s. Proof. repeat split. Qed.
Lemma WS_trans a b c : WS a b -> WS b c -> WS a c.
Proof. intros (A1 & A2 & A3) (B1 & B2 & B3). split; [congruence|]. split; [congruence|]. intros t. now rewrite B3. Qed.
Lemma WS_same s s' : ready s' = ready s -> ntasks s' = ntasks s -> tasks s' = tasks s -> WS s s'.
Proof. intros A B C. repeat split; auto. intros t. unfold wts. now rewrite C. Qed.
Lemma WS_set_pc s t p : WS s (set_pc s t p).
Proof.
  repeat split. intros t'. unfold wts. sproj. unfold fupd. destruct (Nat.eqb_spec t t') as [->|]; reflexivity.
Qed.
Lemma WS_issue s t kd v x : WS s (issue s t kd v x).
Proof. apply WS_same; reflexivity. Qed.

Lemma WS_pass_scan t pn nf todo : forall s, WS s (ost (pass_scan s t pn nf todo)).
Proof.
  induction todo as [|[x d] r IH]; intros s; cbn [pass_scan]; [apply WS_refl|].
  destruct (d <? pn - TOL)%Z; [apply IH|]. destruct (negb _); [apply WS_refl|]. cbv zeta.
  destruct (dget _ _ _).
  - cbn [ost]. eapply WS_trans; [|apply WS_set_pc]. apply WS_same; reflexivity.
  - eapply WS_trans; [|apply IH]. apply WS_same; reflexivity.
Qed.
Lemma WS_pass_error s t p e : WS s (ost (pass_error s t p e)).
Proof.
  unfold pass_error. destruct (is_upnp e); [|apply WS_refl].
  destruct (p_notify p).
  - eapply WS_trans; [|apply WS_pass_scan]. destruct (is_conn e); apply WS_same; reflexivity.
  - destruct (is_conn e); apply WS_same; reflexivity.
Qed.
Lemma WS_pass_grant s t p x g : WS s (ost (pass_grant s t p x g)).
Proof. unfold pass_grant. eapply WS_trans; [|apply WS_pass_scan]. apply WS_same; reflexivity. Qed.
Lemma WS_pass_resume s t p st rho hdr : WS s (ost (pass_resume s t p st rho hdr)).
Proof.
  unfold pass_resume. cbv zeta.
  assert (G : forall s1 y g, ready s1 = ready s -> ntasks s1 = ntasks s -> tasks s1 = tasks s -> WS s (ost (pass_grant s1 t p y g))).
  { intros s1 y g A B C. eapply WS_trans; [|apply WS_pass_grant]. now apply WS_same. }
  assert (E : forall s1 e, ready s1 = ready s -> ntasks s1 = ntasks s -> tasks s1 = tasks s -> WS s (ost (pass_error s1 t p e))).
  { intros s1 e A B C. eapply WS_trans; [|apply WS_pass_error]. now apply WS_same. }
  destruct st.
  - destruct rho as [m g| | |].
    + destruct (match hdr with Some y => if Nat.eqb y (p_sid p) then None else Some y | None => None end).
      * destruct (dhas _ _ _); [apply G; reflexivity|apply WS_refl].
      * apply G; reflexivity.
    + destruct (dhas _ _ _); [|apply WS_refl]. cbv zeta. cbn [ost]. eapply WS_trans; [|apply WS_set_pc]. apply WS_same; reflexivity.
    + destruct (dhas _ _ _); [apply E; reflexivity|apply WS_refl].
    + destruct (dhas _ _ _); [|apply WS_refl]. cbv zeta. cbn [ost]. eapply WS_trans; [|apply WS_set_pc]. apply WS_same; reflexivity.
  - destruct rho as [m g| | |]; try (apply E; reflexivity).
    destruct hdr; [apply G; reflexivity|apply E; reflexivity].
Qed.
Lemma WS_run_pass s t : WS s (ost (run_pass s t)).
Proof. unfold run_pass. cbv zeta. eapply WS_trans; [|apply WS_pass_scan]. apply WS_same; reflexivity. Qed.

(* ---- every queued step and every waiter names an existing task ------------------------------------------------------------------ *)
Definition HBS (s : state) : Prop :=
  (forall t, In (HStep t) (ready s) -> t < ntasks s) /\
  (forall t u, In (HStep u) (wts s t) -> u < ntasks s).

Lemma HBS_WS s s' : WS s s' -> HBS s -> HBS s'.
Proof. intros (A & B & C) [H1 H2]. split; [intros t; rewrite A, B; apply H1|intros t u; rewrite C, B; apply H2]. Qed.

Lemma HBS_enqueue s h : (forall t, h = HStep t -> t < ntasks s) -> HBS s -> HBS (enqueue s h).
Proof.
  intros Hh [H1 H2]. split; [|exact H2]. intros t Ht. sproj in Ht. apply in_app_or in Ht. destruct Ht as [Ht|[Ht|[]]]; auto.
Qed.
Lemma HBS_fold_enqueue l : forall s, (forall t, In (HStep t) l -> t < ntasks s) -> HBS s -> HBS (fold_left enqueue l s).
Proof.
  induction l as [|h l IH]; intros s Hl H; cbn [fold_left]; [exact H|]. apply IH.
  - intros t Ht. sproj. apply Hl. now right.
  - apply HBS_enqueue; [|exact H]. intros t ->. apply Hl. now left.
Qed.

Lemma HBS_finish s t st : HBS s -> HBS (finish s t st).
Proof.
  intros [H1 H2]. unfold finish.
  set (s1 := with_tasks s (fupd (tasks s) t (mkTask (t_kind (tasks s t)) (PDone st) false [])) (ntasks s)).
  assert (B1 : HBS s1).
  { split; [exact H1|]. intros t' u Hu. unfold wts in Hu. subst s1. sproj in Hu. sproj. unfold fupd in Hu.
    destruct (Nat.eqb_spec t t') as [->|]; [destruct Hu|]. eapply H2. exact Hu. }
  assert (B2 : HBS (fold_left enqueue (t_waiters (tasks s t)) s1)).
  { apply HBS_fold_enqueue; [|exact B1]. intros u Hu. subst s1. sproj. eapply H2. exact Hu. }
  destruct (t_kind (tasks s t)); try exact B2. apply HBS_enqueue; [discriminate|exact B2].
Qed.

Lemma HBS_spawn s kd : HBS s -> HBS (spawn s kd).
Proof.
  intros [H1 H2]. unfold spawn. split.
  - intros t Ht. sproj in Ht. sproj. apply in_app_or in Ht. destruct Ht as [Ht|[Ht|[]]]; [specialize (H1 t Ht); lia|]. injection Ht as <-. lia.
  - intros t u Hu. unfold wts in Hu. sproj in Hu. sproj. unfold fupd in Hu.
    destruct (Nat.eqb_spec (ntasks s) t) as [->|]; [destruct Hu|]. specialize (H2 t u Hu). lia.
Qed.
Lemma HBS_spawn_kids c sids : forall s, HBS s -> HBS (fold_left (fun s x => spawn s (KOne c x)) sids s).
Proof. induction sids as [|x l IH]; intros s H; cbn [fold_left]; [exact H|]. apply IH. now apply HBS_spawn. Qed.

Lemma HBS_unsub_return s t re : HBS s -> HBS (unsub_return s t re).
Proof. unfold unsub_return. destruct re; apply HBS_finish. Qed.
Lemma HBS_unsub_gather s t sids re : HBS s -> HBS (unsub_gather s t sids re).
Proof.
  intros H. unfold unsub_gather. destruct sids as [|x l]; [now apply HBS_unsub_return|].
  eapply HBS_WS; [apply WS_set_pc|]. now apply HBS_spawn_kids.
Qed.

Lemma WS_set_must s t : WS s (set_must s t).
Proof. repeat split. intros t'. unfold wts, set_must. sproj. unfold fupd. destruct (Nat.eqb_spec t t') as [->|]; reflexivity. Qed.
Lemma HBS_cancel s lt : lt < ntasks s -> HBS s -> HBS (cancel s lt).
Proof.
  intros Hlt H. unfold cancel.
  assert (A : forall r, HBS (enqueue (set_rstate s r QCancelled) (HStep lt))).
  { intros r. apply HBS_enqueue; [intros t E; injection E as <-; exact Hlt|]. eapply HBS_WS; [|exact H]. apply WS_same; reflexivity. }
  assert (B : HBS (set_must s lt)) by (eapply HBS_WS; [apply WS_set_must|exact H]).
  destruct (t_pc (tasks s lt)) as [| ? ? ? r|? ? r|w []| | |r|]; try exact B; try exact H;
    try (destruct (q_state (reqs s r)); [apply A|exact B|exact B]).
  apply HBS_enqueue; [intros t E; injection E as <-; sproj; exact Hlt|]. eapply HBS_WS; [apply WS_set_pc|exact H].
Qed.

Lemma HBS_await_task s t sids lt re : t < ntasks s -> HBS s -> HBS (await_task s t sids lt re).
Proof.
  intros Ht H. unfold await_task.
  assert (G : HBS (unsub_gather (with_rtask s None) t sids re)).
  { apply HBS_unsub_gather. eapply HBS_WS; [|exact H]. apply WS_same; reflexivity. }
  assert (W : HBS (set_pc (add_waiter s lt (HStep t)) t (PUnsubTask sids lt re))).
  { eapply HBS_WS; [apply WS_set_pc|]. destruct H as [H1 H2]. split; [exact H1|].
    intros t' u Hu. unfold wts, add_waiter in Hu. sproj in Hu. sproj. unfold fupd in Hu.
    destruct (Nat.eqb_spec lt t') as [->|]; [|eapply H2; exact Hu]. cbn [t_waiters] in Hu. apply in_app_or in Hu.
    destruct Hu as [Hu|[Hu|[]]]; [eapply H2; exact Hu|]. injection Hu as <-. exact Ht. }
  destruct (t_pc (tasks s lt)) as [| | | | | | |[?|e|]]; try exact W; try exact G. now apply HBS_finish.
Qed.

Definition RB (s : state) : Prop := forall lt, rtask s = Some lt -> lt < ntasks s.

Lemma HBS_unsub_services s t re : t < ntasks s -> RB s -> HBS s -> HBS (unsub_services s t re).
Proof.
  intros Ht Hrb H. unfold unsub_services.
  set (s1 := forget_cancelled (with_subs s [])).
  assert (W1 : WS s s1).
  { subst s1. unfold forget_cancelled. sproj. destruct (rtask s); [|apply WS_same; reflexivity].
    destruct (is_cancelled _); apply WS_same; reflexivity. }
  assert (H1 : HBS s1) by (eapply HBS_WS; eauto).
  destruct (rtask s1) as [lt|] eqn:Er; [|now apply HBS_unsub_gather].
  assert (Hlt : lt < ntasks s).
  { apply Hrb. subst s1. unfold forget_cancelled in Er. sproj in Er. destruct (rtask s) as [l0|] eqn:E0; [|sproj in Er; congruence].
    destruct (is_cancelled _); sproj in Er; congruence. }
  destruct W1 as (_ & Wn & _).
  apply HBS_await_task; [rewrite fr_ntasks_cancel, fr_ntasks_mark_inflight; lia|].
  apply HBS_cancel; [rewrite fr_ntasks_mark_inflight; lia|]. eapply HBS_WS; [|exact H1]. apply WS_same; reflexivity.
Qed.

Lemma HBS_sub_post s t auto now0 : HBS s -> HBS (sub_post s t auto now0).
Proof.
  intros H. unfold sub_post. destruct (subs s); [now apply HBS_finish|]. destruct auto; [|now apply HBS_finish].
  apply HBS_finish.
  assert (F : HBS (forget_cancelled s)).
  { eapply HBS_WS; [|exact H]. unfold forget_cancelled. destruct (rtask s); [|apply WS_refl]. destruct (is_cancelled _); [apply WS_same; reflexivity|apply WS_refl]. }
  destruct (rtask (forget_cancelled s)); [exact F|].
  eapply HBS_WS; [|apply HBS_spawn; exact F]. apply WS_same; reflexivity.
Qed.

Lemma HBS_loop_head fuel : forall s t, HBS s -> HBS (loop_head fuel s t).
Proof.
  induction fuel as [|f IH]; intros s t H; cbn [loop_head].
  - destruct (subs s); [now apply HBS_finish|]. destruct (0 <? _)%Z; [eapply HBS_WS; [apply WS_set_pc|exact H]|].
    pose proof (WS_run_pass s t) as R. destruct (run_pass s t) as [s'|s'|s' e]; cbn [ost] in R.
    + eapply HBS_WS; eauto.
    + assert (X : HBS (set_diverged s')) by (eapply HBS_WS; [|eapply HBS_WS; [exact R|exact H]]; apply WS_same; reflexivity).
      destruct (_ <? _)%nat; exact X.
    + apply HBS_finish. eapply HBS_WS; eauto.
  - destruct (subs s); [now apply HBS_finish|]. destruct (0 <? _)%Z; [eapply HBS_WS; [apply WS_set_pc|exact H]|].
    pose proof (WS_run_pass s t) as R. destruct (run_pass s t) as [s'|s'|s' e]; cbn [ost] in R.
    + eapply HBS_WS; eauto.
    + assert (X : HBS (set_diverged s')) by (eapply HBS_WS; [|eapply HBS_WS; [exact R|exact H]]; apply WS_same; reflexivity).
      destruct (_ <? _)%nat; [|exact X]. apply IH. eapply HBS_WS; eauto.
    + apply HBS_finish. eapply HBS_WS; eauto.
Qed.
Lemma HBS_after_loop t o : HBS (ost o) -> HBS (after_pass_loop t o).
Proof. unfold after_pass_loop. destruct o; cbn [ost]; intros H; [exact H|now apply HBS_loop_head|now apply HBS_finish]. Qed.
Lemma HBS_after_sub t auto now0 o : t < ntasks (ost o) -> RB (ost o) -> HBS (ost o) -> HBS (after_pass_sub t auto now0 o).
Proof.
  unfold after_pass_sub. destruct o as [s'|s'|s' e]; cbn [ost]; intros Ht Hrb H; [exact H|now apply HBS_sub_post|].
  destruct (is_upnp e); [now apply HBS_unsub_services|now apply HBS_finish].
Qed.
Lemma HBS_sub_next s t auto now0 todo : HBS s -> HBS (sub_next s t auto now0 todo).
Proof.
  intros H. unfold sub_next. destruct todo; [now apply HBS_sub_post|].
  eapply HBS_WS; [|exact H]. eapply WS_trans; [apply WS_issue|apply WS_set_pc].
Qed.
Lemma HBS_sub_resume s t auto now0 todo v rho hdr : t < ntasks s -> RB s -> HBS s -> HBS (sub_resume s t auto now0 todo v rho hdr).
Proof.
  intros Ht Hrb H. unfold sub_resume. cbv zeta. destruct rho as [m g| | |]; try now apply HBS_unsub_services.
  destruct hdr; [|now apply HBS_unsub_services]. apply HBS_sub_next. eapply HBS_WS; [|exact H]. apply WS_same; reflexivity.
Qed.

Lemma RB_WS s s' : rtask s' = rtask s -> ntasks s' = ntasks s -> RB s -> RB s'.
Proof. intros A B H lt. rewrite A, B. apply H. Qed.

Lemma HBS_start_body s t : t < ntasks s -> RB s -> HBS s -> HBS (start_body s t).
Proof.
  intros Ht Hrb H. unfold start_body. destruct (t_kind (tasks s t)).
  - destruct (subs s); [now apply HBS_sub_next|].
    pose proof (WS_pass_scan t (now s) false (p :: l) s) as W. apply HBS_after_sub.
    + destruct W as (_ & W & _). lia.
    + eapply RB_WS; [| |exact Hrb]; [now autorewrite with fr_rtask|now autorewrite with fr_ntasks].
    + eapply HBS_WS; eauto.
  - now apply HBS_unsub_services.
  - now apply HBS_loop_head.
  - destruct (dget _ _ _); [|now apply HBS_finish]. cbv zeta. eapply HBS_WS; [|exact H].
    eapply WS_trans; [|apply WS_set_pc]. apply WS_same; reflexivity.
Qed.

Lemma HBS_step_task s t : t < ntasks s -> RB s -> HBS s -> HBS (step_task s t).
Proof.
  intros Ht Hrb H. unfold step_task. unfold throw_cancel.
  destruct (t_pc (tasks s t)) as [|now0 todo v r|p st r|w ws|sids lt re|n re|r|st]; try exact H.
  - destruct (t_must _); [now apply HBS_finish|now apply HBS_start_body].
  - destruct (q_state _); try exact H; [|now apply HBS_finish]. destruct (t_must _); [now apply HBS_finish|].
    destruct (t_kind _); try exact H. now apply HBS_sub_resume.
  - destruct (q_state _) as [|rho hdr|]; try exact H; [|now apply HBS_finish]. destruct (t_must _); [now apply HBS_finish|].
    pose proof (WS_pass_resume s t p st rho hdr) as W.
    assert (H' : HBS (ost (pass_resume s t p st rho hdr))) by (eapply HBS_WS; eauto).
    destruct (t_kind _); try (now apply HBS_after_loop).
    apply HBS_after_sub; [destruct W as (_ & W & _); lia| |exact H'].
    eapply RB_WS; [| |exact Hrb]; [now autorewrite with fr_rtask|now autorewrite with fr_ntasks].
  - destruct ws; try exact H; [|now apply HBS_finish]. destruct (t_must _); [now apply HBS_finish|].
    apply HBS_after_loop. eapply HBS_WS; [apply WS_run_pass|exact H].
  - destruct (is_done _); [now apply HBS_await_task|exact H].
  - destruct n; [now apply HBS_unsub_return|exact H].
  - destruct (q_state _); try exact H; [|now apply HBS_finish]. destruct (t_must _); now apply HBS_finish.
Qed.

Lemma RB_Inv pend s : Inv pend s -> RB s.
Proof. intros H lt Hrt. now destruct (iv_rtask _ _ H lt Hrt). Qed.

Lemma live_lt pend s t : Inv pend s -> is_done (tasks s t) = false -> t < ntasks s.
Proof.
  intros H Hd. destruct (Nat.lt_ge_cases t (ntasks s)) as [L|L]; [exact L|].
  rewrite (iv_beyond _ _ H t L) in Hd. discriminate.
Qed.

Lemma HBS_run_handle pend s h : Inv pend s -> HBS s -> HBS (run_handle s h).
Proof.
  intros I H. unfold run_handle. destruct (diverged s); [exact H|]. destruct h as [t|t|p].
  - destruct (Nat.lt_ge_cases t (ntasks s)) as [Ht|Ht].
    + apply HBS_step_task; [exact Ht|eapply RB_Inv; eauto|exact H].
    + unfold step_task. now rewrite (beyond_noop _ _ _ I Ht).
  - destruct (t_pc (tasks s t)) as [| | |w [| |]| | | |] eqn:E; try exact H.
    apply HBS_enqueue; [|eapply HBS_WS; [apply WS_set_pc|exact H]].
    intros t' X. injection X as <-. sproj. eapply live_lt; [exact I|]. unfold is_done. now rewrite E.
  - destruct (t_pc (tasks s p)) as [| | | | |[|n] re| |] eqn:E; try exact H.
    assert (X : HBS (set_pc s p (PUnsubGather n re))) by (eapply HBS_WS; [apply WS_set_pc|exact H]).
    destruct n; [|exact X]. apply HBS_enqueue; [|exact X]. intros t' Y. injection Y as <-. sproj.
    eapply live_lt; [exact I|]. unfold is_done. now rewrite E.
Qed.

(* ---- what a step of another task does to the program counter of a given task lt ---------------------------------------------- *)
Definition pc_keep (p p' : pc) : Prop := p' = p \/ exists w, p = PSleep w WPending /\ p' = PSleep w WCancelled.
Definition PCF (lt : tid) (s s' : state) : Prop :=
  ntasks s <= ntasks s' /\ (forall l, rtask s' = Some l -> rtask s = Some l) /\
  (lt < ntasks s -> pc_keep (pcof s lt) (pcof s' lt)).

Lemma pc_keep_refl p : pc_keep p p. Proof. now left. Qed.
Lemma pc_keep_trans a b c : pc_keep a b -> pc_keep b c -> pc_keep a c.
Proof.
  intros [->|(w & -> & ->)] [->|(w' & E & ->)]; try (now left); try (right; eauto; fail).
Qed.
Lemma PCF_refl lt s : PCF lt s s. Proof. repeat split; auto. intros _. apply pc_keep_refl. Qed.
Lemma PCF_trans lt a b c : PCF lt a b -> PCF lt b c -> PCF lt a c.
Proof.
  intros (A1 & A2 & A3) (B1 & B2 & B3). split; [lia|]. split; [auto|]. intros L. eapply pc_keep_trans; [apply A3; exact L|apply B3; lia].
Qed.
Lemma PCF_same lt s s' : tasks s' = tasks s -> ntasks s' = ntasks s -> rtask s' = rtask s -> PCF lt s s'.
Proof. intros A B C. split; [lia|]. split; [intros l; now rewrite C|]. intros _. rewrite A. apply pc_keep_refl. Qed.
Lemma PCF_rtask_none lt s : PCF lt s (with_rtask s None).
Proof. split; [sproj; lia|]. split; [sproj; discriminate|]. intros _. apply pc_keep_refl. Qed.
Lemma PCF_set_pc lt s t p : t <> lt -> PCF lt s (set_pc s t p).
Proof. intros Hne. split; [sproj; lia|]. split; [sproj; auto|]. intros _. sproj. rewrite fupd_neq by exact Hne. apply pc_keep_refl. Qed.
Lemma PCF_finish lt s t st : t <> lt -> PCF lt s (finish s t st).
Proof.
  intros Hne. split; [rewrite fr_ntasks_finish; lia|]. split; [intros l; now rewrite fr_rtask_finish|].
  intros _. destruct (tasks_finish s t st) as [A _]. rewrite A, fupd_neq by exact Hne. apply pc_keep_refl.
Qed.
Lemma PCF_spawn lt s kd : PCF lt s (spawn s kd).
Proof. unfold spawn. split; [sproj; lia|]. split; [sproj; auto|]. intros L. sproj. rewrite fupd_neq by lia. apply pc_keep_refl. Qed.
Lemma PCF_spawn_kids lt c sids : forall s, PCF lt s (fold_left (fun s x => spawn s (KOne c x)) sids s).
Proof. induction sids as [|x l IH]; intros s; cbn [fold_left]; [apply PCF_refl|]. eapply PCF_trans; [apply PCF_spawn|apply IH]. Qed.
Lemma PCF_unsub_return lt s t re : t <> lt -> PCF lt s (unsub_return s t re).
Proof. intros Hne. unfold unsub_return. destruct re; now apply PCF_finish. Qed.
Lemma PCF_unsub_gather lt s t sids re : t <> lt -> PCF lt s (unsub_gather s t sids re).
Proof.
  intros Hne. unfold unsub_gather. destruct sids; [now apply PCF_unsub_return|].
  eapply PCF_trans; [apply PCF_spawn_kids|now apply PCF_set_pc].
Qed.
Lemma PCF_cancel lt s x : PCF lt s (cancel s x).
Proof.
  split; [rewrite fr_ntasks_cancel; lia|]. split; [intros l; now rewrite fr_rtask_cancel|]. intros _.
  unfold cancel. destruct (Nat.eq_dec x lt) as [->|Hne].
  - destruct (pcof s lt) as [| ? ? ? r|? ? r|w []| | |r|] eqn:E; try (left; sproj; rewrite ?fupd_eq; cbn; now rewrite ?E);
      try (destruct (q_state (reqs s r)); left; sproj; rewrite ?fupd_eq; cbn; now rewrite ?E).
    right. exists w. split; [reflexivity|]. sproj. now rewrite fupd_eq.
  - left. destruct (pcof s x) as [| ? ? ? r|? ? r|w []| | |r|]; try reflexivity; unfold set_must; sproj; rewrite ?fupd_neq by exact Hne; try reflexivity;
      (destruct (q_state (reqs s r)); sproj; rewrite ?fupd_neq by exact Hne; reflexivity).
Qed.
Lemma PCF_add_waiter lt s l h : PCF lt s (add_waiter s l h).
Proof.
  unfold add_waiter. split; [sproj; lia|]. split; [sproj; auto|]. intros _. left. sproj. unfold fupd.
  destruct (Nat.eqb_spec l lt) as [->|]; reflexivity.
Qed.
Lemma PCF_await_task lt s t sids l re : t <> lt -> PCF lt s (await_task s t sids l re).
Proof.
  intros Hne. unfold await_task.
  assert (G : PCF lt s (unsub_gather (with_rtask s None) t sids re)) by (eapply PCF_trans; [apply PCF_rtask_none|now apply PCF_unsub_gather]).
  assert (W : PCF lt s (set_pc (add_waiter s l (HStep t)) t (PUnsubTask sids l re))) by (eapply PCF_trans; [apply PCF_add_waiter|now apply PCF_set_pc]).
  destruct (t_pc (tasks s l)) as [| | | | | | |[?|e|]]; try exact W; try exact G. now apply PCF_finish.
Qed.
Lemma PCF_unsub_services lt s t re : t <> lt -> PCF lt s (unsub_services s t re).
Proof.
  intros Hne. unfold unsub_services.
  assert (F : PCF lt s (forget_cancelled (with_subs s []))).
  { unfold forget_cancelled. sproj. destruct (rtask s); [|apply PCF_same; reflexivity].
    destruct (is_cancelled _); [|apply PCF_same; reflexivity].
    eapply PCF_trans with (b := with_subs s []); [apply PCF_same; reflexivity|apply PCF_rtask_none]. }
  destruct (rtask _) as [l|].
  - eapply PCF_trans; [exact F|]. eapply PCF_trans with (b := mark_inflight (forget_cancelled (with_subs s [])) l); [apply PCF_same; reflexivity|].
    eapply PCF_trans; [apply PCF_cancel|now apply PCF_await_task].
  - eapply PCF_trans; [exact F|now apply PCF_unsub_gather].
Qed.

(* steps of the children of a gather and of an unsubscribe call *)
Lemma PCF_step_kid pend lt s t p x :
  Inv pend s -> t < ntasks s -> kindof s t = KOne p x -> t <> lt -> PCF lt s (step_task s t).
Proof.
  intros H Ht Hk Hne. pose proof (iv_pc _ _ H t Ht) as Hpcok. unfold pc_ok in Hpcok. rewrite Hk in Hpcok.
  unfold step_task, throw_cancel. destruct (pcof s t) as [| | | | | |r|st] eqn:Epc; try contradiction; try apply PCF_refl.
  - destruct (t_must _); [now apply PCF_finish|]. unfold start_body. rewrite Hk.
    destruct (dget _ _ _); [|now apply PCF_finish]. cbv zeta. eapply PCF_trans; [|now apply PCF_set_pc]. apply PCF_same; reflexivity.
  - destruct (q_state _); [apply PCF_refl| |now apply PCF_finish]. destruct (t_must _); now apply PCF_finish.
Qed.
Lemma PCF_step_unsub pend lt s t :
  Inv pend s -> t < ntasks s -> kindof s t = KUnsub -> t <> lt -> PCF lt s (step_task s t).
Proof.
  intros H Ht Hk Hne. pose proof (iv_pc _ _ H t Ht) as Hpcok. unfold pc_ok in Hpcok. rewrite Hk in Hpcok.
  unfold step_task, throw_cancel. destruct (pcof s t) as [| | | |sids l re|n re| |st] eqn:Epc; try contradiction; try apply PCF_refl.
  - destruct (t_must _); [now apply PCF_finish|]. unfold start_body. rewrite Hk. now apply PCF_unsub_services.
  - destruct (is_done _); [now apply PCF_await_task|apply PCF_refl].
  - destruct n; [now apply PCF_unsub_return|apply PCF_refl].
Qed.

(* ---- the renewal request the renewal task waits for names the SID of its pass frame ------------------------------------------------ *)
Definition SidT (t : tid) (s : state) : Prop :=
  forall p r, pcof s t = PPass p StRenew r -> q_sid (reqs s r) = Some (p_sid p).
Definition SidInv (s : state) : Prop := forall lt, rtask s = Some lt -> SidT lt s.
Definition out_sid (t : tid) (o : outcome) : Prop := match o with OSusp s' => SidT t s' | _ => True end.

Lemma SidT_done s t st : pcof s t = PDone st -> SidT t s.
Proof. intros E p r X. congruence. Qed.

Lemma pass_scan_sid t pn nf todo : forall s, out_sid t (pass_scan s t pn nf todo).
Proof.
  induction todo as [|[x d] r IH]; intros s; cbn [pass_scan]; [exact I|].
  destruct (d <? pn - TOL)%Z; [apply IH|]. destruct (negb _); [exact I|]. cbv zeta.
  destruct (dget _ _ _) as [v|]; [|apply IH].
  cbn [out_sid]. intros p r0 E. unfold issue in *. sproj in E. rewrite fupd_eq in E. cbn [t_pc] in E. injection E as <- <-.
  sproj. rewrite fupd_eq. reflexivity.
Qed.
Lemma pass_error_sid s t p e : out_sid t (pass_error s t p e).
Proof. unfold pass_error. destruct (is_upnp e); [|exact I]. destruct (p_notify p); [apply pass_scan_sid|exact I]. Qed.
Lemma pass_grant_sid s t p x g : out_sid t (pass_grant s t p x g).
Proof. unfold pass_grant. apply pass_scan_sid. Qed.
Lemma pass_resume_sid s t p st rho hdr : out_sid t (pass_resume s t p st rho hdr).
Proof.
  unfold pass_resume. cbv zeta.
  assert (F : forall s1 r0, out_sid t (OSusp (set_pc s1 t (PPass p StFallback r0)))).
  { intros s1 r0 p' r' E. sproj in E. rewrite fupd_eq in E. cbn [t_pc] in E. discriminate. }
  destruct st.
  - destruct rho as [m g| | |].
    + destruct (match hdr with Some y => if Nat.eqb y (p_sid p) then None else Some y | None => None end).
      * destruct (dhas _ _ _); [apply pass_grant_sid|exact I].
      * apply pass_grant_sid.
    + destruct (dhas _ _ _); [|exact I]. cbv zeta. apply F.
    + destruct (dhas _ _ _); [apply pass_error_sid|exact I].
    + destruct (dhas _ _ _); [|exact I]. cbv zeta. apply F.
  - destruct rho as [m g| | |]; try apply pass_error_sid. destruct hdr; [apply pass_grant_sid|apply pass_error_sid].
Qed.
Lemma run_pass_sid s t : out_sid t (run_pass s t).
Proof. unfold run_pass. cbv zeta. apply pass_scan_sid. Qed.

Lemma loop_head_sid fuel : forall s t, diverged (loop_head fuel s t) = true \/ SidT t (loop_head fuel s t).
Proof.
  assert (Fin : forall s t st, SidT t (finish s t st)) by (intros s t st; eapply SidT_done; apply pc_finish).
  assert (Sl : forall s t w, SidT t (set_pc s t (PSleep w WPending))).
  { intros s t w p r E. sproj in E. rewrite fupd_eq in E. discriminate. }
  induction fuel as [|f IH]; intros s t; cbn [loop_head].
  - destruct (subs s); [right; apply Fin|]. destruct (0 <? _)%Z; [right; apply Sl|].
    pose proof (run_pass_sid s t) as R. destruct (run_pass s t) as [s'|s'|s' e]; cbn [out_sid] in R.
    + now right.
    + left. destruct (_ <? _)%nat; reflexivity.
    + right. apply Fin.
  - destruct (subs s); [right; apply Fin|]. destruct (0 <? _)%Z; [right; apply Sl|].
    pose proof (run_pass_sid s t) as R. destruct (run_pass s t) as [s'|s'|s' e]; cbn [out_sid] in R.
    + now right.
    + destruct (_ <? _)%nat; [apply IH|now left].
    + right. apply Fin.
Qed.
Lemma after_loop_sid t o : out_sid t o -> diverged (after_pass_loop t o) = true \/ SidT t (after_pass_loop t o).
Proof.
  unfold after_pass_loop. destruct o as [s'|s'|s' e]; cbn [out_sid]; intros R; [now right|apply loop_head_sid|].
  right. eapply SidT_done. apply pc_finish.
Qed.

Lemma SidT_step_loop pend s t :
  Inv pend s -> t < ntasks s -> kindof s t = KLoop -> SidT t s ->
  diverged (step_task s t) = true \/ SidT t (step_task s t).
Proof.
  intros H Ht Hk S. pose proof (iv_pc _ _ H t Ht) as Hpcok. unfold pc_ok in Hpcok. rewrite Hk in Hpcok.
  assert (Thr : SidT t (throw_cancel s t)) by (eapply SidT_done; apply pc_finish).
  unfold step_task. destruct (pcof s t) as [| |p st r|w ws| | | |st] eqn:Epc; try contradiction; try (now right).
  - destruct (t_must _); [now right|]. unfold start_body. rewrite Hk. apply loop_head_sid.
  - destruct (q_state _) as [|rho hdr|]; [now right| |now right]. destruct (t_must _); [now right|]. rewrite Hk.
    apply after_loop_sid. apply pass_resume_sid.
  - destruct ws; [now right| |now right]. destruct (t_must _); [now right|]. apply after_loop_sid. apply run_pass_sid.
Qed.

Lemma SidT_keep s s' lt :
  pc_keep (pcof s lt) (pcof s' lt) -> RS s s' -> (forall r, awaits (pcof s lt) r -> r < nreqs s) -> SidT lt s -> SidT lt s'.
Proof.
  intros K [R1 R2] Hb S p r E. destruct K as [K|(w & K1 & K2)]; [|congruence]. rewrite K in E.
  assert (Hr : r < nreqs s) by (apply Hb; now rewrite E).
  specialize (R2 r Hr). unfold req_static in R2. specialize (S p r E). congruence.
Qed.

Lemma done_noop s t : is_done (tasks s t) = true -> step_task s t = s.
Proof. unfold is_done, step_task. now destruct (pcof s t). Qed.

Lemma SidInv_run_handle rest s h :
  Inv (h :: rest ++ ready s) s -> SidInv s -> diverged s = false ->
  diverged (run_handle s h) = true \/ SidInv (run_handle s h).
Proof.
  intros H S Dv. pose proof (RS_run_handle s h) as R. unfold run_handle in *. rewrite Dv in *. destruct h as [t|t|p].
  - destruct (Nat.lt_ge_cases t (ntasks s)) as [Ht|Ht].
    2:{ right. unfold step_task. now rewrite (beyond_noop _ _ _ H Ht). }
    destruct (is_done (tasks s t)) eqn:Ed; [right; now rewrite done_noop|].
    assert (Hnd : ~ donep s t) by congruence.
    assert (Other : forall lt, PCF lt s (step_task s t) -> t <> lt -> rtask (step_task s t) = Some lt -> SidT lt (step_task s t)).
    { intros lt (_ & P2 & P3) Hne Hrt. specialize (P2 lt Hrt). destruct (iv_rtask _ _ H lt P2) as [Hlt _].
      eapply SidT_keep; [apply P3; exact Hlt|exact R| |now apply S]. intros r A. now apply (iv_reqb _ _ H lt Hlt). }
    destruct (kindof s t) as [a| | |p x] eqn:Hk.
    + right. destruct (sub_step_rtask rest s t a H Ht Hk Hnd) as [E|(lt' & E & A & _)]; intros lt Hrt; [congruence|].
      assert (lt = lt') by congruence. subst lt'. intros p r X. congruence.
    + right. intros lt Hrt. assert (Hne : t <> lt).
      { intros ->. pose proof (PCF_step_unsub _ (ntasks s) s lt H Ht Hk ltac:(lia)) as (_ & P2 & _). specialize (P2 lt Hrt).
        destruct (iv_rtask _ _ H lt P2). congruence. }
      apply Other; auto. eapply PCF_step_unsub; eauto.
    + pose proof (loop_is_rtask _ _ _ H Ht Hk Hnd) as Hrt. pose proof (loop_step_rtask _ _ _ H Ht Hk) as Hrt'.
      destruct (SidT_step_loop _ s t H Ht Hk (S t Hrt)) as [D|T]; [now left|right].
      intros lt X. assert (lt = t) by congruence. now subst lt.
    + right. intros lt Hrt. assert (Hne : t <> lt).
      { intros ->. rewrite (kid_step_rtask _ _ _ _ _ H Ht Hk) in Hrt. destruct (iv_rtask _ _ H lt Hrt). congruence. }
      apply Other; auto. eapply PCF_step_kid; eauto.
  - right. destruct (pcof s t) as [| | |w [| |]| | | |] eqn:Epc; try exact S.
    intros lt Hrt p r E. sproj in Hrt. sproj in E. sproj. destruct (Nat.eq_dec t lt) as [->|Hne].
    + rewrite fupd_eq in E. discriminate.
    + rewrite fupd_neq in E by exact Hne. now apply (S lt Hrt).
  - right. destruct (pcof s p) as [| | | | |[|n] re| |] eqn:Epc; try exact S.
    assert (X : SidInv (set_pc s p (PUnsubGather n re))).
    { intros lt Hrt q r E. sproj in Hrt. sproj in E. sproj. destruct (Nat.eq_dec p lt) as [->|Hne].
      - rewrite fupd_eq in E. discriminate.
      - rewrite fupd_neq in E by exact Hne. now apply (S lt Hrt). }
    destruct n; exact X.
Qed.

(* ---- while no unsubscribe call has started executing, the ghost flag is down ------------------------------------------------------- *)
Definition NG (s : state) : Prop := normal s -> g_inflight s = false.

Ltac geq := autorewrite with fr_g_inflight; sproj; try reflexivity.

Lemma ginf_unsub_none s t re : rtask s = None -> g_inflight (unsub_services s t re) = g_inflight s.
Proof. intros E. unfold unsub_services. rewrite forget_cancelled_none by exact E. sproj. rewrite E. geq. Qed.
Lemma ginf_after_sub t a n0 o : rtask (ost o) = None -> g_inflight (after_pass_sub t a n0 o) = g_inflight (ost o).
Proof.
  intros E. unfold after_pass_sub. destruct o as [s'|s'|s' e]; cbn [ost] in *; [reflexivity|geq|].
  destruct (is_upnp e); [now apply ginf_unsub_none|geq].
Qed.
Lemma ginf_sub_resume s t a n0 todo v rho hdr : rtask s = None -> g_inflight (sub_resume s t a n0 todo v rho hdr) = g_inflight s.
Proof.
  intros E. unfold sub_resume. cbv zeta. destruct rho as [m g| | |]; try now apply ginf_unsub_none.
  destruct hdr; [geq|now apply ginf_unsub_none].
Qed.

Lemma ginf_step_task s t :
  (kindof s t = KUnsub -> pcof s t <> PStart) -> (forall a, kindof s t = KSub a -> rtask s = None) ->
  g_inflight (step_task s t) = g_inflight s.
Proof.
  intros Hu Hs. unfold step_task.
  destruct (pcof s t) as [|now0 todo v r|p st r|w ws|sids lt re|n re|r|st] eqn:Epc; try reflexivity.
  - destruct (t_must _); [geq|]. unfold start_body. destruct (kindof s t) as [a| | |q x] eqn:Hk.
    + destruct (subs s) eqn:Es; [geq|]. rewrite ginf_after_sub; [geq|]. autorewrite with fr_rtask. now apply (Hs a).
    + now destruct Hu.
    + geq.
    + destruct (dget _ _ _); geq.
  - destruct (q_state _); try reflexivity; [|geq]. destruct (t_must _); [geq|].
    destruct (kindof s t) as [a| | |q x] eqn:Hk; try reflexivity. apply ginf_sub_resume. now apply (Hs a).
  - destruct (q_state _) as [|rho hdr|]; try reflexivity; [|geq]. destruct (t_must _); [geq|].
    destruct (kindof s t) as [a| | |q x] eqn:Hk; try geq.
    rewrite ginf_after_sub; [geq|]. autorewrite with fr_rtask. now apply (Hs a).
  - destruct ws; try reflexivity; [|geq]. destruct (t_must _); geq.
  - destruct (is_done _); geq.
  - destruct n; geq.
  - destruct (q_state _); try reflexivity; [|geq]. destruct (t_must _); geq.
Qed.

Lemma NG_run_handle rest s h :
  Inv (h :: rest ++ ready s) s -> NG s -> diverged s = false -> NG (run_handle s h).
Proof.
  intros H G Dv N'. pose proof (normal_back _ s h H N') as N. specialize (G N).
  unfold run_handle in *. rewrite Dv in *. destruct h as [t|t|p].
  - destruct (Nat.lt_ge_cases t (ntasks s)) as [Ht|Ht].
    2:{ unfold step_task. now rewrite (beyond_noop _ _ _ H Ht). }
    destruct (is_done (tasks s t)) eqn:Ed; [now rewrite done_noop|].
    assert (Hnd : ~ donep s t) by congruence.
    rewrite ginf_step_task; [exact G| |].
    + intros Hk Hp. pose proof (iv_census _ _ H t Ht) as C. unfold census in C. rewrite Hk in C.
      assert (Hnl : kindof s t <> KLoop) by (rewrite Hk; discriminate).
      pose proof (not_doomed_must _ _ (not_loop_not_doomed _ _ _ H Ht Hnl)) as Hm.
      assert (X : pcof (step_task s t) t = PStart) by (apply N'; now rewrite fr_calls_step_task).
      unfold step_task in X. rewrite Hp, Hm in X. unfold start_body in X. rewrite Hk in X. now apply pc_unsub_services in X.
    + intros a Hk. now destruct (live_sub _ _ H t a Ht Hk Hnd) as [X _].
  - destruct (pcof s t) as [| | |w [| |]| | | |]; geq; exact G.
  - destruct (pcof s p) as [| | | | |[|n] re| |]; try exact G. destruct n; geq; exact G.
Qed.

(* ---- the three together, along a run of the domain ----------------------------------------------------------------------------------- *)
Record Xinv (s : state) : Prop := mkX { x_hbs : HBS s; x_sid : SidInv s; x_ng : NG s }.

Lemma Xinv_run_handle rest s h :
  Inv (h :: rest ++ ready s) s -> Xinv s -> diverged s = false ->
  diverged (run_handle s h) = true \/ Xinv (run_handle s h).
Proof.
  intros H [X1 X2 X3] Dv. destruct (SidInv_run_handle rest s h H X2 Dv) as [D|S]; [now left|right].
  constructor; [eapply HBS_run_handle; eauto|exact S|eapply NG_run_handle; eauto].
Qed.

Lemma Xinv_fold hs : forall s,
  Inv (hs ++ ready s) s -> Xinv s -> diverged s = false ->
  diverged (fold_left run_handle hs s) = true \/ Xinv (fold_left run_handle hs s).
Proof.
  induction hs as [|h hs IH]; intros s H X Dv; cbn [fold_left]; [now right|].
  destruct (Xinv_run_handle hs s h H X Dv) as [D|X']; [left; now rewrite fold_run_diverged|].
  destruct (Inv_run_handle hs s h H) as [D|I']; [left; now rewrite fold_run_diverged|].
  destruct (diverged (run_handle s h)) eqn:D'; [left; now rewrite fold_run_diverged|]. now apply IH.
Qed.

Lemma SidInv_ext s s' :
  rtask s' = rtask s -> (forall lt, rtask s = Some lt -> tasks s' lt = tasks s lt) -> RS s s' ->
  (forall lt, rtask s = Some lt -> forall r, awaits (pcof s lt) r -> r < nreqs s) -> SidInv s -> SidInv s'.
Proof.
  intros Er Et R Hb S lt Hrt. rewrite Er in Hrt. eapply SidT_keep; [|exact R|now apply Hb|now apply S].
  rewrite (Et lt Hrt). apply pc_keep_refl.
Qed.

Lemma Xinv_step s a : Inv (ready s) s -> Xinv s -> allowed s a -> diverged (step s a) = true \/ Xinv (step s a).
Proof.
  intros H [X1 X2 X3] Ha. unfold step. destruct (diverged s) eqn:Dv; [now left|].
  assert (Hb : forall lt, rtask s = Some lt -> forall r, awaits (pcof s lt) r -> r < nreqs s).
  { intros lt Hrt r A. destruct (iv_rtask _ _ H lt Hrt) as [Hlt _]. now apply (iv_reqb _ _ H lt Hlt). }
  assert (Call : forall kd, Xinv (call s kd)).
  { intros kd. unfold call. destruct (user_busy s); [now constructor|].
    set (s' := with_calls (spawn s kd) (calls s ++ [ntasks s])).
    assert (Old : forall t, t < ntasks s -> tasks s' t = tasks s t) by (intros t Ht; subst s'; unfold spawn; sproj; apply fupd_neq; lia).
    constructor.
    - eapply HBS_WS; [|apply HBS_spawn; exact X1]. apply WS_same; reflexivity.
    - eapply SidInv_ext; [| | |exact Hb|exact X2]; [reflexivity| |subst s'; apply RS_same; reflexivity].
      intros lt Hrt. apply Old. now destruct (iv_rtask _ _ H lt Hrt).
    - intros N'. change (g_inflight s') with (g_inflight s). apply X3. intros u Hu.
      rewrite <- Old by (apply (call_lt _ _ H); now apply tl_in). apply N'. subst s'. sproj.
      destruct (calls s); [destruct Hu|]. cbn in *. apply in_or_app. now left. }
  destruct a as [auto| |r rho|dt|].
  - right. apply Call.
  - right. apply Call.
  - right. constructor.
    + unfold deliver. destruct (r <? nreqs s)%nat eqn:Hr; [|exact X1]. apply Nat.ltb_lt in Hr.
      destruct (q_state (reqs s r)) eqn:Eq; try exact X1.
      pose proof (fr_tasks_publisher s (reqs s r) rho) as F1. pose proof (fr_ntasks_publisher s (reqs s r) rho) as F2.
      pose proof (fr_ready_publisher s (reqs s r) rho) as F5.
      destruct (publisher s (reqs s r) rho) as [s1 hdr]. cbn [fst] in *.
      apply HBS_enqueue.
      * intros t E. injection E as <-. sproj. rewrite F2. now destruct (iv_bg _ _ H r Hr).
      * eapply HBS_WS; [|exact X1]. apply WS_same; sproj; auto.
    + eapply SidInv_ext; [| | |exact Hb|exact X2]; [now autorewrite with fr_rtask| |apply RS_deliver].
      intros lt _. now rewrite fr_tasks_deliver.
    + intros N'. rewrite fr_g_inflight_deliver. apply X3. intros u Hu. rewrite <- (fr_tasks_deliver s r rho). apply N'.
      now rewrite fr_calls_deliver.
  - right. constructor.
    + eapply HBS_WS; [|exact X1]. apply WS_same; autorewrite with fr; reflexivity.
    + eapply SidInv_ext; [| | |exact Hb|exact X2]; [now autorewrite with fr_rtask| |apply RS_same; now autorewrite with fr].
      intros lt _. now rewrite fr_tasks_advance.
    + intros N'. rewrite fr_g_inflight_advance. apply X3. intros u Hu. rewrite <- (fr_tasks_advance s dt). apply N'.
      now rewrite fr_calls_advance.
  - unfold iterate. apply Xinv_fold; [now apply Inv_iterate_start| |exact Dv].
    constructor.
    + destruct X1 as [A B]. split; [intros t []|exact B].
    + exact X2.
    + exact X3.
Qed.

Notation XGood s := (diverged s = true \/ Xinv s).

Lemma XGood_states sched : forall s,
  (diverged s = true \/ Inv (ready s) s) -> XGood s -> dom_sched (started s) sched = true -> Forall (fun s' => XGood s') (states_from s sched).
Proof.
  induction sched as [|a r IH]; intros s G X D; [constructor|].
  destruct (diverged s) eqn:Dv.
  { eapply Forall_impl; [|apply states_diverged; exact Dv]. intros s' ->. now left. }
  destruct G as [Y|I]; [congruence|]. destruct X as [Y|X]; [congruence|]. cbn [states_from].
  pose proof (Good_states (a :: r) s (or_intror I) D) as Gs. cbn [states_from] in Gs. inversion Gs as [|? ? G1 Gr]; subst.
  assert (Ha : allowed s a).
  { destruct a; cbn [dom_sched allowed] in *; try exact Logic.I.
    - apply andb_true_iff in D. destruct D as [D1 _]. apply negb_true_iff in D1. unfold started in D1. destruct (calls s); [reflexivity|discriminate].
    - apply andb_true_iff in D. destruct D as [D1 _]. unfold started in D1. destruct (calls s); discriminate. }
  constructor; [now apply Xinv_step|]. apply IH; [exact G1|now apply Xinv_step|now apply dom_sched_step].
Qed.

Lemma Xinv_init sv : Xinv (init sv).
Proof.
  constructor.
  - split; [intros t []|intros t u []].
  - intros lt X. discriminate.
  - intros _. reflexivity.
Qed.
