(* C12 - a request record, once made, only ever changes its completion state; requests are never removed. *)
From Coq Require Import List Bool Arith ZArith Lia.
From AUC Require Import Prelude.PyDict C12.Model C12.Frame.
Import ListNotations.

Definition req_static (q : req) := (q_time q, q_kind q, q_svc q, q_sid q, q_task q, q_bg q).
Definition RS (s s' : state) : Prop :=
  nreqs s <= nreqs s' /\ forall r, r < nreqs s -> req_static (reqs s' r) = req_static (reqs s r).

Lemma RS_refl s : RS s s. Proof. split; auto. Qed.
Lemma RS_trans a b c : RS a b -> RS b c -> RS a c.
Proof. intros [A1 A2] [B1 B2]. split; [lia|]. intros r Hr. rewrite B2 by lia. now apply A2. Qed.
Lemma RS_same s s' : reqs s' = reqs s -> nreqs s' = nreqs s -> RS s s'.
Proof. intros A B. split; [lia|]. intros r _. now rewrite A. Qed.

Ltac rsame := apply RS_same; autorewrite with fr_reqs fr_nreqs; sproj; reflexivity.

Lemma RS_issue s t kd v x : RS s (issue s t kd v x).
Proof. unfold issue. split; sproj; [lia|]. intros r Hr. unfold fupd. destruct (Nat.eqb_spec (nreqs s) r); [lia|reflexivity]. Qed.
Lemma RS_set_rstate s r x : RS s (set_rstate s r x).
Proof. split; sproj; [lia|]. intros r' _. unfold fupd. destruct (Nat.eqb_spec r r') as [<-|]; reflexivity. Qed.

Lemma RS_cancel s t : RS s (cancel s t).
Proof.
  unfold cancel. destruct (t_pc (tasks s t)) as [| ? ? ? r|? ? r|? []| | |r|]; try rsame;
    destruct (q_state (reqs s r)); try rsame; (eapply RS_trans; [apply RS_set_rstate|rsame]).
Qed.

Lemma RS_unsub_services s t re : RS s (unsub_services s t re).
Proof.
  unfold unsub_services. destruct (rtask _) as [lt|]; [|rsame].
  eapply RS_trans with (b := mark_inflight (forget_cancelled (with_subs s [])) lt); [rsame|].
  eapply RS_trans; [apply RS_cancel|]. rsame.
Qed.

Lemma RS_pass_scan t pn nf todo : forall s, RS s (ost (pass_scan s t pn nf todo)).
Proof.
  induction todo as [|[x d] r IH]; intros s; cbn [pass_scan]; [apply RS_refl|].
  destruct (d <? pn - TOL)%Z; [apply IH|]. destruct (negb _); [apply RS_refl|].
  destruct (dget _ _ _).
  - cbn [ost]. eapply RS_trans; [|apply RS_same; sproj; reflexivity]. eapply RS_trans; [|apply RS_issue]. rsame.
  - eapply RS_trans; [|apply IH]. rsame.
Qed.

Lemma RS_pass_error s t p e : RS s (ost (pass_error s t p e)).
Proof.
  unfold pass_error. destruct (is_upnp e); [|apply RS_refl]. destruct (p_notify p).
  - eapply RS_trans; [|apply RS_pass_scan]. destruct (is_conn e); rsame.
  - destruct (is_conn e); rsame.
Qed.
Lemma RS_pass_grant s t p x g : RS s (ost (pass_grant s t p x g)).
Proof. unfold pass_grant. eapply RS_trans; [|apply RS_pass_scan]. rsame. Qed.

Lemma RS_pass_resume s t p st rho hdr : RS s (ost (pass_resume s t p st rho hdr)).
Proof.
  unfold pass_resume. cbv zeta. destruct st.
  - destruct rho as [m g| | |].
    + destruct (match hdr with Some y => _ | None => _ end).
      * destruct (dhas _ _ _); [|apply RS_refl]. eapply RS_trans; [|apply RS_pass_grant]. rsame.
      * eapply RS_trans; [|apply RS_pass_grant]. rsame.
    + destruct (dhas _ _ _); [|apply RS_refl]. cbn [ost].
      eapply RS_trans; [|apply RS_same; sproj; reflexivity]. eapply RS_trans; [|apply RS_issue]. rsame.
    + destruct (dhas _ _ _); [|apply RS_refl]. eapply RS_trans; [|apply RS_pass_error]. rsame.
    + destruct (dhas _ _ _); [|apply RS_refl]. cbn [ost].
      eapply RS_trans; [|apply RS_same; sproj; reflexivity]. eapply RS_trans; [|apply RS_issue]. rsame.
  - destruct rho as [m g| | |]; try apply RS_pass_error.
    destruct hdr; [|apply RS_pass_error]. eapply RS_trans; [|apply RS_pass_grant]. rsame.
Qed.

Lemma RS_run_pass s t : RS s (ost (run_pass s t)).
Proof. unfold run_pass. eapply RS_trans; [|apply RS_pass_scan]. rsame. Qed.

Lemma RS_loop_head fuel : forall s t, RS s (loop_head fuel s t).
Proof.
  induction fuel as [|f IH]; intros s t; cbn [loop_head].
  - destruct (subs s); [rsame|]. destruct (0 <? _)%Z; [rsame|].
    pose proof (RS_run_pass s t) as R. destruct (run_pass s t) as [s'|s'|s' e]; cbn [ost] in R; auto.
    + destruct (_ <? _)%nat; (eapply RS_trans; [exact R|rsame]).
    + eapply RS_trans; [exact R|rsame].
  - destruct (subs s); [rsame|]. destruct (0 <? _)%Z; [rsame|].
    pose proof (RS_run_pass s t) as R. destruct (run_pass s t) as [s'|s'|s' e]; cbn [ost] in R; auto.
    + destruct (_ <? _)%nat; [eapply RS_trans; [exact R|apply IH]|eapply RS_trans; [exact R|rsame]].
    + eapply RS_trans; [exact R|rsame].
Qed.

Lemma RS_after_loop t o : RS (ost o) (after_pass_loop t o).
Proof. unfold after_pass_loop. destruct o; cbn [ost]; [apply RS_refl|apply RS_loop_head|rsame]. Qed.
Lemma RS_after_sub t auto now0 o : RS (ost o) (after_pass_sub t auto now0 o).
Proof.
  unfold after_pass_sub. destruct o as [s'|s'|s' e]; cbn [ost]; [apply RS_refl|rsame|].
  destruct (is_upnp e); [apply RS_unsub_services|rsame].
Qed.

Lemma RS_sub_next s t auto now0 todo : RS s (sub_next s t auto now0 todo).
Proof.
  unfold sub_next. destruct todo; [rsame|]. eapply RS_trans; [|apply RS_same; sproj; reflexivity]. apply RS_issue.
Qed.
Lemma RS_sub_resume s t auto now0 todo v rho hdr : RS s (sub_resume s t auto now0 todo v rho hdr).
Proof.
  unfold sub_resume. cbv zeta. destruct rho as [m g| | |]; try apply RS_unsub_services.
  destruct hdr; [|apply RS_unsub_services]. eapply RS_trans; [|apply RS_sub_next]. rsame.
Qed.

Lemma RS_start_body s t : RS s (start_body s t).
Proof.
  unfold start_body. destruct (t_kind (tasks s t)).
  - destruct (subs s); [apply RS_sub_next|]. eapply RS_trans; [|apply RS_after_sub]. apply RS_pass_scan.
  - apply RS_unsub_services.
  - apply RS_loop_head.
  - destruct (dget _ _ _); [|rsame]. cbv zeta. eapply RS_trans; [|apply RS_same; sproj; reflexivity].
    eapply RS_trans; [|apply RS_issue]. rsame.
Qed.

Lemma RS_step_task s t : RS s (step_task s t).
Proof.
  unfold step_task.
  destruct (t_pc (tasks s t)) as [|now0 todo v r|p st r|w ws|sids lt re|n re|r|st]; try apply RS_refl.
  - destruct (t_must _); [rsame|apply RS_start_body].
  - destruct (q_state _); try apply RS_refl; [|rsame]. destruct (t_must _); [rsame|].
    destruct (t_kind _); try apply RS_refl. apply RS_sub_resume.
  - destruct (q_state _); try apply RS_refl; [|rsame]. destruct (t_must _); [rsame|].
    destruct (t_kind _); (eapply RS_trans; [apply RS_pass_resume|]); try apply RS_after_loop; apply RS_after_sub.
  - destruct ws; try apply RS_refl; [|rsame]. destruct (t_must _); [rsame|].
    eapply RS_trans; [apply RS_run_pass|apply RS_after_loop].
  - destruct (is_done _); [rsame|apply RS_refl].
  - destruct n; [rsame|apply RS_refl].
  - destruct (q_state _); try apply RS_refl; [|rsame]. destruct (t_must _); rsame.
Qed.

Lemma RS_run_handle s h : RS s (run_handle s h).
Proof.
  unfold run_handle. destruct (diverged s); [apply RS_refl|]. destruct h as [t|t|p].
  - apply RS_step_task.
  - destruct (t_pc _) as [| | |w [| |]| | | |]; try apply RS_refl. rsame.
  - destruct (t_pc _) as [| | | | |[|n] re| |]; try apply RS_refl. destruct n; rsame.
Qed.
Lemma RS_fold hs : forall s, RS s (fold_left run_handle hs s).
Proof. induction hs as [|h hs IH]; intros s; cbn [fold_left]; [apply RS_refl|]. eapply RS_trans; [apply RS_run_handle|apply IH]. Qed.

Lemma RS_deliver s r rho : RS s (deliver s r rho).
Proof.
  unfold deliver. destruct (_ <? _)%nat; [|apply RS_refl]. destruct (q_state _); try apply RS_refl.
  pose proof (fr_reqs_publisher s (reqs s r) rho) as A. pose proof (fr_nreqs_publisher s (reqs s r) rho) as B.
  destruct (publisher s (reqs s r) rho) as [s1 hdr]. cbn [fst] in A, B.
  eapply RS_trans; [apply RS_same; [exact A|exact B]|]. eapply RS_trans; [apply RS_set_rstate|rsame].
Qed.

Lemma RS_step s a : RS s (step s a).
Proof.
  unfold step. destruct (diverged s); [apply RS_refl|]. destruct a; try rsame.
  - apply RS_deliver.
  - unfold iterate. eapply RS_trans; [|apply RS_fold]. rsame.
Qed.
