(* C12 - what each function of Model.v leaves alone, as rewrite rules (hint database fr).
   The lemma list was produced by a script during development; the file is an ordinary proof file. *)
From Coq Require Import List Bool Arith ZArith Lia.
From AUC Require Import Prelude.PyDict C12.Model.
Import ListNotations.

Definition ost (o : outcome) : state := match o with OSusp s | ODone s | ORaise s _ => s end.

Lemma fold_left_pres {A B C} (p : A -> C) (f : A -> B -> A) (l : list B) :
  (forall s x, p (f s x) = p s) -> forall s, p (fold_left f l s) = p s.
Proof. intros H. induction l as [|x l IH]; intros s; cbn; [reflexivity|]. now rewrite IH, H. Qed.

Ltac sproj :=
  cbn [now svcs subs routed avail evlog rtask tasks ntasks calls reqs nreqs ready pub nsid lapsed diverged
       g_overdue g_inflight g_maxdur
       with_now with_subs with_routed with_avail with_evlog with_rtask with_tasks with_calls with_reqs with_ready
       with_pub set_diverged with_ghost set_pc set_must add_waiter set_rstate enqueue ost fst snd].
Tactic Notation "sproj" "in" hyp(H) :=
  cbn [now svcs subs routed avail evlog rtask tasks ntasks calls reqs nreqs ready pub nsid lapsed diverged
       g_overdue g_inflight g_maxdur
       with_now with_subs with_routed with_avail with_evlog with_rtask with_tasks with_calls with_reqs with_ready
       with_pub set_diverged with_ghost set_pc set_must add_waiter set_rstate enqueue ost fst snd] in H.
Tactic Notation "sproj" "in" "*" :=
  cbn [now svcs subs routed avail evlog rtask tasks ntasks calls reqs nreqs ready pub nsid lapsed diverged
       g_overdue g_inflight g_maxdur
       with_now with_subs with_routed with_avail with_evlog with_rtask with_tasks with_calls with_reqs with_ready
       with_pub set_diverged with_ghost set_pc set_must add_waiter set_rstate enqueue ost fst snd] in *.
Ltac dmatch :=
  match goal with
  | |- context [match ?x with _ => _ end] => destruct x eqn:?
  | |- context [if ?x then _ else _] => destruct x eqn:?
  end.
Ltac osubst :=
  match goal with
  | H : _ = OSusp ?x |- _ => apply (f_equal ost) in H; cbn [ost] in H; subst x
  | H : _ = ODone ?x |- _ => apply (f_equal ost) in H; cbn [ost] in H; subst x
  | H : _ = ORaise ?x _ |- _ => apply (f_equal ost) in H; cbn [ost] in H; subst x
  | H : publisher _ _ _ = (?x, _) |- _ => apply (f_equal fst) in H; cbn [fst] in H; subst x
  end.

Ltac frame1_now := first [osubst | progress autorewrite with fr_now | progress sproj | dmatch | reflexivity | congruence].
Ltac frame_now := intros; repeat frame1_now.
Ltac frame1_svcs := first [osubst | progress autorewrite with fr_svcs | progress sproj | dmatch | reflexivity | congruence].
Ltac frame_svcs := intros; repeat frame1_svcs.
Ltac frame1_subs := first [osubst | progress autorewrite with fr_subs | progress sproj | dmatch | reflexivity | congruence].
Ltac frame_subs := intros; repeat frame1_subs.
Ltac frame1_routed := first [osubst | progress autorewrite with fr_routed | progress sproj | dmatch | reflexivity | congruence].
Ltac frame_routed := intros; repeat frame1_routed.
Ltac frame1_avail := first [osubst | progress autorewrite with fr_avail | progress sproj | dmatch | reflexivity | congruence].
Ltac frame_avail := intros; repeat frame1_avail.
Ltac frame1_evlog := first [osubst | progress autorewrite with fr_evlog | progress sproj | dmatch | reflexivity | congruence].
Ltac frame_evlog := intros; repeat frame1_evlog.
Ltac frame1_rtask := first [osubst | progress autorewrite with fr_rtask | progress sproj | dmatch | reflexivity | congruence].
Ltac frame_rtask := intros; repeat frame1_rtask.
Ltac frame1_tasks := first [osubst | progress autorewrite with fr_tasks | progress sproj | dmatch | reflexivity | congruence].
Ltac frame_tasks := intros; repeat frame1_tasks.
Ltac frame1_ntasks := first [osubst | progress autorewrite with fr_ntasks | progress sproj | dmatch | reflexivity | congruence].
Ltac frame_ntasks := intros; repeat frame1_ntasks.
Ltac frame1_calls := first [osubst | progress autorewrite with fr_calls | progress sproj | dmatch | reflexivity | congruence].
Ltac frame_calls := intros; repeat frame1_calls.
Ltac frame1_reqs := first [osubst | progress autorewrite with fr_reqs | progress sproj | dmatch | reflexivity | congruence].
Ltac frame_reqs := intros; repeat frame1_reqs.
Ltac frame1_nreqs := first [osubst | progress autorewrite with fr_nreqs | progress sproj | dmatch | reflexivity | congruence].
Ltac frame_nreqs := intros; repeat frame1_nreqs.
Ltac frame1_ready := first [osubst | progress autorewrite with fr_ready | progress sproj | dmatch | reflexivity | congruence].
Ltac frame_ready := intros; repeat frame1_ready.
Ltac frame1_pub := first [osubst | progress autorewrite with fr_pub | progress sproj | dmatch | reflexivity | congruence].
Ltac frame_pub := intros; repeat frame1_pub.
Ltac frame1_nsid := first [osubst | progress autorewrite with fr_nsid | progress sproj | dmatch | reflexivity | congruence].
Ltac frame_nsid := intros; repeat frame1_nsid.
Ltac frame1_lapsed := first [osubst | progress autorewrite with fr_lapsed | progress sproj | dmatch | reflexivity | congruence].
Ltac frame_lapsed := intros; repeat frame1_lapsed.
Ltac frame1_diverged := first [osubst | progress autorewrite with fr_diverged | progress sproj | dmatch | reflexivity | congruence].
Ltac frame_diverged := intros; repeat frame1_diverged.
Ltac frame1_g_overdue := first [osubst | progress autorewrite with fr_g_overdue | progress sproj | dmatch | reflexivity | congruence].
Ltac frame_g_overdue := intros; repeat frame1_g_overdue.
Ltac frame1_g_inflight := first [osubst | progress autorewrite with fr_g_inflight | progress sproj | dmatch | reflexivity | congruence].
Ltac frame_g_inflight := intros; repeat frame1_g_inflight.
Ltac frame1_g_maxdur := first [osubst | progress autorewrite with fr_g_maxdur | progress sproj | dmatch | reflexivity | congruence].
Ltac frame_g_maxdur := intros; repeat frame1_g_maxdur.
Lemma fr_now_finish s t st : now (finish s t st) = now s.
Proof. intros. unfold finish. destruct (t_kind (tasks s t)); sproj; try reflexivity;
  try (rewrite (fold_left_pres now); [reflexivity | intros; reflexivity]). Qed.
#[export] Hint Rewrite fr_now_finish : fr fr_now.
Lemma fr_svcs_finish s t st : svcs (finish s t st) = svcs s.
Proof. intros. unfold finish. destruct (t_kind (tasks s t)); sproj; try reflexivity;
  try (rewrite (fold_left_pres svcs); [reflexivity | intros; reflexivity]). Qed.
#[export] Hint Rewrite fr_svcs_finish : fr fr_svcs.
Lemma fr_subs_finish s t st : subs (finish s t st) = subs s.
Proof. intros. unfold finish. destruct (t_kind (tasks s t)); sproj; try reflexivity;
  try (rewrite (fold_left_pres subs); [reflexivity | intros; reflexivity]). Qed.
#[export] Hint Rewrite fr_subs_finish : fr fr_subs.
Lemma fr_routed_finish s t st : routed (finish s t st) = routed s.
Proof. intros. unfold finish. destruct (t_kind (tasks s t)); sproj; try reflexivity;
  try (rewrite (fold_left_pres routed); [reflexivity | intros; reflexivity]). Qed.
#[export] Hint Rewrite fr_routed_finish : fr fr_routed.
Lemma fr_avail_finish s t st : avail (finish s t st) = avail s.
Proof. intros. unfold finish. destruct (t_kind (tasks s t)); sproj; try reflexivity;
  try (rewrite (fold_left_pres avail); [reflexivity | intros; reflexivity]). Qed.
#[export] Hint Rewrite fr_avail_finish : fr fr_avail.
Lemma fr_evlog_finish s t st : evlog (finish s t st) = evlog s.
Proof. intros. unfold finish. destruct (t_kind (tasks s t)); sproj; try reflexivity;
  try (rewrite (fold_left_pres evlog); [reflexivity | intros; reflexivity]). Qed.
#[export] Hint Rewrite fr_evlog_finish : fr fr_evlog.
Lemma fr_rtask_finish s t st : rtask (finish s t st) = rtask s.
Proof. intros. unfold finish. destruct (t_kind (tasks s t)); sproj; try reflexivity;
  try (rewrite (fold_left_pres rtask); [reflexivity | intros; reflexivity]). Qed.
#[export] Hint Rewrite fr_rtask_finish : fr fr_rtask.
Lemma fr_ntasks_finish s t st : ntasks (finish s t st) = ntasks s.
Proof. intros. unfold finish. destruct (t_kind (tasks s t)); sproj; try reflexivity;
  try (rewrite (fold_left_pres ntasks); [reflexivity | intros; reflexivity]). Qed.
#[export] Hint Rewrite fr_ntasks_finish : fr fr_ntasks.
Lemma fr_calls_finish s t st : calls (finish s t st) = calls s.
Proof. intros. unfold finish. destruct (t_kind (tasks s t)); sproj; try reflexivity;
  try (rewrite (fold_left_pres calls); [reflexivity | intros; reflexivity]). Qed.
#[export] Hint Rewrite fr_calls_finish : fr fr_calls.
Lemma fr_reqs_finish s t st : reqs (finish s t st) = reqs s.
Proof. intros. unfold finish. destruct (t_kind (tasks s t)); sproj; try reflexivity;
  try (rewrite (fold_left_pres reqs); [reflexivity | intros; reflexivity]). Qed.
#[export] Hint Rewrite fr_reqs_finish : fr fr_reqs.
Lemma fr_nreqs_finish s t st : nreqs (finish s t st) = nreqs s.
Proof. intros. unfold finish. destruct (t_kind (tasks s t)); sproj; try reflexivity;
  try (rewrite (fold_left_pres nreqs); [reflexivity | intros; reflexivity]). Qed.
#[export] Hint Rewrite fr_nreqs_finish : fr fr_nreqs.
Lemma fr_pub_finish s t st : pub (finish s t st) = pub s.
Proof. intros. unfold finish. destruct (t_kind (tasks s t)); sproj; try reflexivity;
  try (rewrite (fold_left_pres pub); [reflexivity | intros; reflexivity]). Qed.
#[export] Hint Rewrite fr_pub_finish : fr fr_pub.
Lemma fr_nsid_finish s t st : nsid (finish s t st) = nsid s.
Proof. intros. unfold finish. destruct (t_kind (tasks s t)); sproj; try reflexivity;
  try (rewrite (fold_left_pres nsid); [reflexivity | intros; reflexivity]). Qed.
#[export] Hint Rewrite fr_nsid_finish : fr fr_nsid.
Lemma fr_lapsed_finish s t st : lapsed (finish s t st) = lapsed s.
Proof. intros. unfold finish. destruct (t_kind (tasks s t)); sproj; try reflexivity;
  try (rewrite (fold_left_pres lapsed); [reflexivity | intros; reflexivity]). Qed.
#[export] Hint Rewrite fr_lapsed_finish : fr fr_lapsed.
Lemma fr_diverged_finish s t st : diverged (finish s t st) = diverged s.
Proof. intros. unfold finish. destruct (t_kind (tasks s t)); sproj; try reflexivity;
  try (rewrite (fold_left_pres diverged); [reflexivity | intros; reflexivity]). Qed.
#[export] Hint Rewrite fr_diverged_finish : fr fr_diverged.
Lemma fr_g_overdue_finish s t st : g_overdue (finish s t st) = g_overdue s.
Proof. intros. unfold finish. destruct (t_kind (tasks s t)); sproj; try reflexivity;
  try (rewrite (fold_left_pres g_overdue); [reflexivity | intros; reflexivity]). Qed.
#[export] Hint Rewrite fr_g_overdue_finish : fr fr_g_overdue.
Lemma fr_g_inflight_finish s t st : g_inflight (finish s t st) = g_inflight s.
Proof. intros. unfold finish. destruct (t_kind (tasks s t)); sproj; try reflexivity;
  try (rewrite (fold_left_pres g_inflight); [reflexivity | intros; reflexivity]). Qed.
#[export] Hint Rewrite fr_g_inflight_finish : fr fr_g_inflight.
Lemma fr_g_maxdur_finish s t st : g_maxdur (finish s t st) = g_maxdur s.
Proof. intros. unfold finish. destruct (t_kind (tasks s t)); sproj; try reflexivity;
  try (rewrite (fold_left_pres g_maxdur); [reflexivity | intros; reflexivity]). Qed.
#[export] Hint Rewrite fr_g_maxdur_finish : fr fr_g_maxdur.
Lemma fr_now_throw_cancel s t : now (throw_cancel s t) = now s.
Proof. intros. unfold throw_cancel. frame_now. Qed.
#[export] Hint Rewrite fr_now_throw_cancel : fr fr_now.
Lemma fr_svcs_throw_cancel s t : svcs (throw_cancel s t) = svcs s.
Proof. intros. unfold throw_cancel. frame_svcs. Qed.
#[export] Hint Rewrite fr_svcs_throw_cancel : fr fr_svcs.
Lemma fr_subs_throw_cancel s t : subs (throw_cancel s t) = subs s.
Proof. intros. unfold throw_cancel. frame_subs. Qed.
#[export] Hint Rewrite fr_subs_throw_cancel : fr fr_subs.
Lemma fr_routed_throw_cancel s t : routed (throw_cancel s t) = routed s.
Proof. intros. unfold throw_cancel. frame_routed. Qed.
#[export] Hint Rewrite fr_routed_throw_cancel : fr fr_routed.
Lemma fr_avail_throw_cancel s t : avail (throw_cancel s t) = avail s.
Proof. intros. unfold throw_cancel. frame_avail. Qed.
#[export] Hint Rewrite fr_avail_throw_cancel : fr fr_avail.
Lemma fr_evlog_throw_cancel s t : evlog (throw_cancel s t) = evlog s.
Proof. intros. unfold throw_cancel. frame_evlog. Qed.
#[export] Hint Rewrite fr_evlog_throw_cancel : fr fr_evlog.
Lemma fr_rtask_throw_cancel s t : rtask (throw_cancel s t) = rtask s.
Proof. intros. unfold throw_cancel. frame_rtask. Qed.
#[export] Hint Rewrite fr_rtask_throw_cancel : fr fr_rtask.
Lemma fr_ntasks_throw_cancel s t : ntasks (throw_cancel s t) = ntasks s.
Proof. intros. unfold throw_cancel. frame_ntasks. Qed.
#[export] Hint Rewrite fr_ntasks_throw_cancel : fr fr_ntasks.
Lemma fr_calls_throw_cancel s t : calls (throw_cancel s t) = calls s.
Proof. intros. unfold throw_cancel. frame_calls. Qed.
#[export] Hint Rewrite fr_calls_throw_cancel : fr fr_calls.
Lemma fr_reqs_throw_cancel s t : reqs (throw_cancel s t) = reqs s.
Proof. intros. unfold throw_cancel. frame_reqs. Qed.
#[export] Hint Rewrite fr_reqs_throw_cancel : fr fr_reqs.
Lemma fr_nreqs_throw_cancel s t : nreqs (throw_cancel s t) = nreqs s.
Proof. intros. unfold throw_cancel. frame_nreqs. Qed.
#[export] Hint Rewrite fr_nreqs_throw_cancel : fr fr_nreqs.
Lemma fr_pub_throw_cancel s t : pub (throw_cancel s t) = pub s.
Proof. intros. unfold throw_cancel. frame_pub. Qed.
#[export] Hint Rewrite fr_pub_throw_cancel : fr fr_pub.
Lemma fr_nsid_throw_cancel s t : nsid (throw_cancel s t) = nsid s.
Proof. intros. unfold throw_cancel. frame_nsid. Qed.
#[export] Hint Rewrite fr_nsid_throw_cancel : fr fr_nsid.
Lemma fr_lapsed_throw_cancel s t : lapsed (throw_cancel s t) = lapsed s.
Proof. intros. unfold throw_cancel. frame_lapsed. Qed.
#[export] Hint Rewrite fr_lapsed_throw_cancel : fr fr_lapsed.
Lemma fr_diverged_throw_cancel s t : diverged (throw_cancel s t) = diverged s.
Proof. intros. unfold throw_cancel. frame_diverged. Qed.
#[export] Hint Rewrite fr_diverged_throw_cancel : fr fr_diverged.
Lemma fr_g_overdue_throw_cancel s t : g_overdue (throw_cancel s t) = g_overdue s.
Proof. intros. unfold throw_cancel. frame_g_overdue. Qed.
#[export] Hint Rewrite fr_g_overdue_throw_cancel : fr fr_g_overdue.
Lemma fr_g_inflight_throw_cancel s t : g_inflight (throw_cancel s t) = g_inflight s.
Proof. intros. unfold throw_cancel. frame_g_inflight. Qed.
#[export] Hint Rewrite fr_g_inflight_throw_cancel : fr fr_g_inflight.
Lemma fr_g_maxdur_throw_cancel s t : g_maxdur (throw_cancel s t) = g_maxdur s.
Proof. intros. unfold throw_cancel. frame_g_maxdur. Qed.
#[export] Hint Rewrite fr_g_maxdur_throw_cancel : fr fr_g_maxdur.
Lemma fr_now_spawn s kd : now (spawn s kd) = now s.
Proof. intros. unfold spawn. frame_now. Qed.
#[export] Hint Rewrite fr_now_spawn : fr fr_now.
Lemma fr_svcs_spawn s kd : svcs (spawn s kd) = svcs s.
Proof. intros. unfold spawn. frame_svcs. Qed.
#[export] Hint Rewrite fr_svcs_spawn : fr fr_svcs.
Lemma fr_subs_spawn s kd : subs (spawn s kd) = subs s.
Proof. intros. unfold spawn. frame_subs. Qed.
#[export] Hint Rewrite fr_subs_spawn : fr fr_subs.
Lemma fr_routed_spawn s kd : routed (spawn s kd) = routed s.
Proof. intros. unfold spawn. frame_routed. Qed.
#[export] Hint Rewrite fr_routed_spawn : fr fr_routed.
Lemma fr_avail_spawn s kd : avail (spawn s kd) = avail s.
Proof. intros. unfold spawn. frame_avail. Qed.
#[export] Hint Rewrite fr_avail_spawn : fr fr_avail.
Lemma fr_evlog_spawn s kd : evlog (spawn s kd) = evlog s.
Proof. intros. unfold spawn. frame_evlog. Qed.
#[export] Hint Rewrite fr_evlog_spawn : fr fr_evlog.
Lemma fr_rtask_spawn s kd : rtask (spawn s kd) = rtask s.
Proof. intros. unfold spawn. frame_rtask. Qed.
#[export] Hint Rewrite fr_rtask_spawn : fr fr_rtask.
Lemma fr_calls_spawn s kd : calls (spawn s kd) = calls s.
Proof. intros. unfold spawn. frame_calls. Qed.
#[export] Hint Rewrite fr_calls_spawn : fr fr_calls.
Lemma fr_reqs_spawn s kd : reqs (spawn s kd) = reqs s.
Proof. intros. unfold spawn. frame_reqs. Qed.
#[export] Hint Rewrite fr_reqs_spawn : fr fr_reqs.
Lemma fr_nreqs_spawn s kd : nreqs (spawn s kd) = nreqs s.
Proof. intros. unfold spawn. frame_nreqs. Qed.
#[export] Hint Rewrite fr_nreqs_spawn : fr fr_nreqs.
Lemma fr_pub_spawn s kd : pub (spawn s kd) = pub s.
Proof. intros. unfold spawn. frame_pub. Qed.
#[export] Hint Rewrite fr_pub_spawn : fr fr_pub.
Lemma fr_nsid_spawn s kd : nsid (spawn s kd) = nsid s.
Proof. intros. unfold spawn. frame_nsid. Qed.
#[export] Hint Rewrite fr_nsid_spawn : fr fr_nsid.
Lemma fr_lapsed_spawn s kd : lapsed (spawn s kd) = lapsed s.
Proof. intros. unfold spawn. frame_lapsed. Qed.
#[export] Hint Rewrite fr_lapsed_spawn : fr fr_lapsed.
Lemma fr_diverged_spawn s kd : diverged (spawn s kd) = diverged s.
Proof. intros. unfold spawn. frame_diverged. Qed.
#[export] Hint Rewrite fr_diverged_spawn : fr fr_diverged.
Lemma fr_g_overdue_spawn s kd : g_overdue (spawn s kd) = g_overdue s.
Proof. intros. unfold spawn. frame_g_overdue. Qed.
#[export] Hint Rewrite fr_g_overdue_spawn : fr fr_g_overdue.
Lemma fr_g_inflight_spawn s kd : g_inflight (spawn s kd) = g_inflight s.
Proof. intros. unfold spawn. frame_g_inflight. Qed.
#[export] Hint Rewrite fr_g_inflight_spawn : fr fr_g_inflight.
Lemma fr_g_maxdur_spawn s kd : g_maxdur (spawn s kd) = g_maxdur s.
Proof. intros. unfold spawn. frame_g_maxdur. Qed.
#[export] Hint Rewrite fr_g_maxdur_spawn : fr fr_g_maxdur.
Lemma fr_now_issue s t kd v x : now (issue s t kd v x) = now s.
Proof. intros. unfold issue. frame_now. Qed.
#[export] Hint Rewrite fr_now_issue : fr fr_now.
Lemma fr_svcs_issue s t kd v x : svcs (issue s t kd v x) = svcs s.
Proof. intros. unfold issue. frame_svcs. Qed.
#[export] Hint Rewrite fr_svcs_issue : fr fr_svcs.
Lemma fr_subs_issue s t kd v x : subs (issue s t kd v x) = subs s.
Proof. intros. unfold issue. frame_subs. Qed.
#[export] Hint Rewrite fr_subs_issue : fr fr_subs.
Lemma fr_routed_issue s t kd v x : routed (issue s t kd v x) = routed s.
Proof. intros. unfold issue. frame_routed. Qed.
#[export] Hint Rewrite fr_routed_issue : fr fr_routed.
Lemma fr_avail_issue s t kd v x : avail (issue s t kd v x) = avail s.
Proof. intros. unfold issue. frame_avail. Qed.
#[export] Hint Rewrite fr_avail_issue : fr fr_avail.
Lemma fr_evlog_issue s t kd v x : evlog (issue s t kd v x) = evlog s.
Proof. intros. unfold issue. frame_evlog. Qed.
#[export] Hint Rewrite fr_evlog_issue : fr fr_evlog.
Lemma fr_rtask_issue s t kd v x : rtask (issue s t kd v x) = rtask s.
Proof. intros. unfold issue. frame_rtask. Qed.
#[export] Hint Rewrite fr_rtask_issue : fr fr_rtask.
Lemma fr_tasks_issue s t kd v x : tasks (issue s t kd v x) = tasks s.
Proof. intros. unfold issue. frame_tasks. Qed.
#[export] Hint Rewrite fr_tasks_issue : fr fr_tasks.
Lemma fr_ntasks_issue s t kd v x : ntasks (issue s t kd v x) = ntasks s.
Proof. intros. unfold issue. frame_ntasks. Qed.
#[export] Hint Rewrite fr_ntasks_issue : fr fr_ntasks.
Lemma fr_calls_issue s t kd v x : calls (issue s t kd v x) = calls s.
Proof. intros. unfold issue. frame_calls. Qed.
#[export] Hint Rewrite fr_calls_issue : fr fr_calls.
Lemma fr_ready_issue s t kd v x : ready (issue s t kd v x) = ready s.
Proof. intros. unfold issue. frame_ready. Qed.
#[export] Hint Rewrite fr_ready_issue : fr fr_ready.
Lemma fr_pub_issue s t kd v x : pub (issue s t kd v x) = pub s.
Proof. intros. unfold issue. frame_pub. Qed.
#[export] Hint Rewrite fr_pub_issue : fr fr_pub.
Lemma fr_nsid_issue s t kd v x : nsid (issue s t kd v x) = nsid s.
Proof. intros. unfold issue. frame_nsid. Qed.
#[export] Hint Rewrite fr_nsid_issue : fr fr_nsid.
Lemma fr_lapsed_issue s t kd v x : lapsed (issue s t kd v x) = lapsed s.
Proof. intros. unfold issue. frame_lapsed. Qed.
#[export] Hint Rewrite fr_lapsed_issue : fr fr_lapsed.
Lemma fr_diverged_issue s t kd v x : diverged (issue s t kd v x) = diverged s.
Proof. intros. unfold issue. frame_diverged. Qed.
#[export] Hint Rewrite fr_diverged_issue : fr fr_diverged.
Lemma fr_g_overdue_issue s t kd v x : g_overdue (issue s t kd v x) = g_overdue s.
Proof. intros. unfold issue. frame_g_overdue. Qed.
#[export] Hint Rewrite fr_g_overdue_issue : fr fr_g_overdue.
Lemma fr_g_inflight_issue s t kd v x : g_inflight (issue s t kd v x) = g_inflight s.
Proof. intros. unfold issue. frame_g_inflight. Qed.
#[export] Hint Rewrite fr_g_inflight_issue : fr fr_g_inflight.
Lemma fr_g_maxdur_issue s t kd v x : g_maxdur (issue s t kd v x) = g_maxdur s.
Proof. intros. unfold issue. frame_g_maxdur. Qed.
#[export] Hint Rewrite fr_g_maxdur_issue : fr fr_g_maxdur.
Lemma fr_now_cancel s t : now (cancel s t) = now s.
Proof. intros. unfold cancel. frame_now. Qed.
#[export] Hint Rewrite fr_now_cancel : fr fr_now.
Lemma fr_svcs_cancel s t : svcs (cancel s t) = svcs s.
Proof. intros. unfold cancel. frame_svcs. Qed.
#[export] Hint Rewrite fr_svcs_cancel : fr fr_svcs.
Lemma fr_subs_cancel s t : subs (cancel s t) = subs s.
Proof. intros. unfold cancel. frame_subs. Qed.
#[export] Hint Rewrite fr_subs_cancel : fr fr_subs.
Lemma fr_routed_cancel s t : routed (cancel s t) = routed s.
Proof. intros. unfold cancel. frame_routed. Qed.
#[export] Hint Rewrite fr_routed_cancel : fr fr_routed.
Lemma fr_avail_cancel s t : avail (cancel s t) = avail s.
Proof. intros. unfold cancel. frame_avail. Qed.
#[export] Hint Rewrite fr_avail_cancel : fr fr_avail.
Lemma fr_evlog_cancel s t : evlog (cancel s t) = evlog s.
Proof. intros. unfold cancel. frame_evlog. Qed.
#[export] Hint Rewrite fr_evlog_cancel : fr fr_evlog.
Lemma fr_rtask_cancel s t : rtask (cancel s t) = rtask s.
Proof. intros. unfold cancel. frame_rtask. Qed.
#[export] Hint Rewrite fr_rtask_cancel : fr fr_rtask.
Lemma fr_ntasks_cancel s t : ntasks (cancel s t) = ntasks s.
Proof. intros. unfold cancel. frame_ntasks. Qed.
#[export] Hint Rewrite fr_ntasks_cancel : fr fr_ntasks.
Lemma fr_calls_cancel s t : calls (cancel s t) = calls s.
Proof. intros. unfold cancel. frame_calls. Qed.
#[export] Hint Rewrite fr_calls_cancel : fr fr_calls.
Lemma fr_nreqs_cancel s t : nreqs (cancel s t) = nreqs s.
Proof. intros. unfold cancel. frame_nreqs. Qed.
#[export] Hint Rewrite fr_nreqs_cancel : fr fr_nreqs.
Lemma fr_pub_cancel s t : pub (cancel s t) = pub s.
Proof. intros. unfold cancel. frame_pub. Qed.
#[export] Hint Rewrite fr_pub_cancel : fr fr_pub.
Lemma fr_nsid_cancel s t : nsid (cancel s t) = nsid s.
Proof. intros. unfold cancel. frame_nsid. Qed.
#[export] Hint Rewrite fr_nsid_cancel : fr fr_nsid.
Lemma fr_lapsed_cancel s t : lapsed (cancel s t) = lapsed s.
Proof. intros. unfold cancel. frame_lapsed. Qed.
#[export] Hint Rewrite fr_lapsed_cancel : fr fr_lapsed.
Lemma fr_diverged_cancel s t : diverged (cancel s t) = diverged s.
Proof. intros. unfold cancel. frame_diverged. Qed.
#[export] Hint Rewrite fr_diverged_cancel : fr fr_diverged.
Lemma fr_g_overdue_cancel s t : g_overdue (cancel s t) = g_overdue s.
Proof. intros. unfold cancel. frame_g_overdue. Qed.
#[export] Hint Rewrite fr_g_overdue_cancel : fr fr_g_overdue.
Lemma fr_g_inflight_cancel s t : g_inflight (cancel s t) = g_inflight s.
Proof. intros. unfold cancel. frame_g_inflight. Qed.
#[export] Hint Rewrite fr_g_inflight_cancel : fr fr_g_inflight.
Lemma fr_g_maxdur_cancel s t : g_maxdur (cancel s t) = g_maxdur s.
Proof. intros. unfold cancel. frame_g_maxdur. Qed.
#[export] Hint Rewrite fr_g_maxdur_cancel : fr fr_g_maxdur.
Lemma fr_now_unsub_return s t re : now (unsub_return s t re) = now s.
Proof. intros. unfold unsub_return. frame_now. Qed.
#[export] Hint Rewrite fr_now_unsub_return : fr fr_now.
Lemma fr_svcs_unsub_return s t re : svcs (unsub_return s t re) = svcs s.
Proof. intros. unfold unsub_return. frame_svcs. Qed.
#[export] Hint Rewrite fr_svcs_unsub_return : fr fr_svcs.
Lemma fr_subs_unsub_return s t re : subs (unsub_return s t re) = subs s.
Proof. intros. unfold unsub_return. frame_subs. Qed.
#[export] Hint Rewrite fr_subs_unsub_return : fr fr_subs.
Lemma fr_routed_unsub_return s t re : routed (unsub_return s t re) = routed s.
Proof. intros. unfold unsub_return. frame_routed. Qed.
#[export] Hint Rewrite fr_routed_unsub_return : fr fr_routed.
Lemma fr_avail_unsub_return s t re : avail (unsub_return s t re) = avail s.
Proof. intros. unfold unsub_return. frame_avail. Qed.
#[export] Hint Rewrite fr_avail_unsub_return : fr fr_avail.
Lemma fr_evlog_unsub_return s t re : evlog (unsub_return s t re) = evlog s.
Proof. intros. unfold unsub_return. frame_evlog. Qed.
#[export] Hint Rewrite fr_evlog_unsub_return : fr fr_evlog.
Lemma fr_rtask_unsub_return s t re : rtask (unsub_return s t re) = rtask s.
Proof. intros. unfold unsub_return. frame_rtask. Qed.
#[export] Hint Rewrite fr_rtask_unsub_return : fr fr_rtask.
Lemma fr_ntasks_unsub_return s t re : ntasks (unsub_return s t re) = ntasks s.
Proof. intros. unfold unsub_return. frame_ntasks. Qed.
#[export] Hint Rewrite fr_ntasks_unsub_return : fr fr_ntasks.
Lemma fr_calls_unsub_return s t re : calls (unsub_return s t re) = calls s.
Proof. intros. unfold unsub_return. frame_calls. Qed.
#[export] Hint Rewrite fr_calls_unsub_return : fr fr_calls.
Lemma fr_reqs_unsub_return s t re : reqs (unsub_return s t re) = reqs s.
Proof. intros. unfold unsub_return. frame_reqs. Qed.
#[export] Hint Rewrite fr_reqs_unsub_return : fr fr_reqs.
Lemma fr_nreqs_unsub_return s t re : nreqs (unsub_return s t re) = nreqs s.
Proof. intros. unfold unsub_return. frame_nreqs. Qed.
#[export] Hint Rewrite fr_nreqs_unsub_return : fr fr_nreqs.
Lemma fr_pub_unsub_return s t re : pub (unsub_return s t re) = pub s.
Proof. intros. unfold unsub_return. frame_pub. Qed.
#[export] Hint Rewrite fr_pub_unsub_return : fr fr_pub.
Lemma fr_nsid_unsub_return s t re : nsid (unsub_return s t re) = nsid s.
Proof. intros. unfold unsub_return. frame_nsid. Qed.
#[export] Hint Rewrite fr_nsid_unsub_return : fr fr_nsid.
Lemma fr_lapsed_unsub_return s t re : lapsed (unsub_return s t re) = lapsed s.
Proof. intros. unfold unsub_return. frame_lapsed. Qed.
#[export] Hint Rewrite fr_lapsed_unsub_return : fr fr_lapsed.
Lemma fr_diverged_unsub_return s t re : diverged (unsub_return s t re) = diverged s.
Proof. intros. unfold unsub_return. frame_diverged. Qed.
#[export] Hint Rewrite fr_diverged_unsub_return : fr fr_diverged.
Lemma fr_g_overdue_unsub_return s t re : g_overdue (unsub_return s t re) = g_overdue s.
Proof. intros. unfold unsub_return. frame_g_overdue. Qed.
#[export] Hint Rewrite fr_g_overdue_unsub_return : fr fr_g_overdue.
Lemma fr_g_inflight_unsub_return s t re : g_inflight (unsub_return s t re) = g_inflight s.
Proof. intros. unfold unsub_return. frame_g_inflight. Qed.
#[export] Hint Rewrite fr_g_inflight_unsub_return : fr fr_g_inflight.
Lemma fr_g_maxdur_unsub_return s t re : g_maxdur (unsub_return s t re) = g_maxdur s.
Proof. intros. unfold unsub_return. frame_g_maxdur. Qed.
#[export] Hint Rewrite fr_g_maxdur_unsub_return : fr fr_g_maxdur.
Lemma fr_now_unsub_gather s t sids re : now (unsub_gather s t sids re) = now s.
Proof. intros. unfold unsub_gather. destruct sids; [frame_now|]. sproj.
  rewrite (fold_left_pres now); [reflexivity | intros; frame_now]. Qed.
#[export] Hint Rewrite fr_now_unsub_gather : fr fr_now.
Lemma fr_svcs_unsub_gather s t sids re : svcs (unsub_gather s t sids re) = svcs s.
Proof. intros. unfold unsub_gather. destruct sids; [frame_svcs|]. sproj.
  rewrite (fold_left_pres svcs); [reflexivity | intros; frame_svcs]. Qed.
#[export] Hint Rewrite fr_svcs_unsub_gather : fr fr_svcs.
Lemma fr_subs_unsub_gather s t sids re : subs (unsub_gather s t sids re) = subs s.
Proof. intros. unfold unsub_gather. destruct sids; [frame_subs|]. sproj.
  rewrite (fold_left_pres subs); [reflexivity | intros; frame_subs]. Qed.
#[export] Hint Rewrite fr_subs_unsub_gather : fr fr_subs.
Lemma fr_routed_unsub_gather s t sids re : routed (unsub_gather s t sids re) = routed s.
Proof. intros. unfold unsub_gather. destruct sids; [frame_routed|]. sproj.
  rewrite (fold_left_pres routed); [reflexivity | intros; frame_routed]. Qed.
#[export] Hint Rewrite fr_routed_unsub_gather : fr fr_routed.
Lemma fr_avail_unsub_gather s t sids re : avail (unsub_gather s t sids re) = avail s.
Proof. intros. unfold unsub_gather. destruct sids; [frame_avail|]. sproj.
  rewrite (fold_left_pres avail); [reflexivity | intros; frame_avail]. Qed.
#[export] Hint Rewrite fr_avail_unsub_gather : fr fr_avail.
Lemma fr_evlog_unsub_gather s t sids re : evlog (unsub_gather s t sids re) = evlog s.
Proof. intros. unfold unsub_gather. destruct sids; [frame_evlog|]. sproj.
  rewrite (fold_left_pres evlog); [reflexivity | intros; frame_evlog]. Qed.
#[export] Hint Rewrite fr_evlog_unsub_gather : fr fr_evlog.
Lemma fr_rtask_unsub_gather s t sids re : rtask (unsub_gather s t sids re) = rtask s.
Proof. intros. unfold unsub_gather. destruct sids; [frame_rtask|]. sproj.
  rewrite (fold_left_pres rtask); [reflexivity | intros; frame_rtask]. Qed.
#[export] Hint Rewrite fr_rtask_unsub_gather : fr fr_rtask.
Lemma fr_calls_unsub_gather s t sids re : calls (unsub_gather s t sids re) = calls s.
Proof. intros. unfold unsub_gather. destruct sids; [frame_calls|]. sproj.
  rewrite (fold_left_pres calls); [reflexivity | intros; frame_calls]. Qed.
#[export] Hint Rewrite fr_calls_unsub_gather : fr fr_calls.
Lemma fr_reqs_unsub_gather s t sids re : reqs (unsub_gather s t sids re) = reqs s.
Proof. intros. unfold unsub_gather. destruct sids; [frame_reqs|]. sproj.
  rewrite (fold_left_pres reqs); [reflexivity | intros; frame_reqs]. Qed.
#[export] Hint Rewrite fr_reqs_unsub_gather : fr fr_reqs.
Lemma fr_nreqs_unsub_gather s t sids re : nreqs (unsub_gather s t sids re) = nreqs s.
Proof. intros. unfold unsub_gather. destruct sids; [frame_nreqs|]. sproj.
  rewrite (fold_left_pres nreqs); [reflexivity | intros; frame_nreqs]. Qed.
#[export] Hint Rewrite fr_nreqs_unsub_gather : fr fr_nreqs.
Lemma fr_pub_unsub_gather s t sids re : pub (unsub_gather s t sids re) = pub s.
Proof. intros. unfold unsub_gather. destruct sids; [frame_pub|]. sproj.
  rewrite (fold_left_pres pub); [reflexivity | intros; frame_pub]. Qed.
#[export] Hint Rewrite fr_pub_unsub_gather : fr fr_pub.
Lemma fr_nsid_unsub_gather s t sids re : nsid (unsub_gather s t sids re) = nsid s.
Proof. intros. unfold unsub_gather. destruct sids; [frame_nsid|]. sproj.
  rewrite (fold_left_pres nsid); [reflexivity | intros; frame_nsid]. Qed.
#[export] Hint Rewrite fr_nsid_unsub_gather : fr fr_nsid.
Lemma fr_lapsed_unsub_gather s t sids re : lapsed (unsub_gather s t sids re) = lapsed s.
Proof. intros. unfold unsub_gather. destruct sids; [frame_lapsed|]. sproj.
  rewrite (fold_left_pres lapsed); [reflexivity | intros; frame_lapsed]. Qed.
#[export] Hint Rewrite fr_lapsed_unsub_gather : fr fr_lapsed.
Lemma fr_diverged_unsub_gather s t sids re : diverged (unsub_gather s t sids re) = diverged s.
Proof. intros. unfold unsub_gather. destruct sids; [frame_diverged|]. sproj.
  rewrite (fold_left_pres diverged); [reflexivity | intros; frame_diverged]. Qed.
#[export] Hint Rewrite fr_diverged_unsub_gather : fr fr_diverged.
Lemma fr_g_overdue_unsub_gather s t sids re : g_overdue (unsub_gather s t sids re) = g_overdue s.
Proof. intros. unfold unsub_gather. destruct sids; [frame_g_overdue|]. sproj.
  rewrite (fold_left_pres g_overdue); [reflexivity | intros; frame_g_overdue]. Qed.
#[export] Hint Rewrite fr_g_overdue_unsub_gather : fr fr_g_overdue.
Lemma fr_g_inflight_unsub_gather s t sids re : g_inflight (unsub_gather s t sids re) = g_inflight s.
Proof. intros. unfold unsub_gather. destruct sids; [frame_g_inflight|]. sproj.
  rewrite (fold_left_pres g_inflight); [reflexivity | intros; frame_g_inflight]. Qed.
#[export] Hint Rewrite fr_g_inflight_unsub_gather : fr fr_g_inflight.
Lemma fr_g_maxdur_unsub_gather s t sids re : g_maxdur (unsub_gather s t sids re) = g_maxdur s.
Proof. intros. unfold unsub_gather. destruct sids; [frame_g_maxdur|]. sproj.
  rewrite (fold_left_pres g_maxdur); [reflexivity | intros; frame_g_maxdur]. Qed.
#[export] Hint Rewrite fr_g_maxdur_unsub_gather : fr fr_g_maxdur.
Lemma fr_now_forget_cancelled s : now (forget_cancelled s) = now s.
Proof. intros. unfold forget_cancelled. frame_now. Qed.
#[export] Hint Rewrite fr_now_forget_cancelled : fr fr_now.
Lemma fr_svcs_forget_cancelled s : svcs (forget_cancelled s) = svcs s.
Proof. intros. unfold forget_cancelled. frame_svcs. Qed.
#[export] Hint Rewrite fr_svcs_forget_cancelled : fr fr_svcs.
Lemma fr_subs_forget_cancelled s : subs (forget_cancelled s) = subs s.
Proof. intros. unfold forget_cancelled. frame_subs. Qed.
#[export] Hint Rewrite fr_subs_forget_cancelled : fr fr_subs.
Lemma fr_routed_forget_cancelled s : routed (forget_cancelled s) = routed s.
Proof. intros. unfold forget_cancelled. frame_routed. Qed.
#[export] Hint Rewrite fr_routed_forget_cancelled : fr fr_routed.
Lemma fr_avail_forget_cancelled s : avail (forget_cancelled s) = avail s.
Proof. intros. unfold forget_cancelled. frame_avail. Qed.
#[export] Hint Rewrite fr_avail_forget_cancelled : fr fr_avail.
Lemma fr_evlog_forget_cancelled s : evlog (forget_cancelled s) = evlog s.
Proof. intros. unfold forget_cancelled. frame_evlog. Qed.
#[export] Hint Rewrite fr_evlog_forget_cancelled : fr fr_evlog.
Lemma fr_tasks_forget_cancelled s : tasks (forget_cancelled s) = tasks s.
Proof. intros. unfold forget_cancelled. frame_tasks. Qed.
#[export] Hint Rewrite fr_tasks_forget_cancelled : fr fr_tasks.
Lemma fr_ntasks_forget_cancelled s : ntasks (forget_cancelled s) = ntasks s.
Proof. intros. unfold forget_cancelled. frame_ntasks. Qed.
#[export] Hint Rewrite fr_ntasks_forget_cancelled : fr fr_ntasks.
Lemma fr_calls_forget_cancelled s : calls (forget_cancelled s) = calls s.
Proof. intros. unfold forget_cancelled. frame_calls. Qed.
#[export] Hint Rewrite fr_calls_forget_cancelled : fr fr_calls.
Lemma fr_reqs_forget_cancelled s : reqs (forget_cancelled s) = reqs s.
Proof. intros. unfold forget_cancelled. frame_reqs. Qed.
#[export] Hint Rewrite fr_reqs_forget_cancelled : fr fr_reqs.
Lemma fr_nreqs_forget_cancelled s : nreqs (forget_cancelled s) = nreqs s.
Proof. intros. unfold forget_cancelled. frame_nreqs. Qed.
#[export] Hint Rewrite fr_nreqs_forget_cancelled : fr fr_nreqs.
Lemma fr_ready_forget_cancelled s : ready (forget_cancelled s) = ready s.
Proof. intros. unfold forget_cancelled. frame_ready. Qed.
#[export] Hint Rewrite fr_ready_forget_cancelled : fr fr_ready.
Lemma fr_pub_forget_cancelled s : pub (forget_cancelled s) = pub s.
Proof. intros. unfold forget_cancelled. frame_pub. Qed.
#[export] Hint Rewrite fr_pub_forget_cancelled : fr fr_pub.
Lemma fr_nsid_forget_cancelled s : nsid (forget_cancelled s) = nsid s.
Proof. intros. unfold forget_cancelled. frame_nsid. Qed.
#[export] Hint Rewrite fr_nsid_forget_cancelled : fr fr_nsid.
Lemma fr_lapsed_forget_cancelled s : lapsed (forget_cancelled s) = lapsed s.
Proof. intros. unfold forget_cancelled. frame_lapsed. Qed.
#[export] Hint Rewrite fr_lapsed_forget_cancelled : fr fr_lapsed.
Lemma fr_diverged_forget_cancelled s : diverged (forget_cancelled s) = diverged s.
Proof. intros. unfold forget_cancelled. frame_diverged. Qed.
#[export] Hint Rewrite fr_diverged_forget_cancelled : fr fr_diverged.
Lemma fr_g_overdue_forget_cancelled s : g_overdue (forget_cancelled s) = g_overdue s.
Proof. intros. unfold forget_cancelled. frame_g_overdue. Qed.
#[export] Hint Rewrite fr_g_overdue_forget_cancelled : fr fr_g_overdue.
Lemma fr_g_inflight_forget_cancelled s : g_inflight (forget_cancelled s) = g_inflight s.
Proof. intros. unfold forget_cancelled. frame_g_inflight. Qed.
#[export] Hint Rewrite fr_g_inflight_forget_cancelled : fr fr_g_inflight.
Lemma fr_g_maxdur_forget_cancelled s : g_maxdur (forget_cancelled s) = g_maxdur s.
Proof. intros. unfold forget_cancelled. frame_g_maxdur. Qed.
#[export] Hint Rewrite fr_g_maxdur_forget_cancelled : fr fr_g_maxdur.
Lemma fr_now_mark_inflight s lt : now (mark_inflight s lt) = now s.
Proof. intros. unfold mark_inflight. frame_now. Qed.
#[export] Hint Rewrite fr_now_mark_inflight : fr fr_now.
Lemma fr_svcs_mark_inflight s lt : svcs (mark_inflight s lt) = svcs s.
Proof. intros. unfold mark_inflight. frame_svcs. Qed.
#[export] Hint Rewrite fr_svcs_mark_inflight : fr fr_svcs.
Lemma fr_subs_mark_inflight s lt : subs (mark_inflight s lt) = subs s.
Proof. intros. unfold mark_inflight. frame_subs. Qed.
#[export] Hint Rewrite fr_subs_mark_inflight : fr fr_subs.
Lemma fr_routed_mark_inflight s lt : routed (mark_inflight s lt) = routed s.
Proof. intros. unfold mark_inflight. frame_routed. Qed.
#[export] Hint Rewrite fr_routed_mark_inflight : fr fr_routed.
Lemma fr_avail_mark_inflight s lt : avail (mark_inflight s lt) = avail s.
Proof. intros. unfold mark_inflight. frame_avail. Qed.
#[export] Hint Rewrite fr_avail_mark_inflight : fr fr_avail.
Lemma fr_evlog_mark_inflight s lt : evlog (mark_inflight s lt) = evlog s.
Proof. intros. unfold mark_inflight. frame_evlog. Qed.
#[export] Hint Rewrite fr_evlog_mark_inflight : fr fr_evlog.
Lemma fr_rtask_mark_inflight s lt : rtask (mark_inflight s lt) = rtask s.
Proof. intros. unfold mark_inflight. frame_rtask. Qed.
#[export] Hint Rewrite fr_rtask_mark_inflight : fr fr_rtask.
Lemma fr_tasks_mark_inflight s lt : tasks (mark_inflight s lt) = tasks s.
Proof. intros. unfold mark_inflight. frame_tasks. Qed.
#[export] Hint Rewrite fr_tasks_mark_inflight : fr fr_tasks.
Lemma fr_ntasks_mark_inflight s lt : ntasks (mark_inflight s lt) = ntasks s.
Proof. intros. unfold mark_inflight. frame_ntasks. Qed.
#[export] Hint Rewrite fr_ntasks_mark_inflight : fr fr_ntasks.
Lemma fr_calls_mark_inflight s lt : calls (mark_inflight s lt) = calls s.
Proof. intros. unfold mark_inflight. frame_calls. Qed.
#[export] Hint Rewrite fr_calls_mark_inflight : fr fr_calls.
Lemma fr_reqs_mark_inflight s lt : reqs (mark_inflight s lt) = reqs s.
Proof. intros. unfold mark_inflight. frame_reqs. Qed.
#[export] Hint Rewrite fr_reqs_mark_inflight : fr fr_reqs.
Lemma fr_nreqs_mark_inflight s lt : nreqs (mark_inflight s lt) = nreqs s.
Proof. intros. unfold mark_inflight. frame_nreqs. Qed.
#[export] Hint Rewrite fr_nreqs_mark_inflight : fr fr_nreqs.
Lemma fr_ready_mark_inflight s lt : ready (mark_inflight s lt) = ready s.
Proof. intros. unfold mark_inflight. frame_ready. Qed.
#[export] Hint Rewrite fr_ready_mark_inflight : fr fr_ready.
Lemma fr_pub_mark_inflight s lt : pub (mark_inflight s lt) = pub s.
Proof. intros. unfold mark_inflight. frame_pub. Qed.
#[export] Hint Rewrite fr_pub_mark_inflight : fr fr_pub.
Lemma fr_nsid_mark_inflight s lt : nsid (mark_inflight s lt) = nsid s.
Proof. intros. unfold mark_inflight. frame_nsid. Qed.
#[export] Hint Rewrite fr_nsid_mark_inflight : fr fr_nsid.
Lemma fr_lapsed_mark_inflight s lt : lapsed (mark_inflight s lt) = lapsed s.
Proof. intros. unfold mark_inflight. frame_lapsed. Qed.
#[export] Hint Rewrite fr_lapsed_mark_inflight : fr fr_lapsed.
Lemma fr_diverged_mark_inflight s lt : diverged (mark_inflight s lt) = diverged s.
Proof. intros. unfold mark_inflight. frame_diverged. Qed.
#[export] Hint Rewrite fr_diverged_mark_inflight : fr fr_diverged.
Lemma fr_g_overdue_mark_inflight s lt : g_overdue (mark_inflight s lt) = g_overdue s.
Proof. intros. unfold mark_inflight. frame_g_overdue. Qed.
#[export] Hint Rewrite fr_g_overdue_mark_inflight : fr fr_g_overdue.
Lemma fr_g_maxdur_mark_inflight s lt : g_maxdur (mark_inflight s lt) = g_maxdur s.
Proof. intros. unfold mark_inflight. frame_g_maxdur. Qed.
#[export] Hint Rewrite fr_g_maxdur_mark_inflight : fr fr_g_maxdur.
Lemma fr_now_await_task s t sids lt re : now (await_task s t sids lt re) = now s.
Proof. intros. unfold await_task. frame_now. Qed.
#[export] Hint Rewrite fr_now_await_task : fr fr_now.
Lemma fr_svcs_await_task s t sids lt re : svcs (await_task s t sids lt re) = svcs s.
Proof. intros. unfold await_task. frame_svcs. Qed.
#[export] Hint Rewrite fr_svcs_await_task : fr fr_svcs.
Lemma fr_subs_await_task s t sids lt re : subs (await_task s t sids lt re) = subs s.
Proof. intros. unfold await_task. frame_subs. Qed.
#[export] Hint Rewrite fr_subs_await_task : fr fr_subs.
Lemma fr_routed_await_task s t sids lt re : routed (await_task s t sids lt re) = routed s.
Proof. intros. unfold await_task. frame_routed. Qed.
#[export] Hint Rewrite fr_routed_await_task : fr fr_routed.
Lemma fr_avail_await_task s t sids lt re : avail (await_task s t sids lt re) = avail s.
Proof. intros. unfold await_task. frame_avail. Qed.
#[export] Hint Rewrite fr_avail_await_task : fr fr_avail.
Lemma fr_evlog_await_task s t sids lt re : evlog (await_task s t sids lt re) = evlog s.
Proof. intros. unfold await_task. frame_evlog. Qed.
#[export] Hint Rewrite fr_evlog_await_task : fr fr_evlog.
Lemma fr_calls_await_task s t sids lt re : calls (await_task s t sids lt re) = calls s.
Proof. intros. unfold await_task. frame_calls. Qed.
#[export] Hint Rewrite fr_calls_await_task : fr fr_calls.
Lemma fr_reqs_await_task s t sids lt re : reqs (await_task s t sids lt re) = reqs s.
Proof. intros. unfold await_task. frame_reqs. Qed.
#[export] Hint Rewrite fr_reqs_await_task : fr fr_reqs.
Lemma fr_nreqs_await_task s t sids lt re : nreqs (await_task s t sids lt re) = nreqs s.
Proof. intros. unfold await_task. frame_nreqs. Qed.
#[export] Hint Rewrite fr_nreqs_await_task : fr fr_nreqs.
Lemma fr_pub_await_task s t sids lt re : pub (await_task s t sids lt re) = pub s.
Proof. intros. unfold await_task. frame_pub. Qed.
#[export] Hint Rewrite fr_pub_await_task : fr fr_pub.
Lemma fr_nsid_await_task s t sids lt re : nsid (await_task s t sids lt re) = nsid s.
Proof. intros. unfold await_task. frame_nsid. Qed.
#[export] Hint Rewrite fr_nsid_await_task : fr fr_nsid.
Lemma fr_lapsed_await_task s t sids lt re : lapsed (await_task s t sids lt re) = lapsed s.
Proof. intros. unfold await_task. frame_lapsed. Qed.
#[export] Hint Rewrite fr_lapsed_await_task : fr fr_lapsed.
Lemma fr_diverged_await_task s t sids lt re : diverged (await_task s t sids lt re) = diverged s.
Proof. intros. unfold await_task. frame_diverged. Qed.
#[export] Hint Rewrite fr_diverged_await_task : fr fr_diverged.
Lemma fr_g_overdue_await_task s t sids lt re : g_overdue (await_task s t sids lt re) = g_overdue s.
Proof. intros. unfold await_task. frame_g_overdue. Qed.
#[export] Hint Rewrite fr_g_overdue_await_task : fr fr_g_overdue.
Lemma fr_g_inflight_await_task s t sids lt re : g_inflight (await_task s t sids lt re) = g_inflight s.
Proof. intros. unfold await_task. frame_g_inflight. Qed.
#[export] Hint Rewrite fr_g_inflight_await_task : fr fr_g_inflight.
Lemma fr_g_maxdur_await_task s t sids lt re : g_maxdur (await_task s t sids lt re) = g_maxdur s.
Proof. intros. unfold await_task. frame_g_maxdur. Qed.
#[export] Hint Rewrite fr_g_maxdur_await_task : fr fr_g_maxdur.
Lemma fr_now_unsub_services s t re : now (unsub_services s t re) = now s.
Proof. intros. unfold unsub_services. frame_now. Qed.
#[export] Hint Rewrite fr_now_unsub_services : fr fr_now.
Lemma fr_svcs_unsub_services s t re : svcs (unsub_services s t re) = svcs s.
Proof. intros. unfold unsub_services. frame_svcs. Qed.
#[export] Hint Rewrite fr_svcs_unsub_services : fr fr_svcs.
Lemma fr_routed_unsub_services s t re : routed (unsub_services s t re) = routed s.
Proof. intros. unfold unsub_services. frame_routed. Qed.
#[export] Hint Rewrite fr_routed_unsub_services : fr fr_routed.
Lemma fr_avail_unsub_services s t re : avail (unsub_services s t re) = avail s.
Proof. intros. unfold unsub_services. frame_avail. Qed.
#[export] Hint Rewrite fr_avail_unsub_services : fr fr_avail.
Lemma fr_evlog_unsub_services s t re : evlog (unsub_services s t re) = evlog s.
Proof. intros. unfold unsub_services. frame_evlog. Qed.
#[export] Hint Rewrite fr_evlog_unsub_services : fr fr_evlog.
Lemma fr_calls_unsub_services s t re : calls (unsub_services s t re) = calls s.
Proof. intros. unfold unsub_services. frame_calls. Qed.
#[export] Hint Rewrite fr_calls_unsub_services : fr fr_calls.
Lemma fr_nreqs_unsub_services s t re : nreqs (unsub_services s t re) = nreqs s.
Proof. intros. unfold unsub_services. frame_nreqs. Qed.
#[export] Hint Rewrite fr_nreqs_unsub_services : fr fr_nreqs.
Lemma fr_pub_unsub_services s t re : pub (unsub_services s t re) = pub s.
Proof. intros. unfold unsub_services. frame_pub. Qed.
#[export] Hint Rewrite fr_pub_unsub_services : fr fr_pub.
Lemma fr_nsid_unsub_services s t re : nsid (unsub_services s t re) = nsid s.
Proof. intros. unfold unsub_services. frame_nsid. Qed.
#[export] Hint Rewrite fr_nsid_unsub_services : fr fr_nsid.
Lemma fr_lapsed_unsub_services s t re : lapsed (unsub_services s t re) = lapsed s.
Proof. intros. unfold unsub_services. frame_lapsed. Qed.
#[export] Hint Rewrite fr_lapsed_unsub_services : fr fr_lapsed.
Lemma fr_diverged_unsub_services s t re : diverged (unsub_services s t re) = diverged s.
Proof. intros. unfold unsub_services. frame_diverged. Qed.
#[export] Hint Rewrite fr_diverged_unsub_services : fr fr_diverged.
Lemma fr_g_overdue_unsub_services s t re : g_overdue (unsub_services s t re) = g_overdue s.
Proof. intros. unfold unsub_services. frame_g_overdue. Qed.
#[export] Hint Rewrite fr_g_overdue_unsub_services : fr fr_g_overdue.
Lemma fr_g_maxdur_unsub_services s t re : g_maxdur (unsub_services s t re) = g_maxdur s.
Proof. intros. unfold unsub_services. frame_g_maxdur. Qed.
#[export] Hint Rewrite fr_g_maxdur_unsub_services : fr fr_g_maxdur.
Lemma fr_now_sub_post s t auto now0 : now (sub_post s t auto now0) = now s.
Proof. intros. unfold sub_post. frame_now. Qed.
#[export] Hint Rewrite fr_now_sub_post : fr fr_now.
Lemma fr_svcs_sub_post s t auto now0 : svcs (sub_post s t auto now0) = svcs s.
Proof. intros. unfold sub_post. frame_svcs. Qed.
#[export] Hint Rewrite fr_svcs_sub_post : fr fr_svcs.
Lemma fr_subs_sub_post s t auto now0 : subs (sub_post s t auto now0) = subs s.
Proof. intros. unfold sub_post. frame_subs. Qed.
#[export] Hint Rewrite fr_subs_sub_post : fr fr_subs.
Lemma fr_routed_sub_post s t auto now0 : routed (sub_post s t auto now0) = routed s.
Proof. intros. unfold sub_post. frame_routed. Qed.
#[export] Hint Rewrite fr_routed_sub_post : fr fr_routed.
Lemma fr_avail_sub_post s t auto now0 : avail (sub_post s t auto now0) = avail s.
Proof. intros. unfold sub_post. frame_avail. Qed.
#[export] Hint Rewrite fr_avail_sub_post : fr fr_avail.
Lemma fr_evlog_sub_post s t auto now0 : evlog (sub_post s t auto now0) = evlog s.
Proof. intros. unfold sub_post. frame_evlog. Qed.
#[export] Hint Rewrite fr_evlog_sub_post : fr fr_evlog.
Lemma fr_calls_sub_post s t auto now0 : calls (sub_post s t auto now0) = calls s.
Proof. intros. unfold sub_post. frame_calls. Qed.
#[export] Hint Rewrite fr_calls_sub_post : fr fr_calls.
Lemma fr_reqs_sub_post s t auto now0 : reqs (sub_post s t auto now0) = reqs s.
Proof. intros. unfold sub_post. frame_reqs. Qed.
#[export] Hint Rewrite fr_reqs_sub_post : fr fr_reqs.
Lemma fr_nreqs_sub_post s t auto now0 : nreqs (sub_post s t auto now0) = nreqs s.
Proof. intros. unfold sub_post. frame_nreqs. Qed.
#[export] Hint Rewrite fr_nreqs_sub_post : fr fr_nreqs.
Lemma fr_pub_sub_post s t auto now0 : pub (sub_post s t auto now0) = pub s.
Proof. intros. unfold sub_post. frame_pub. Qed.
#[export] Hint Rewrite fr_pub_sub_post : fr fr_pub.
Lemma fr_nsid_sub_post s t auto now0 : nsid (sub_post s t auto now0) = nsid s.
Proof. intros. unfold sub_post. frame_nsid. Qed.
#[export] Hint Rewrite fr_nsid_sub_post : fr fr_nsid.
Lemma fr_lapsed_sub_post s t auto now0 : lapsed (sub_post s t auto now0) = lapsed s.
Proof. intros. unfold sub_post. frame_lapsed. Qed.
#[export] Hint Rewrite fr_lapsed_sub_post : fr fr_lapsed.
Lemma fr_diverged_sub_post s t auto now0 : diverged (sub_post s t auto now0) = diverged s.
Proof. intros. unfold sub_post. frame_diverged. Qed.
#[export] Hint Rewrite fr_diverged_sub_post : fr fr_diverged.
Lemma fr_g_overdue_sub_post s t auto now0 : g_overdue (sub_post s t auto now0) = g_overdue s.
Proof. intros. unfold sub_post. frame_g_overdue. Qed.
#[export] Hint Rewrite fr_g_overdue_sub_post : fr fr_g_overdue.
Lemma fr_g_inflight_sub_post s t auto now0 : g_inflight (sub_post s t auto now0) = g_inflight s.
Proof. intros. unfold sub_post. frame_g_inflight. Qed.
#[export] Hint Rewrite fr_g_inflight_sub_post : fr fr_g_inflight.
Lemma fr_g_maxdur_sub_post s t auto now0 : g_maxdur (sub_post s t auto now0) = g_maxdur s.
Proof. intros. unfold sub_post. frame_g_maxdur. Qed.
#[export] Hint Rewrite fr_g_maxdur_sub_post : fr fr_g_maxdur.
Lemma fr_now_pass_scan s t pn nf todo : now (ost (pass_scan s t pn nf todo)) = now s.
Proof. revert s. induction todo as [|[x d] r IH]; intros s; cbn [pass_scan]; [reflexivity|].
  repeat first [rewrite IH | frame1_now]. Qed.
#[export] Hint Rewrite fr_now_pass_scan : fr fr_now.
Lemma fr_svcs_pass_scan s t pn nf todo : svcs (ost (pass_scan s t pn nf todo)) = svcs s.
Proof. revert s. induction todo as [|[x d] r IH]; intros s; cbn [pass_scan]; [reflexivity|].
  repeat first [rewrite IH | frame1_svcs]. Qed.
#[export] Hint Rewrite fr_svcs_pass_scan : fr fr_svcs.
Lemma fr_routed_pass_scan s t pn nf todo : routed (ost (pass_scan s t pn nf todo)) = routed s.
Proof. revert s. induction todo as [|[x d] r IH]; intros s; cbn [pass_scan]; [reflexivity|].
  repeat first [rewrite IH | frame1_routed]. Qed.
#[export] Hint Rewrite fr_routed_pass_scan : fr fr_routed.
Lemma fr_avail_pass_scan s t pn nf todo : avail (ost (pass_scan s t pn nf todo)) = avail s.
Proof. revert s. induction todo as [|[x d] r IH]; intros s; cbn [pass_scan]; [reflexivity|].
  repeat first [rewrite IH | frame1_avail]. Qed.
#[export] Hint Rewrite fr_avail_pass_scan : fr fr_avail.
Lemma fr_evlog_pass_scan s t pn nf todo : evlog (ost (pass_scan s t pn nf todo)) = evlog s.
Proof. revert s. induction todo as [|[x d] r IH]; intros s; cbn [pass_scan]; [reflexivity|].
  repeat first [rewrite IH | frame1_evlog]. Qed.
#[export] Hint Rewrite fr_evlog_pass_scan : fr fr_evlog.
Lemma fr_rtask_pass_scan s t pn nf todo : rtask (ost (pass_scan s t pn nf todo)) = rtask s.
Proof. revert s. induction todo as [|[x d] r IH]; intros s; cbn [pass_scan]; [reflexivity|].
  repeat first [rewrite IH | frame1_rtask]. Qed.
#[export] Hint Rewrite fr_rtask_pass_scan : fr fr_rtask.
Lemma fr_ntasks_pass_scan s t pn nf todo : ntasks (ost (pass_scan s t pn nf todo)) = ntasks s.
Proof. revert s. induction todo as [|[x d] r IH]; intros s; cbn [pass_scan]; [reflexivity|].
  repeat first [rewrite IH | frame1_ntasks]. Qed.
#[export] Hint Rewrite fr_ntasks_pass_scan : fr fr_ntasks.
Lemma fr_calls_pass_scan s t pn nf todo : calls (ost (pass_scan s t pn nf todo)) = calls s.
Proof. revert s. induction todo as [|[x d] r IH]; intros s; cbn [pass_scan]; [reflexivity|].
  repeat first [rewrite IH | frame1_calls]. Qed.
#[export] Hint Rewrite fr_calls_pass_scan : fr fr_calls.
Lemma fr_ready_pass_scan s t pn nf todo : ready (ost (pass_scan s t pn nf todo)) = ready s.
Proof. revert s. induction todo as [|[x d] r IH]; intros s; cbn [pass_scan]; [reflexivity|].
  repeat first [rewrite IH | frame1_ready]. Qed.
#[export] Hint Rewrite fr_ready_pass_scan : fr fr_ready.
Lemma fr_pub_pass_scan s t pn nf todo : pub (ost (pass_scan s t pn nf todo)) = pub s.
Proof. revert s. induction todo as [|[x d] r IH]; intros s; cbn [pass_scan]; [reflexivity|].
  repeat first [rewrite IH | frame1_pub]. Qed.
#[export] Hint Rewrite fr_pub_pass_scan : fr fr_pub.
Lemma fr_nsid_pass_scan s t pn nf todo : nsid (ost (pass_scan s t pn nf todo)) = nsid s.
Proof. revert s. induction todo as [|[x d] r IH]; intros s; cbn [pass_scan]; [reflexivity|].
  repeat first [rewrite IH | frame1_nsid]. Qed.
#[export] Hint Rewrite fr_nsid_pass_scan : fr fr_nsid.
Lemma fr_lapsed_pass_scan s t pn nf todo : lapsed (ost (pass_scan s t pn nf todo)) = lapsed s.
Proof. revert s. induction todo as [|[x d] r IH]; intros s; cbn [pass_scan]; [reflexivity|].
  repeat first [rewrite IH | frame1_lapsed]. Qed.
#[export] Hint Rewrite fr_lapsed_pass_scan : fr fr_lapsed.
Lemma fr_diverged_pass_scan s t pn nf todo : diverged (ost (pass_scan s t pn nf todo)) = diverged s.
Proof. revert s. induction todo as [|[x d] r IH]; intros s; cbn [pass_scan]; [reflexivity|].
  repeat first [rewrite IH | frame1_diverged]. Qed.
#[export] Hint Rewrite fr_diverged_pass_scan : fr fr_diverged.
Lemma fr_g_overdue_pass_scan s t pn nf todo : g_overdue (ost (pass_scan s t pn nf todo)) = g_overdue s.
Proof. revert s. induction todo as [|[x d] r IH]; intros s; cbn [pass_scan]; [reflexivity|].
  repeat first [rewrite IH | frame1_g_overdue]. Qed.
#[export] Hint Rewrite fr_g_overdue_pass_scan : fr fr_g_overdue.
Lemma fr_g_inflight_pass_scan s t pn nf todo : g_inflight (ost (pass_scan s t pn nf todo)) = g_inflight s.
Proof. revert s. induction todo as [|[x d] r IH]; intros s; cbn [pass_scan]; [reflexivity|].
  repeat first [rewrite IH | frame1_g_inflight]. Qed.
#[export] Hint Rewrite fr_g_inflight_pass_scan : fr fr_g_inflight.
Lemma fr_g_maxdur_pass_scan s t pn nf todo : g_maxdur (ost (pass_scan s t pn nf todo)) = g_maxdur s.
Proof. revert s. induction todo as [|[x d] r IH]; intros s; cbn [pass_scan]; [reflexivity|].
  repeat first [rewrite IH | frame1_g_maxdur]. Qed.
#[export] Hint Rewrite fr_g_maxdur_pass_scan : fr fr_g_maxdur.
Lemma fr_now_pass_error s t p e : now (ost (pass_error s t p e)) = now s.
Proof. intros. unfold pass_error. frame_now. Qed.
#[export] Hint Rewrite fr_now_pass_error : fr fr_now.
Lemma fr_svcs_pass_error s t p e : svcs (ost (pass_error s t p e)) = svcs s.
Proof. intros. unfold pass_error. frame_svcs. Qed.
#[export] Hint Rewrite fr_svcs_pass_error : fr fr_svcs.
Lemma fr_routed_pass_error s t p e : routed (ost (pass_error s t p e)) = routed s.
Proof. intros. unfold pass_error. frame_routed. Qed.
#[export] Hint Rewrite fr_routed_pass_error : fr fr_routed.
Lemma fr_rtask_pass_error s t p e : rtask (ost (pass_error s t p e)) = rtask s.
Proof. intros. unfold pass_error. frame_rtask. Qed.
#[export] Hint Rewrite fr_rtask_pass_error : fr fr_rtask.
Lemma fr_ntasks_pass_error s t p e : ntasks (ost (pass_error s t p e)) = ntasks s.
Proof. intros. unfold pass_error. frame_ntasks. Qed.
#[export] Hint Rewrite fr_ntasks_pass_error : fr fr_ntasks.
Lemma fr_calls_pass_error s t p e : calls (ost (pass_error s t p e)) = calls s.
Proof. intros. unfold pass_error. frame_calls. Qed.
#[export] Hint Rewrite fr_calls_pass_error : fr fr_calls.
Lemma fr_ready_pass_error s t p e : ready (ost (pass_error s t p e)) = ready s.
Proof. intros. unfold pass_error. frame_ready. Qed.
#[export] Hint Rewrite fr_ready_pass_error : fr fr_ready.
Lemma fr_pub_pass_error s t p e : pub (ost (pass_error s t p e)) = pub s.
Proof. intros. unfold pass_error. frame_pub. Qed.
#[export] Hint Rewrite fr_pub_pass_error : fr fr_pub.
Lemma fr_nsid_pass_error s t p e : nsid (ost (pass_error s t p e)) = nsid s.
Proof. intros. unfold pass_error. frame_nsid. Qed.
#[export] Hint Rewrite fr_nsid_pass_error : fr fr_nsid.
Lemma fr_lapsed_pass_error s t p e : lapsed (ost (pass_error s t p e)) = lapsed s.
Proof. intros. unfold pass_error. frame_lapsed. Qed.
#[export] Hint Rewrite fr_lapsed_pass_error : fr fr_lapsed.
Lemma fr_diverged_pass_error s t p e : diverged (ost (pass_error s t p e)) = diverged s.
Proof. intros. unfold pass_error. frame_diverged. Qed.
#[export] Hint Rewrite fr_diverged_pass_error : fr fr_diverged.
Lemma fr_g_overdue_pass_error s t p e : g_overdue (ost (pass_error s t p e)) = g_overdue s.
Proof. intros. unfold pass_error. frame_g_overdue. Qed.
#[export] Hint Rewrite fr_g_overdue_pass_error : fr fr_g_overdue.
Lemma fr_g_inflight_pass_error s t p e : g_inflight (ost (pass_error s t p e)) = g_inflight s.
Proof. intros. unfold pass_error. frame_g_inflight. Qed.
#[export] Hint Rewrite fr_g_inflight_pass_error : fr fr_g_inflight.
Lemma fr_g_maxdur_pass_error s t p e : g_maxdur (ost (pass_error s t p e)) = g_maxdur s.
Proof. intros. unfold pass_error. frame_g_maxdur. Qed.
#[export] Hint Rewrite fr_g_maxdur_pass_error : fr fr_g_maxdur.
Lemma fr_now_pass_grant s t p x g : now (ost (pass_grant s t p x g)) = now s.
Proof. intros. unfold pass_grant. frame_now. Qed.
#[export] Hint Rewrite fr_now_pass_grant : fr fr_now.
Lemma fr_svcs_pass_grant s t p x g : svcs (ost (pass_grant s t p x g)) = svcs s.
Proof. intros. unfold pass_grant. frame_svcs. Qed.
#[export] Hint Rewrite fr_svcs_pass_grant : fr fr_svcs.
Lemma fr_routed_pass_grant s t p x g : routed (ost (pass_grant s t p x g)) = routed s.
Proof. intros. unfold pass_grant. frame_routed. Qed.
#[export] Hint Rewrite fr_routed_pass_grant : fr fr_routed.
Lemma fr_avail_pass_grant s t p x g : avail (ost (pass_grant s t p x g)) = avail s.
Proof. intros. unfold pass_grant. frame_avail. Qed.
#[export] Hint Rewrite fr_avail_pass_grant : fr fr_avail.
Lemma fr_evlog_pass_grant s t p x g : evlog (ost (pass_grant s t p x g)) = evlog s.
Proof. intros. unfold pass_grant. frame_evlog. Qed.
#[export] Hint Rewrite fr_evlog_pass_grant : fr fr_evlog.
Lemma fr_rtask_pass_grant s t p x g : rtask (ost (pass_grant s t p x g)) = rtask s.
Proof. intros. unfold pass_grant. frame_rtask. Qed.
#[export] Hint Rewrite fr_rtask_pass_grant : fr fr_rtask.
Lemma fr_ntasks_pass_grant s t p x g : ntasks (ost (pass_grant s t p x g)) = ntasks s.
Proof. intros. unfold pass_grant. frame_ntasks. Qed.
#[export] Hint Rewrite fr_ntasks_pass_grant : fr fr_ntasks.
Lemma fr_calls_pass_grant s t p x g : calls (ost (pass_grant s t p x g)) = calls s.
Proof. intros. unfold pass_grant. frame_calls. Qed.
#[export] Hint Rewrite fr_calls_pass_grant : fr fr_calls.
Lemma fr_ready_pass_grant s t p x g : ready (ost (pass_grant s t p x g)) = ready s.
Proof. intros. unfold pass_grant. frame_ready. Qed.
#[export] Hint Rewrite fr_ready_pass_grant : fr fr_ready.
Lemma fr_pub_pass_grant s t p x g : pub (ost (pass_grant s t p x g)) = pub s.
Proof. intros. unfold pass_grant. frame_pub. Qed.
#[export] Hint Rewrite fr_pub_pass_grant : fr fr_pub.
Lemma fr_nsid_pass_grant s t p x g : nsid (ost (pass_grant s t p x g)) = nsid s.
Proof. intros. unfold pass_grant. frame_nsid. Qed.
#[export] Hint Rewrite fr_nsid_pass_grant : fr fr_nsid.
Lemma fr_lapsed_pass_grant s t p x g : lapsed (ost (pass_grant s t p x g)) = lapsed s.
Proof. intros. unfold pass_grant. frame_lapsed. Qed.
#[export] Hint Rewrite fr_lapsed_pass_grant : fr fr_lapsed.
Lemma fr_diverged_pass_grant s t p x g : diverged (ost (pass_grant s t p x g)) = diverged s.
Proof. intros. unfold pass_grant. frame_diverged. Qed.
#[export] Hint Rewrite fr_diverged_pass_grant : fr fr_diverged.
Lemma fr_g_overdue_pass_grant s t p x g : g_overdue (ost (pass_grant s t p x g)) = g_overdue s.
Proof. intros. unfold pass_grant. frame_g_overdue. Qed.
#[export] Hint Rewrite fr_g_overdue_pass_grant : fr fr_g_overdue.
Lemma fr_g_inflight_pass_grant s t p x g : g_inflight (ost (pass_grant s t p x g)) = g_inflight s.
Proof. intros. unfold pass_grant. frame_g_inflight. Qed.
#[export] Hint Rewrite fr_g_inflight_pass_grant : fr fr_g_inflight.
Lemma fr_g_maxdur_pass_grant s t p x g : g_maxdur (ost (pass_grant s t p x g)) = g_maxdur s.
Proof. intros. unfold pass_grant. frame_g_maxdur. Qed.
#[export] Hint Rewrite fr_g_maxdur_pass_grant : fr fr_g_maxdur.
Lemma fr_now_pass_resume s t p st rho hdr : now (ost (pass_resume s t p st rho hdr)) = now s.
Proof. intros. unfold pass_resume. frame_now. Qed.
#[export] Hint Rewrite fr_now_pass_resume : fr fr_now.
Lemma fr_svcs_pass_resume s t p st rho hdr : svcs (ost (pass_resume s t p st rho hdr)) = svcs s.
Proof. intros. unfold pass_resume. frame_svcs. Qed.
#[export] Hint Rewrite fr_svcs_pass_resume : fr fr_svcs.
Lemma fr_rtask_pass_resume s t p st rho hdr : rtask (ost (pass_resume s t p st rho hdr)) = rtask s.
Proof. intros. unfold pass_resume. frame_rtask. Qed.
#[export] Hint Rewrite fr_rtask_pass_resume : fr fr_rtask.
Lemma fr_ntasks_pass_resume s t p st rho hdr : ntasks (ost (pass_resume s t p st rho hdr)) = ntasks s.
Proof. intros. unfold pass_resume. frame_ntasks. Qed.
#[export] Hint Rewrite fr_ntasks_pass_resume : fr fr_ntasks.
Lemma fr_calls_pass_resume s t p st rho hdr : calls (ost (pass_resume s t p st rho hdr)) = calls s.
Proof. intros. unfold pass_resume. frame_calls. Qed.
#[export] Hint Rewrite fr_calls_pass_resume : fr fr_calls.
Lemma fr_ready_pass_resume s t p st rho hdr : ready (ost (pass_resume s t p st rho hdr)) = ready s.
Proof. intros. unfold pass_resume. frame_ready. Qed.
#[export] Hint Rewrite fr_ready_pass_resume : fr fr_ready.
Lemma fr_pub_pass_resume s t p st rho hdr : pub (ost (pass_resume s t p st rho hdr)) = pub s.
Proof. intros. unfold pass_resume. frame_pub. Qed.
#[export] Hint Rewrite fr_pub_pass_resume : fr fr_pub.
Lemma fr_nsid_pass_resume s t p st rho hdr : nsid (ost (pass_resume s t p st rho hdr)) = nsid s.
Proof. intros. unfold pass_resume. frame_nsid. Qed.
#[export] Hint Rewrite fr_nsid_pass_resume : fr fr_nsid.
Lemma fr_lapsed_pass_resume s t p st rho hdr : lapsed (ost (pass_resume s t p st rho hdr)) = lapsed s.
Proof. intros. unfold pass_resume. frame_lapsed. Qed.
#[export] Hint Rewrite fr_lapsed_pass_resume : fr fr_lapsed.
Lemma fr_diverged_pass_resume s t p st rho hdr : diverged (ost (pass_resume s t p st rho hdr)) = diverged s.
Proof. intros. unfold pass_resume. frame_diverged. Qed.
#[export] Hint Rewrite fr_diverged_pass_resume : fr fr_diverged.
Lemma fr_g_overdue_pass_resume s t p st rho hdr : g_overdue (ost (pass_resume s t p st rho hdr)) = g_overdue s.
Proof. intros. unfold pass_resume. frame_g_overdue. Qed.
#[export] Hint Rewrite fr_g_overdue_pass_resume : fr fr_g_overdue.
Lemma fr_g_inflight_pass_resume s t p st rho hdr : g_inflight (ost (pass_resume s t p st rho hdr)) = g_inflight s.
Proof. intros. unfold pass_resume. frame_g_inflight. Qed.
#[export] Hint Rewrite fr_g_inflight_pass_resume : fr fr_g_inflight.
Lemma fr_g_maxdur_pass_resume s t p st rho hdr : g_maxdur (ost (pass_resume s t p st rho hdr)) = g_maxdur s.
Proof. intros. unfold pass_resume. frame_g_maxdur. Qed.
#[export] Hint Rewrite fr_g_maxdur_pass_resume : fr fr_g_maxdur.
Lemma fr_now_run_pass s t : now (ost (run_pass s t)) = now s.
Proof. intros. unfold run_pass. frame_now. Qed.
#[export] Hint Rewrite fr_now_run_pass : fr fr_now.
Lemma fr_svcs_run_pass s t : svcs (ost (run_pass s t)) = svcs s.
Proof. intros. unfold run_pass. frame_svcs. Qed.
#[export] Hint Rewrite fr_svcs_run_pass : fr fr_svcs.
Lemma fr_routed_run_pass s t : routed (ost (run_pass s t)) = routed s.
Proof. intros. unfold run_pass. frame_routed. Qed.
#[export] Hint Rewrite fr_routed_run_pass : fr fr_routed.
Lemma fr_avail_run_pass s t : avail (ost (run_pass s t)) = avail s.
Proof. intros. unfold run_pass. frame_avail. Qed.
#[export] Hint Rewrite fr_avail_run_pass : fr fr_avail.
Lemma fr_evlog_run_pass s t : evlog (ost (run_pass s t)) = evlog s.
Proof. intros. unfold run_pass. frame_evlog. Qed.
#[export] Hint Rewrite fr_evlog_run_pass : fr fr_evlog.
Lemma fr_rtask_run_pass s t : rtask (ost (run_pass s t)) = rtask s.
Proof. intros. unfold run_pass. frame_rtask. Qed.
#[export] Hint Rewrite fr_rtask_run_pass : fr fr_rtask.
Lemma fr_ntasks_run_pass s t : ntasks (ost (run_pass s t)) = ntasks s.
Proof. intros. unfold run_pass. frame_ntasks. Qed.
#[export] Hint Rewrite fr_ntasks_run_pass : fr fr_ntasks.
Lemma fr_calls_run_pass s t : calls (ost (run_pass s t)) = calls s.
Proof. intros. unfold run_pass. frame_calls. Qed.
#[export] Hint Rewrite fr_calls_run_pass : fr fr_calls.
Lemma fr_ready_run_pass s t : ready (ost (run_pass s t)) = ready s.
Proof. intros. unfold run_pass. frame_ready. Qed.
#[export] Hint Rewrite fr_ready_run_pass : fr fr_ready.
Lemma fr_pub_run_pass s t : pub (ost (run_pass s t)) = pub s.
Proof. intros. unfold run_pass. frame_pub. Qed.
#[export] Hint Rewrite fr_pub_run_pass : fr fr_pub.
Lemma fr_nsid_run_pass s t : nsid (ost (run_pass s t)) = nsid s.
Proof. intros. unfold run_pass. frame_nsid. Qed.
#[export] Hint Rewrite fr_nsid_run_pass : fr fr_nsid.
Lemma fr_lapsed_run_pass s t : lapsed (ost (run_pass s t)) = lapsed s.
Proof. intros. unfold run_pass. frame_lapsed. Qed.
#[export] Hint Rewrite fr_lapsed_run_pass : fr fr_lapsed.
Lemma fr_diverged_run_pass s t : diverged (ost (run_pass s t)) = diverged s.
Proof. intros. unfold run_pass. frame_diverged. Qed.
#[export] Hint Rewrite fr_diverged_run_pass : fr fr_diverged.
Lemma fr_g_inflight_run_pass s t : g_inflight (ost (run_pass s t)) = g_inflight s.
Proof. intros. unfold run_pass. frame_g_inflight. Qed.
#[export] Hint Rewrite fr_g_inflight_run_pass : fr fr_g_inflight.
Lemma fr_g_maxdur_run_pass s t : g_maxdur (ost (run_pass s t)) = g_maxdur s.
Proof. intros. unfold run_pass. frame_g_maxdur. Qed.
#[export] Hint Rewrite fr_g_maxdur_run_pass : fr fr_g_maxdur.
Lemma fr_now_loop_head fuel s t : now (loop_head fuel s t) = now s.
Proof. revert s t. induction fuel as [|f IH]; intros s t; cbn [loop_head]; repeat first [rewrite IH | frame1_now]. Qed.
#[export] Hint Rewrite fr_now_loop_head : fr fr_now.
Lemma fr_svcs_loop_head fuel s t : svcs (loop_head fuel s t) = svcs s.
Proof. revert s t. induction fuel as [|f IH]; intros s t; cbn [loop_head]; repeat first [rewrite IH | frame1_svcs]. Qed.
#[export] Hint Rewrite fr_svcs_loop_head : fr fr_svcs.
Lemma fr_routed_loop_head fuel s t : routed (loop_head fuel s t) = routed s.
Proof. revert s t. induction fuel as [|f IH]; intros s t; cbn [loop_head]; repeat first [rewrite IH | frame1_routed]. Qed.
#[export] Hint Rewrite fr_routed_loop_head : fr fr_routed.
Lemma fr_avail_loop_head fuel s t : avail (loop_head fuel s t) = avail s.
Proof. revert s t. induction fuel as [|f IH]; intros s t; cbn [loop_head]; repeat first [rewrite IH | frame1_avail]. Qed.
#[export] Hint Rewrite fr_avail_loop_head : fr fr_avail.
Lemma fr_evlog_loop_head fuel s t : evlog (loop_head fuel s t) = evlog s.
Proof. revert s t. induction fuel as [|f IH]; intros s t; cbn [loop_head]; repeat first [rewrite IH | frame1_evlog]. Qed.
#[export] Hint Rewrite fr_evlog_loop_head : fr fr_evlog.
Lemma fr_rtask_loop_head fuel s t : rtask (loop_head fuel s t) = rtask s.
Proof. revert s t. induction fuel as [|f IH]; intros s t; cbn [loop_head]; repeat first [rewrite IH | frame1_rtask]. Qed.
#[export] Hint Rewrite fr_rtask_loop_head : fr fr_rtask.
Lemma fr_ntasks_loop_head fuel s t : ntasks (loop_head fuel s t) = ntasks s.
Proof. revert s t. induction fuel as [|f IH]; intros s t; cbn [loop_head]; repeat first [rewrite IH | frame1_ntasks]. Qed.
#[export] Hint Rewrite fr_ntasks_loop_head : fr fr_ntasks.
Lemma fr_calls_loop_head fuel s t : calls (loop_head fuel s t) = calls s.
Proof. revert s t. induction fuel as [|f IH]; intros s t; cbn [loop_head]; repeat first [rewrite IH | frame1_calls]. Qed.
#[export] Hint Rewrite fr_calls_loop_head : fr fr_calls.
Lemma fr_pub_loop_head fuel s t : pub (loop_head fuel s t) = pub s.
Proof. revert s t. induction fuel as [|f IH]; intros s t; cbn [loop_head]; repeat first [rewrite IH | frame1_pub]. Qed.
#[export] Hint Rewrite fr_pub_loop_head : fr fr_pub.
Lemma fr_nsid_loop_head fuel s t : nsid (loop_head fuel s t) = nsid s.
Proof. revert s t. induction fuel as [|f IH]; intros s t; cbn [loop_head]; repeat first [rewrite IH | frame1_nsid]. Qed.
#[export] Hint Rewrite fr_nsid_loop_head : fr fr_nsid.
Lemma fr_lapsed_loop_head fuel s t : lapsed (loop_head fuel s t) = lapsed s.
Proof. revert s t. induction fuel as [|f IH]; intros s t; cbn [loop_head]; repeat first [rewrite IH | frame1_lapsed]. Qed.
#[export] Hint Rewrite fr_lapsed_loop_head : fr fr_lapsed.
Lemma fr_g_inflight_loop_head fuel s t : g_inflight (loop_head fuel s t) = g_inflight s.
Proof. revert s t. induction fuel as [|f IH]; intros s t; cbn [loop_head]; repeat first [rewrite IH | frame1_g_inflight]. Qed.
#[export] Hint Rewrite fr_g_inflight_loop_head : fr fr_g_inflight.
Lemma fr_g_maxdur_loop_head fuel s t : g_maxdur (loop_head fuel s t) = g_maxdur s.
Proof. revert s t. induction fuel as [|f IH]; intros s t; cbn [loop_head]; repeat first [rewrite IH | frame1_g_maxdur]. Qed.
#[export] Hint Rewrite fr_g_maxdur_loop_head : fr fr_g_maxdur.
Lemma fr_now_after_pass_loop t o : now (after_pass_loop t o) = now (ost o).
Proof. intros. unfold after_pass_loop. destruct o; frame_now. Qed.
#[export] Hint Rewrite fr_now_after_pass_loop : fr fr_now.
Lemma fr_svcs_after_pass_loop t o : svcs (after_pass_loop t o) = svcs (ost o).
Proof. intros. unfold after_pass_loop. destruct o; frame_svcs. Qed.
#[export] Hint Rewrite fr_svcs_after_pass_loop : fr fr_svcs.
Lemma fr_routed_after_pass_loop t o : routed (after_pass_loop t o) = routed (ost o).
Proof. intros. unfold after_pass_loop. destruct o; frame_routed. Qed.
#[export] Hint Rewrite fr_routed_after_pass_loop : fr fr_routed.
Lemma fr_avail_after_pass_loop t o : avail (after_pass_loop t o) = avail (ost o).
Proof. intros. unfold after_pass_loop. destruct o; frame_avail. Qed.
#[export] Hint Rewrite fr_avail_after_pass_loop : fr fr_avail.
Lemma fr_evlog_after_pass_loop t o : evlog (after_pass_loop t o) = evlog (ost o).
Proof. intros. unfold after_pass_loop. destruct o; frame_evlog. Qed.
#[export] Hint Rewrite fr_evlog_after_pass_loop : fr fr_evlog.
Lemma fr_rtask_after_pass_loop t o : rtask (after_pass_loop t o) = rtask (ost o).
Proof. intros. unfold after_pass_loop. destruct o; frame_rtask. Qed.
#[export] Hint Rewrite fr_rtask_after_pass_loop : fr fr_rtask.
Lemma fr_ntasks_after_pass_loop t o : ntasks (after_pass_loop t o) = ntasks (ost o).
Proof. intros. unfold after_pass_loop. destruct o; frame_ntasks. Qed.
#[export] Hint Rewrite fr_ntasks_after_pass_loop : fr fr_ntasks.
Lemma fr_calls_after_pass_loop t o : calls (after_pass_loop t o) = calls (ost o).
Proof. intros. unfold after_pass_loop. destruct o; frame_calls. Qed.
#[export] Hint Rewrite fr_calls_after_pass_loop : fr fr_calls.
Lemma fr_pub_after_pass_loop t o : pub (after_pass_loop t o) = pub (ost o).
Proof. intros. unfold after_pass_loop. destruct o; frame_pub. Qed.
#[export] Hint Rewrite fr_pub_after_pass_loop : fr fr_pub.
Lemma fr_nsid_after_pass_loop t o : nsid (after_pass_loop t o) = nsid (ost o).
Proof. intros. unfold after_pass_loop. destruct o; frame_nsid. Qed.
#[export] Hint Rewrite fr_nsid_after_pass_loop : fr fr_nsid.
Lemma fr_lapsed_after_pass_loop t o : lapsed (after_pass_loop t o) = lapsed (ost o).
Proof. intros. unfold after_pass_loop. destruct o; frame_lapsed. Qed.
#[export] Hint Rewrite fr_lapsed_after_pass_loop : fr fr_lapsed.
Lemma fr_g_inflight_after_pass_loop t o : g_inflight (after_pass_loop t o) = g_inflight (ost o).
Proof. intros. unfold after_pass_loop. destruct o; frame_g_inflight. Qed.
#[export] Hint Rewrite fr_g_inflight_after_pass_loop : fr fr_g_inflight.
Lemma fr_g_maxdur_after_pass_loop t o : g_maxdur (after_pass_loop t o) = g_maxdur (ost o).
Proof. intros. unfold after_pass_loop. destruct o; frame_g_maxdur. Qed.
#[export] Hint Rewrite fr_g_maxdur_after_pass_loop : fr fr_g_maxdur.
Lemma fr_now_after_pass_sub t auto now0 o : now (after_pass_sub t auto now0 o) = now (ost o).
Proof. intros. unfold after_pass_sub. destruct o; frame_now. Qed.
#[export] Hint Rewrite fr_now_after_pass_sub : fr fr_now.
Lemma fr_svcs_after_pass_sub t auto now0 o : svcs (after_pass_sub t auto now0 o) = svcs (ost o).
Proof. intros. unfold after_pass_sub. destruct o; frame_svcs. Qed.
#[export] Hint Rewrite fr_svcs_after_pass_sub : fr fr_svcs.
Lemma fr_routed_after_pass_sub t auto now0 o : routed (after_pass_sub t auto now0 o) = routed (ost o).
Proof. intros. unfold after_pass_sub. destruct o; frame_routed. Qed.
#[export] Hint Rewrite fr_routed_after_pass_sub : fr fr_routed.
Lemma fr_avail_after_pass_sub t auto now0 o : avail (after_pass_sub t auto now0 o) = avail (ost o).
Proof. intros. unfold after_pass_sub. destruct o; frame_avail. Qed.
#[export] Hint Rewrite fr_avail_after_pass_sub : fr fr_avail.
Lemma fr_evlog_after_pass_sub t auto now0 o : evlog (after_pass_sub t auto now0 o) = evlog (ost o).
Proof. intros. unfold after_pass_sub. destruct o; frame_evlog. Qed.
#[export] Hint Rewrite fr_evlog_after_pass_sub : fr fr_evlog.
Lemma fr_calls_after_pass_sub t auto now0 o : calls (after_pass_sub t auto now0 o) = calls (ost o).
Proof. intros. unfold after_pass_sub. destruct o; frame_calls. Qed.
#[export] Hint Rewrite fr_calls_after_pass_sub : fr fr_calls.
Lemma fr_nreqs_after_pass_sub t auto now0 o : nreqs (after_pass_sub t auto now0 o) = nreqs (ost o).
Proof. intros. unfold after_pass_sub. destruct o; frame_nreqs. Qed.
#[export] Hint Rewrite fr_nreqs_after_pass_sub : fr fr_nreqs.
Lemma fr_pub_after_pass_sub t auto now0 o : pub (after_pass_sub t auto now0 o) = pub (ost o).
Proof. intros. unfold after_pass_sub. destruct o; frame_pub. Qed.
#[export] Hint Rewrite fr_pub_after_pass_sub : fr fr_pub.
Lemma fr_nsid_after_pass_sub t auto now0 o : nsid (after_pass_sub t auto now0 o) = nsid (ost o).
Proof. intros. unfold after_pass_sub. destruct o; frame_nsid. Qed.
#[export] Hint Rewrite fr_nsid_after_pass_sub : fr fr_nsid.
Lemma fr_lapsed_after_pass_sub t auto now0 o : lapsed (after_pass_sub t auto now0 o) = lapsed (ost o).
Proof. intros. unfold after_pass_sub. destruct o; frame_lapsed. Qed.
#[export] Hint Rewrite fr_lapsed_after_pass_sub : fr fr_lapsed.
Lemma fr_diverged_after_pass_sub t auto now0 o : diverged (after_pass_sub t auto now0 o) = diverged (ost o).
Proof. intros. unfold after_pass_sub. destruct o; frame_diverged. Qed.
#[export] Hint Rewrite fr_diverged_after_pass_sub : fr fr_diverged.
Lemma fr_g_overdue_after_pass_sub t auto now0 o : g_overdue (after_pass_sub t auto now0 o) = g_overdue (ost o).
Proof. intros. unfold after_pass_sub. destruct o; frame_g_overdue. Qed.
#[export] Hint Rewrite fr_g_overdue_after_pass_sub : fr fr_g_overdue.
Lemma fr_g_maxdur_after_pass_sub t auto now0 o : g_maxdur (after_pass_sub t auto now0 o) = g_maxdur (ost o).
Proof. intros. unfold after_pass_sub. destruct o; frame_g_maxdur. Qed.
#[export] Hint Rewrite fr_g_maxdur_after_pass_sub : fr fr_g_maxdur.
Lemma fr_now_sub_next s t auto now0 todo : now (sub_next s t auto now0 todo) = now s.
Proof. intros. unfold sub_next. frame_now. Qed.
#[export] Hint Rewrite fr_now_sub_next : fr fr_now.
Lemma fr_svcs_sub_next s t auto now0 todo : svcs (sub_next s t auto now0 todo) = svcs s.
Proof. intros. unfold sub_next. frame_svcs. Qed.
#[export] Hint Rewrite fr_svcs_sub_next : fr fr_svcs.
Lemma fr_subs_sub_next s t auto now0 todo : subs (sub_next s t auto now0 todo) = subs s.
Proof. intros. unfold sub_next. frame_subs. Qed.
#[export] Hint Rewrite fr_subs_sub_next : fr fr_subs.
Lemma fr_routed_sub_next s t auto now0 todo : routed (sub_next s t auto now0 todo) = routed s.
Proof. intros. unfold sub_next. frame_routed. Qed.
#[export] Hint Rewrite fr_routed_sub_next : fr fr_routed.
Lemma fr_avail_sub_next s t auto now0 todo : avail (sub_next s t auto now0 todo) = avail s.
Proof. intros. unfold sub_next. frame_avail. Qed.
#[export] Hint Rewrite fr_avail_sub_next : fr fr_avail.
Lemma fr_evlog_sub_next s t auto now0 todo : evlog (sub_next s t auto now0 todo) = evlog s.
Proof. intros. unfold sub_next. frame_evlog. Qed.
#[export] Hint Rewrite fr_evlog_sub_next : fr fr_evlog.
Lemma fr_calls_sub_next s t auto now0 todo : calls (sub_next s t auto now0 todo) = calls s.
Proof. intros. unfold sub_next. frame_calls. Qed.
#[export] Hint Rewrite fr_calls_sub_next : fr fr_calls.
Lemma fr_pub_sub_next s t auto now0 todo : pub (sub_next s t auto now0 todo) = pub s.
Proof. intros. unfold sub_next. frame_pub. Qed.
#[export] Hint Rewrite fr_pub_sub_next : fr fr_pub.
Lemma fr_nsid_sub_next s t auto now0 todo : nsid (sub_next s t auto now0 todo) = nsid s.
Proof. intros. unfold sub_next. frame_nsid. Qed.
#[export] Hint Rewrite fr_nsid_sub_next : fr fr_nsid.
Lemma fr_lapsed_sub_next s t auto now0 todo : lapsed (sub_next s t auto now0 todo) = lapsed s.
Proof. intros. unfold sub_next. frame_lapsed. Qed.
#[export] Hint Rewrite fr_lapsed_sub_next : fr fr_lapsed.
Lemma fr_diverged_sub_next s t auto now0 todo : diverged (sub_next s t auto now0 todo) = diverged s.
Proof. intros. unfold sub_next. frame_diverged. Qed.
#[export] Hint Rewrite fr_diverged_sub_next : fr fr_diverged.
Lemma fr_g_overdue_sub_next s t auto now0 todo : g_overdue (sub_next s t auto now0 todo) = g_overdue s.
Proof. intros. unfold sub_next. frame_g_overdue. Qed.
#[export] Hint Rewrite fr_g_overdue_sub_next : fr fr_g_overdue.
Lemma fr_g_inflight_sub_next s t auto now0 todo : g_inflight (sub_next s t auto now0 todo) = g_inflight s.
Proof. intros. unfold sub_next. frame_g_inflight. Qed.
#[export] Hint Rewrite fr_g_inflight_sub_next : fr fr_g_inflight.
Lemma fr_g_maxdur_sub_next s t auto now0 todo : g_maxdur (sub_next s t auto now0 todo) = g_maxdur s.
Proof. intros. unfold sub_next. frame_g_maxdur. Qed.
#[export] Hint Rewrite fr_g_maxdur_sub_next : fr fr_g_maxdur.
Lemma fr_now_sub_resume s t auto now0 todo v rho hdr : now (sub_resume s t auto now0 todo v rho hdr) = now s.
Proof. intros. unfold sub_resume. frame_now. Qed.
#[export] Hint Rewrite fr_now_sub_resume : fr fr_now.
Lemma fr_svcs_sub_resume s t auto now0 todo v rho hdr : svcs (sub_resume s t auto now0 todo v rho hdr) = svcs s.
Proof. intros. unfold sub_resume. frame_svcs. Qed.
#[export] Hint Rewrite fr_svcs_sub_resume : fr fr_svcs.
Lemma fr_avail_sub_resume s t auto now0 todo v rho hdr : avail (sub_resume s t auto now0 todo v rho hdr) = avail s.
Proof. intros. unfold sub_resume. frame_avail. Qed.
#[export] Hint Rewrite fr_avail_sub_resume : fr fr_avail.
Lemma fr_evlog_sub_resume s t auto now0 todo v rho hdr : evlog (sub_resume s t auto now0 todo v rho hdr) = evlog s.
Proof. intros. unfold sub_resume. frame_evlog. Qed.
#[export] Hint Rewrite fr_evlog_sub_resume : fr fr_evlog.
Lemma fr_calls_sub_resume s t auto now0 todo v rho hdr : calls (sub_resume s t auto now0 todo v rho hdr) = calls s.
Proof. intros. unfold sub_resume. frame_calls. Qed.
#[export] Hint Rewrite fr_calls_sub_resume : fr fr_calls.
Lemma fr_pub_sub_resume s t auto now0 todo v rho hdr : pub (sub_resume s t auto now0 todo v rho hdr) = pub s.
Proof. intros. unfold sub_resume. frame_pub. Qed.
#[export] Hint Rewrite fr_pub_sub_resume : fr fr_pub.
Lemma fr_nsid_sub_resume s t auto now0 todo v rho hdr : nsid (sub_resume s t auto now0 todo v rho hdr) = nsid s.
Proof. intros. unfold sub_resume. frame_nsid. Qed.
#[export] Hint Rewrite fr_nsid_sub_resume : fr fr_nsid.
Lemma fr_lapsed_sub_resume s t auto now0 todo v rho hdr : lapsed (sub_resume s t auto now0 todo v rho hdr) = lapsed s.
Proof. intros. unfold sub_resume. frame_lapsed. Qed.
#[export] Hint Rewrite fr_lapsed_sub_resume : fr fr_lapsed.
Lemma fr_diverged_sub_resume s t auto now0 todo v rho hdr : diverged (sub_resume s t auto now0 todo v rho hdr) = diverged s.
Proof. intros. unfold sub_resume. frame_diverged. Qed.
#[export] Hint Rewrite fr_diverged_sub_resume : fr fr_diverged.
Lemma fr_g_overdue_sub_resume s t auto now0 todo v rho hdr : g_overdue (sub_resume s t auto now0 todo v rho hdr) = g_overdue s.
Proof. intros. unfold sub_resume. frame_g_overdue. Qed.
#[export] Hint Rewrite fr_g_overdue_sub_resume : fr fr_g_overdue.
Lemma fr_g_maxdur_sub_resume s t auto now0 todo v rho hdr : g_maxdur (sub_resume s t auto now0 todo v rho hdr) = g_maxdur s.
Proof. intros. unfold sub_resume. frame_g_maxdur. Qed.
#[export] Hint Rewrite fr_g_maxdur_sub_resume : fr fr_g_maxdur.
Lemma fr_now_start_body s t : now (start_body s t) = now s.
Proof. intros. unfold start_body. frame_now. Qed.
#[export] Hint Rewrite fr_now_start_body : fr fr_now.
Lemma fr_svcs_start_body s t : svcs (start_body s t) = svcs s.
Proof. intros. unfold start_body. frame_svcs. Qed.
#[export] Hint Rewrite fr_svcs_start_body : fr fr_svcs.
Lemma fr_avail_start_body s t : avail (start_body s t) = avail s.
Proof. intros. unfold start_body. frame_avail. Qed.
#[export] Hint Rewrite fr_avail_start_body : fr fr_avail.
Lemma fr_evlog_start_body s t : evlog (start_body s t) = evlog s.
Proof. intros. unfold start_body. frame_evlog. Qed.
#[export] Hint Rewrite fr_evlog_start_body : fr fr_evlog.
Lemma fr_calls_start_body s t : calls (start_body s t) = calls s.
Proof. intros. unfold start_body. frame_calls. Qed.
#[export] Hint Rewrite fr_calls_start_body : fr fr_calls.
Lemma fr_pub_start_body s t : pub (start_body s t) = pub s.
Proof. intros. unfold start_body. frame_pub. Qed.
#[export] Hint Rewrite fr_pub_start_body : fr fr_pub.
Lemma fr_nsid_start_body s t : nsid (start_body s t) = nsid s.
Proof. intros. unfold start_body. frame_nsid. Qed.
#[export] Hint Rewrite fr_nsid_start_body : fr fr_nsid.
Lemma fr_lapsed_start_body s t : lapsed (start_body s t) = lapsed s.
Proof. intros. unfold start_body. frame_lapsed. Qed.
#[export] Hint Rewrite fr_lapsed_start_body : fr fr_lapsed.
Lemma fr_g_maxdur_start_body s t : g_maxdur (start_body s t) = g_maxdur s.
Proof. intros. unfold start_body. frame_g_maxdur. Qed.
#[export] Hint Rewrite fr_g_maxdur_start_body : fr fr_g_maxdur.
Lemma fr_now_step_task s t : now (step_task s t) = now s.
Proof. intros. unfold step_task. frame_now. Qed.
#[export] Hint Rewrite fr_now_step_task : fr fr_now.
Lemma fr_svcs_step_task s t : svcs (step_task s t) = svcs s.
Proof. intros. unfold step_task. frame_svcs. Qed.
#[export] Hint Rewrite fr_svcs_step_task : fr fr_svcs.
Lemma fr_calls_step_task s t : calls (step_task s t) = calls s.
Proof. intros. unfold step_task. frame_calls. Qed.
#[export] Hint Rewrite fr_calls_step_task : fr fr_calls.
Lemma fr_pub_step_task s t : pub (step_task s t) = pub s.
Proof. intros. unfold step_task. frame_pub. Qed.
#[export] Hint Rewrite fr_pub_step_task : fr fr_pub.
Lemma fr_nsid_step_task s t : nsid (step_task s t) = nsid s.
Proof. intros. unfold step_task. frame_nsid. Qed.
#[export] Hint Rewrite fr_nsid_step_task : fr fr_nsid.
Lemma fr_lapsed_step_task s t : lapsed (step_task s t) = lapsed s.
Proof. intros. unfold step_task. frame_lapsed. Qed.
#[export] Hint Rewrite fr_lapsed_step_task : fr fr_lapsed.
Lemma fr_g_maxdur_step_task s t : g_maxdur (step_task s t) = g_maxdur s.
Proof. intros. unfold step_task. frame_g_maxdur. Qed.
#[export] Hint Rewrite fr_g_maxdur_step_task : fr fr_g_maxdur.
Lemma fr_now_run_handle s h : now (run_handle s h) = now s.
Proof. intros. unfold run_handle. frame_now. Qed.
#[export] Hint Rewrite fr_now_run_handle : fr fr_now.
Lemma fr_svcs_run_handle s h : svcs (run_handle s h) = svcs s.
Proof. intros. unfold run_handle. frame_svcs. Qed.
#[export] Hint Rewrite fr_svcs_run_handle : fr fr_svcs.
Lemma fr_calls_run_handle s h : calls (run_handle s h) = calls s.
Proof. intros. unfold run_handle. frame_calls. Qed.
#[export] Hint Rewrite fr_calls_run_handle : fr fr_calls.
Lemma fr_pub_run_handle s h : pub (run_handle s h) = pub s.
Proof. intros. unfold run_handle. frame_pub. Qed.
#[export] Hint Rewrite fr_pub_run_handle : fr fr_pub.
Lemma fr_nsid_run_handle s h : nsid (run_handle s h) = nsid s.
Proof. intros. unfold run_handle. frame_nsid. Qed.
#[export] Hint Rewrite fr_nsid_run_handle : fr fr_nsid.
Lemma fr_lapsed_run_handle s h : lapsed (run_handle s h) = lapsed s.
Proof. intros. unfold run_handle. frame_lapsed. Qed.
#[export] Hint Rewrite fr_lapsed_run_handle : fr fr_lapsed.
Lemma fr_g_maxdur_run_handle s h : g_maxdur (run_handle s h) = g_maxdur s.
Proof. intros. unfold run_handle. frame_g_maxdur. Qed.
#[export] Hint Rewrite fr_g_maxdur_run_handle : fr fr_g_maxdur.
Lemma fr_now_iterate s : now (iterate s) = now s.
Proof. intros. unfold iterate. rewrite (fold_left_pres now); [reflexivity | intros; apply fr_now_run_handle]. Qed.
#[export] Hint Rewrite fr_now_iterate : fr fr_now.
Lemma fr_svcs_iterate s : svcs (iterate s) = svcs s.
Proof. intros. unfold iterate. rewrite (fold_left_pres svcs); [reflexivity | intros; apply fr_svcs_run_handle]. Qed.
#[export] Hint Rewrite fr_svcs_iterate : fr fr_svcs.
Lemma fr_calls_iterate s : calls (iterate s) = calls s.
Proof. intros. unfold iterate. rewrite (fold_left_pres calls); [reflexivity | intros; apply fr_calls_run_handle]. Qed.
#[export] Hint Rewrite fr_calls_iterate : fr fr_calls.
Lemma fr_pub_iterate s : pub (iterate s) = pub s.
Proof. intros. unfold iterate. rewrite (fold_left_pres pub); [reflexivity | intros; apply fr_pub_run_handle]. Qed.
#[export] Hint Rewrite fr_pub_iterate : fr fr_pub.
Lemma fr_nsid_iterate s : nsid (iterate s) = nsid s.
Proof. intros. unfold iterate. rewrite (fold_left_pres nsid); [reflexivity | intros; apply fr_nsid_run_handle]. Qed.
#[export] Hint Rewrite fr_nsid_iterate : fr fr_nsid.
Lemma fr_lapsed_iterate s : lapsed (iterate s) = lapsed s.
Proof. intros. unfold iterate. rewrite (fold_left_pres lapsed); [reflexivity | intros; apply fr_lapsed_run_handle]. Qed.
#[export] Hint Rewrite fr_lapsed_iterate : fr fr_lapsed.
Lemma fr_g_maxdur_iterate s : g_maxdur (iterate s) = g_maxdur s.
Proof. intros. unfold iterate. rewrite (fold_left_pres g_maxdur); [reflexivity | intros; apply fr_g_maxdur_run_handle]. Qed.
#[export] Hint Rewrite fr_g_maxdur_iterate : fr fr_g_maxdur.
Lemma fr_svcs_advance s dt : svcs (advance s dt) = svcs s.
Proof. intros. unfold advance. frame_svcs. Qed.
#[export] Hint Rewrite fr_svcs_advance : fr fr_svcs.
Lemma fr_subs_advance s dt : subs (advance s dt) = subs s.
Proof. intros. unfold advance. frame_subs. Qed.
#[export] Hint Rewrite fr_subs_advance : fr fr_subs.
Lemma fr_routed_advance s dt : routed (advance s dt) = routed s.
Proof. intros. unfold advance. frame_routed. Qed.
#[export] Hint Rewrite fr_routed_advance : fr fr_routed.
Lemma fr_avail_advance s dt : avail (advance s dt) = avail s.
Proof. intros. unfold advance. frame_avail. Qed.
#[export] Hint Rewrite fr_avail_advance : fr fr_avail.
Lemma fr_evlog_advance s dt : evlog (advance s dt) = evlog s.
Proof. intros. unfold advance. frame_evlog. Qed.
#[export] Hint Rewrite fr_evlog_advance : fr fr_evlog.
Lemma fr_rtask_advance s dt : rtask (advance s dt) = rtask s.
Proof. intros. unfold advance. frame_rtask. Qed.
#[export] Hint Rewrite fr_rtask_advance : fr fr_rtask.
Lemma fr_tasks_advance s dt : tasks (advance s dt) = tasks s.
Proof. intros. unfold advance. frame_tasks. Qed.
#[export] Hint Rewrite fr_tasks_advance : fr fr_tasks.
Lemma fr_ntasks_advance s dt : ntasks (advance s dt) = ntasks s.
Proof. intros. unfold advance. frame_ntasks. Qed.
#[export] Hint Rewrite fr_ntasks_advance : fr fr_ntasks.
Lemma fr_calls_advance s dt : calls (advance s dt) = calls s.
Proof. intros. unfold advance. frame_calls. Qed.
#[export] Hint Rewrite fr_calls_advance : fr fr_calls.
Lemma fr_reqs_advance s dt : reqs (advance s dt) = reqs s.
Proof. intros. unfold advance. frame_reqs. Qed.
#[export] Hint Rewrite fr_reqs_advance : fr fr_reqs.
Lemma fr_nreqs_advance s dt : nreqs (advance s dt) = nreqs s.
Proof. intros. unfold advance. frame_nreqs. Qed.
#[export] Hint Rewrite fr_nreqs_advance : fr fr_nreqs.
Lemma fr_ready_advance s dt : ready (advance s dt) = ready s.
Proof. intros. unfold advance. frame_ready. Qed.
#[export] Hint Rewrite fr_ready_advance : fr fr_ready.
Lemma fr_pub_advance s dt : pub (advance s dt) = pub s.
Proof. intros. unfold advance. frame_pub. Qed.
#[export] Hint Rewrite fr_pub_advance : fr fr_pub.
Lemma fr_nsid_advance s dt : nsid (advance s dt) = nsid s.
Proof. intros. unfold advance. frame_nsid. Qed.
#[export] Hint Rewrite fr_nsid_advance : fr fr_nsid.
Lemma fr_lapsed_advance s dt : lapsed (advance s dt) = lapsed s.
Proof. intros. unfold advance. frame_lapsed. Qed.
#[export] Hint Rewrite fr_lapsed_advance : fr fr_lapsed.
Lemma fr_diverged_advance s dt : diverged (advance s dt) = diverged s.
Proof. intros. unfold advance. frame_diverged. Qed.
#[export] Hint Rewrite fr_diverged_advance : fr fr_diverged.
Lemma fr_g_overdue_advance s dt : g_overdue (advance s dt) = g_overdue s.
Proof. intros. unfold advance. frame_g_overdue. Qed.
#[export] Hint Rewrite fr_g_overdue_advance : fr fr_g_overdue.
Lemma fr_g_inflight_advance s dt : g_inflight (advance s dt) = g_inflight s.
Proof. intros. unfold advance. frame_g_inflight. Qed.
#[export] Hint Rewrite fr_g_inflight_advance : fr fr_g_inflight.
Lemma fr_now_publisher s q rho : now (fst (publisher s q rho)) = now s.
Proof. intros. unfold publisher. frame_now. Qed.
#[export] Hint Rewrite fr_now_publisher : fr fr_now.
Lemma fr_svcs_publisher s q rho : svcs (fst (publisher s q rho)) = svcs s.
Proof. intros. unfold publisher. frame_svcs. Qed.
#[export] Hint Rewrite fr_svcs_publisher : fr fr_svcs.
Lemma fr_subs_publisher s q rho : subs (fst (publisher s q rho)) = subs s.
Proof. intros. unfold publisher. frame_subs. Qed.
#[export] Hint Rewrite fr_subs_publisher : fr fr_subs.
Lemma fr_routed_publisher s q rho : routed (fst (publisher s q rho)) = routed s.
Proof. intros. unfold publisher. frame_routed. Qed.
#[export] Hint Rewrite fr_routed_publisher : fr fr_routed.
Lemma fr_avail_publisher s q rho : avail (fst (publisher s q rho)) = avail s.
Proof. intros. unfold publisher. frame_avail. Qed.
#[export] Hint Rewrite fr_avail_publisher : fr fr_avail.
Lemma fr_evlog_publisher s q rho : evlog (fst (publisher s q rho)) = evlog s.
Proof. intros. unfold publisher. frame_evlog. Qed.
#[export] Hint Rewrite fr_evlog_publisher : fr fr_evlog.
Lemma fr_rtask_publisher s q rho : rtask (fst (publisher s q rho)) = rtask s.
Proof. intros. unfold publisher. frame_rtask. Qed.
#[export] Hint Rewrite fr_rtask_publisher : fr fr_rtask.
Lemma fr_tasks_publisher s q rho : tasks (fst (publisher s q rho)) = tasks s.
Proof. intros. unfold publisher. frame_tasks. Qed.
#[export] Hint Rewrite fr_tasks_publisher : fr fr_tasks.
Lemma fr_ntasks_publisher s q rho : ntasks (fst (publisher s q rho)) = ntasks s.
Proof. intros. unfold publisher. frame_ntasks. Qed.
#[export] Hint Rewrite fr_ntasks_publisher : fr fr_ntasks.
Lemma fr_calls_publisher s q rho : calls (fst (publisher s q rho)) = calls s.
Proof. intros. unfold publisher. frame_calls. Qed.
#[export] Hint Rewrite fr_calls_publisher : fr fr_calls.
Lemma fr_reqs_publisher s q rho : reqs (fst (publisher s q rho)) = reqs s.
Proof. intros. unfold publisher. frame_reqs. Qed.
#[export] Hint Rewrite fr_reqs_publisher : fr fr_reqs.
Lemma fr_nreqs_publisher s q rho : nreqs (fst (publisher s q rho)) = nreqs s.
Proof. intros. unfold publisher. frame_nreqs. Qed.
#[export] Hint Rewrite fr_nreqs_publisher : fr fr_nreqs.
Lemma fr_ready_publisher s q rho : ready (fst (publisher s q rho)) = ready s.
Proof. intros. unfold publisher. frame_ready. Qed.
#[export] Hint Rewrite fr_ready_publisher : fr fr_ready.
Lemma fr_diverged_publisher s q rho : diverged (fst (publisher s q rho)) = diverged s.
Proof. intros. unfold publisher. frame_diverged. Qed.
#[export] Hint Rewrite fr_diverged_publisher : fr fr_diverged.
Lemma fr_g_overdue_publisher s q rho : g_overdue (fst (publisher s q rho)) = g_overdue s.
Proof. intros. unfold publisher. frame_g_overdue. Qed.
#[export] Hint Rewrite fr_g_overdue_publisher : fr fr_g_overdue.
Lemma fr_g_inflight_publisher s q rho : g_inflight (fst (publisher s q rho)) = g_inflight s.
Proof. intros. unfold publisher. frame_g_inflight. Qed.
#[export] Hint Rewrite fr_g_inflight_publisher : fr fr_g_inflight.
Lemma fr_g_maxdur_publisher s q rho : g_maxdur (fst (publisher s q rho)) = g_maxdur s.
Proof. intros. unfold publisher. frame_g_maxdur. Qed.
#[export] Hint Rewrite fr_g_maxdur_publisher : fr fr_g_maxdur.
Lemma fr_now_deliver s r rho : now (deliver s r rho) = now s.
Proof. intros. unfold deliver. frame_now. Qed.
#[export] Hint Rewrite fr_now_deliver : fr fr_now.
Lemma fr_svcs_deliver s r rho : svcs (deliver s r rho) = svcs s.
Proof. intros. unfold deliver. frame_svcs. Qed.
#[export] Hint Rewrite fr_svcs_deliver : fr fr_svcs.
Lemma fr_subs_deliver s r rho : subs (deliver s r rho) = subs s.
Proof. intros. unfold deliver. frame_subs. Qed.
#[export] Hint Rewrite fr_subs_deliver : fr fr_subs.
Lemma fr_routed_deliver s r rho : routed (deliver s r rho) = routed s.
Proof. intros. unfold deliver. frame_routed. Qed.
#[export] Hint Rewrite fr_routed_deliver : fr fr_routed.
Lemma fr_avail_deliver s r rho : avail (deliver s r rho) = avail s.
Proof. intros. unfold deliver. frame_avail. Qed.
#[export] Hint Rewrite fr_avail_deliver : fr fr_avail.
Lemma fr_evlog_deliver s r rho : evlog (deliver s r rho) = evlog s.
Proof. intros. unfold deliver. frame_evlog. Qed.
#[export] Hint Rewrite fr_evlog_deliver : fr fr_evlog.
Lemma fr_rtask_deliver s r rho : rtask (deliver s r rho) = rtask s.
Proof. intros. unfold deliver. frame_rtask. Qed.
#[export] Hint Rewrite fr_rtask_deliver : fr fr_rtask.
Lemma fr_tasks_deliver s r rho : tasks (deliver s r rho) = tasks s.
Proof. intros. unfold deliver. frame_tasks. Qed.
#[export] Hint Rewrite fr_tasks_deliver : fr fr_tasks.
Lemma fr_ntasks_deliver s r rho : ntasks (deliver s r rho) = ntasks s.
Proof. intros. unfold deliver. frame_ntasks. Qed.
#[export] Hint Rewrite fr_ntasks_deliver : fr fr_ntasks.
Lemma fr_calls_deliver s r rho : calls (deliver s r rho) = calls s.
Proof. intros. unfold deliver. frame_calls. Qed.
#[export] Hint Rewrite fr_calls_deliver : fr fr_calls.
Lemma fr_nreqs_deliver s r rho : nreqs (deliver s r rho) = nreqs s.
Proof. intros. unfold deliver. frame_nreqs. Qed.
#[export] Hint Rewrite fr_nreqs_deliver : fr fr_nreqs.
Lemma fr_diverged_deliver s r rho : diverged (deliver s r rho) = diverged s.
Proof. intros. unfold deliver. frame_diverged. Qed.
#[export] Hint Rewrite fr_diverged_deliver : fr fr_diverged.
Lemma fr_g_overdue_deliver s r rho : g_overdue (deliver s r rho) = g_overdue s.
Proof. intros. unfold deliver. frame_g_overdue. Qed.
#[export] Hint Rewrite fr_g_overdue_deliver : fr fr_g_overdue.
Lemma fr_g_inflight_deliver s r rho : g_inflight (deliver s r rho) = g_inflight s.
Proof. intros. unfold deliver. frame_g_inflight. Qed.
#[export] Hint Rewrite fr_g_inflight_deliver : fr fr_g_inflight.
Lemma fr_g_maxdur_deliver s r rho : g_maxdur (deliver s r rho) = g_maxdur s.
Proof. intros. unfold deliver. frame_g_maxdur. Qed.
#[export] Hint Rewrite fr_g_maxdur_deliver : fr fr_g_maxdur.
Lemma fr_now_call s kd : now (call s kd) = now s.
Proof. intros. unfold call. frame_now. Qed.
#[export] Hint Rewrite fr_now_call : fr fr_now.
Lemma fr_svcs_call s kd : svcs (call s kd) = svcs s.
Proof. intros. unfold call. frame_svcs. Qed.
#[export] Hint Rewrite fr_svcs_call : fr fr_svcs.
Lemma fr_subs_call s kd : subs (call s kd) = subs s.
Proof. intros. unfold call. frame_subs. Qed.
#[export] Hint Rewrite fr_subs_call : fr fr_subs.
Lemma fr_routed_call s kd : routed (call s kd) = routed s.
Proof. intros. unfold call. frame_routed. Qed.
#[export] Hint Rewrite fr_routed_call : fr fr_routed.
Lemma fr_avail_call s kd : avail (call s kd) = avail s.
Proof. intros. unfold call. frame_avail. Qed.
#[export] Hint Rewrite fr_avail_call : fr fr_avail.
Lemma fr_evlog_call s kd : evlog (call s kd) = evlog s.
Proof. intros. unfold call. frame_evlog. Qed.
#[export] Hint Rewrite fr_evlog_call : fr fr_evlog.
Lemma fr_rtask_call s kd : rtask (call s kd) = rtask s.
Proof. intros. unfold call. frame_rtask. Qed.
#[export] Hint Rewrite fr_rtask_call : fr fr_rtask.
Lemma fr_reqs_call s kd : reqs (call s kd) = reqs s.
Proof. intros. unfold call. frame_reqs. Qed.
#[export] Hint Rewrite fr_reqs_call : fr fr_reqs.
Lemma fr_nreqs_call s kd : nreqs (call s kd) = nreqs s.
Proof. intros. unfold call. frame_nreqs. Qed.
#[export] Hint Rewrite fr_nreqs_call : fr fr_nreqs.
Lemma fr_pub_call s kd : pub (call s kd) = pub s.
Proof. intros. unfold call. frame_pub. Qed.
#[export] Hint Rewrite fr_pub_call : fr fr_pub.
Lemma fr_nsid_call s kd : nsid (call s kd) = nsid s.
Proof. intros. unfold call. frame_nsid. Qed.
#[export] Hint Rewrite fr_nsid_call : fr fr_nsid.
Lemma fr_lapsed_call s kd : lapsed (call s kd) = lapsed s.
Proof. intros. unfold call. frame_lapsed. Qed.
#[export] Hint Rewrite fr_lapsed_call : fr fr_lapsed.
Lemma fr_diverged_call s kd : diverged (call s kd) = diverged s.
Proof. intros. unfold call. frame_diverged. Qed.
#[export] Hint Rewrite fr_diverged_call : fr fr_diverged.
Lemma fr_g_overdue_call s kd : g_overdue (call s kd) = g_overdue s.
Proof. intros. unfold call. frame_g_overdue. Qed.
#[export] Hint Rewrite fr_g_overdue_call : fr fr_g_overdue.
Lemma fr_g_inflight_call s kd : g_inflight (call s kd) = g_inflight s.
Proof. intros. unfold call. frame_g_inflight. Qed.
#[export] Hint Rewrite fr_g_inflight_call : fr fr_g_inflight.
Lemma fr_g_maxdur_call s kd : g_maxdur (call s kd) = g_maxdur s.
Proof. intros. unfold call. frame_g_maxdur. Qed.
#[export] Hint Rewrite fr_g_maxdur_call : fr fr_g_maxdur.
Lemma fr_svcs_step s a : svcs (step s a) = svcs s.
Proof. intros. unfold step. frame_svcs. Qed.
#[export] Hint Rewrite fr_svcs_step : fr fr_svcs.
