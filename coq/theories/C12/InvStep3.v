(* C12 - the structural invariant is preserved by every action of a schedule of the domain (assembly). *)
From Coq Require Import List Bool Arith ZArith Lia.
From AUC Require Import Prelude.PyDict C12.Model C12.Spec C12.Frame C12.InvDef C12.InvStep C12.InvStep2.
Import ListNotations.

Lemma Inv_same pend pend' s : Inv pend s -> (forall c, nchild pend' c = nchild pend c) -> Inv pend' s.
Proof. intros [] E. constructor; try assumption. eapply count_ok_ext; eauto. Qed.

Lemma nchild_shift h rest rd l c :
  (forall x, In x l -> exists u, x = HStep u) -> (forall p, h <> HChild p) ->
  nchild (rest ++ rd ++ l) c = nchild (h :: rest ++ rd) c.
Proof.
  intros Hl Hh. rewrite nchild_cons, !nchild_app2, (nchild_steps l c Hl).
  destruct (handle_eq_dec h (HChild c)) as [E|_]; [now destruct (Hh c)|]. lia.
Qed.

Lemma dkeys_nil {K A} (l : list (K * A)) : dkeys l = [] -> l = [].
Proof. destruct l; [reflexivity|discriminate]. Qed.

Lemma forget_cancelled_none s : rtask s = None -> forget_cancelled s = s.
Proof. unfold forget_cancelled. now intros ->. Qed.

(* asyncio.gather over the SIDs to unsubscribe, for the current call c *)
Lemma Inv_unsub_gather pend rest0 s b c sids re :
  Inv pend s -> calls s <> [] -> cur s = c -> ~ donep s c ->
  (forall n re', pcof s c <> PUnsubGather n re') ->
  (forall r, awaits (pcof s c) r -> q_state (reqs s r) <> QPending) ->
  tasks b = tasks s -> ntasks b = ntasks s -> calls b = calls s -> svcs b = svcs s -> reqs b = reqs s ->
  nreqs b = nreqs s -> routed b = routed s -> subs b = [] -> rtask b = None -> ready b = ready s ->
  (g_inflight b = false -> g_inflight s = false) ->
  (forall a, kindof s c = KSub a -> g_inflight b = false) ->
  (forall lt, rtask s = Some lt -> donep s lt) ->
  match kindof s c, re with
  | KSub _, Some e => is_upnp e = true
  | KUnsub, None => True
  | _, _ => False
  end ->
  (g_inflight b = false -> forall x, In x (dkeys (routed s)) -> In x sids) ->
  (forall c', nchild (rest0 ++ ready s) c' = nchild pend c') ->
  (kindof s c = KUnsub -> sids <> [] -> length (calls s) = 2) ->
  Inv (rest0 ++ ready (unsub_gather b c sids re)) (unsub_gather b c sids re).
Proof.
  intros H Hc Hcur Hnd Hng Hnp Bt Bn Bc Bs Br Bnr Bro Bsu Brt Brd Bg Hgs Hld Hre Hsids Hch Hlen.
  assert (Hcin : In c (calls s)) by (rewrite <- Hcur; now apply cur_in).
  destruct (call_kind s c (iv_calls _ _ H) Hcin) as [Hcl Hck].
  assert (HcN : c < ntasks s).
  { pose proof (iv_calls _ _ H) as K. unfold calls_ok in K. destruct (calls s); [congruence|]. destruct K as (_ & _ & X & _). now apply X. }
  assert (Hw : forall h, In h (t_waiters (tasks s c)) -> exists u, h = HStep u) by (intros h Hh; exact (iv_wait _ _ H c HcN h Hh)).
  destruct (iv_count _ _ H) as [Cn1 Cn2]. specialize (Cn2 Hc). rewrite Hcur in Cn2. specialize (Cn2 Hnd).
  assert (Nokid : forall t, t < ntasks s -> is_kid c (tasks s t) = false).
  { destruct (pcof s c) eqn:E; try (destruct Cn2 as [X _]; exact X). now destruct (Hng nleft re0). }
  unfold unsub_gather. destruct sids as [|x0 sids'] eqn:Es.
  - (* nothing to unsubscribe: the call ends *)
    unfold unsub_return.
    assert (Hst : match kindof s c, (match re with None => SRet None | Some e => SExc e end) with
                  | KSub _, SExc e => is_upnp e = true | KUnsub, SRet None => True | _, _ => False end).
    { destruct (kindof s c); destruct re; auto. }
    assert (Hro : g_inflight b = false -> routed s = []).
    { intros G. apply dkeys_nil. pose proof (Hsids G) as X. clear - X. unfold sid, svc in *. match goal with |- ?l = [] => destruct l as [|y l']; [reflexivity|] end. destruct (X y). now left. }
    assert (Hkids : forall t' x, t' < ntasks s -> kindof s t' = KOne c x -> donep s t').
    { intros t' x Ht' Hk'. specialize (Nokid t' Ht'). unfold is_kid in Nokid. rewrite Hk', Nat.eqb_refl in Nokid. discriminate. }
    assert (Hpend : forall c', nchild (rest0 ++ ready b ++ t_waiters (tasks b c)) c' = nchild pend c').
    { intros c'. rewrite Brd, Bt, <- Hch. rewrite (nchild_shift (HStep 0) rest0 (ready s) _ c' Hw) by discriminate.
      rewrite nchild_cons. destruct (handle_eq_dec (HStep 0) (HChild c')); [discriminate|]. reflexivity. }
    destruct re as [e|]; rewrite finish_plain by (rewrite Bt; exact Hck);
      replace (kindof b c) with (kindof s c) by (now rewrite Bt).
    + eapply Inv_call_finish with (s := s) (b := b) (st := SExc e); try eassumption; try exact Hpend.
    + eapply Inv_call_finish with (s := s) (b := b) (st := SRet None); try eassumption; try exact Hpend.
  - rewrite <- Es in *. fold (spawn_kids b c sids).
    assert (Hlen' : length (x0 :: sids') = length sids) by now rewrite Es.
    cbn [length] in Hlen'. replace (S (length sids')) with (length sids) by (rewrite Es; reflexivity).
    eapply Inv_gather with (s := s) (b := b); try eassumption.
    + intros c'. destruct (spawn_kids_spec c sids b) as (_ & A2 & _). sproj. rewrite A2, Brd, <- Hch.
      rewrite (nchild_shift (HStep 0) rest0 (ready s) _ c') by (try discriminate; intros y Hy; apply in_map_iff in Hy; destruct Hy as (u & <- & _); eauto).
      rewrite nchild_cons. destruct (handle_eq_dec (HStep 0) (HChild c')); [discriminate|]. reflexivity.
    + rewrite Es. discriminate.
    + intros Ek. apply Hlen; [exact Ek|]. rewrite Es. discriminate.
Qed.

Notation Res rest s' := (diverged s' = true \/ Inv (rest ++ ready s') s').

Lemma nchild_hstep t rest rd c : nchild (HStep t :: rest ++ rd) c = nchild (rest ++ rd) c.
Proof. rewrite nchild_cons. destruct (handle_eq_dec (HStep t) (HChild c)); [discriminate|]. reflexivity. Qed.

Lemma step_same rest s t : Inv (HStep t :: rest ++ ready s) s -> Res rest s.
Proof. intros H. right. eapply Inv_same; [exact H|]. intros c. now rewrite nchild_hstep. Qed.

(* ---- a child of a gather takes a step ------------------------------------------------------------------------------ *)
Lemma step_kid rest s t p x :
  Inv (HStep t :: rest ++ ready s) s -> t < ntasks s -> kindof s t = KOne p x -> Res rest (step_task s t).
Proof.
  intros H Ht Hk. unfold step_task.
  assert (Hnl : kindof s t <> KLoop) by (rewrite Hk; discriminate).
  pose proof (not_loop_not_doomed _ _ _ H Ht Hnl) as Hndm. pose proof (not_doomed_must _ _ Hndm) as Hm.
  pose proof (iv_pc _ _ H t Ht) as Hpcok. unfold pc_ok in Hpcok. rewrite Hk in Hpcok.
  assert (Hw : forall h, In h (t_waiters (tasks s t)) -> exists u, h = HStep u) by (intros h Hh; exact (iv_wait _ _ H t Ht h Hh)).
  assert (Fin : forall (Hnd : ~ donep s t), (forall r, awaits (pcof s t) r -> q_state (reqs s r) <> QPending) ->
                (pcof s t = PStart -> ~ In x (dkeys (routed s))) -> Res rest (finish s t (SRet None))).
  { intros Hnd A B. right. eapply Inv_kid_finish; try eassumption.
    intros c. rewrite (finish_kid _ _ _ _ _ Hk). sproj. rewrite nchild_hstep, <- !app_assoc, !nchild_app2.
    rewrite (nchild_steps _ c Hw), nchild_cons. cbn [nchild count_occ].
    destruct (handle_eq_dec (HChild p) (HChild c)) as [E|E]; [injection E as ->; rewrite Nat.eqb_refl; lia|].
    destruct (Nat.eqb_spec c p) as [->|]; [congruence|lia]. }
  destruct (pcof s t) as [| | | | | |r|st] eqn:Epc; try contradiction.
  - rewrite Hm. unfold start_body. rewrite Hk. destruct (dget Nat.eqb (routed s) x) as [v|] eqn:Ev.
    + right. cbv zeta. change (nreqs (with_routed s (ddel Nat.eqb (routed s) x))) with (nreqs s).
      eapply Inv_kid_send; try eassumption. intros c. unfold issue. sproj. now rewrite nchild_hstep.
    + apply Fin; [unfold is_done; rewrite Epc; discriminate|intros r A; destruct A|].
      intros _. now apply nget_none.
  - destruct (q_state (reqs s r)) eqn:Eq.
    + now apply (step_same rest s t).
    + rewrite Hm. apply Fin; [unfold is_done; rewrite Epc; discriminate| |intros X; discriminate].
      intros r' A. cbn in A. subst r'. rewrite Eq. discriminate.
    + exfalso. apply Hndm. right. now rewrite Epc.
  - now apply (step_same rest s t).
Qed.

(* ---- the renewal task takes a step ------------------------------------------------------------------------------------- *)
Lemma step_loop rest s t :
  Inv (HStep t :: rest ++ ready s) s -> t < ntasks s -> kindof s t = KLoop -> Res rest (step_task s t).
Proof.
  intros H Ht Hk. unfold step_task.
  pose proof (iv_pc _ _ H t Ht) as Hpcok. unfold pc_ok in Hpcok. rewrite Hk in Hpcok.
  assert (Hw : forall h, In h (t_waiters (tasks s t)) -> exists u, h = HStep u) by (intros h Hh; exact (iv_wait _ _ H t Ht h Hh)).
  assert (Hch : forall c, nchild (rest ++ ready s) c = nchild (HStep t :: rest ++ ready s) c) by (intros c; now rewrite nchild_hstep).
  assert (Canc : ~ donep s t -> doomed s t -> (forall r, awaits (pcof s t) r -> q_state (reqs s r) <> QPending) ->
                 Res rest (throw_cancel s t)).
  { intros Hnd Hd Hnp. right. unfold throw_cancel. rewrite finish_plain by (rewrite Hk; discriminate). rewrite Hk.
    eapply Inv_loop_cancelled; try eassumption.
    intros c. sproj. rewrite nchild_hstep, app_assoc, nchild_app2, (nchild_steps _ c Hw). lia. }
  destruct (pcof s t) as [| |p st r|w ws| | | |st] eqn:Epc; try contradiction.
  - (* PStart *)
    assert (Hnd : ~ donep s t) by (unfold is_done; rewrite Epc; discriminate).
    destruct (t_must (tasks s t)) eqn:Em.
    + apply Canc; [exact Hnd|now left|intros r A; destruct A].
    + unfold start_body. rewrite Hk. eapply Inv_loop_start; try eassumption.
      eapply loop_is_rtask; eassumption.
  - (* in a pass *)
    assert (Hnd : ~ donep s t) by (unfold is_done; rewrite Epc; discriminate).
    pose proof (loop_is_rtask _ _ _ H Ht Hk Hnd) as Hrt.
    destruct (q_state (reqs s r)) as [|rho hdr|] eqn:Eq.
    + now apply (step_same rest s t).
    + destruct (t_must (tasks s t)) eqn:Em.
      * apply Canc; [exact Hnd|now left|]. intros r' A. cbn in A. subst r'. rewrite Eq. discriminate.
      * rewrite Hk. eapply Inv_loop_resume; try eassumption.
    + apply Canc; [exact Hnd|right; now rewrite Epc|]. intros r' A. cbn in A. subst r'. rewrite Eq. discriminate.
  - (* sleeping *)
    assert (Hnd : ~ donep s t) by (unfold is_done; rewrite Epc; discriminate).
    pose proof (loop_is_rtask _ _ _ H Ht Hk Hnd) as Hrt.
    destruct ws.
    + now apply (step_same rest s t).
    + destruct (t_must (tasks s t)) eqn:Em.
      * apply Canc; [exact Hnd|now left|intros r A; destruct A].
      * eapply Inv_loop_wake; try eassumption.
    + apply Canc; [exact Hnd|right; now rewrite Epc|intros r A; destruct A].
  - now apply (step_same rest s t).
Qed.

(* ---- the gather of the current call is complete -------------------------------------------------------------------------- *)
Lemma gather_done pend s c re :
  Inv pend s -> calls s <> [] -> cur s = c -> pcof s c = PUnsubGather 0 re -> subs s = [] -> rtask s = None ->
  (forall t' x, t' < ntasks s -> kindof s t' = KOne c x -> donep s t') /\ (g_inflight s = false -> routed s = []).
Proof.
  intros H Hc Hcur Hpc Es Er.
  assert (Hnd : ~ donep s c) by (unfold is_done; rewrite Hpc; discriminate).
  destruct (iv_count _ _ H) as [_ C2]. specialize (C2 Hc). rewrite Hcur in C2. specialize (C2 Hnd). rewrite Hpc in C2.
  assert (Z : nlive s c = 0) by lia.
  assert (Kd : forall t' x, t' < ntasks s -> kindof s t' = KOne c x -> donep s t').
  { intros t' x Ht' Hk'. pose proof (nlive_zero s c Z t' Ht') as L. unfold live_kid, is_kid in L. rewrite Hk', Nat.eqb_refl in L.
    cbn in L. now apply negb_false_iff in L. }
  split; [exact Kd|]. intros G. apply dkeys_nil. destruct (iv_route _ _ H G) as [R1 _].
  destruct (dkeys (routed s)) as [|y l'] eqn:E; [reflexivity|]. exfalso.
  destruct (R1 y) as [A|[A|A]]; [now left| | |].
  - rewrite Es in A. destruct A.
  - destruct A as (lt & ? & ? & A & _). congruence.
  - unfold unsub_pending in A. rewrite Hcur, Hpc in A. destruct A as [(? & ? & ? & A & _)|(t' & A1 & A2 & A3)]; [discriminate|].
    specialize (Kd t' y A1 A2). unfold is_done in Kd. rewrite A3 in Kd. discriminate.
Qed.

Lemma call_gather_finish rest s c re :
  Inv (HStep c :: rest ++ ready s) s -> c < ntasks s -> calls s <> [] -> cur s = c -> pcof s c = PUnsubGather 0 re ->
  Res rest (unsub_return s c re).
Proof.
  intros H Hcn Hc Hcur Hpc. right.
  assert (Hnd : ~ donep s c) by (unfold is_done; rewrite Hpc; discriminate).
  assert (Hcin : In c (calls s)) by (rewrite <- Hcur; now apply cur_in).
  destruct (call_kind s c (iv_calls _ _ H) Hcin) as [Hcl Hck].
  pose proof (iv_pc _ _ H c Hcn) as Hpcok. unfold pc_ok in Hpcok. rewrite Hpc in Hpcok.
  pose proof (iv_phase _ _ H) as Ph. unfold phase_ok in Ph. destruct (calls s) eqn:Ec; [congruence|]. rewrite <- Ec in *. cbv zeta in Ph.
  rewrite Hcur, Hpc in Ph.
  assert (Hw : forall h, In h (t_waiters (tasks s c)) -> exists u, h = HStep u) by (intros h Hh; exact (iv_wait _ _ H c Hcn h Hh)).
  assert (Hpend : forall c', nchild (rest ++ ready s ++ t_waiters (tasks s c)) c' = nchild (HStep c :: rest ++ ready s) c').
  { intros c'. apply nchild_shift; [exact Hw|discriminate]. }
  assert (X : subs s = [] /\ rtask s = None /\ (forall a, kindof s c = KSub a -> g_inflight s = false)).
  { destruct (kindof s c); destruct re; try contradiction; destruct Ph as (A & B); try destruct B as (B & B'); repeat split; auto; discriminate. }
  destruct X as (Es & Er & Eg).
  destruct (gather_done _ _ _ _ H ltac:(congruence) Hcur Hpc Es Er) as [Kd Ro].
  unfold unsub_return. destruct re as [e|]; rewrite finish_plain by exact Hck.
  - eapply Inv_call_finish with (s := s) (b := s) (st := SExc e); try eassumption; try reflexivity; try congruence.
    intros r A. rewrite Hpc in A. destruct A.
  - eapply Inv_call_finish with (s := s) (b := s) (st := SRet None); try eassumption; try reflexivity; try congruence.
    intros r A. rewrite Hpc in A. destruct A.
Qed.

(* ---- async_subscribe_services takes a step ------------------------------------------------------------------------------- *)
Lemma auto_state_eq b a :
  ntasks b = 1 -> kindof b 0 = KSub a ->
  finish (with_rtask (spawn b KLoop) (Some (ntasks b))) 0 (SRet None) = auto_state b a.
Proof.
  intros Hn Hk. rewrite finish_plain.
  - unfold spawn, auto_state. sproj. rewrite Hn. rewrite (fupd_neq _ (tasks b) 1 _ 0) by lia. rewrite Hk. reflexivity.
  - unfold spawn. sproj. rewrite Hn, fupd_neq by lia. rewrite Hk. discriminate.
Qed.

Lemma dset_fresh {A} (d : list (nat * A)) y v : ~ In y (dkeys d) -> dset Nat.eqb d y v = d ++ [(y, v)].
Proof. intros H. apply (dset_absent Nat.eqb). now apply nget_none. Qed.

Lemma sub_post_nonempty b t auto now0 :
  subs b <> [] -> rtask b = None ->
  sub_post b t auto now0 =
  if auto then finish (with_rtask (spawn b KLoop) (Some (ntasks b))) t (SRet None)
  else finish b t (SRet (Some (Z.max 0 (min_dl (subs b) - now0 - TOL)))).
Proof.
  intros Hs Hr. unfold sub_post. destruct (subs b) eqn:E; [congruence|]. rewrite <- E.
  destruct auto; [|reflexivity]. rewrite forget_cancelled_none by exact Hr. now rewrite Hr.
Qed.

Lemma step_sub rest s t a :
  Inv (HStep t :: rest ++ ready s) s -> t < ntasks s -> kindof s t = KSub a -> Res rest (step_task s t).
Proof.
  intros H Ht Hk.
  destruct (is_done (tasks s t)) eqn:Ed.
  { unfold step_task. unfold is_done in Ed. destruct (pcof s t); try discriminate. now apply (step_same rest s t). }
  assert (Hnd : ~ donep s t) by congruence.
  assert (Hk' : is_sub_kind (kindof s t) || is_unsub_kind (kindof s t) = true) by (rewrite Hk; reflexivity).
  destruct (live_call_is_cur _ _ _ H Ht Hk' Hnd) as [Hc Hcur].
  assert (Hnl : kindof s t <> KLoop) by (rewrite Hk; discriminate).
  pose proof (not_loop_not_doomed _ _ _ H Ht Hnl) as Hndm. pose proof (not_doomed_must _ _ Hndm) as Hm.
  pose proof (iv_pc _ _ H t Ht) as Hpcok. unfold pc_ok in Hpcok. rewrite Hk in Hpcok.
  pose proof (iv_phase _ _ H) as Ph. unfold phase_ok in Ph. destruct (calls s) eqn:Ec; [congruence|]. rewrite <- Ec in *. cbv zeta in Ph.
  rewrite Hcur, Hk in Ph.
  assert (Hch : forall c, nchild (rest ++ ready s) c = nchild (HStep t :: rest ++ ready s) c) by (intros c; now rewrite nchild_hstep).
  assert (Hw : forall h, In h (t_waiters (tasks s t)) -> exists u, h = HStep u) by (intros h Hh; exact (iv_wait _ _ H t Ht h Hh)).
  assert (Hpend : forall c', nchild (rest ++ ready s ++ t_waiters (tasks s t)) c' = nchild (HStep t :: rest ++ ready s) c').
  { intros c'. apply nchild_shift; [exact Hw|discriminate]. }
  unfold step_task.
  destruct (pcof s t) as [|now0 todo v r| | | |n re| |st] eqn:Epc; try contradiction.
  - (* the call starts *)
    destruct Ph as (G & Es & Er & Ert & En & Enr). assert (E0 : t = 0) by lia. rewrite E0 in *. clear E0.
    rewrite Hm. unfold start_body. rewrite Hk, Es.
    assert (NP : forall r, r < nreqs s -> q_state (reqs s r) <> QPending) by (intros r Hr; lia).
    unfold sub_next. destruct (interesting (svcs s)) as [|v rest'] eqn:Ei.
    + unfold sub_post. rewrite Es. right. rewrite finish_plain by (rewrite Hk; discriminate). rewrite Hk.
      eapply Inv_sub_return_manual with (s := s) (b := s); try eassumption; try reflexivity; try congruence.
      * rewrite Es, Er. reflexivity.
      * rewrite Er. exact I.
      * rewrite Er. now rewrite Ei.
    + right. eapply Inv_sub_issue with (s := s) (b := s); try eassumption; try reflexivity; try congruence.
      * rewrite Es, Er. reflexivity.
      * rewrite Er. exact I.
      * rewrite Er. intros k [].
      * rewrite Er. now rewrite Ei.
  - (* a SUBSCRIBE response *)
    destruct Ph as (G & Ert & En & Efst & Eeq & Esort & Elt & Efresh & _ & Ekind). assert (E0 : t = 0) by lia. rewrite E0 in *. clear E0.
    destruct (q_state (reqs s r)) as [|rho hdr|] eqn:Eq.
    + now apply (step_same rest s 0).
    + rewrite Hm, Hk.
      assert (NP : forall r', r' < nreqs s -> q_state (reqs s r') <> QPending).
      { intros r' Hr' Hq. destruct (iv_req _ _ H r' Hr' Hq) as [A B]. assert (q_task (reqs s r') = 0) by lia.
        rewrite H0, Epc in B. cbn in B. subst r'. congruence. }
      assert (NPa : forall r', awaits (pcof s 0) r' -> q_state (reqs s r') <> QPending).
      { intros r' A. rewrite Epc in A. cbn in A. subst r'. rewrite Eq. discriminate. }
      assert (Fail : forall e, is_upnp e = true -> Res rest (unsub_services s 0 (Some e))).
      { intros e He. right. unfold unsub_services. rewrite forget_cancelled_none by exact Ert. sproj. rewrite Ert.
        eapply Inv_unsub_gather with (s := s) (b := with_subs s []); try eassumption; try reflexivity; try congruence.
        - intros a' _. exact G.
        - rewrite Hk. exact He.
        - intros _ x Hx. unfold dkeys in *. now rewrite Efst. }
      unfold sub_resume. cbv zeta.
      destruct rho as [m g| | |]; try (apply Fail; reflexivity).
      destruct hdr as [y|]; [|apply Fail; reflexivity].
      unfold resp_fresh in Efresh. rewrite Eq in Efresh. destruct Efresh as [Fy Fk].
      assert (Hyr : ~ In y (dkeys (routed s))) by (intros X; specialize (Fk y X); lia).
      assert (Hys : ~ In y (dkeys (subs s))) by (unfold dkeys in *; now rewrite Efst).
      set (b := with_subs (with_routed s (dset Nat.eqb (routed s) y v)) (dset Nat.eqb (subs s) y (now0 + grant_secs g)%Z)).
      assert (Bro : routed b = routed s ++ [(y, v)]) by (subst b; sproj; now apply dset_fresh).
      assert (Bsu : subs b = subs s ++ [(y, (now0 + grant_secs g)%Z)]) by (subst b; sproj; now apply dset_fresh).
      assert (Bfst : map fst (subs b) = map fst (routed b)) by (rewrite Bro, Bsu, !map_app, Efst; reflexivity).
      assert (Bsort : sorted_lt (map fst (routed b))) by (rewrite Bro, map_app; apply sorted_lt_snoc; assumption).
      assert (Blt : forall k, In k (dkeys (routed b)) -> k < nsid b).
      { intros k Hk0. unfold dkeys in Hk0. rewrite Bro, map_app in Hk0. apply in_app_iff in Hk0.
        destruct Hk0 as [Hk0|[<-|[]]]; [now apply Elt|exact Fy]. }
      unfold sub_next. destruct todo as [|v' rest'].
      * (* the last service: the call returns *)
        assert (Beq : map snd (routed b) = interesting (svcs s)) by (rewrite Bro, map_app; exact Eeq).
        rewrite sub_post_nonempty by (try exact Ert; rewrite Bsu; destruct (subs s); discriminate).
        right. destruct a.
        -- rewrite (auto_state_eq b true) by (try exact En; exact Hk).
           eapply Inv_sub_return_auto with (s := s) (b := b); try eassumption; try reflexivity; try congruence.
           intros c. unfold auto_state. sproj. rewrite <- app_assoc. change (ready b) with (ready s). change (tasks b 0) with (tasks s 0).
           apply nchild_shift; [|discriminate]. intros h Hh. cbn in Hh. destruct Hh as [<-|Hh]; [eauto|now apply Hw].
        -- rewrite finish_plain by (change (kindof b 0) with (kindof s 0); rewrite Hk; discriminate).
           change (kindof b 0) with (kindof s 0). rewrite Hk.
           eapply Inv_sub_return_manual with (s := s) (b := b); try eassumption; try reflexivity; try congruence.
      * right. eapply Inv_sub_issue with (s := s) (b := b); try eassumption; try reflexivity; try congruence.
        rewrite Bro, map_app, <- app_assoc. exact Eeq.
    + exfalso. apply Hndm. right. now rewrite Epc.
  - (* the rollback gather *)
    destruct n as [|n]; [|now apply (step_same rest s t)].
    apply call_gather_finish; try assumption; congruence.
  - now apply (step_same rest s t).
Qed.

(* ---- async_unsubscribe_services takes a step ------------------------------------------------------------------------------ *)
Lemma forget_cancelled_yes s lt : rtask s = Some lt -> is_cancelled (tasks s lt) = true -> forget_cancelled s = with_rtask s None.
Proof. unfold forget_cancelled. now intros -> ->. Qed.
Lemma forget_cancelled_no s lt : rtask s = Some lt -> is_cancelled (tasks s lt) = false -> forget_cancelled s = s.
Proof. unfold forget_cancelled. now intros -> ->. Qed.

Lemma step_unsub rest s t :
  Inv (HStep t :: rest ++ ready s) s -> t < ntasks s -> kindof s t = KUnsub -> Res rest (step_task s t).
Proof.
  intros H Ht Hk.
  destruct (is_done (tasks s t)) eqn:Ed.
  { unfold step_task. unfold is_done in Ed. destruct (pcof s t); try discriminate. now apply (step_same rest s t). }
  assert (Hnd : ~ donep s t) by congruence.
  assert (Hk' : is_sub_kind (kindof s t) || is_unsub_kind (kindof s t) = true) by (rewrite Hk; reflexivity).
  destruct (live_call_is_cur _ _ _ H Ht Hk' Hnd) as [Hc Hcur].
  assert (Hnl : kindof s t <> KLoop) by (rewrite Hk; discriminate).
  pose proof (not_loop_not_doomed _ _ _ H Ht Hnl) as Hndm. pose proof (not_doomed_must _ _ Hndm) as Hm.
  pose proof (iv_pc _ _ H t Ht) as Hpcok. unfold pc_ok in Hpcok. rewrite Hk in Hpcok.
  assert (Hch : forall c, nchild (rest ++ ready s) c = nchild (HStep t :: rest ++ ready s) c) by (intros c; now rewrite nchild_hstep).
  destruct (iv_sid _ _ H) as (S1 & S2 & S3).
  (* routed SIDs are among those to unsubscribe once nothing is in flight *)
  assert (Route : forall sids, (forall n re, pcof s t <> PUnsubGather n re) ->
            (forall x, In x (dkeys (subs s)) -> In x sids) ->
            (forall sids' lt re, pcof s t = PUnsubTask sids' lt re -> sids' = sids) ->
            (forall lt p r, rtask s = Some lt -> pcof s lt <> PPass p StRenew r) ->
            g_inflight s = false -> forall x, In x (dkeys (routed s)) -> In x sids).
  { intros sids Hng Hsub Hpt Hnf G x Hx. destruct (iv_route _ _ H G) as [R1 _].
    destruct (iv_count _ _ H) as [_ C2]. specialize (C2 Hc). rewrite Hcur in C2. specialize (C2 Hnd).
    destruct (R1 x Hx) as [A|[A|A]]; [now apply Hsub| |].
    - exfalso. destruct A as (lt & p & r & A1 & A2 & _). eapply Hnf; eauto.
    - unfold unsub_pending in A. rewrite Hcur in A. destruct A as [(sids' & lt & re & A1 & A2)|(t' & A1 & A2 & A3)].
      + now rewrite <- (Hpt _ _ _ A1).
      + exfalso. destruct (pcof s t) eqn:E; try (destruct C2 as [C2 _]; specialize (C2 t' A1); unfold is_kid in C2;
          rewrite A2, Nat.eqb_refl in C2; discriminate). now destruct (Hng nleft re). }
  assert (Len2 : pcof s t = PStart -> dkeys (subs s) <> [] -> length (calls s) = 2).
  { intros Ep Hs. pose proof (iv_phase _ _ H) as Ph. pose proof (iv_calls _ _ H) as K. unfold phase_ok, calls_ok in *.
    destruct (calls s) as [|c0 us] eqn:Ecalls; [congruence|]. cbv zeta in *. rewrite Hcur, Hk, Ep in Ph.
    destruct K as (K0 & _). destruct us as [|u1 us'].
    - exfalso. unfold cur in Hcur. rewrite Ecalls in Hcur. cbn in Hcur. subst c0. rewrite Hk in K0. discriminate.
    - destruct us' as [|u2 us'']; [reflexivity|]. exfalso. assert (L : 2 < length (c0 :: u1 :: u2 :: us'')) by (cbn; lia).
      destruct (Ph L) as (X & _). rewrite X in Hs. now apply Hs. }
  unfold step_task.
  destruct (pcof s t) as [| | | |sids lt re|n re| |st] eqn:Epc; try contradiction.
  - (* the call starts *)
    rewrite Hm. unfold start_body. rewrite Hk. unfold unsub_services.
    assert (Hng : forall n re, PStart <> PUnsubGather n re) by discriminate.
    assert (NPa : forall r, awaits PStart r -> q_state (reqs s r) <> QPending) by (intros r []).
    destruct (rtask s) as [lt|] eqn:Ert.
    + destruct (iv_rtask _ _ H lt Ert) as [Hlt Hkl].
      destruct (is_cancelled (tasks s lt)) eqn:Ecan.
      * (* a cancelled renewal task is forgotten *)
        rewrite (forget_cancelled_yes (with_subs s []) lt) by assumption. sproj. right.
        assert (Hld : donep s lt) by (unfold is_cancelled in Ecan; unfold is_done; destruct (pcof s lt) as [| | | | | | |[]]; try discriminate; reflexivity).
        eapply Inv_unsub_gather with (s := s) (b := with_rtask (with_subs s []) None); try eassumption; try reflexivity; try congruence.
        -- intros r A. rewrite Epc in A. destruct A.
        -- intros G. exact G.
        -- rewrite Hk. exact I.
        -- intros G. apply Route; try assumption; try discriminate; auto.
           intros lt' p r E X. assert (lt' = lt) by congruence. subst. unfold is_done in Hld. rewrite X in Hld. discriminate.
        -- intros _. now apply Len2.
      * rewrite (forget_cancelled_no (with_subs s []) lt) by assumption. sproj. rewrite Ert.
        destruct (is_done (tasks s lt)) eqn:Edl.
        -- (* the renewal task has already ended by itself *)
           assert (Ecn : cancel (mark_inflight (with_subs s []) lt) lt = mark_inflight (with_subs s []) lt).
           { unfold cancel. change (t_pc (tasks (mark_inflight (with_subs s []) lt) lt)) with (pcof s lt).
             unfold is_done in Edl. destruct (pcof s lt); try discriminate. reflexivity. }
           rewrite Ecn. unfold await_task. change (t_pc (tasks (mark_inflight (with_subs s []) lt) lt)) with (pcof s lt).
           pose proof (iv_pc _ _ H lt Hlt) as Pl. unfold pc_ok in Pl. rewrite Hkl in Pl. unfold is_done in Edl.
           destruct (pcof s lt) as [| | | | | | |[[?|]|?|]] eqn:Epl; try discriminate; try contradiction.
           ++ right. eapply Inv_unsub_gather with (s := s) (b := with_rtask (mark_inflight (with_subs s []) lt) None);
                try eassumption; try reflexivity; try congruence.
              ** intros r A. rewrite Epc in A. destruct A.
              ** unfold mark_inflight. sproj. intros G. apply orb_false_iff in G. tauto.
              ** intros lt' Hlt'. assert (lt' = lt) by congruence. subst. unfold is_done. now rewrite Epl.
              ** rewrite Hk. exact I.
              ** unfold mark_inflight. sproj. intros G. apply orb_false_iff in G. destruct G as [G _].
                 apply Route; try assumption; try discriminate; auto.
                 intros lt' p r E X. assert (lt' = lt) by congruence. subst. congruence.
              ** intros _. now apply Len2.
           ++ unfold is_cancelled in Ecan. rewrite Epl in Ecan. discriminate.
        -- (* cancel it and wait *)
           assert (Hndl : ~ donep s lt) by congruence.
           pose proof (iv_pc _ _ H lt Hlt) as Pl.
           destruct (cancel_spec (mark_inflight (with_subs s []) lt) lt Hndl Pl Hkl) as (_ & _ & _ & _ & _ & _ & _ & _ & _ & _ & Crd & _ & _ & _ & Cnd & _).
           unfold await_task.
           destruct (t_pc (tasks (cancel (mark_inflight (with_subs s []) lt) lt) lt)) as [| | | | | | |st] eqn:Ep3;
             try (right; eapply Inv_unsub_wait; try eassumption; intros c; sproj;
                  destruct Crd as [-> | ->]; [apply Hch|rewrite app_assoc, nchild_app2, <- Hch; cbn; lia]).
           exfalso. apply Cnd. unfold is_done. now rewrite Ep3.
    + (* no renewal task *)
      rewrite forget_cancelled_none by exact Ert. sproj. rewrite Ert. right.
      eapply Inv_unsub_gather with (s := s) (b := with_subs s []); try eassumption; try reflexivity; try congruence.
      * intros r A. rewrite Epc in A. destruct A.
      * intros G. exact G.
      * rewrite Hk. exact I.
      * intros G. apply Route; try assumption; try discriminate; auto.
      * intros _. now apply Len2.
  - (* waiting for the cancelled renewal task *)
    destruct re; [contradiction|].
    pose proof (iv_phase _ _ H) as Ph. unfold phase_ok in Ph. destruct (calls s) eqn:Ec; [congruence|]. rewrite <- Ec in *. cbv zeta in Ph.
    rewrite Hcur, Hk, Epc in Ph. destruct Ph as (El2 & Es & Ert & Edd).
    destruct (iv_rtask _ _ H lt Ert) as [Hlt Hkl].
    destruct (is_done (tasks s lt)) eqn:Edl; [|now apply (step_same rest s t)].
    unfold await_task. pose proof (iv_pc _ _ H lt Hlt) as Pl. unfold pc_ok in Pl. rewrite Hkl in Pl. unfold is_done in Edl.
    destruct (pcof s lt) as [| | | | | | |[[?|]|?|]] eqn:Epl; try discriminate; try contradiction.
    + right. eapply Inv_unsub_gather with (s := s) (b := with_rtask s None); try eassumption; try reflexivity; try congruence.
      * intros r A. rewrite Epc in A. destruct A.
      * intros G. exact G.
      * intros lt' Hlt'. assert (lt' = lt) by congruence. subst. unfold is_done. now rewrite Epl.
      * rewrite Hk. exact I.
      * intros G. apply Route; try assumption; try discriminate.
        -- rewrite Es. intros x [].
        -- intros sids' lt' re X. congruence.
        -- intros lt' p r E X. assert (lt' = lt) by congruence. subst. congruence.
    + right. eapply Inv_unsub_gather with (s := s) (b := with_rtask s None); try eassumption; try reflexivity; try congruence.
      * intros r A. rewrite Epc in A. destruct A.
      * intros G. exact G.
      * intros lt' Hlt'. assert (lt' = lt) by congruence. subst. unfold is_done. now rewrite Epl.
      * rewrite Hk. exact I.
      * intros G. apply Route; try assumption; try discriminate.
        -- rewrite Es. intros x [].
        -- intros sids' lt' re X. congruence.
        -- intros lt' p r E X. assert (lt' = lt) by congruence. subst. congruence.
  - destruct n as [|n]; [|now apply (step_same rest s t)].
    apply call_gather_finish; try assumption; congruence.
  - now apply (step_same rest s t).
Qed.

(* ---- one handle, one iteration, one action ---------------------------------------------------------------------------------- *)
Lemma beyond_noop pend s t : Inv pend s -> ntasks s <= t -> pcof s t = PDone SCancelled.
Proof. intros H Ht. now rewrite (iv_beyond _ _ H t Ht). Qed.

Lemma Inv_step_task rest s t : Inv (HStep t :: rest ++ ready s) s -> Res rest (step_task s t).
Proof.
  intros H. destruct (Nat.lt_ge_cases t (ntasks s)) as [Ht|Ht].
  - destruct (kindof s t) eqn:Hk.
    + eapply step_sub; eassumption.
    + eapply step_unsub; eassumption.
    + eapply step_loop; eassumption.
    + eapply step_kid; eassumption.
  - unfold step_task. rewrite (beyond_noop _ _ _ H Ht). now apply (step_same rest s t).
Qed.

Lemma Inv_run_handle rest s h : Inv (h :: rest ++ ready s) s -> Res rest (run_handle s h).
Proof.
  intros H. unfold run_handle. destruct (diverged s) eqn:Ed; [now left|].
  destruct h as [t|t|p].
  - now apply Inv_step_task.
  - assert (Same : Res rest s).
    { right. eapply Inv_same; [exact H|]. intros c. rewrite nchild_cons. destruct (handle_eq_dec (HTimer t) (HChild c)); [discriminate|reflexivity]. }
    destruct (Nat.lt_ge_cases t (ntasks s)) as [Ht|Ht]; [|rewrite (beyond_noop _ _ _ H Ht); exact Same].
    destruct (pcof s t) as [| | |w [| |]| | | |] eqn:Epc; try exact Same.
    right. eapply Inv_htimer; try eassumption.
    intros c. sproj. apply nchild_shift; [|discriminate]. intros x [<-|[]]. eauto.
  - assert (Same : Res rest s).
    { right. destruct (iv_count _ _ H) as [C1 C2]. destruct H. constructor; try assumption. split.
      - intros c Hc. apply C1. rewrite nchild_cons. lia.
      - intros Hc Hd. specialize (C2 Hc Hd). rewrite nchild_cons in C2.
        destruct (pcof s (cur s)); try (destruct C2 as [X Y]; split; [exact X|]; destruct (handle_eq_dec (HChild p) (HChild (cur s))); lia).
        lia. }
    destruct (Nat.lt_ge_cases p (ntasks s)) as [Ht|Ht]; [|rewrite (beyond_noop _ _ _ H Ht); exact Same].
    destruct (pcof s p) as [| | | | |[|n] re| |] eqn:Epc; try exact Same.
    right.
    pose proof (Inv_hchild (rest ++ ready (match n with O => enqueue (set_pc s p (PUnsubGather n re)) (HStep p) | S _ => set_pc s p (PUnsubGather n re) end))
                           (rest ++ ready s) s p n re H Ht Epc) as X.
    apply X. intros c. destruct n; sproj; [|reflexivity].
    rewrite app_assoc, nchild_app2. cbn. destruct (handle_eq_dec (HStep p) (HChild c)); [discriminate|]. lia.
Qed.

Lemma run_handle_diverged s h : diverged s = true -> run_handle s h = s.
Proof. unfold run_handle. now intros ->. Qed.
Lemma fold_run_diverged hs : forall s, diverged s = true -> fold_left run_handle hs s = s.
Proof. induction hs as [|h hs IH]; intros s D; cbn; [reflexivity|]. rewrite run_handle_diverged by exact D. now apply IH. Qed.

Lemma Inv_fold hs : forall s, Inv (hs ++ ready s) s -> Res [] (fold_left run_handle hs s).
Proof.
  induction hs as [|h hs IH]; intros s H; cbn [fold_left]; [right; exact H|].
  destruct (Inv_run_handle hs s h H) as [D|I'].
  - left. now rewrite fold_run_diverged.
  - now apply IH.
Qed.

Notation Good s := (diverged s = true \/ Inv (ready s) s).

Lemma Inv_iterate s : Inv (ready s) s -> Good (iterate s).
Proof.
  intros H. unfold iterate. apply (Inv_fold (ready s ++ map HTimer (due s)) (with_ready s [])).
  sproj. rewrite app_nil_r.
  assert (E : forall c, nchild (ready s ++ map HTimer (due s)) c = nchild (ready s) c).
  { intros c. rewrite nchild_app2. assert (Z : nchild (map HTimer (due s)) c = 0); [|lia].
    induction (due s) as [|x l IHl]; [reflexivity|]. cbn [map]. rewrite nchild_cons.
    destruct (handle_eq_dec (HTimer x) (HChild c)); [discriminate|]. exact IHl. }
  pose proof (iv_count _ _ H) as Cn. destruct H. constructor; try assumption. eapply count_ok_ext; [exact E|exact Cn].
Qed.

Lemma Inv_step s a : Inv (ready s) s -> allowed s a -> Good (step s a).
Proof.
  intros H Ha. unfold step. destruct (diverged s) eqn:Ed; [now left|].
  destruct a as [auto| |r rho|dt|]; cbn [allowed] in Ha.
  - right. pose proof (Inv_call_sub (ready s) s auto H Ha) as X.
    replace (ready (call s (KSub auto))) with (ready s ++ [HStep (ntasks s)]); [exact X|].
    unfold call, user_busy. rewrite Ha. reflexivity.
  - right. destruct (Inv_call_unsub (ready s) s H Ha) as [X|E]; [|rewrite E; exact H].
    unfold call in *. destruct (user_busy s); [exact H|exact X].
  - right. pose proof (Inv_deliver_state (ready s) s r rho H) as X. eapply Inv_same; [exact X|].
    destruct (ready_deliver s r rho I) as [t [-> | ->]]; [reflexivity|]. intros c. rewrite nchild_app2. cbn.
    destruct (handle_eq_dec (HStep t) (HChild c)); [discriminate|]. lia.
  - right. rewrite fr_ready_advance. now apply Inv_advance.
  - now apply Inv_iterate.
Qed.
