(* C12 - concrete schedules for the non-vacuity examples of clauses 2 and 3 (vm_compute). *)
From Coq Require Import List Bool Arith ZArith NArith.
From AUC Require Import C12.Model C12.Spec.
Import ListNotations.
Local Open Scope Z_scope.

(* two services granted 300 s; at t = 240 the renewal of the first is unreachable, the renewal of the second is refused
   and the fresh SUBSCRIBE that follows is answered without a SID: two events, in that order, and the device is unavailable *)
Definition w_failed : input :=
  mkInput [true; true]
    [ASubscribe true; AIter; ADeliver 0%nat (RAccept SidFresh (GSecs 300)); AIter; ADeliver 1%nat (RAccept SidFresh (GSecs 300)); AIter;
     AIter; AAdvance 240; AIter; AIter; ADeliver 2%nat RUnreachable; AIter; ADeliver 3%nat RRefuse; AIter;
     ADeliver 4%nat (RAccept SidNone (GSecs 300)); AIter].

Lemma failed_example :
  in_domain w_failed = true /\
  concat (map o_events (model_run w_failed)) = [0%nat; 1%nat] /\
  map o_avail (skipn 10 (model_run w_failed)) = [true; false; false; false; false; false] /\
  map (fun q => fst (fst (fst q))) (concat (map o_newreqs (model_run w_failed))) = [QSub; QSub; QRenew; QRenew; QSub].
Proof. vm_compute. repeat split; reflexivity. Qed.
