(* C12 - concrete schedules for the non-vacuity examples of clauses 2 and 3 (vm_compute). *)
From Coq Require Import List Bool Arith ZArith NArith.
From AUC Require Import C12.Model C12.Spec.
Import ListNotations.
Local Open Scope Z_scope.

(* two services granted 300 s; at t = 240 the renewal of the first is unreachable, the renewal of the second is refused
   and the fresh SUBSCRIBE that follows is answered without a SID: two events, in that order, and the device is unavailable *)
Definition w_failed : input :=
  mkInput [true; true]
    [ASubscribe true; AIter; ADeliver 0%nat (RAccept SidFresh (GSecs 300)); AIter; ADeliver 1%nat (RAccept SidFresh (GSecs 300)); AIter;
     AIter; AAdvance 240; AIter; AIter; ADeliver 2%nat RUnreachable; AIter; ADeliver 3%nat RRefuse; AIter;
     ADeliver 4%nat (RAccept SidNone (GSecs 300)); AIter].

Lemma failed_example :
  in_domain w_failed = true /\
  concat (map o_events (model_run w_failed)) = [0%nat; 1%nat] /\
  map o_avail (skipn 10 (model_run w_failed)) = [true; false; false; false; false; false] /\
  map (fun q => fst (fst (fst q))) (concat (map o_newreqs (model_run w_failed))) = [QSub; QSub; QRenew; QRenew; QSub].
Proof. vm_compute. repeat split; reflexivity. Qed.

(* two services granted 200 s and 150 s, answered 10 s and 25 s into the subscribe call; first renewal pass at t = 90: the
   first renewal is answered after 20 s with a new SID, the second refused after 25 s and the fresh SUBSCRIBE answered
   10 s later with an infinite timeout (longest wait 55 s <= tolerance); second pass at t = 230: a TIMEOUT-less 200 and,
   40 s later, a SID-less 200 granting 121 s (> 60 + 55); third pass under way at t = 291 *)
Definition w_alive2 : input :=
  mkInput [true; false; true]
    [ASubscribe true; AIter; AAdvance 10; ADeliver 0%nat (RAccept SidFresh (GSecs 200)); AIter; AAdvance 15;
     ADeliver 1%nat (RAccept SidFresh (GSecs 150)); AIter;
     AIter; AAdvance 1000; AIter; AIter;
     AAdvance 20; ADeliver 2%nat (RAccept SidFresh (GSecs 200)); AIter; AAdvance 25; ADeliver 3%nat RRefuse; AIter; AAdvance 10;
     ADeliver 4%nat (RAccept SidFresh GInfinite); AIter;
     AAdvance 1000; AIter; AIter; ADeliver 5%nat (RAccept SidEcho GAbsent); AIter; AAdvance 40;
     ADeliver 6%nat (RAccept SidNone (GSecs 121)); AIter; AAdvance 5000; AIter; AIter].

Lemma alive2_example :
  in_domain w_alive2 = true /\ lapse_premise w_alive2 = true /\ g_maxdur (run w_alive2) = 55 /\
  map (fun q => (fst (fst (fst q)), snd (fst q))) (concat (map o_newreqs (model_run w_alive2))) =
    [(QSub, None); (QSub, None); (QRenew, Some 0%nat); (QRenew, Some 1%nat); (QSub, None); (QRenew, Some 2%nat);
     (QRenew, Some 3%nat); (QRenew, Some 2%nat)] /\
  o_now (last (model_run w_alive2) snap0) = 291 /\
  o_live (last (model_run w_alive2) snap0) = [(1%nat, Some 175); (2%nat, Some 770); (3%nat, Some 391)].
Proof. vm_compute. repeat split; reflexivity. Qed.
