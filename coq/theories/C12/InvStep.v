(* C12 - the structural invariant is preserved by every transition of a schedule of the domain. *)
From Coq Require Import List Bool Arith ZArith Lia.
From AUC Require Import Prelude.PyDict C12.Model C12.Spec C12.Frame C12.InvDef.
Import ListNotations.

Lemma fupd_eq A (f : nat -> A) k v : fupd f k v k = v.
Proof. unfold fupd. now rewrite Nat.eqb_refl. Qed.
Lemma fupd_neq A (f : nat -> A) k v k' : k <> k' -> fupd f k v k' = f k'.
Proof. unfold fupd. intros H. destruct (Nat.eqb_spec k k'); congruence. Qed.

Ltac feq :=
  repeat match goal with
         | |- context [Nat.eqb ?a ?b] => destruct (Nat.eqb_spec a b); subst
         | H : context [Nat.eqb ?a ?b] |- _ => destruct (Nat.eqb_spec a b); subst
         end.

(* ---- time passes ------------------------------------------------------------------------------------------- *)
Lemma Inv_advance pend s dt : Inv pend s -> Inv pend (advance s dt).
Proof.
  intros H. unfold advance. destruct (ready s); [|exact H].
  destruct H. constructor; assumption.
Qed.

(* ---- handles that are not HChild do not matter for the child count ------------------------------------------- *)
Lemma nchild_app pend h c : nchild (pend ++ [h]) c = nchild pend c + (if handle_eq_dec h (HChild c) then 1 else 0).
Proof. unfold nchild. rewrite count_occ_app. cbn. destruct (handle_eq_dec h (HChild c)); reflexivity. Qed.

Lemma count_ok_ext pend pend' s :
  (forall c, nchild pend' c = nchild pend c) -> count_ok pend s -> count_ok pend' s.
Proof. intros E [A B]. split; [intros p; rewrite E; apply A|]. intros Hc Hd. specialize (B Hc Hd). now rewrite E. Qed.

Lemma nchild_cons h pend c : nchild (h :: pend) c = (if handle_eq_dec h (HChild c) then 1 else 0) + nchild pend c.
Proof. unfold nchild. cbn. destruct (handle_eq_dec h (HChild c)); reflexivity. Qed.
Lemma nchild_app2 a b c : nchild (a ++ b) c = nchild a c + nchild b c.
Proof. unfold nchild. apply count_occ_app. Qed.

(* ---- a response is delivered -------------------------------------------------------------------------------- *)
Lemma publisher_nsid s q rho : nsid s <= nsid (fst (publisher s q rho)).
Proof.
  unfold publisher. destruct rho as [m g| | |]; try (cbn; lia).
  destruct (q_kind q), (q_sid q); destruct m; cbn; lia.
Qed.
Lemma publisher_sub s q m g :
  q_kind q = QSub ->
  match snd (publisher s q (RAccept m g)) with
  | Some y => y = nsid s /\ nsid (fst (publisher s q (RAccept m g))) = S (nsid s)
  | None => True
  end.
Proof. intros K. unfold publisher. rewrite K. destruct m; cbn; auto. Qed.

Lemma doomed_deliver s s1 r rho hdr t h :
  q_state (reqs s r) = QPending ->
  tasks s1 = tasks s -> reqs s1 = reqs s ->
  (doomed (enqueue (set_rstate s1 r (QDone rho hdr)) h) t <-> doomed s t).
Proof.
  intros Hp Ht Hr. unfold doomed. sproj. rewrite Ht, Hr.
  destruct (pcof s t) as [| ? ? ? r'|? ? r'|? []| | |r'|]; try tauto;
    unfold fupd; destruct (Nat.eqb_spec r r') as [<-|]; cbn; try tauto; rewrite Hp; intuition discriminate.
Qed.

Lemma publisher_shape s q rho :
  exists p n l, fst (publisher s q rho) = with_pub s p n l /\ nsid s <= n.
Proof.
  unfold publisher. destruct rho as [m g| | |]; try (exists (pub s), (nsid s), (lapsed s); split; [now destruct s|lia]).
  destruct (q_kind q), (q_sid q); destruct m; cbn [fst];
    try (exists (pub s), (nsid s), (lapsed s); split; [now destruct s|lia]);
    eexists _, _, _; (split; [reflexivity|cbn; lia]).
Qed.

Lemma ready_deliver s r rho :
  True -> exists t, ready (deliver s r rho) = ready s \/ ready (deliver s r rho) = ready s ++ [HStep t].
Proof.
  intros _. unfold deliver. destruct (r <? nreqs s); [|exists 0; now left].
  destruct (q_state (reqs s r)); try (exists 0; now left).
  pose proof (fr_ready_publisher s (reqs s r) rho) as F.
  destruct (publisher s (reqs s r) rho). cbn [fst] in F. exists (q_task (reqs s r)). right. sproj. now rewrite F.
Qed.

Lemma Inv_deliver_state pend s r rho :
  Inv pend s -> Inv pend (deliver s r rho).
Proof.
  intros H. unfold deliver. destruct (Nat.ltb_spec r (nreqs s)) as [Hr|]; [|exact H].
  destruct (q_state (reqs s r)) eqn:Hq; try exact H.
  pose proof (publisher_shape s (reqs s r) rho) as (p & n & l & Hs & Hn).
  pose proof (publisher_sub s (reqs s r)) as Hsub.
  destruct (publisher s (reqs s r) rho) as [s1 hdr] eqn:P. cbn [fst] in Hs. subst s1.
  assert (Hd : forall t, doomed (enqueue (set_rstate (with_pub s p n l) r (QDone rho hdr)) (HStep (q_task (reqs s r)))) t
                         <-> doomed s t) by (intros t; apply doomed_deliver; auto).
  destruct H as [Icalls Ipc Idoom Icensus Irtask Ireq Ireqb Ireqo Ibg Isid Isvc Ipass Ipreq Iroute Iphase Iwait Ibeyond Icount].
  constructor; try assumption.
  - (* doom *) intros t Ht D. apply Hd in D. exact (Idoom t Ht D).
  - (* req *) intros r' Hr'. sproj. unfold fupd. destruct (Nat.eqb_spec r r') as [<-|Hne]; cbn; [discriminate|]. exact (Ireq r' Hr').
  - (* reqo *) intros t Ht r' Hr'. sproj. unfold fupd. destruct (Nat.eqb_spec r r') as [<-|Hne]; cbn; exact (Ireqo t Ht _ Hr').
  - (* bg *) intros r' Hr'. sproj. unfold fupd. destruct (Nat.eqb_spec r r') as [<-|Hne]; cbn; exact (Ibg _ Hr').
  - (* svc *) destruct Isvc as [A B]. split; [exact A|]. intros r' Hr'. sproj. unfold fupd.
    destruct (Nat.eqb_spec r r') as [<-|Hne]; cbn; [exact (B r Hr')|exact (B r' Hr')].
  - (* pass *) intros lt Hlt p0 st r0 Hpc. specialize (Ipass lt Hlt p0 st r0 Hpc).
    destruct Ipass as (A & B & C & D & E). repeat split; try assumption; try tauto.
    intros ND. apply D. intros X. apply ND. apply Hd. exact X.
  - (* preq *) intros lt p0 st r0 Hlt Hpc. sproj. unfold fupd. destruct (Nat.eqb_spec r r0) as [E|]; [subst r0|]; cbn; exact (Ipreq lt p0 st _ Hlt Hpc).
  - (* route *) intros G. specialize (Iroute G). destruct Iroute as [A B]. split; [exact A|].
    intros lt p0 r0 Hlt Hpc D. apply Hd in D. eapply B; eauto.
  - (* phase *) revert Iphase. unfold phase_ok. sproj. destruct (calls s); [auto|].
    change (cur (enqueue (set_rstate (with_pub s p n l) r (QDone rho hdr)) (HStep (q_task (reqs s r))))) with (cur s).
    sproj. destruct (kindof s (cur s)); destruct (pcof s (cur s)) as [|now0 todo v r0|? ? ?|? ?|sids lt [e|]|nl [e|]|?|[?|e|]]; auto.
    + intros (A0 & A & B & C & D & E & F & G & I & K). repeat split; auto.
      * intros k Hk. specialize (F k Hk). lia.
      * unfold resp_fresh in *. sproj. unfold fupd. destruct (Nat.eqb_spec r r0) as [<-|Hne]; cbn.
        -- destruct rho as [m g| | |]; auto. specialize (Hsub m g K). rewrite P in Hsub. cbn [snd fst] in Hsub.
           destruct hdr as [y|]; auto. destruct Hsub as [-> Hn']. sproj in Hn'. subst n. split; [lia|]. exact F.
        -- destruct (q_state (reqs s r0)) as [|[m g| | |] [y|]|]; auto. destruct G as [G1 G2]. split; [lia|exact G2].
      * sproj. unfold fupd. destruct (Nat.eqb_spec r r0) as [<-|Hne]; cbn; [discriminate|]. exact I.
      * sproj. unfold fupd. destruct (Nat.eqb_spec r r0) as [<-|Hne]; cbn; auto.
    + intros Ph. destruct (rtask s); [|exact Ph]. intros X. apply Ph. intros r1 Hr1. specialize (X r1 Hr1).
      sproj in X. unfold fupd in X. destruct (Nat.eqb_spec r r1) as [E|Hne]; [subst r1|]; exact X.
    + intros (A0 & A & B & C). repeat split; auto. destruct C as [C|C]; [now left|right; now apply Hd].
Qed.

(* ---- kernel facts --------------------------------------------------------------------------------------------- *)
Lemma fold_enqueue l : forall s, fold_left enqueue l s = with_ready s (ready s ++ l).
Proof.
  induction l as [|h l IH]; intros s; cbn [fold_left].
  - rewrite app_nil_r. now destruct s.
  - rewrite IH. unfold enqueue. sproj. now rewrite <- app_assoc.
Qed.

Lemma cur_app s x l : calls s = l ++ [x] -> cur s = x.
Proof. unfold cur. intros ->. apply last_last. Qed.

Lemma filter_len_ext {A} (f g : A -> bool) l :
  (forall x, In x l -> f x = g x) -> length (filter f l) = length (filter g l).
Proof. intros H. now rewrite (filter_ext_in _ _ _ H). Qed.

Lemma filter_len_one (f g : nat -> bool) l t0 :
  NoDup l -> In t0 l -> f t0 = true -> g t0 = false -> (forall x, x <> t0 -> f x = g x) ->
  length (filter f l) = S (length (filter g l)).
Proof.
  induction l as [|a l IH]; intros ND Hin Hf Hg Hx; [destruct Hin|].
  inversion ND as [|? ? Hna ND']; subst. cbn [filter].
  destruct (Nat.eq_dec a t0) as [->|Hne].
  - rewrite Hf, Hg. cbn [length]. f_equal. apply filter_len_ext. intros x Hxin. apply Hx. intros ->. contradiction.
  - destruct Hin as [->|Hin]; [congruence|]. rewrite (Hx a Hne).
    destruct (g a); cbn [length]; rewrite (IH ND' Hin Hf Hg Hx); reflexivity.
Qed.

Lemma nlive_ext s s' c :
  ntasks s' = ntasks s -> (forall t, t < ntasks s -> live_kid s' c t = live_kid s c t) -> nlive s' c = nlive s c.
Proof.
  intros Hn H. unfold nlive. rewrite Hn. apply filter_len_ext. intros x Hx. apply in_seq in Hx. apply H. lia.
Qed.

Lemma nlive_zero s c : nlive s c = 0 -> forall t, t < ntasks s -> live_kid s c t = false.
Proof.
  unfold nlive. intros H t Ht. destruct (live_kid s c t) eqn:E; [|reflexivity].
  assert (Hin : In t (filter (live_kid s c) (seq 0 (ntasks s)))) by (apply filter_In; split; [apply in_seq; lia|exact E]).
  destruct (filter _ _); [destruct Hin|discriminate].
Qed.

Lemma nlive_none s c : (forall t, t < ntasks s -> is_kid c (tasks s t) = false) -> nlive s c = 0.
Proof.
  intros H. unfold nlive. rewrite (filter_ext_in _ (fun _ => false)).
  - induction (seq 0 (ntasks s)); [reflexivity|assumption].
  - intros x Hx. apply in_seq in Hx. unfold live_kid. rewrite H by lia. reflexivity.
Qed.

Lemma nlive_finish s s' c t0 :
  ntasks s' = ntasks s -> t0 < ntasks s -> live_kid s c t0 = true -> live_kid s' c t0 = false ->
  (forall t, t <> t0 -> live_kid s' c t = live_kid s c t) -> nlive s c = S (nlive s' c).
Proof.
  intros Hn Ht Ha Hb Hx. unfold nlive. rewrite Hn.
  apply filter_len_one with (t0 := t0); auto using seq_NoDup.
  - apply in_seq. lia.
  - intros x Hne. symmetry. now apply Hx.
Qed.

(* ---- a user call ------------------------------------------------------------------------------------------------ *)
Lemma user_busy_false s : user_busy s = false -> forall t, In t (calls s) -> donep s t.
Proof.
  unfold user_busy. intros H t Ht. destruct (is_done (tasks s t)) eqn:E; [reflexivity|].
  assert (X : existsb (fun t => negb (is_done (tasks s t))) (calls s) = true)
    by (apply existsb_exists; exists t; split; [exact Ht|now rewrite E]).
  congruence.
Qed.

Lemma nchild_small pend s p : count_ok pend s -> ntasks s <= p -> nchild pend p = 0.
Proof. intros [A _] H. destruct (nchild pend p) eqn:E; [reflexivity|]. assert (p < ntasks s) by (apply A; lia). lia. Qed.

Lemma Inv_call_sub pend s a :
  Inv pend s -> calls s = [] -> Inv (pend ++ [HStep (ntasks s)]) (call s (KSub a)).
Proof.
  intros H Hc. unfold call, user_busy. rewrite Hc. cbn [existsb]. unfold spawn.
  destruct H as [Icalls Ipc Idoom Icensus Irtask Ireq Ireqb Ireqo Ibg Isid Isvc Ipass Ipreq Iroute Iphase Iwait Ibeyond Icount].
  unfold calls_ok in Icalls. rewrite Hc in Icalls. destruct Icalls as (Hn & Hr & Hs & Hro & Hrt & Hgi).
  rewrite Hn in *. cbn [app].
  constructor.
  - unfold calls_ok. sproj. unfold cur; sproj; cbn [last]. rewrite fupd_eq. cbn.
    split; [reflexivity|]. split; [intros u []|]. split; [intros t [<-|[]]; lia|].
    split; [intros t [<-|[]] X; congruence|]. repeat constructor; auto.
  - intros t Ht. sproj in Ht. sproj. assert (t = 0) by lia. subst. rewrite fupd_eq. exact I.
  - intros t Ht. sproj in Ht. assert (t = 0) by lia. subst. unfold doomed. sproj. rewrite fupd_eq. cbn. intuition discriminate.
  - intros t Ht. sproj in Ht. assert (t = 0) by lia. subst. unfold census. sproj. rewrite fupd_eq. reflexivity.
  - sproj. rewrite Hrt. discriminate.
  - sproj. intros r Hr'. lia.
  - intros t Ht. sproj in Ht. assert (t = 0) by lia. subst. sproj. rewrite fupd_eq. cbn. tauto.
  - intros t Ht. sproj in Ht. assert (t = 0) by lia. subst. sproj. rewrite fupd_eq. cbn. tauto.
  - sproj. intros r Hr'. lia.
  - sproj. rewrite Hs, Hro. cbn. repeat split; try constructor. intros x [].
  - sproj. rewrite Hro. split; [intros x v []|intros r Hr'; lia].
  - sproj. rewrite Hrt. discriminate.
  - sproj. rewrite Hrt. discriminate.
  - sproj. intros _. rewrite Hro. split; [intros x []|]. rewrite Hrt. discriminate.
  - unfold phase_ok. sproj. unfold cur; sproj; cbn [last]. rewrite fupd_eq. cbn. repeat split; auto.
  - intros t Ht. sproj in Ht. assert (t = 0) by lia. subst. sproj. rewrite fupd_eq. cbn. intros h [].
  - intros t Ht. sproj in Ht. sproj. rewrite fupd_neq by lia. apply Ibeyond. lia.
  - assert (Z : forall p, nchild (pend ++ [HStep 0]) p = 0).
    { intros p. rewrite nchild_app2, nchild_cons. cbn. destruct (handle_eq_dec (HStep 0) (HChild p)); [discriminate|].
      rewrite (nchild_small pend s p); [reflexivity| |lia]. exact Icount. }
    split; [intros p; rewrite Z; lia|]. intros _ _. unfold cur; sproj; cbn [last]. rewrite fupd_eq. cbn.
    split; [|apply Z]. intros t Ht. assert (t = 0) by lia. subst. rewrite fupd_eq. reflexivity.
Qed.

Lemma NoDup_snoc {A} (l : list A) x : NoDup l -> ~ In x l -> NoDup (l ++ [x]).
Proof.
  induction l as [|a l IH]; intros ND Hx; cbn; [repeat constructor; auto|].
  inversion ND; subst. constructor.
  - intros Hin. apply in_app_iff in Hin. destruct Hin as [|[<-|[]]]; [contradiction|]. apply Hx. now left.
  - apply IH; [assumption|]. intros X. apply Hx. now right.
Qed.

Lemma last_cons_app {A} (x : A) l y d : last (x :: l ++ [y]) d = y.
Proof. change (x :: l ++ [y]) with ((x :: l) ++ [y]). apply last_last. Qed.

Lemma doomed_tasks_ext s s' t :
  tasks s' t = tasks s t -> reqs s' = reqs s -> (doomed s' t <-> doomed s t).
Proof. intros A B. unfold doomed. rewrite A, B. tauto. Qed.

Lemma doomed_old s s' t : tasks s' t = tasks s t -> reqs s' = reqs s -> doomed s' t -> doomed s t.
Proof. intros A B. now apply doomed_tasks_ext. Qed.
Lemma doomed_new s s' t : tasks s' t = tasks s t -> reqs s' = reqs s -> doomed s t -> doomed s' t.
Proof. intros A B. now apply doomed_tasks_ext. Qed.

Lemma Inv_call_unsub pend s :
  Inv pend s -> calls s <> [] -> Inv (pend ++ [HStep (ntasks s)]) (call s KUnsub) \/ call s KUnsub = s.
Proof.
  intros H Hc. unfold call. destruct (user_busy s) eqn:Hb; [now right|left].
  pose proof (user_busy_false s Hb) as Hdone. unfold spawn.
  destruct H as [Icalls Ipc Idoom Icensus Irtask Ireq Ireqb Ireqo Ibg Isid Isvc Ipass Ipreq Iroute Iphase Iwait Ibeyond Icount].
  set (n := ntasks s).
  set (s' := with_calls (enqueue (with_tasks s (fupd (tasks s) n (mkTask KUnsub PStart false [])) (S n)) (HStep n))
                        (calls s ++ [n])).
  assert (Told : forall t, t < n -> tasks s' t = tasks s t) by (intros t Ht; subst s'; sproj; apply fupd_neq; lia).
  assert (Tnew : tasks s' n = mkTask KUnsub PStart false []) by (subst s'; sproj; apply fupd_eq).
  unfold calls_ok in Icalls. destruct (calls s) as [|c0 us] eqn:Ecalls; [congruence|].
  destruct Icalls as (K0 & Kus & Klt & Kdone & Knd).
  assert (Hcur' : cur s' = n) by (subst s'; unfold cur; sproj; rewrite ?Ecalls; apply last_cons_app).
  assert (Hcurdone : donep s (cur s)).
  { apply Hdone. unfold cur. rewrite ?Ecalls. clear. revert c0. induction us; intros c0; cbn; auto.
    destruct us; [cbn; auto|]. right. apply IHus. }
  assert (Hcurin : In (cur s) (calls s)).
  { unfold cur. rewrite ?Ecalls. clear. revert c0. induction us; intros c0; cbn; auto. destruct us; [cbn; auto|]. right. apply IHus. }
  assert (Hnokid : forall t x, t < n -> kindof s t = KOne (cur s) x -> donep s t).
  { intros t x Ht Hk. specialize (Icensus t Ht). unfold census in Icensus. rewrite Hk in Icensus.
    destruct Icensus as [[D|[_ D]] _]; [exact D|contradiction]. }
  constructor.
  - unfold calls_ok. subst s'. sproj. rewrite ?Ecalls. cbn [app].
    change (c0 :: us ++ [n]) with ((c0 :: us) ++ [n]).
    split; [rewrite fupd_neq by (specialize (Klt c0 (or_introl eq_refl)); lia); exact K0|].
    split.
    { intros u Hu. apply in_app_iff in Hu. destruct Hu as [Hu|[<-|[]]]; [|now rewrite fupd_eq].
      rewrite fupd_neq by (specialize (Klt u (or_intror Hu)); lia). now apply Kus. }
    split.
    { intros t Ht. apply in_app_iff in Ht. destruct Ht as [Ht|[<-|[]]]; [|lia]. specialize (Klt t Ht). lia. }
    split.
    { intros t Ht Hne. unfold cur in Hne. sproj in Hne. rewrite ?Ecalls in Hne. rewrite last_last in Hne.
      apply in_app_iff in Ht. destruct Ht as [Ht|[<-|[]]]; [|congruence].
      rewrite fupd_neq by (specialize (Klt t Ht); lia). apply Hdone. rewrite ?Ecalls. exact Ht. }
    apply NoDup_snoc; [exact Knd|]. intros X. specialize (Klt n X). lia.
  - intros t Ht. subst s'. sproj in Ht. sproj. unfold fupd. destruct (Nat.eqb_spec n t) as [<-|]; [exact I|]. apply Ipc. lia.
  - intros t Ht D. destruct (Nat.eq_dec t n) as [->|Hne].
    + unfold doomed in D. rewrite Tnew in D. cbn in D. intuition discriminate.
    + subst s'. sproj in Ht. assert (t < n) by lia. rewrite (Told t) by assumption.
      apply Idoom; [assumption|]. revert D. apply doomed_old; [now apply Told|reflexivity].
  - intros t Ht. subst s'. sproj in Ht. unfold census.
    destruct (Nat.eq_dec t n) as [->|Hne].
    + rewrite Tnew. cbn [t_kind]. sproj. rewrite ?Ecalls. cbn. apply in_app_iff. right. now left.
    + assert (Hlt : t < n) by lia. rewrite (Told t Hlt). specialize (Icensus t Hlt). unfold census in Icensus.
      sproj. destruct (kindof s t) eqn:Hk.
      * rewrite ?Ecalls in *. exact Icensus.
      * rewrite ?Ecalls in *. cbn [tl app] in *. apply in_app_iff. now left.
      * exact Icensus.
      * destruct Icensus as [A B]. split; [|apply in_app_iff; left; rewrite <- Ecalls; exact B]. left.
        destruct A as [A|[-> _]]; [exact A|]. eapply Hnokid; eauto.
  - intros lt Hlt. subst s'. sproj in Hlt. sproj. destruct (Irtask lt Hlt) as [A B]. split; [lia|].
    rewrite fupd_neq by lia. exact B.
  - intros r Hr Hq. subst s'. sproj in Hr. sproj in Hq. sproj. destruct (Ireq r Hr Hq) as [A B]. split; [lia|].
    rewrite fupd_neq by lia. exact B.
  - intros t Ht r Hr. subst s'. sproj in Ht. sproj in Hr. sproj. unfold fupd in Hr.
    destruct (Nat.eqb_spec n t) as [<-|]; [destruct Hr|]. eapply Ireqb; [|exact Hr]. lia.
  - intros t Ht r Hr. subst s'. sproj in Ht. sproj in Hr. sproj. unfold fupd in Hr.
    destruct (Nat.eqb_spec n t) as [<-|]; [destruct Hr|]. eapply Ireqo; [|exact Hr]. lia.
  - intros r Hr. subst s'. sproj in Hr. sproj. destruct (Ibg r Hr) as [A B]. rewrite fupd_neq by lia. split; [exact A|lia].
  - exact Isid.
  - exact Isvc.
  - intros lt Hlt p st r Hpc. subst s'. sproj in Hlt. sproj in Hpc. destruct (Irtask lt Hlt) as [A B].
    rewrite fupd_neq in Hpc by lia. specialize (Ipass lt Hlt p st r Hpc).
    destruct Ipass as (P1 & P2 & P3 & P4 & P5). repeat split; try assumption; try tauto.
    intros ND. apply P4. intros X. apply ND. revert X. apply doomed_new; [|reflexivity]. sproj. apply fupd_neq. lia.
  - intros lt p st r Hlt Hpc. subst s'. sproj in Hlt. sproj in Hpc. destruct (Irtask lt Hlt) as [A B].
    rewrite fupd_neq in Hpc by lia. exact (Ipreq lt p st r Hlt Hpc).
  - intros G. subst s'. sproj in G. specialize (Iroute G). destruct Iroute as [R1 R2]. split.
    + intros x Hx. sproj in Hx. sproj. destruct (R1 x Hx) as [A|[A|A]]; [now left| |].
      * right; left. destruct A as (lt & p & r & A1 & A2 & A3). exists lt, p, r. sproj.
        destruct (Irtask lt A1). rewrite fupd_neq by lia. auto.
      * exfalso. destruct A as [(sids & lt & re & A1 & _)|(t & A1 & A2 & A3)].
        -- unfold is_done in Hcurdone. rewrite A1 in Hcurdone. discriminate.
        -- specialize (Hnokid t x A1 A2). unfold is_done in Hnokid. rewrite A3 in Hnokid. discriminate.
    + intros lt p r Hlt Hpc D. sproj in Hlt. sproj in Hpc. destruct (Irtask lt Hlt). rewrite fupd_neq in Hpc by lia.
      eapply R2; eauto. revert D. apply doomed_old; [|reflexivity]. sproj. apply fupd_neq. lia.
  - unfold phase_ok. rewrite Hcur', Tnew. cbn [t_kind t_pc]. subst s'. sproj. rewrite ?Ecalls. cbn [app].
    intros Hlen. cbn [length] in Hlen. rewrite app_length in Hlen. cbn [length] in Hlen.
    destruct us as [|u1 us']; [cbn in Hlen; lia|].
    assert (Hu : is_unsub_kind (kindof s (cur s)) = true).
    { apply Kus. unfold cur. rewrite ?Ecalls. clear. revert u1. induction us'; intros u1; cbn; auto.
      destruct us'; [cbn; auto|]. right. apply IHus'. }
    unfold phase_ok in Iphase. rewrite ?Ecalls in Iphase. cbv zeta in Iphase.
    destruct (kindof s (cur s)); try discriminate.
    unfold is_done in Hcurdone. destruct (pcof s (cur s)); try discriminate.
    destruct Iphase as (A & B & C & D). repeat split; auto.
    intros t Ht Hne. rewrite fupd_neq by congruence. apply C. lia.
  - intros t Ht h Hh. subst s'. sproj in Ht. sproj in Hh. unfold fupd in Hh.
    destruct (Nat.eqb_spec n t) as [<-|]; [destruct Hh|]. eapply Iwait; [|exact Hh]. lia.
  - intros t Ht. subst s'. sproj in Ht. sproj. rewrite fupd_neq by lia. apply Ibeyond. lia.
  - assert (Z : forall p, nchild (pend ++ [HStep n]) p = nchild pend p).
    { intros p. rewrite nchild_app2, nchild_cons. cbn. destruct (handle_eq_dec (HStep n) (HChild p)); [discriminate|]. lia. }
    destruct Icount as [C1 C2]. split.
    + intros p Hp. rewrite Z in Hp. specialize (C1 p Hp). subst s'. sproj. lia.
    + intros _ _. rewrite Hcur', Tnew. cbn [t_pc]. split.
      * intros t Ht. subst s'. sproj in Ht. destruct (Nat.eq_dec t n) as [->|Hne]; [now rewrite Tnew|].
        rewrite Told by lia. unfold is_kid. destruct (kindof s t) eqn:Hk; try reflexivity.
        assert (Hlt : t < n) by lia. specialize (Icensus t Hlt). unfold census in Icensus. rewrite Hk in Icensus.
        destruct Icensus as [_ Hin]. rewrite ?Ecalls in Hin. specialize (Klt parent Hin).
        destruct (Nat.eqb_spec parent n); [lia|reflexivity].
      * rewrite Z. eapply nchild_small; [split; eauto|]. lia.
Qed.

(* ---- generic: one step of the renewal task ----------------------------------------------------------------------- *)
Lemma cur_in s : calls s <> [] -> In (cur s) (calls s).
Proof.
  unfold cur. destruct (calls s) as [|a l]; [congruence|]. intros _. revert a.
  induction l as [|b l IH]; intros a; cbn; auto. right. apply IH.
Qed.

Lemma call_kind s t : calls_ok s -> In t (calls s) -> kindof s t <> KLoop /\ (forall p x, kindof s t <> KOne p x).
Proof.
  unfold calls_ok. destruct (calls s) as [|c0 us]; [intros _ []|].
  intros (K0 & Kus & _) [<-|Hin].
  - destruct (kindof s c0); try discriminate. split; [discriminate|intros; discriminate].
  - specialize (Kus t Hin). destruct (kindof s t); try discriminate. split; [discriminate|intros; discriminate].
Qed.

Lemma phase_loop_step s s' lt k' :
  phase_ok s -> calls_ok s -> rtask s = Some lt -> kindof s lt = KLoop ->
  calls s' = calls s -> rtask s' = rtask s -> ntasks s' = ntasks s -> svcs s' = svcs s ->
  tasks s' = fupd (tasks s) lt k' -> t_pc k' <> PStart ->
  ((donep s lt \/ doomed s lt) -> (is_done k' = true \/ doomed s' lt)) ->
  (subs s' = subs s /\ routed s' = routed s \/ ~ (donep s lt \/ doomed s lt)) ->
  nreqs s <= nreqs s' -> (forall r, r < nreqs s -> reqs s' r = reqs s r) ->
  ((subs s' = subs s /\ routed s' = routed s) \/ (exists r, r < nreqs s' /\ q_bg (reqs s' r) = true)) ->
  phase_ok s'.
Proof.
  intros P C Hrt Hk Ec Er En Es Et Hpc Hdd Hsr Rle Rold Kbg.
  unfold phase_ok in *. rewrite Ec. destruct (calls s) as [|c0 us] eqn:Ecalls; [exact I|].
  assert (Hcur : cur s' = cur s) by (unfold cur; now rewrite Ec, Ecalls).
  assert (Hin : In (cur s) (calls s)) by (apply cur_in; congruence).
  assert (Hne : cur s <> lt).
  { intros E. rewrite E in Hin. destruct (call_kind s lt C Hin) as [X _]. contradiction. }
  cbv zeta in *. rewrite Hcur, Et, fupd_neq by congruence. rewrite Er, En.
  destruct (kindof s (cur s)); destruct (pcof s (cur s)) as [|now0 todo v r|? ? ?|? ?|sids lt' [e|]|nl [e|]|?|[?|e|]];
    try exact P; try (exfalso; clear - P Hrt; intuition congruence).
  - rewrite Hrt in *. intros X. destruct Kbg as [[E1 E2]|(r & Hr & Hb)]; [|rewrite (X r Hr) in Hb; discriminate].
    unfold all_subscribed in *. rewrite E1, E2, Es. apply P. intros r Hr. rewrite <- Rold by exact Hr. apply X. lia.
  - intros L. specialize (P L). exfalso; clear - P Hrt; intuition congruence.
  - destruct P as (A0 & A & B & D). assert (lt' = lt) by congruence. subst lt'.
    destruct Hsr as [[-> _]|Hsr]; [|tauto]. repeat split; auto. rewrite fupd_eq. auto.
Qed.

Lemma rtask_not_call s lt : calls_ok s -> kindof s lt = KLoop -> ~ In lt (calls s).
Proof. intros C K Hin. destruct (call_kind s lt C Hin) as [X _]. contradiction. Qed.

Lemma Inv_loop_update pend pend' s s' lt k' :
  Inv pend s -> rtask s = Some lt ->
  calls s' = calls s -> rtask s' = rtask s -> ntasks s' = ntasks s -> svcs s' = svcs s -> g_inflight s' = g_inflight s ->
  tasks s' = fupd (tasks s) lt k' -> t_kind k' = KLoop -> pc_ok k' -> t_pc k' <> PStart ->
  (forall h, In h (t_waiters k') -> exists u, h = HStep u) ->
  ((donep s lt \/ doomed s lt) -> (is_done k' = true \/ doomed s' lt)) ->
  (subs s' = subs s /\ routed s' = routed s \/ ~ (donep s lt \/ doomed s lt)) ->
  (forall c, nchild pend' c = nchild pend c) ->
  (* requests *)
  nreqs s <= nreqs s' -> (forall r, r < nreqs s -> reqs s' r = reqs s r) ->
  (forall r, r < nreqs s -> q_state (reqs s r) = QPending -> q_task (reqs s r) <> lt) ->
  (forall r, nreqs s <= r < nreqs s' ->
             q_task (reqs s' r) = lt /\ awaits (t_pc k') r /\ svc_interesting (svcs s) (q_svc (reqs s' r)) = true) ->
  (forall r, awaits (t_pc k') r -> nreqs s <= r < nreqs s') ->
  (* routing *)
  NoDup (dkeys (subs s')) -> NoDup (dkeys (routed s')) -> incl (dkeys (subs s')) (dkeys (routed s')) ->
  (forall x v, In (x, v) (routed s') -> svc_interesting (svcs s) v = true) ->
  pass_ok s' lt ->
  (g_inflight s = false ->
   (forall x, In x (dkeys (routed s')) -> In x (dkeys (subs s')) \/ inflight s' x \/ unsub_pending s x) /\
   (forall p r, t_pc k' = PPass p StRenew r -> ~ doomed s' lt)) ->
  ((subs s' = subs s /\ routed s' = routed s) \/ (exists r, r < nreqs s' /\ q_bg (reqs s' r) = true)) ->
  (forall r, nreqs s <= r < nreqs s' -> q_bg (reqs s' r) = true) ->
  (forall p st r, t_pc k' = PPass p st r ->
     q_svc (reqs s' r) = p_svc p /\ q_kind (reqs s' r) = (match st with StRenew => QRenew | StFallback => QSub end)) ->
  Inv pend' s'.
Proof.
  intros H Hrt Ec Er En Es Eg Et Kk Kpc Knot Kw Kdd Ksr Kch Rle Rold Rown Rnew Rb Ns Nr Ninc Nsvc Kpass Kroute Kbg Kbgn Kpreq.
  destruct H as [Icalls Ipc Idoom Icensus Irtask Ireq Ireqb Ireqo Ibg Isid Isvc Ipass Ipreq Iroute Iphase Iwait Ibeyond Icount].
  destruct (Irtask lt Hrt) as [Hlt Hkl].
  assert (Hnc : ~ In lt (calls s)) by (apply rtask_not_call; assumption).
  assert (Told : forall t, t <> lt -> tasks s' t = tasks s t) by (intros t Ht; rewrite Et; apply fupd_neq; congruence).
  assert (Tnew : tasks s' lt = k') by (rewrite Et; apply fupd_eq).
  assert (Kind : forall t, kindof s' t = kindof s t).
  { intros t. destruct (Nat.eq_dec t lt) as [->|Hne]; [rewrite Tnew; congruence|now rewrite Told]. }
  assert (Hcur : cur s' = cur s) by (unfold cur; now rewrite Ec).
  assert (Dold : forall t, t < ntasks s -> t <> lt -> (doomed s' t <-> doomed s t)).
  { intros t Ht Hne. unfold doomed. rewrite (Told t Hne).
    destruct (pcof s t) as [| ? ? ? r|? ? r|? []| | |r|] eqn:Epc; try tauto;
      (rewrite Rold; [tauto|]; eapply Ireqb; [exact Ht|]; rewrite Epc; reflexivity). }
  constructor.
  - (* calls *) unfold calls_ok in *. rewrite Ec, En. destruct (calls s) as [|c0 us] eqn:Ecalls.
    + exfalso; destruct Icalls as (_ & _ & _ & _ & X & _); congruence.
    + destruct Icalls as (K0 & Kus & Klt & Kdone & Knd). rewrite Kind. split; [exact K0|].
      split; [intros u Hu; rewrite Kind; now apply Kus|]. split; [exact Klt|]. split; [|exact Knd].
      intros t Ht Hne. rewrite Hcur in Hne. rewrite Told; [now apply Kdone|]. intros ->. contradiction.
  - (* pc *) intros t Ht. rewrite En in Ht. destruct (Nat.eq_dec t lt) as [->|Hne]; [now rewrite Tnew|]. rewrite Told by assumption. now apply Ipc.
  - (* doom *) intros t Ht D. rewrite En in Ht. rewrite Kind. destruct (Nat.eq_dec t lt) as [->|Hne]; [exact Hkl|].
    apply Idoom; [assumption|]. now apply Dold.
  - (* census *) intros t Ht. rewrite En in Ht. specialize (Icensus t Ht). unfold census in *. rewrite Kind, Ec, Er, Hcur.
    destruct (kindof s t) eqn:Hk; try exact Icensus.
    + destruct (Nat.eq_dec t lt) as [->|Hne]; [now left|]. now rewrite Told.
    + destruct Icensus as [A B]. split; [|exact B].
      assert (Hp : parent <> lt) by (intros ->; contradiction).
      assert (Htl : t <> lt) by (intros ->; congruence).
      rewrite (Told t Htl), (Told parent Hp). exact A.
  - (* rtask *) intros lt' Hlt'. rewrite Er in Hlt'. rewrite En, Kind. now apply Irtask.
  - (* req *) intros r Hr Hq. rewrite En. destruct (Nat.lt_ge_cases r (nreqs s)) as [Hlo|Hhi].
    + rewrite Rold in * by assumption. destruct (Ireq r Hlo Hq) as [A B]. split; [exact A|].
      rewrite Told; [exact B|]. now apply Rown.
    + destruct (Rnew r (conj Hhi Hr)) as (A & B & _). rewrite A, Tnew. split; [exact Hlt|exact B].
  - (* reqb *) intros t Ht r Hr. rewrite En in Ht. destruct (Nat.eq_dec t lt) as [->|Hne].
    + rewrite Tnew in Hr. apply Rb in Hr. lia.
    + rewrite Told in Hr by assumption. specialize (Ireqb t Ht r Hr). lia.
  - (* reqo *) intros t Ht r Hr. rewrite En in Ht. destruct (Nat.eq_dec t lt) as [->|Hne].
    + rewrite Tnew in Hr. now destruct (Rnew r (Rb r Hr)).
    + rewrite Told in Hr by assumption. rewrite Rold by (eapply Ireqb; eauto). now apply Ireqo.
  - (* bg *) intros r Hr. rewrite En. destruct (Nat.lt_ge_cases r (nreqs s)) as [Hlo|Hhi].
    + rewrite Rold by assumption. destruct (Ibg r Hlo) as [A B]. split; [|exact B]. rewrite A. unfold is_loop. now rewrite Kind.
    + destruct (Rnew r (conj Hhi Hr)) as (A & _). rewrite A, Tnew. split; [|exact Hlt]. rewrite (Kbgn r (conj Hhi Hr)). unfold is_loop. now rewrite Kk.
  - (* sid *) auto.
  - (* svc *) rewrite Es. split; [exact Nsvc|]. intros r Hr. destruct (Nat.lt_ge_cases r (nreqs s)) as [Hlo|Hhi].
    + rewrite Rold by assumption. now apply Isvc.
    + now destruct (Rnew r (conj Hhi Hr)) as (_ & _ & X).
  - (* pass *) intros lt' Hlt'. rewrite Er in Hlt'. assert (lt' = lt) by congruence. subst lt'. exact Kpass.
  - (* preq *) intros lt' p st r Hlt' Hpc. rewrite Er in Hlt'. assert (lt' = lt) by congruence. subst lt'. rewrite Tnew in Hpc. now apply Kpreq.
  - (* route *) intros G. rewrite Eg in G. destruct (Kroute G) as [R1 R2]. split.
    + intros x Hx. destruct (R1 x Hx) as [A|[A|A]]; [now left|right; now left|right; right].
      unfold unsub_pending in *. rewrite Hcur, En.
      assert (Hcl : cur s <> lt).
      { intros E. apply Hnc. rewrite <- E. apply cur_in. intros Z. unfold calls_ok in Icalls. rewrite Z in Icalls.
        destruct Icalls as (_ & _ & _ & _ & Y & _). congruence. }
      rewrite (Told _ Hcl). destruct A as [A|(t & A1 & A2 & A3)]; [now left|right].
      exists t. assert (t <> lt) by (intros ->; congruence). rewrite Told by assumption. auto.
    + intros lt' p r Hlt' Hpc. rewrite Er in Hlt'. assert (lt' = lt) by congruence. subst lt'. rewrite Tnew in Hpc. eapply R2; eauto.
  - (* phase *) eapply phase_loop_step with (lt := lt) (k' := k'); eauto.
  - (* wait *) intros t Ht h Hh. rewrite En in Ht. destruct (Nat.eq_dec t lt) as [->|Hne].
    + rewrite Tnew in Hh. now apply Kw.
    + rewrite Told in Hh by assumption. eapply Iwait; eauto.
  - (* beyond *) intros t Ht. rewrite En in Ht. rewrite Told by lia. now apply Ibeyond.
  - (* count *) eapply count_ok_ext with (pend := pend); [exact Kch|].
    destruct Icount as [C1 C2]. split; [intros p Hp; rewrite En; now apply C1|].
    rewrite Ec, Hcur. intros Hc Hd.
    assert (Hcl : cur s <> lt) by (intros E; apply Hnc; rewrite <- E; now apply cur_in).
    rewrite (Told _ Hcl) in *. specialize (C2 Hc Hd).
    assert (Hkid : forall t c, is_kid c (tasks s' t) = is_kid c (tasks s t)) by (intros t c; unfold is_kid; now rewrite Kind).
    destruct (pcof s (cur s)); try (destruct C2 as [C2 C3]; split; [intros t Ht; rewrite Hkid; apply C2; lia|exact C3]).
    rewrite (nlive_ext s s'); [exact C2|exact En|]. intros t Ht. unfold live_kid. rewrite Hkid.
    destruct (Nat.eq_dec t lt) as [->|Hne]; [|now rewrite Told].
    unfold is_kid. rewrite Hkl. reflexivity.
Qed.

(* ---- the for loop of a renewal pass, in the domain ------------------------------------------------------------ *)
Definition susp_state (b : state) (t : tid) (pn : Z) (nf : bool) (x : sid) (d : Z) (v : svc) (rest : list (sid * Z)) : state :=
  set_pc (issue (with_subs b (ddel Nat.eqb (subs b) x)) t QRenew v (Some x)) t
         (PPass (mkPass pn rest x d v nf) StRenew (nreqs b)).

Notation nget_none := (dget_None_notin Nat.eqb Nat.eqb_spec).
Notation nin_get := (In_dkeys_dget Nat.eqb Nat.eqb_spec).
Notation nget_set := (dget_dset Nat.eqb Nat.eqb_spec).
Notation nget_del := (dget_ddel Nat.eqb Nat.eqb_spec).
Notation nin_del := (In_dkeys_ddel Nat.eqb Nat.eqb_spec).
Notation nin_set := (In_dkeys_dset Nat.eqb Nat.eqb_spec).
Notation nnd_set := (NoDup_dset Nat.eqb Nat.eqb_spec).
Notation nnd_del := (NoDup_ddel Nat.eqb).

Lemma dhas_in (A : Type) (d : list (nat * A)) k : In k (dkeys d) -> dhas Nat.eqb d k = true.
Proof.
  intros H. unfold dhas. destruct (dget Nat.eqb d k) eqn:E; [reflexivity|].
  apply nget_none in E. contradiction.
Qed.

Lemma pass_scan_dom b t pn nf todo :
  (forall x, In x (map fst todo) -> In x (dkeys (subs b))) ->
  incl (dkeys (subs b)) (dkeys (routed b)) ->
  pass_scan b t pn nf todo = ODone b \/
  exists pre x d v rest,
    todo = pre ++ (x, d) :: rest /\ dget Nat.eqb (routed b) x = Some v /\ In x (dkeys (subs b)) /\
    pass_scan b t pn nf todo = OSusp (susp_state b t pn nf x d v rest).
Proof.
  induction todo as [|[x d] r IH]; intros Hin Hinc; cbn [pass_scan]; [now left|].
  destruct (d <? pn - TOL)%Z.
  - destruct IH as [IH|(pre & x' & d' & v & rest & E & A & B & C)]; [intros y Hy; apply Hin; now right|exact Hinc|now left|].
    right. exists ((x, d) :: pre), x', d', v, rest. subst r. repeat split; auto.
  - assert (Hx : In x (dkeys (subs b))) by (apply Hin; now left).
    rewrite (dhas_in _ _ _ Hx). cbn [negb]. sproj.
    assert (Hr : In x (dkeys (routed b))) by (now apply Hinc).
    destruct (dget Nat.eqb (routed b) x) as [v|] eqn:E.
    + right. exists [], x, d, v, r. auto.
    + apply nget_none in E. contradiction.
Qed.

Record Base (s b : state) : Prop := mkBase {
  b_tasks : tasks b = tasks s; b_ntasks : ntasks b = ntasks s; b_calls : calls b = calls s; b_rtask : rtask b = rtask s;
  b_svcs : svcs b = svcs s; b_gin : g_inflight b = g_inflight s; b_reqs : reqs b = reqs s; b_nreqs : nreqs b = nreqs s;
  b_ready : ready b = ready s;
  b_nd1 : NoDup (dkeys (subs b)); b_nd2 : NoDup (dkeys (routed b)); b_inc : incl (dkeys (subs b)) (dkeys (routed b));
  b_svc : forall x v, In (x, v) (routed b) -> svc_interesting (svcs s) v = true;
  b_route : g_inflight s = false -> forall x, In x (dkeys (routed b)) -> In x (dkeys (subs b)) \/ unsub_pending s x;
  b_bg : (subs b = subs s /\ routed b = routed s) \/ (exists r, r < nreqs s /\ q_bg (reqs s r) = true)
}.

Lemma finish_plain s t st :
  (forall p x, kindof s t <> KOne p x) ->
  finish s t st = with_ready (with_tasks s (fupd (tasks s) t (mkTask (kindof s t) (PDone st) false [])) (ntasks s))
                             (ready s ++ t_waiters (tasks s t)).
Proof.
  intros H. unfold finish. rewrite fold_enqueue. destruct (kindof s t) eqn:E; try reflexivity. now destruct (H parent x).
Qed.

Lemma nchild_steps l c : (forall h, In h l -> exists u, h = HStep u) -> nchild l c = 0.
Proof.
  induction l as [|h l IH]; intros H; [reflexivity|]. rewrite nchild_cons.
  destruct (H h (or_introl eq_refl)) as [u ->]. destruct (handle_eq_dec (HStep u) (HChild c)); [discriminate|].
  apply IH. intros h' Hh'. apply H. now right.
Qed.

Lemma not_doomed_must s t : ~ doomed s t -> t_must (tasks s t) = false.
Proof. intros H. destruct (t_must (tasks s t)) eqn:E; [|reflexivity]. exfalso. apply H. now left. Qed.

(* the pass suspends on the renewal of x *)
Lemma Inv_susp pend pend' s b lt pn x d v rest :
  Inv pend s -> rtask s = Some lt -> ~ donep s lt -> ~ doomed s lt ->
  (forall r, r < nreqs s -> q_state (reqs s r) = QPending -> q_task (reqs s r) <> lt) ->
  Base s b ->
  dget Nat.eqb (routed b) x = Some v -> In x (dkeys (subs b)) ->
  NoDup (x :: map fst rest) -> (forall y, In y (map fst rest) -> In y (dkeys (subs b))) ->
  (forall c, nchild pend' c = nchild pend c) ->
  Inv pend' (susp_state b lt pn true x d v rest).
Proof.
  intros H Hrt Hnd Hndm Hown B Hv Hx Hnodup Hrest Hch.
  pose proof H as H0.
  destruct H as [Icalls Ipc Idoom Icensus Irtask Ireq Ireqb Ireqo Ibg Isid Isvc Ipass Ipreq Iroute Iphase Iwait Ibeyond Icount].
  destruct (Irtask lt Hrt) as [Hlt Hkl]. destruct B.
  pose proof (not_doomed_must _ _ Hndm) as Hmust.
  assert (Hxr : In x (dkeys (routed b))) by (apply nin_get; congruence).
  assert (Hxv : In (x, v) (routed b)) by (now apply (dget_In Nat.eqb Nat.eqb_spec)).
  inversion Hnodup as [|? ? Hxn Hrn]; subst.
  unfold susp_state.
  eapply Inv_loop_update with (s := s) (lt := lt)
    (k' := mkTask KLoop (PPass (mkPass pn rest x d v true) StRenew (nreqs s)) false (t_waiters (tasks s lt)));
    try eassumption; sproj; unfold issue; sproj; try assumption; try reflexivity.
  - rewrite b_tasks0, b_nreqs0, Hkl, Hmust. reflexivity.
  - discriminate.
  - intros h Hh. eapply Iwait; eauto.
  - intros X. tauto.
  - right. tauto.
  - rewrite b_nreqs0. lia.
  - intros r Hr. rewrite b_reqs0, b_nreqs0. apply fupd_neq. lia.
  - intros r Hr. rewrite b_nreqs0 in Hr. assert (r = nreqs s) by lia. subst r.
    rewrite b_nreqs0, fupd_eq. cbn. repeat split; auto. eapply b_svc0; eauto.
  - intros r Hr. cbn in Hr. rewrite b_nreqs0. lia.
  - now apply nnd_del.
  - intros y Hy. apply nin_del in Hy; [|assumption]. apply b_inc0. tauto.
  - (* pass_ok *) intros p st r Hpc. sproj in Hpc. rewrite fupd_eq in Hpc. cbn in Hpc. injection Hpc as <- <- <-. cbn [p_sid p_todo p_svc].
    sproj. rewrite ?b_svcs0.
    split; [intros X; apply nin_del in X; [tauto|assumption]|]. split; [auto|]. split; [discriminate|].
    split; [|split; [assumption|split; [assumption|eapply b_svc0; eauto]]].
    intros _ y Hy. apply nin_del; [assumption|]. split; [intros ->; contradiction|now apply Hrest].
  - (* route *) intros G. split.
    + intros y Hy. destruct (b_route0 G y Hy) as [A|A]; [|now right; right].
      destruct (Nat.eq_dec y x) as [->|Hne].
      * right; left. exists lt, (mkPass pn rest x d v true), (nreqs s). sproj. rewrite b_rtask0, fupd_eq. cbn. auto.
      * left. apply nin_del; [assumption|]. tauto.
    + intros p r _ D. unfold doomed in D. sproj in D. rewrite fupd_eq in D. cbn in D. rewrite b_nreqs0, fupd_eq in D. cbn in D.
      rewrite b_tasks0, Hmust in D. destruct D; discriminate.
  - right. exists (nreqs b). split; [lia|]. rewrite fupd_eq. cbn. unfold is_loop. now rewrite b_tasks0, Hkl.
  - intros r Hr. rewrite b_nreqs0 in *. assert (r = nreqs s) by lia. subst r. rewrite fupd_eq. cbn. unfold is_loop. now rewrite b_tasks0, Hkl.
  - intros p st r Hpc. cbn in Hpc. injection Hpc as <- <- <-. rewrite b_nreqs0, fupd_eq. cbn. auto.
Qed.

Lemma Base_ghost s b o : Base s b -> Base s (with_ghost b o (g_inflight b) (g_maxdur b)).
Proof. intros []. constructor; assumption. Qed.

Lemma NoDup_app_mid {A} (pre : list A) x rest : NoDup (pre ++ x :: rest) -> NoDup (x :: rest).
Proof. induction pre as [|a pre IH]; cbn; intros H; [exact H|]. inversion H; auto. Qed.

Lemma Inv_loop_finish pend pend' s b lt :
  Inv pend s -> rtask s = Some lt -> ~ donep s lt -> ~ doomed s lt ->
  (forall r, r < nreqs s -> q_state (reqs s r) = QPending -> q_task (reqs s r) <> lt) ->
  Base s b -> subs b = [] ->
  (forall c, nchild pend' c = nchild pend c) ->
  Inv pend' (with_ready (with_tasks b (fupd (tasks b) lt (mkTask KLoop (PDone (SRet None)) false [])) (ntasks b))
                        (ready b ++ t_waiters (tasks b lt))).
Proof.
  intros H Hrt Hnd Hndm Hown B Esubs Hch.
  pose proof H as H0.
  destruct H as [Icalls Ipc Idoom Icensus Irtask Ireq Ireqb Ireqo Ibg Isid Isvc Ipass Ipreq Iroute Iphase Iwait Ibeyond Icount].
  destruct (Irtask lt Hrt) as [Hlt Hkl]. destruct B.
  eapply Inv_loop_update with (s := s) (lt := lt) (k' := mkTask KLoop (PDone (SRet None)) false []);
    try eassumption; sproj; try assumption; try reflexivity.
  - now rewrite b_tasks0.
  - discriminate.
  - intros h [].
  - intros _. now left.
  - right. tauto.
  - rewrite b_nreqs0. lia.
  - intros r _. now rewrite b_reqs0.
  - intros r Hr. rewrite b_nreqs0 in Hr. lia.
  - intros r [].
  - intros p st r Hpc. sproj in Hpc. rewrite fupd_eq in Hpc. discriminate.
  - intros G. split.
    + intros y Hy. destruct (b_route0 G y Hy) as [A|A]; [rewrite Esubs in A; destruct A|now right; right].
    + intros p r Hpc. discriminate.
  - rewrite b_nreqs0, b_reqs0. exact b_bg0.
  - intros r Hr. rewrite b_nreqs0 in Hr. lia.
  - intros p st r Hpc. discriminate.
Qed.

Lemma Inv_loop_sleep pend pend' s b lt w :
  Inv pend s -> rtask s = Some lt -> ~ donep s lt -> ~ doomed s lt ->
  (forall r, r < nreqs s -> q_state (reqs s r) = QPending -> q_task (reqs s r) <> lt) ->
  Base s b ->
  (forall c, nchild pend' c = nchild pend c) ->
  Inv pend' (set_pc b lt (PSleep w WPending)).
Proof.
  intros H Hrt Hnd Hndm Hown B Hch.
  pose proof H as H0.
  destruct H as [Icalls Ipc Idoom Icensus Irtask Ireq Ireqb Ireqo Ibg Isid Isvc Ipass Ipreq Iroute Iphase Iwait Ibeyond Icount].
  destruct (Irtask lt Hrt) as [Hlt Hkl]. destruct B.
  pose proof (not_doomed_must _ _ Hndm) as Hmust.
  eapply Inv_loop_update with (s := s) (lt := lt) (k' := mkTask KLoop (PSleep w WPending) false (t_waiters (tasks s lt)));
    try eassumption; sproj; try assumption; try reflexivity.
  - now rewrite b_tasks0, Hkl, Hmust.
  - discriminate.
  - intros h Hh. eapply Iwait; eauto.
  - tauto.
  - right. tauto.
  - rewrite b_nreqs0. lia.
  - intros r _. now rewrite b_reqs0.
  - intros r Hr. rewrite b_nreqs0 in Hr. lia.
  - intros r [].
  - intros p st r Hpc. sproj in Hpc. rewrite fupd_eq in Hpc. discriminate.
  - intros G. split.
    + intros y Hy. destruct (b_route0 G y Hy) as [A|A]; [now left|now right; right].
    + intros p r Hpc. discriminate.
  - rewrite b_nreqs0, b_reqs0. exact b_bg0.
  - intros r Hr. rewrite b_nreqs0 in Hr. lia.
  - intros p st r Hpc. discriminate.
Qed.

Lemma Inv_run_pass pend rest0 s b lt :
  Inv pend s -> rtask s = Some lt -> ~ donep s lt -> ~ doomed s lt ->
  (forall r, r < nreqs s -> q_state (reqs s r) = QPending -> q_task (reqs s r) <> lt) ->
  Base s b ->
  (forall c, nchild (rest0 ++ ready s) c = nchild pend c) ->
  (exists b1, run_pass b lt = ODone b1 /\ subs b1 = subs b /\ Base s b1) \/
  (exists s', run_pass b lt = OSusp s' /\ Inv (rest0 ++ ready s') s').
Proof.
  intros H Hrt Hnd Hndm Hown B Hch. unfold run_pass.
  set (b1 := with_ghost b _ _ _).
  assert (B1 : Base s b1) by (apply Base_ghost; exact B).
  destruct (pass_scan_dom b1 lt (now b1) true (subs b1)) as [E|(pre & x & d & v & rest & E1 & E2 & E3 & E4)].
  - intros y Hy. exact Hy.
  - destruct B1; assumption.
  - left. exists b1. auto.
  - right. eexists. split; [exact E4|].
    assert (ND : NoDup (map fst (subs b1))) by (destruct B1; assumption).
    rewrite E1, map_app in ND. cbn [map fst] in ND. apply NoDup_app_mid in ND.
    eapply Inv_susp; try eassumption.
    + intros y Hy. unfold dkeys. rewrite E1, map_app. apply in_app_iff. right. now right.
    + intros c. unfold susp_state, issue. subst b1. sproj. destruct B. rewrite b_ready0. apply Hch.
Qed.

(* `while self._subscriptions:` entered with the renewal task not cancelled *)
Lemma loop_head_dom pend rest0 s b lt fuel :
  Inv pend s -> rtask s = Some lt -> ~ donep s lt -> ~ doomed s lt ->
  (forall r, r < nreqs s -> q_state (reqs s r) = QPending -> q_task (reqs s r) <> lt) ->
  Base s b ->
  (forall c, nchild (rest0 ++ ready s) c = nchild pend c) ->
  diverged (loop_head fuel b lt) = true \/ Inv (rest0 ++ ready (loop_head fuel b lt)) (loop_head fuel b lt).
Proof.
  intros H Hrt Hnd Hndm Hown B Hch.
  assert (Hkl : kindof s lt = KLoop) by (apply (iv_rtask _ _ H lt Hrt)).
  assert (Hw : forall h, In h (t_waiters (tasks s lt)) -> exists u, h = HStep u).
  { intros h Hh. eapply (iv_wait _ _ H); [|exact Hh]. apply (iv_rtask _ _ H lt Hrt). }
  assert (Hfin : subs b = [] -> Inv (rest0 ++ ready (finish b lt (SRet None))) (finish b lt (SRet None))).
  { intros Es. destruct B as [Bt]. rewrite finish_plain by (rewrite Bt, Hkl; discriminate). rewrite Bt, Hkl. rewrite <- Bt.
    eapply Inv_loop_finish; try eassumption; [constructor; assumption|].
    intros c. sproj. rewrite b_ready0, app_assoc, nchild_app2, Bt, (nchild_steps _ c Hw), Hch. lia. }
  assert (Hsl : forall w, Inv (rest0 ++ ready (set_pc b lt (PSleep w WPending))) (set_pc b lt (PSleep w WPending))).
  { intros w. eapply Inv_loop_sleep; try eassumption. intros c. sproj. destruct B. rewrite b_ready0. apply Hch. }
  destruct fuel as [|f]; cbn [loop_head].
  - destruct (subs b) as [|e0 l0] eqn:Esubs; [right; now apply Hfin|]. rewrite <- Esubs.
    destruct (0 <? _)%Z; [right; apply Hsl|].
    destruct (Inv_run_pass pend rest0 s b lt H Hrt Hnd Hndm Hown B Hch) as [(b1 & E & Es & B1)|(s' & E & I')]; rewrite E.
    + left. rewrite Es, Nat.ltb_irrefl. reflexivity.
    + now right.
  - destruct (subs b) as [|e0 l0] eqn:Esubs; [right; now apply Hfin|]. rewrite <- Esubs.
    destruct (0 <? _)%Z; [right; apply Hsl|].
    destruct (Inv_run_pass pend rest0 s b lt H Hrt Hnd Hndm Hown B Hch) as [(b1 & E & Es & B1)|(s' & E & I')]; rewrite E.
    + left. rewrite Es, Nat.ltb_irrefl. reflexivity.
    + now right.
Qed.

(* the rest of a pass after a response has been processed, then the loop *)
Lemma loop_tail pend rest0 s b lt pn todo :
  Inv pend s -> rtask s = Some lt -> ~ donep s lt -> ~ doomed s lt ->
  (forall r, r < nreqs s -> q_state (reqs s r) = QPending -> q_task (reqs s r) <> lt) ->
  Base s b -> NoDup (map fst todo) -> (forall y, In y (map fst todo) -> In y (dkeys (subs b))) ->
  (forall c, nchild (rest0 ++ ready s) c = nchild pend c) ->
  let s' := after_pass_loop lt (pass_scan b lt pn true todo) in
  diverged s' = true \/ Inv (rest0 ++ ready s') s'.
Proof.
  intros H Hrt Hnd Hndm Hown B ND Hin Hch. cbv zeta.
  destruct (pass_scan_dom b lt pn true todo Hin) as [E|(pre & x & d & v & rest & E1 & E2 & E3 & E4)].
  - destruct B; assumption.
  - rewrite E. cbn [after_pass_loop]. eapply loop_head_dom; eassumption.
  - rewrite E4. cbn [after_pass_loop]. right.
    rewrite E1, map_app in ND. cbn [map fst] in ND. apply NoDup_app_mid in ND.
    eapply Inv_susp; try eassumption.
    + intros y Hy. apply Hin. rewrite E1, map_app. apply in_app_iff. right. now right.
    + intros c. unfold susp_state, issue. sproj. destruct B. rewrite b_ready0. apply Hch.
Qed.

Lemma Base_self pend s lt :
  Inv pend s -> rtask s = Some lt -> (forall p r, pcof s lt <> PPass p StRenew r) -> Base s s.
Proof.
  intros H Hrt Hpc. destruct (iv_sid _ _ H) as (A & B & C). destruct (iv_svc _ _ H) as [D _].
  constructor; auto. intros G x Hx. destruct (iv_route _ _ H G) as [R _]. destruct (R x Hx) as [X|[X|X]]; auto.
  destruct X as (lt' & p & r & X1 & X2 & _). assert (lt' = lt) by congruence. subst. now destruct (Hpc p r).
Qed.

Lemma own_none pend s lt :
  Inv pend s -> (forall r, ~ awaits (pcof s lt) r \/ q_state (reqs s r) <> QPending) ->
  forall r, r < nreqs s -> q_state (reqs s r) = QPending -> q_task (reqs s r) <> lt.
Proof.
  intros H Hno r Hr Hq E. destruct (iv_req _ _ H r Hr Hq) as [_ A]. rewrite E in A. destruct (Hno r); auto.
Qed.

(* the renewal task starts *)
Lemma Inv_loop_start pend rest0 s lt :
  Inv pend s -> rtask s = Some lt -> pcof s lt = PStart -> t_must (tasks s lt) = false ->
  (forall c, nchild (rest0 ++ ready s) c = nchild pend c) ->
  let s' := loop_head (length (subs s)) s lt in
  diverged s' = true \/ Inv (rest0 ++ ready s') s'.
Proof.
  intros H Hrt Hpc Hm Hch. cbv zeta. eapply loop_head_dom; try eassumption.
  - unfold is_done. rewrite Hpc. discriminate.
  - unfold doomed. rewrite Hpc, Hm. intuition discriminate.
  - eapply own_none; [eassumption|]. intros r. left. rewrite Hpc. cbn. tauto.
  - eapply Base_self; try eassumption. intros p r. rewrite Hpc. discriminate.
Qed.

(* the renewal task wakes up from its sleep *)
Lemma Inv_loop_wake pend rest0 s lt w :
  Inv pend s -> rtask s = Some lt -> pcof s lt = PSleep w WDone -> t_must (tasks s lt) = false ->
  (forall c, nchild (rest0 ++ ready s) c = nchild pend c) ->
  let s' := after_pass_loop lt (run_pass s lt) in
  diverged s' = true \/ Inv (rest0 ++ ready s') s'.
Proof.
  intros H Hrt Hpc Hm Hch. cbv zeta.
  assert (Hnd : ~ donep s lt) by (unfold is_done; rewrite Hpc; discriminate).
  assert (Hndm : ~ doomed s lt) by (unfold doomed; rewrite Hpc, Hm; intuition discriminate).
  assert (Hown : forall r, r < nreqs s -> q_state (reqs s r) = QPending -> q_task (reqs s r) <> lt).
  { eapply own_none; [eassumption|]. intros r. left. rewrite Hpc. cbn. tauto. }
  assert (B : Base s s) by (eapply Base_self; try eassumption; intros p r; rewrite Hpc; discriminate).
  destruct (Inv_run_pass pend rest0 s s lt H Hrt Hnd Hndm Hown B Hch) as [(b1 & E & Es & B1)|(s' & E & I')]; rewrite E;
    cbn [after_pass_loop].
  - eapply loop_head_dom; eassumption.
  - now right.
Qed.

(* ---- dictionary entries after an update ------------------------------------------------------------------------ *)
Notation nin_dget := (In_dget Nat.eqb Nat.eqb_spec).
Notation ndget_in := (dget_In Nat.eqb Nat.eqb_spec).

Lemma In_dset_inv (A : Type) (d : list (nat * A)) x v k w :
  NoDup (dkeys d) -> In (k, w) (dset Nat.eqb d x v) -> (k = x /\ w = v) \/ In (k, w) d.
Proof.
  intros ND Hin. apply nin_dget in Hin; [|now apply nnd_set]. rewrite nget_set in Hin.
  destruct (Nat.eqb_spec x k) as [<-|Hne]; [left; split; congruence|right; now apply ndget_in].
Qed.
Lemma In_ddel_inv (A : Type) (d : list (nat * A)) x k w :
  NoDup (dkeys d) -> In (k, w) (ddel Nat.eqb d x) -> In (k, w) d.
Proof.
  intros ND Hin. apply nin_dget in Hin; [|now apply nnd_del]. rewrite nget_del in Hin by assumption.
  destruct (Nat.eqb x k); [discriminate|now apply ndget_in].
Qed.

(* the renewal task is cancelled *)
Lemma Inv_loop_cancelled pend pend' s lt :
  Inv pend s -> lt < ntasks s -> kindof s lt = KLoop -> ~ donep s lt -> doomed s lt ->
  (forall r, awaits (pcof s lt) r -> q_state (reqs s r) <> QPending) ->
  (forall c, nchild pend' c = nchild pend c) ->
  Inv pend' (with_ready (with_tasks s (fupd (tasks s) lt (mkTask KLoop (PDone SCancelled) false [])) (ntasks s))
                        (ready s ++ t_waiters (tasks s lt))).
Proof.
  intros H Hlt Hkl Hnd Hdm Hnp Hch.
  assert (Hrt : rtask s = Some lt).
  { pose proof (iv_census _ _ H lt Hlt) as C. unfold census in C. rewrite Hkl in C. destruct C; [assumption|contradiction]. }
  destruct (iv_sid _ _ H) as (S1 & S2 & S3). destruct (iv_svc _ _ H) as [V1 V2].
  eapply Inv_loop_update with (s := s) (lt := lt) (k' := mkTask KLoop (PDone SCancelled) false []);
    try eassumption; sproj; try assumption; try reflexivity; auto.
  - discriminate.
  - intros h [].
  - intros r Hr Hq E. destruct (iv_req _ _ H r Hr Hq) as [_ A]. rewrite E in A. now apply (Hnp r).
  - intros r Hr. lia.
  - intros r [].
  - intros p st r Hpc. sproj in Hpc. rewrite fupd_eq in Hpc. discriminate.
  - intros G. destruct (iv_route _ _ H G) as [R1 R2]. split.
    + intros x Hx. destruct (R1 x Hx) as [A|[A|A]]; [now left| |now right; right].
      exfalso. destruct A as (lt' & p & r & A1 & A2 & _). assert (lt' = lt) by congruence. subst. eapply R2; eauto.
    + intros p r Hpc. discriminate.
  - intros r Hr. lia.
  - intros p st r Hpc. discriminate.
Qed.

(* the renewal task receives the response it was waiting for *)
Lemma Inv_loop_resume pend rest0 s lt p st r rho hdr :
  Inv pend s -> rtask s = Some lt -> pcof s lt = PPass p st r -> q_state (reqs s r) = QDone rho hdr ->
  t_must (tasks s lt) = false ->
  (forall c, nchild (rest0 ++ ready s) c = nchild pend c) ->
  let s' := after_pass_loop lt (pass_resume s lt p st rho hdr) in
  diverged s' = true \/ Inv (rest0 ++ ready s') s'.
Proof.
  intros H Hrt Hpc Hq Hm Hch. cbv zeta.
  destruct (iv_rtask _ _ H lt Hrt) as [Hlt Hkl].
  assert (Hnd : ~ donep s lt) by (unfold is_done; rewrite Hpc; discriminate).
  assert (Hndm : ~ doomed s lt) by (unfold doomed; rewrite Hpc, Hm, Hq; intuition discriminate).
  assert (Hown : forall r', r' < nreqs s -> q_state (reqs s r') = QPending -> q_task (reqs s r') <> lt).
  { eapply own_none; [eassumption|]. intros r'. rewrite Hpc. cbn. destruct (Nat.eq_dec r r') as [<-|]; [right; congruence|now left]. }
  pose proof (iv_pc _ _ H lt Hlt) as Hpcok. unfold pc_ok in Hpcok. rewrite Hkl, Hpc in Hpcok.
  destruct (iv_pass _ _ H lt Hrt p st r Hpc) as (P1 & P2 & P3 & P4 & P5 & P6 & P7).
  specialize (P4 Hndm).
  destruct (iv_sid _ _ H) as (S1 & S2 & S3). destruct (iv_svc _ _ H) as [V1 V2].
  assert (Hroute : g_inflight s = false -> forall y, In y (dkeys (routed s)) ->
                   In y (dkeys (subs s)) \/ (st = StRenew /\ y = p_sid p) \/ unsub_pending s y).
  { intros G y Hy. destruct (iv_route _ _ H G) as [R1 _]. destruct (R1 y Hy) as [A|[A|A]]; auto.
    destruct A as (lt' & p' & r' & A1 & A2 & A3). assert (lt' = lt) by congruence. subst lt'. rewrite Hpc in A2.
    injection A2 as <- <- <-. right; left. auto. }
  assert (Hbgr : exists r0, r0 < nreqs s /\ q_bg (reqs s r0) = true).
  { exists r. assert (A : awaits (pcof s lt) r) by (rewrite Hpc; reflexivity).
    pose proof (iv_reqb _ _ H lt Hlt r A) as Hr. split; [exact Hr|].
    destruct (iv_bg _ _ H r Hr) as [B _]. rewrite B, (iv_reqo _ _ H lt Hlt r A). unfold is_loop. now rewrite Hkl. }
  unfold pass_resume. cbv zeta. set (x := p_sid p) in *. set (v := p_svc p) in *. set (pn := p_now p).
  assert (Tail : forall b, Base s b -> (forall y, In y (dkeys (subs s)) -> In y (dkeys (subs b))) ->
            let s' := after_pass_loop lt (pass_scan b lt pn true (p_todo p)) in
            diverged s' = true \/ Inv (rest0 ++ ready s') s').
  { intros b B Hsub. eapply loop_tail; try eassumption. intros y Hy. apply Hsub. now apply P4. }
  assert (Err : forall b e, Base s b -> subs b = subs s -> is_upnp e = true ->
            let s' := after_pass_loop lt (pass_error b lt p e) in
            diverged s' = true \/ Inv (rest0 ++ ready s') s').
  { intros b e B Es Eu. unfold pass_error. rewrite Eu, Hpcok. fold pn. apply Tail.
    - destruct B. destruct (is_conn e); constructor; assumption.
    - intros y Hy. destruct (is_conn e); sproj; now rewrite Es. }
  assert (Grant : forall b y g, Base s (with_subs b (dset Nat.eqb (subs b) y (pn + grant_secs g)%Z)) ->
            (forall z, In z (dkeys (subs s)) -> In z (dkeys (subs b))) ->
            let s' := after_pass_loop lt (pass_grant b lt p y g) in
            diverged s' = true \/ Inv (rest0 ++ ready s') s').
  { intros b y g B Hsub. unfold pass_grant. rewrite Hpcok. apply Tail; [exact B|]. intros z Hz. sproj. apply nin_set. right. now apply Hsub. }
  destruct st.
  - (* the renewal request *)
    specialize (P2 eq_refl). rewrite (dhas_in _ _ _ P2).
    destruct rho as [m g| | |].
    + destruct (match hdr with Some y => if Nat.eqb y x then None else Some y | None => None end) as [y|] eqn:Ey.
      * (* a new SID *)
        assert (Hyx : y <> x).
        { destruct hdr as [y'|]; [|discriminate]. destruct (Nat.eqb_spec y' x); [discriminate|]. congruence. }
        apply Grant; [|auto]. constructor; sproj; try reflexivity; try (right; exact Hbgr).
        -- now apply nnd_set.
        -- apply nnd_set. now apply nnd_del.
        -- intros z Hz. apply nin_set in Hz. apply nin_set. destruct Hz as [->|Hz]; [now left|right].
           apply nin_del; [assumption|]. split; [intros ->; contradiction|now apply S3].
        -- intros z w Hin. apply In_dset_inv in Hin; [|now apply nnd_del]. destruct Hin as [[-> ->]|Hin]; [exact P7|].
           apply In_ddel_inv in Hin; [|assumption]. eapply V1; eauto.
        -- intros G z Hz. apply nin_set in Hz. destruct Hz as [->|Hz]; [left; apply nin_set; now left|].
           apply nin_del in Hz; [|assumption]. destruct Hz as [Hzx Hz].
           destruct (Hroute G z Hz) as [A|[[_ A]|A]]; [left; apply nin_set; now right|contradiction|now right].
      * (* the same SID *)
        apply Grant; [|auto]. constructor; sproj; try reflexivity; try (right; exact Hbgr).
        -- now apply nnd_set.
        -- now apply nnd_set.
        -- intros z Hz. apply nin_set in Hz. apply nin_set. destruct Hz as [->|Hz]; [now left|right; now apply S3].
        -- intros z w Hin. apply In_dset_inv in Hin; [|assumption]. destruct Hin as [[-> ->]|Hin]; [exact P7|eapply V1; eauto].
        -- intros G z Hz. apply nin_set in Hz. destruct Hz as [->|Hz]; [left; apply nin_set; now left|].
           destruct (Hroute G z Hz) as [A|[[_ ->]|A]]; [left; apply nin_set; now right|left; apply nin_set; now left|now right].
    + (* refused: fresh SUBSCRIBE *)
      cbn [after_pass_loop]. right. unfold issue. sproj.
      eapply Inv_loop_update with (s := s) (lt := lt)
        (k' := mkTask KLoop (PPass p StFallback (nreqs s)) false (t_waiters (tasks s lt)));
        try eassumption; sproj; try assumption; try reflexivity.
      * now rewrite Hkl, Hm.
      * discriminate.
      * intros h Hh. eapply (iv_wait _ _ H); eauto.
      * tauto.
      * right; tauto.
      * lia.
      * intros r' Hr'. apply fupd_neq. lia.
      * intros r' Hr'. assert (r' = nreqs s) by lia. subst r'. rewrite fupd_eq. cbn. auto.
      * intros r' Hr'. cbn in Hr'. lia.
      * now apply nnd_del.
      * intros z Hz. apply nin_del; [assumption|]. split; [intros ->; contradiction|now apply S3].
      * intros z w Hin. apply In_ddel_inv in Hin; [|assumption]. eapply V1; eauto.
      * intros p' st' r' Hpc'. sproj in Hpc'. rewrite fupd_eq in Hpc'. cbn in Hpc'. injection Hpc' as <- <- <-. sproj.
        split; [exact P1|]. split; [discriminate|]. split; [intros _ X; apply nin_del in X; [tauto|assumption]|].
        split; [intros _; exact P4|]. auto.
      * intros G. split; [|intros p' r' Hpc'; discriminate].
        intros z Hz. apply nin_del in Hz; [|assumption]. destruct Hz as [Hzx Hz].
        destruct (Hroute G z Hz) as [A|[[_ A]|A]]; [now left|contradiction|now right; right].
      * right. exists (nreqs s). split; [lia|]. rewrite fupd_eq. cbn. unfold is_loop. now rewrite Hkl.
      * intros r' Hr'. assert (r' = nreqs s) by lia. subst r'. rewrite fupd_eq. cbn. unfold is_loop. now rewrite Hkl.
      * intros p' st' r' Hpc'. cbn in Hpc'. injection Hpc' as <- <- <-. rewrite fupd_eq. cbn. auto.
    + (* unreachable *)
      apply Err; [|reflexivity|reflexivity]. constructor; sproj; try reflexivity; auto; try (right; exact Hbgr).
      * now apply nnd_del.
      * intros z Hz. apply nin_del; [assumption|]. split; [intros ->; contradiction|now apply S3].
      * intros z w Hin. apply In_ddel_inv in Hin; [|assumption]. eapply V1; eauto.
      * intros G z Hz. apply nin_del in Hz; [|assumption]. destruct Hz as [Hzx Hz].
        destruct (Hroute G z Hz) as [A|[[_ A]|A]]; [now left|contradiction|now right].
    + (* another error: fresh SUBSCRIBE *)
      cbn [after_pass_loop]. right. unfold issue. sproj.
      eapply Inv_loop_update with (s := s) (lt := lt)
        (k' := mkTask KLoop (PPass p StFallback (nreqs s)) false (t_waiters (tasks s lt)));
        try eassumption; sproj; try assumption; try reflexivity.
      * now rewrite Hkl, Hm.
      * discriminate.
      * intros h Hh. eapply (iv_wait _ _ H); eauto.
      * tauto.
      * right; tauto.
      * lia.
      * intros r' Hr'. apply fupd_neq. lia.
      * intros r' Hr'. assert (r' = nreqs s) by lia. subst r'. rewrite fupd_eq. cbn. auto.
      * intros r' Hr'. cbn in Hr'. lia.
      * now apply nnd_del.
      * intros z Hz. apply nin_del; [assumption|]. split; [intros ->; contradiction|now apply S3].
      * intros z w Hin. apply In_ddel_inv in Hin; [|assumption]. eapply V1; eauto.
      * intros p' st' r' Hpc'. sproj in Hpc'. rewrite fupd_eq in Hpc'. cbn in Hpc'. injection Hpc' as <- <- <-. sproj.
        split; [exact P1|]. split; [discriminate|]. split; [intros _ X; apply nin_del in X; [tauto|assumption]|].
        split; [intros _; exact P4|]. auto.
      * intros G. split; [|intros p' r' Hpc'; discriminate].
        intros z Hz. apply nin_del in Hz; [|assumption]. destruct Hz as [Hzx Hz].
        destruct (Hroute G z Hz) as [A|[[_ A]|A]]; [now left|contradiction|now right; right].
      * right. exists (nreqs s). split; [lia|]. rewrite fupd_eq. cbn. unfold is_loop. now rewrite Hkl.
      * intros r' Hr'. assert (r' = nreqs s) by lia. subst r'. rewrite fupd_eq. cbn. unfold is_loop. now rewrite Hkl.
      * intros p' st' r' Hpc'. cbn in Hpc'. injection Hpc' as <- <- <-. rewrite fupd_eq. cbn. auto.
  - (* the fresh SUBSCRIBE after a refused renewal *)
    assert (Bs : Base s s).
    { constructor; auto. intros G z Hz. destruct (Hroute G z Hz) as [A|[[A _]|A]]; [now left|discriminate|now right]. }
    destruct rho as [m g| | |]; try (apply Err; [exact Bs|reflexivity|reflexivity]).
    destruct hdr as [y|]; [|apply Err; [exact Bs|reflexivity|reflexivity]].
    apply Grant; [|auto]. constructor; sproj; try reflexivity; try (right; exact Hbgr).
    + now apply nnd_set.
    + now apply nnd_set.
    + intros z Hz. apply nin_set in Hz. apply nin_set. destruct Hz as [->|Hz]; [now left|right; now apply S3].
    + intros z w Hin. apply In_dset_inv in Hin; [|assumption]. destruct Hin as [[-> ->]|Hin]; [exact P7|eapply V1; eauto].
    + intros G z Hz. apply nin_set in Hz. destruct Hz as [->|Hz]; [left; apply nin_set; now left|].
      destruct (Hroute G z Hz) as [A|[[A _]|A]]; [left; apply nin_set; now right|discriminate|now right].
Qed.

(* ---- generic: one task changes (no task is created) --------------------------------------------------------------- *)
Lemma Inv_update1 pend pend' s s' t k' :
  Inv pend s -> t < ntasks s ->
  calls s' = calls s -> ntasks s' = ntasks s -> svcs s' = svcs s ->
  tasks s' = fupd (tasks s) t k' -> t_kind k' = kindof s t -> pc_ok k' ->
  (forall h, In h (t_waiters k') -> exists u, h = HStep u) ->
  (doomed s' t -> kindof s t = KLoop) ->
  (donep s t -> is_done k' = true) ->
  (is_done k' = true -> ~ donep s t -> forall t' x, t' < ntasks s -> kindof s t' = KOne t x -> donep s t') ->
  (rtask s' = rtask s \/ rtask s' = None /\ forall lt, rtask s = Some lt -> lt <> t /\ donep s lt) ->
  (kindof s t = KLoop -> rtask s' = Some t \/ is_done k' = true) ->
  (* requests *)
  nreqs s <= nreqs s' -> (forall r, r < nreqs s -> reqs s' r = reqs s r) ->
  (forall r, r < nreqs s -> q_state (reqs s r) = QPending -> q_task (reqs s r) = t -> awaits (t_pc k') r) ->
  (forall r, nreqs s <= r < nreqs s' ->
             q_task (reqs s' r) = t /\ awaits (t_pc k') r /\ svc_interesting (svcs s) (q_svc (reqs s' r)) = true /\
             q_bg (reqs s' r) = is_loop k') ->
  (forall r, awaits (t_pc k') r -> nreqs s <= r < nreqs s') ->
  (* the rest is the caller's business *)
  NoDup (dkeys (subs s')) /\ NoDup (dkeys (routed s')) /\ incl (dkeys (subs s')) (dkeys (routed s')) ->
  (forall x v, In (x, v) (routed s') -> svc_interesting (svcs s) v = true) ->
  (forall lt, rtask s' = Some lt -> pass_ok s' lt) ->
  (g_inflight s' = false ->
   (forall x, In x (dkeys (routed s')) -> In x (dkeys (subs s')) \/ inflight s' x \/ unsub_pending s' x) /\
   (forall lt p r, rtask s' = Some lt -> pcof s' lt = PPass p StRenew r -> ~ doomed s' lt)) ->
  phase_ok s' -> count_ok pend' s' -> kindof s t <> KLoop ->
  Inv pend' s'.
Proof.
  intros H Ht Ec En Es Et Kk Kpc Kw Kdm Kmono Kkids Krt Kloop Rle Rold Rown Rnew Rb Nsid Nsvc Kpass Kroute Kphase Kcount Hnl.
  destruct H as [Icalls Ipc Idoom Icensus Irtask Ireq Ireqb Ireqo Ibg Isid Isvc Ipass Ipreq Iroute Iphase Iwait Ibeyond Icount].
  assert (Told : forall t', t' <> t -> tasks s' t' = tasks s t') by (intros t' Hne; rewrite Et; apply fupd_neq; congruence).
  assert (Tnew : tasks s' t = k') by (rewrite Et; apply fupd_eq).
  assert (Kind : forall t', kindof s' t' = kindof s t').
  { intros t'. destruct (Nat.eq_dec t' t) as [->|Hne]; [rewrite Tnew; congruence|now rewrite Told]. }
  assert (Hcur : cur s' = cur s) by (unfold cur; now rewrite Ec).
  assert (Dold : forall t', t' < ntasks s -> t' <> t -> (doomed s' t' <-> doomed s t')).
  { intros t' Ht' Hne. unfold doomed. rewrite (Told t' Hne).
    destruct (pcof s t') as [| ? ? ? r|? ? r|? []| | |r|] eqn:Epc; try tauto;
      (rewrite Rold; [tauto|]; eapply Ireqb; [exact Ht'|]; rewrite Epc; reflexivity). }
  assert (Dmono : forall t', donep s t' -> donep s' t').
  { intros t' D. destruct (Nat.eq_dec t' t) as [->|Hne]; [rewrite Tnew; now apply Kmono|now rewrite Told]. }
  constructor; try assumption.
  - (* calls *) unfold calls_ok in *. rewrite Ec, En. destruct (calls s) as [|c0 us] eqn:Ecalls.
    + exfalso. destruct Icalls as (X & _). lia.
    + destruct Icalls as (K0 & Kus & Klt & Kdone & Knd). rewrite Kind. split; [exact K0|].
      split; [intros u Hu; rewrite Kind; now apply Kus|]. split; [exact Klt|]. split; [|exact Knd].
      intros t' Ht' Hne. rewrite Hcur in Hne. apply Dmono. now apply Kdone.
  - (* pc *) intros t' Ht'. rewrite En in Ht'. destruct (Nat.eq_dec t' t) as [->|Hne]; [now rewrite Tnew|]. rewrite Told by assumption. now apply Ipc.
  - (* doom *) intros t' Ht' D. rewrite En in Ht'. rewrite Kind. destruct (Nat.eq_dec t' t) as [->|Hne]; [now apply Kdm|].
    apply Idoom; [assumption|]. now apply Dold.
  - (* census *) intros t' Ht'. rewrite En in Ht'. pose proof (Icensus t' Ht') as C. unfold census in *. rewrite Kind, Ec, Hcur.
    destruct (kindof s t') eqn:Hk; try exact C.
    + (* loop *) destruct (Nat.eq_dec t' t) as [->|Hne].
      * rewrite Tnew. now apply Kloop.
      * rewrite (Told t' Hne). destruct Krt as [->|[-> Kr]]; [exact C|]. destruct C as [C|C]; [|now right].
        right. now apply Kr.
    + (* child *) destruct C as [A B]. split; [|exact B].
      destruct A as [A|[-> A]]; [left; now apply Dmono|].
      destruct (Nat.eq_dec (cur s) t) as [E|Hne].
      * destruct (is_done k') eqn:Ed.
        -- left. apply Dmono. rewrite E in *. eapply Kkids; eauto.
        -- right. split; [reflexivity|]. rewrite E, Tnew, Ed. discriminate.
      * right. split; [reflexivity|]. now rewrite (Told _ Hne).
  - (* rtask *) intros lt Hlt. rewrite En, Kind. destruct Krt as [E|[E _]]; rewrite E in Hlt; [now apply Irtask|discriminate].
  - (* req *) intros r Hr Hq. rewrite En. destruct (Nat.lt_ge_cases r (nreqs s)) as [Hlo|Hhi].
    + rewrite Rold in * by assumption. destruct (Ireq r Hlo Hq) as [A B]. split; [exact A|].
      destruct (Nat.eq_dec (q_task (reqs s r)) t) as [E|Hne]; [rewrite E, Tnew; now apply Rown|now rewrite Told].
    + destruct (Rnew r (conj Hhi Hr)) as (A & B & _). rewrite A, Tnew. split; [exact Ht|exact B].
  - (* reqb *) intros t' Ht' r Hr. rewrite En in Ht'. destruct (Nat.eq_dec t' t) as [->|Hne].
    + rewrite Tnew in Hr. apply Rb in Hr. lia.
    + rewrite Told in Hr by assumption. specialize (Ireqb t' Ht' r Hr). lia.
  - (* reqo *) intros t' Ht' r Hr. rewrite En in Ht'. destruct (Nat.eq_dec t' t) as [->|Hne].
    + rewrite Tnew in Hr. now destruct (Rnew r (Rb r Hr)).
    + rewrite Told in Hr by assumption. rewrite Rold by (eapply Ireqb; eauto). now apply Ireqo.
  - (* bg *) intros r Hr. rewrite En. destruct (Nat.lt_ge_cases r (nreqs s)) as [Hlo|Hhi].
    + rewrite Rold by assumption. destruct (Ibg r Hlo) as [A B]. split; [|exact B]. rewrite A. unfold is_loop. now rewrite Kind.
    + destruct (Rnew r (conj Hhi Hr)) as (A & _ & _ & B). rewrite A, Tnew. split; [exact B|exact Ht].
  - (* svc *) rewrite Es. split; [exact Nsvc|]. intros r Hr. destruct (Nat.lt_ge_cases r (nreqs s)) as [Hlo|Hhi].
    + rewrite Rold by assumption. now apply Isvc.
    + now destruct (Rnew r (conj Hhi Hr)) as (_ & _ & X & _).
  - (* preq *) intros lt p st r Hlt Hpc.
    assert (Hlt0 : rtask s = Some lt) by (destruct Krt as [E|[E _]]; rewrite E in Hlt; [exact Hlt|discriminate]).
    destruct (Irtask lt Hlt0) as [L1 L2]. assert (lt <> t) by (intros ->; contradiction).
    rewrite Told in Hpc by assumption. rewrite Rold; [now apply (Ipreq lt p st r)|].
    eapply Ireqb; [exact L1|]. rewrite Hpc. reflexivity.
  - (* wait *) intros t' Ht' h Hh. rewrite En in Ht'. destruct (Nat.eq_dec t' t) as [->|Hne].
    + rewrite Tnew in Hh. now apply Kw.
    + rewrite Told in Hh by assumption. eapply Iwait; eauto.
  - (* beyond *) intros t' Ht'. rewrite En in Ht'. rewrite Told by lia. now apply Ibeyond.
Qed.

(* ---- gather: one child task per SID ------------------------------------------------------------------------------- *)
Definition spawn_kids (s : state) (c : tid) (sids : list sid) : state :=
  fold_left (fun s x => spawn s (KOne c x)) sids s.

Lemma spawn_kids_spec c sids : forall s,
  let s' := spawn_kids s c sids in
  ntasks s' = ntasks s + length sids /\
  ready s' = ready s ++ map HStep (seq (ntasks s) (length sids)) /\
  (forall t, t < ntasks s -> tasks s' t = tasks s t) /\
  (forall i, i < length sids -> tasks s' (ntasks s + i) = mkTask (KOne c (nth i sids 0)) PStart false []) /\
  (forall t, ntasks s + length sids <= t -> tasks s' t = tasks s t) /\
  now s' = now s /\ svcs s' = svcs s /\ subs s' = subs s /\ routed s' = routed s /\ avail s' = avail s /\
  evlog s' = evlog s /\ rtask s' = rtask s /\ calls s' = calls s /\ reqs s' = reqs s /\ nreqs s' = nreqs s /\
  pub s' = pub s /\ nsid s' = nsid s /\ lapsed s' = lapsed s /\ diverged s' = diverged s /\
  g_overdue s' = g_overdue s /\ g_inflight s' = g_inflight s /\ g_maxdur s' = g_maxdur s.
Proof.
  induction sids as [|x sids IH]; intros s; cbn [spawn_kids fold_left length].
  - cbv zeta. rewrite Nat.add_0_r, app_nil_r. repeat split; auto. intros i Hi. lia.
  - specialize (IH (spawn s (KOne c x))). cbv zeta in *. fold (spawn_kids (spawn s (KOne c x)) c sids).
    set (s1 := spawn s (KOne c x)) in *.
    assert (N1 : ntasks s1 = S (ntasks s)) by reflexivity.
    assert (R1 : ready s1 = ready s ++ [HStep (ntasks s)]) by reflexivity.
    assert (T1 : forall t, t < ntasks s -> tasks s1 t = tasks s t) by (intros t Ht; subst s1; unfold spawn; sproj; apply fupd_neq; lia).
    assert (T2 : tasks s1 (ntasks s) = mkTask (KOne c x) PStart false []) by (subst s1; unfold spawn; sproj; apply fupd_eq).
    assert (T3 : forall t, S (ntasks s) <= t -> tasks s1 t = tasks s t) by (intros t Ht; subst s1; unfold spawn; sproj; apply fupd_neq; lia).
    destruct IH as (A1 & A2 & A3 & A4 & A4' & A5). rewrite N1 in *. rewrite R1 in A2.
    split; [rewrite A1; lia|]. split.
    { rewrite A2. cbn [seq map]. rewrite <- app_assoc. reflexivity. }
    split.
    { intros t Ht. rewrite A3 by lia. now apply T1. }
    split.
    { intros i Hi. destruct i as [|i].
      - rewrite Nat.add_0_r, A3 by lia. exact T2.
      - specialize (A4 i ltac:(lia)). replace (ntasks s + S i) with (S (ntasks s) + i) by lia. rewrite A4. reflexivity. }
    split.
    { intros t Ht. rewrite A4' by lia. apply T3. lia. }
    exact A5.
Qed.

Lemma filter_len_le {A} (f : A -> bool) l : length (filter f l) <= length l.
Proof. induction l as [|a l IH]; cbn; [lia|]. destruct (f a); cbn; lia. Qed.

Lemma in_nth_ex (l : list sid) (x : sid) : In x l -> exists i, i < length l /\ nth i l (0 : sid) = x.
Proof. intros H. apply (In_nth l x 0) in H. exact H. Qed.

Lemma Inv_gather pend pend' s b c sids re :
  Inv pend s -> calls s <> [] -> cur s = c -> ~ donep s c ->
  (forall n re', pcof s c <> PUnsubGather n re') ->
  (forall r, awaits (pcof s c) r -> q_state (reqs s r) <> QPending) ->
  tasks b = tasks s -> ntasks b = ntasks s -> calls b = calls s -> svcs b = svcs s -> reqs b = reqs s ->
  nreqs b = nreqs s -> routed b = routed s -> subs b = [] -> rtask b = None ->
  (g_inflight b = false -> g_inflight s = false) ->
  (forall lt, rtask s = Some lt -> donep s lt) ->
  pc_ok (mkTask (kindof s c) (PUnsubGather (length sids) re) false []) ->
  (g_inflight b = false -> forall x, In x (dkeys (routed s)) -> In x sids) ->
  (forall c', nchild pend' c' = nchild pend c') ->
  sids <> [] -> (forall a, kindof s c = KSub a -> g_inflight b = false) ->
  (kindof s c = KUnsub -> length (calls s) = 2) ->
  Inv pend' (set_pc (spawn_kids b c sids) c (PUnsubGather (length sids) re)).
Proof.
  intros H Hc Hcur Hnd Hng Hnp Bt Bn Bc Bs Br Bnr Bro Bsu Brt Bg Hld Kpc Hsids Hch Hne Hgs Hlen.
  destruct (spawn_kids_spec c sids b) as (A1 & A2 & A3 & A4 & A4' & _ & A5 & A6 & A7 & _ & _ & A8 & A9 & A10 & A11 & _ & _ & _ & _ & _ & A12 & _).
  rewrite Bn in *. rewrite Bt in *.
  set (N := ntasks s) in *. set (n := length sids) in *.
  set (s' := set_pc (spawn_kids b c sids) c (PUnsubGather n re)).
  pose proof H as H0.
  destruct H as [Icalls Ipc Idoom Icensus Irtask Ireq Ireqb Ireqo Ibg Isid Isvc Ipass Ipreq Iroute Iphase Iwait Ibeyond Icount].
  assert (Hcin : In c (calls s)) by (rewrite <- Hcur; now apply cur_in).
  assert (HcN : c < N).
  { unfold calls_ok in Icalls. destruct (calls s); [congruence|]. destruct Icalls as (_ & _ & X & _). now apply X. }
  destruct (call_kind s c Icalls Hcin) as [Hcl Hck].
  assert (Hmust : t_must (tasks s c) = false).
  { destruct (t_must (tasks s c)) eqn:E; [|reflexivity]. exfalso. apply Hcl. apply Idoom; [exact HcN|]. now left. }
  assert (Tc : tasks s' c = mkTask (kindof s c) (PUnsubGather n re) false (t_waiters (tasks s c))).
  { subst s'. sproj. rewrite fupd_eq, A3 by exact HcN. now rewrite Hmust. }
  assert (Told : forall t, t < N -> t <> c -> tasks s' t = tasks s t).
  { intros t Ht Hne'. subst s'. sproj. rewrite fupd_neq by congruence. now apply A3. }
  assert (Tkid : forall i, i < n -> tasks s' (N + i) = mkTask (KOne c (nth i sids 0)) PStart false []).
  { intros i Hi. subst s'. sproj. rewrite fupd_neq by lia. now apply A4. }
  assert (Ns' : ntasks s' = N + n) by (subst s'; sproj; exact A1).
  assert (Cs' : calls s' = calls s) by (subst s'; sproj; congruence).
  assert (Hcur' : cur s' = c) by (unfold cur; rewrite Cs'; exact Hcur).
  assert (Kold : forall t, t < N -> kindof s' t = kindof s t).
  { intros t Ht. destruct (Nat.eq_dec t c) as [->|X]; [now rewrite Tc|now rewrite Told]. }
  assert (Split : forall t, t < N + n -> t < N \/ exists i, i < n /\ t = N + i).
  { intros t Ht. destruct (Nat.lt_ge_cases t N); [now left|right]. exists (t - N). split; lia. }
  destruct Icount as [C1 C2]. specialize (C2 Hc). rewrite Hcur in C2. specialize (C2 Hnd).
  assert (Hnokid : (forall t, t < N -> is_kid c (tasks s t) = false) /\ nchild pend c = 0).
  { destruct (pcof s c) eqn:E; try exact C2. now destruct (Hng nleft re0). }
  destruct Hnokid as [Hnokid Hnch].
  assert (Rs' : reqs s' = reqs s) by (subst s'; sproj; congruence).
  assert (NRs' : nreqs s' = nreqs s) by (subst s'; sproj; congruence).
  assert (Dold : forall t, t < N -> t <> c -> (doomed s' t <-> doomed s t)).
  { intros t Ht X. unfold doomed. rewrite (Told t Ht X), Rs'. tauto. }
  constructor.
  - (* calls *) unfold calls_ok in *. rewrite Cs', Ns'. destruct (calls s) as [|c0 us] eqn:Ecalls; [congruence|].
    destruct Icalls as (K0 & Kus & Klt & Kdone & Knd).
    split; [rewrite Kold by (apply Klt; now left); exact K0|].
    split; [intros u Hu; rewrite Kold by (apply Klt; now right); now apply Kus|].
    split; [intros t Ht; specialize (Klt t Ht); lia|]. split; [|exact Knd].
    intros t Ht X. rewrite Hcur' in X. rewrite Told; [apply Kdone; [exact Ht|congruence]|now apply Klt|exact X].
  - (* pc *) intros t Ht. rewrite Ns' in Ht. destruct (Split t Ht) as [Hlo|(i & Hi & ->)].
    + destruct (Nat.eq_dec t c) as [->|X]; [rewrite Tc; exact Kpc|rewrite Told by assumption; now apply Ipc].
    + rewrite Tkid by exact Hi. exact I.
  - (* doom *) intros t Ht D. rewrite Ns' in Ht. destruct (Split t Ht) as [Hlo|(i & Hi & ->)].
    + destruct (Nat.eq_dec t c) as [->|X].
      * exfalso. unfold doomed in D. rewrite Tc in D. cbn in D. intuition discriminate.
      * rewrite Kold by exact Hlo. apply Idoom; [exact Hlo|]. now apply Dold.
    + exfalso. unfold doomed in D. rewrite Tkid in D by exact Hi. cbn in D. intuition discriminate.
  - (* census *) intros t Ht. rewrite Ns' in Ht. unfold census. rewrite Cs', Hcur'.
    destruct (Split t Ht) as [Hlo|(i & Hi & ->)].
    + rewrite Kold by exact Hlo. pose proof (Icensus t Hlo) as C. unfold census in C.
      destruct (kindof s t) eqn:Hk; try exact C.
      * right. assert (t <> c) by (intros ->; congruence). rewrite Told by assumption.
        destruct C as [C|C]; [now apply Hld|exact C].
      * destruct C as [[C|[C1' C2']] C3]; split; try exact C3.
        -- left. assert (t <> c) by (intros ->; now destruct (Hck parent x)). now rewrite Told.
        -- exfalso. specialize (Hnokid t Hlo). unfold is_kid in Hnokid. rewrite Hk, C1', Hcur, Nat.eqb_refl in Hnokid. discriminate.
    + rewrite Tkid by exact Hi. cbn [t_kind]. split; [|exact Hcin]. right. split; [reflexivity|]. rewrite Tc. cbn. discriminate.
  - (* rtask *) intros lt Hlt. subst s'. sproj in Hlt. congruence.
  - (* req *) intros r Hr Hq. rewrite NRs' in Hr. rewrite Rs' in *. destruct (Ireq r Hr Hq) as [A B]. rewrite Ns'. split; [lia|].
    destruct (Nat.eq_dec (q_task (reqs s r)) c) as [E|X]; [rewrite E in B; now destruct (Hnp r B)|now rewrite Told].
  - (* reqb *) intros t Ht r Hr. rewrite Ns' in Ht. rewrite NRs'. destruct (Split t Ht) as [Hlo|(i & Hi & ->)].
    + destruct (Nat.eq_dec t c) as [->|X]; [rewrite Tc in Hr; destruct Hr|]. rewrite Told in Hr by assumption. eapply Ireqb; eauto.
    + rewrite Tkid in Hr by exact Hi. destruct Hr.
  - (* reqo *) intros t Ht r Hr. rewrite Ns' in Ht. rewrite Rs'. destruct (Split t Ht) as [Hlo|(i & Hi & ->)].
    + destruct (Nat.eq_dec t c) as [->|X]; [rewrite Tc in Hr; destruct Hr|]. rewrite Told in Hr by assumption. eapply Ireqo; eauto.
    + rewrite Tkid in Hr by exact Hi. destruct Hr.
  - (* bg *) intros r Hr. rewrite NRs' in Hr. rewrite Rs', Ns'. destruct (Ibg r Hr) as [A B]. split; [|lia].
    rewrite A. unfold is_loop. now rewrite Kold.
  - (* sid *) subst s'. sproj. rewrite A6, A7, Bsu, Bro. destruct Isid as (_ & X & _). repeat split; [constructor|exact X|intros y []].
  - (* svc *) subst s'. sproj. rewrite A5, A7, A10, A11, Bs, Bro, Br, Bnr. exact Isvc.
  - (* pass *) intros lt Hlt. subst s'. sproj in Hlt. congruence.
  - (* preq *) intros lt p st r Hlt. subst s'. sproj in Hlt. congruence.
  - (* route *) intros G. assert (G' : g_inflight b = false) by (subst s'; sproj in G; congruence). split.
    + intros x Hx. right; right. right. assert (Hx' : In x (dkeys (routed s))) by (subst s'; sproj in Hx; congruence).
      destruct (in_nth_ex sids x (Hsids G' x Hx')) as (i & Hi & Ei).
      exists (N + i). rewrite Ns', Hcur', Tkid by exact Hi. cbn [t_kind t_pc]. split; [lia|]. split; [rewrite <- Ei; reflexivity|reflexivity].
    + intros lt p r Hlt. subst s'. sproj in Hlt. congruence.
  - (* phase *) unfold phase_ok. rewrite Cs'. destruct (calls s) eqn:Ecalls; [congruence|]. cbv zeta. rewrite Hcur', Tc. cbn [t_kind t_pc].
    assert (X : subs s' = [] /\ rtask s' = None) by (subst s'; sproj; split; congruence).
    unfold pc_ok in Kpc. cbn [t_kind t_pc] in Kpc. destruct (kindof s c) eqn:Ek; destruct re; try contradiction.
    + split; [|exact X]. subst s'. sproj. rewrite A12. eapply Hgs; eauto.
    + split; [|exact X]. exact (Hlen eq_refl).
  - (* wait *) intros t Ht h Hh. rewrite Ns' in Ht. destruct (Split t Ht) as [Hlo|(i & Hi & ->)].
    + destruct (Nat.eq_dec t c) as [->|X]; [rewrite Tc in Hh; cbn in Hh|rewrite Told in Hh by assumption]; eapply Iwait; eauto.
    + rewrite Tkid in Hh by exact Hi. destruct Hh.
  - (* beyond *) intros t Ht. rewrite Ns' in Ht. subst s'. sproj. rewrite fupd_neq by lia. rewrite A4' by lia. apply Ibeyond. lia.
  - (* count *) split.
    + intros p Hp. rewrite Hch in Hp. specialize (C1 p Hp). lia.
    + intros _ _. rewrite Hcur', Tc. cbn [t_pc]. rewrite Hch, Hnch, Nat.add_0_r.
      unfold nlive. rewrite Ns', seq_app, filter_app, app_length. cbn [Nat.add].
      rewrite (filter_ext_in _ (fun _ => false)).
      * assert (Z : forall l : list nat, length (filter (fun _ => false) l) = 0) by (induction l; auto).
        rewrite Z. cbn [Nat.add]. etransitivity; [apply filter_len_le|]. now rewrite seq_length.
      * intros t Ht. apply in_seq in Ht. unfold live_kid.
        destruct (Nat.eq_dec t c) as [->|X].
        -- rewrite Tc. unfold is_kid. cbn [t_kind]. destruct (kindof s c) eqn:E; try reflexivity. now destruct (Hck parent x).
        -- rewrite Told by lia. rewrite Hnokid by lia. reflexivity.
Qed.

(* ---- a user call ends with nothing left subscribed ---------------------------------------------------------------- *)
Lemma Inv_call_finish pend pend' s b c st :
  Inv pend s -> calls s <> [] -> cur s = c -> ~ donep s c ->
  tasks b = tasks s -> ntasks b = ntasks s -> calls b = calls s -> svcs b = svcs s -> reqs b = reqs s ->
  nreqs b = nreqs s -> routed b = routed s -> subs b = [] -> rtask b = None ->
  (forall a, kindof s c = KSub a -> g_inflight b = false) ->
  (forall lt, rtask s = Some lt -> donep s lt) ->
  (forall t' x, t' < ntasks s -> kindof s t' = KOne c x -> donep s t') ->
  (forall r, awaits (pcof s c) r -> q_state (reqs s r) <> QPending) ->
  match kindof s c, st with
  | KSub _, SExc e => is_upnp e = true
  | KUnsub, SRet None => True
  | _, _ => False
  end ->
  (g_inflight b = false -> routed s = []) ->
  (forall c', nchild pend' c' = nchild pend c') ->
  Inv pend' (with_ready (with_tasks b (fupd (tasks b) c (mkTask (kindof s c) (PDone st) false [])) (ntasks b))
                        (ready b ++ t_waiters (tasks b c))).
Proof.
  intros H Hc Hcur Hnd Bt Bn Bc Bs Br Bnr Bro Bsu Brt Hgs Hld Hkids Hnp Hst Hro Hch.
  pose proof H as H0.
  destruct H as [Icalls Ipc Idoom Icensus Irtask Ireq Ireqb Ireqo Ibg Isid Isvc Ipass Ipreq Iroute Iphase Iwait Ibeyond Icount].
  assert (Hcin : In c (calls s)) by (rewrite <- Hcur; now apply cur_in).
  assert (HcN : c < ntasks s).
  { unfold calls_ok in Icalls. destruct (calls s); [congruence|]. destruct Icalls as (_ & _ & X & _). now apply X. }
  destruct (call_kind s c Icalls Hcin) as [Hcl Hck].
  set (s' := with_ready _ _).
  assert (Tc : tasks s' c = mkTask (kindof s c) (PDone st) false []) by (subst s'; sproj; rewrite Bt; apply fupd_eq).
  assert (Told : forall t, t <> c -> tasks s' t = tasks s t) by (intros t X; subst s'; sproj; rewrite Bt; apply fupd_neq; congruence).
  assert (Alld : forall t, t < ntasks s -> donep s' t).
  { intros t Ht. destruct (Nat.eq_dec t c) as [->|X]; [now rewrite Tc|]. rewrite Told by exact X.
    pose proof (Icensus t Ht) as C. unfold census in C. unfold calls_ok in Icalls.
    destruct (calls s) as [|c0 us] eqn:Ecalls; [congruence|]. destruct Icalls as (_ & _ & _ & Kdone & _).
    destruct (kindof s t) eqn:Hk.
    - apply Kdone; [|congruence]. cbn in C. injection C as ->. now left.
    - apply Kdone; [|congruence]. now right.
    - destruct C as [C|C]; [now apply Hld|exact C].
    - destruct C as [[C|[C1 C2]] _]; [exact C|]. eapply Hkids; [exact Ht|]. rewrite Hk, C1, Hcur. reflexivity. }
  eapply Inv_update1 with (s := s) (t := c) (k' := mkTask (kindof s c) (PDone st) false []);
    try eassumption; subst s'; sproj; try assumption; try reflexivity; try congruence.
  - unfold pc_ok. cbn [t_kind t_pc]. destruct (kindof s c); destruct st as [[?|]|?|]; try contradiction; auto.
  - intros h [].
  - intros D. exfalso. unfold doomed in D. sproj in D. rewrite fupd_eq in D. cbn in D. intuition discriminate.
  - intros _ _. exact Hkids.
  - right. split; [exact Brt|]. intros lt Hlt. split; [|now apply Hld]. intros ->. destruct (Irtask c Hlt). contradiction.
  - rewrite Bnr. lia.
  - intros r Hr Hq E. exfalso. destruct (Ireq r Hr Hq) as [_ A]. rewrite E in A. now apply (Hnp r).
  - intros r Hr. rewrite Bnr in Hr. lia.
  - intros r [].
  - rewrite Bsu, Bro. destruct Isid as (_ & X & _). repeat split; [constructor|exact X|intros y []].
  - rewrite Bro. now destruct Isvc.
  - intros G. rewrite Bro, (Hro G). split; [intros x []|]. intros lt p r Hlt. congruence.
  - (* phase *) unfold phase_ok. sproj. rewrite Bc. destruct (calls s) eqn:Ecalls; [congruence|]. cbv zeta.
    match goal with |- context [cur ?st] => replace (cur st) with c by (unfold cur; sproj; rewrite Bc, <- Ecalls; symmetry; exact Hcur) end.
    sproj. rewrite Bt, fupd_eq. cbn [t_kind t_pc].
    assert (AD : all_done (with_ready (with_tasks b (fupd (tasks s) c (mkTask (kindof s c) (PDone st) false [])) (ntasks b))
                                      (ready b ++ t_waiters (tasks s c)))).
    { intros t' Ht'. sproj in Ht'. rewrite Bn in Ht'. specialize (Alld t' Ht'). sproj in Alld. rewrite Bt in Alld. exact Alld. }
    destruct (kindof s c) eqn:Ek; destruct st as [[?|]|e|]; try contradiction.
    + rewrite Bsu, Brt, Bro. pose proof (Hgs _ eq_refl) as G. rewrite (Hro G). auto.
    + rewrite Bsu, Brt, Bro. repeat split; auto.
  - (* count *) destruct Icount as [C1 C2]. split.
    + intros p Hp. rewrite Hch in Hp. rewrite Bn. now apply C1.
    + intros _ X. exfalso. apply X.
      match goal with |- context [cur ?st] => replace (cur st) with c by (unfold cur; sproj; rewrite Bc; symmetry; exact Hcur) end.
      sproj. rewrite fupd_eq. reflexivity.
Qed.
