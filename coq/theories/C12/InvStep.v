(* C12 - the structural invariant is preserved by every transition of a schedule of the domain. *)
From Coq Require Import List Bool Arith ZArith Lia.
From AUC Require Import Prelude.PyDict C12.Model C12.Spec C12.Frame C12.InvDef.
Import ListNotations.

Lemma fupd_eq A (f : nat -> A) k v : fupd f k v k = v.
Proof. unfold fupd. now rewrite Nat.eqb_refl. Qed.
Lemma fupd_neq A (f : nat -> A) k v k' : k <> k' -> fupd f k v k' = f k'.
Proof. unfold fupd. intros H. destruct (Nat.eqb_spec k k'); congruence. Qed.

Ltac feq :=
  repeat match goal with
         | |- context [Nat.eqb ?a ?b] => destruct (Nat.eqb_spec a b); subst
         | H : context [Nat.eqb ?a ?b] |- _ => destruct (Nat.eqb_spec a b); subst
         end.

(* ---- time passes ------------------------------------------------------------------------------------------- *)
Lemma Inv_advance pend s dt : Inv pend s -> Inv pend (advance s dt).
Proof.
  intros H. unfold advance. destruct (ready s); [|exact H].
  destruct H. constructor; assumption.
Qed.

(* ---- handles that are not HChild do not matter for the child count ------------------------------------------- *)
Lemma nchild_app pend h c : nchild (pend ++ [h]) c = nchild pend c + (if handle_eq_dec h (HChild c) then 1 else 0).
Proof. unfold nchild. rewrite count_occ_app. cbn. destruct (handle_eq_dec h (HChild c)); reflexivity. Qed.

Lemma count_ok_ext pend pend' s :
  (forall c, nchild pend' c = nchild pend c) -> count_ok pend s -> count_ok pend' s.
Proof. intros E [A B]. split; [intros p; rewrite E; apply A|]. intros Hc Hd. specialize (B Hc Hd). now rewrite E. Qed.

Lemma nchild_cons h pend c : nchild (h :: pend) c = (if handle_eq_dec h (HChild c) then 1 else 0) + nchild pend c.
Proof. unfold nchild. cbn. destruct (handle_eq_dec h (HChild c)); reflexivity. Qed.
Lemma nchild_app2 a b c : nchild (a ++ b) c = nchild a c + nchild b c.
Proof. unfold nchild. apply count_occ_app. Qed.

(* ---- a response is delivered -------------------------------------------------------------------------------- *)
Lemma publisher_nsid s q rho : nsid s <= nsid (fst (publisher s q rho)).
Proof.
  unfold publisher. destruct rho as [m g| | |]; try (cbn; lia).
  destruct (q_kind q), (q_sid q); destruct m; cbn; lia.
Qed.
Lemma publisher_sub s q m g :
  q_kind q = QSub ->
  match snd (publisher s q (RAccept m g)) with
  | Some y => y = nsid s /\ nsid (fst (publisher s q (RAccept m g))) = S (nsid s)
  | None => True
  end.
Proof. intros K. unfold publisher. rewrite K. destruct m; cbn; auto. Qed.

Lemma doomed_deliver s s1 r rho hdr t h :
  q_state (reqs s r) = QPending ->
  tasks s1 = tasks s -> reqs s1 = reqs s ->
  (doomed (enqueue (set_rstate s1 r (QDone rho hdr)) h) t <-> doomed s t).
Proof.
  intros Hp Ht Hr. unfold doomed. sproj. rewrite Ht, Hr.
  destruct (pcof s t) as [| ? ? ? r'|? ? r'|? []| | |r'|]; try tauto;
    unfold fupd; destruct (Nat.eqb_spec r r') as [<-|]; cbn; try tauto; rewrite Hp; intuition discriminate.
Qed.

Lemma publisher_shape s q rho :
  exists p n l, fst (publisher s q rho) = with_pub s p n l /\ nsid s <= n.
Proof.
  unfold publisher. destruct rho as [m g| | |]; try (exists (pub s), (nsid s), (lapsed s); split; [now destruct s|lia]).
  destruct (q_kind q), (q_sid q); destruct m; cbn [fst];
    try (exists (pub s), (nsid s), (lapsed s); split; [now destruct s|lia]);
    eexists _, _, _; (split; [reflexivity|cbn; lia]).
Qed.

Lemma ready_deliver s r rho :
  True -> exists t, ready (deliver s r rho) = ready s \/ ready (deliver s r rho) = ready s ++ [HStep t].
Proof.
  intros _. unfold deliver. destruct (r <? nreqs s); [|exists 0; now left].
  destruct (q_state (reqs s r)); try (exists 0; now left).
  pose proof (fr_ready_publisher s (reqs s r) rho) as F.
  destruct (publisher s (reqs s r) rho). cbn [fst] in F. exists (q_task (reqs s r)). right. sproj. now rewrite F.
Qed.

Lemma Inv_deliver_state pend s r rho :
  Inv pend s -> Inv pend (deliver s r rho).
Proof.
  intros H. unfold deliver. destruct (Nat.ltb_spec r (nreqs s)) as [Hr|]; [|exact H].
  destruct (q_state (reqs s r)) eqn:Hq; try exact H.
  pose proof (publisher_shape s (reqs s r) rho) as (p & n & l & Hs & Hn).
  pose proof (publisher_sub s (reqs s r)) as Hsub.
  destruct (publisher s (reqs s r) rho) as [s1 hdr] eqn:P. cbn [fst] in Hs. subst s1.
  assert (Hd : forall t, doomed (enqueue (set_rstate (with_pub s p n l) r (QDone rho hdr)) (HStep (q_task (reqs s r)))) t
                         <-> doomed s t) by (intros t; apply doomed_deliver; auto).
  destruct H as [Icalls Ipc Idoom Icensus Irtask Ireq Ireqb Isid Isvc Ipass Iroute Iphase Iwait Icount].
  constructor; try assumption.
  - (* doom *) intros t Ht D. apply Hd in D. exact (Idoom t Ht D).
  - (* req *) intros r' Hr'. sproj. unfold fupd. destruct (Nat.eqb_spec r r') as [<-|Hne]; cbn; [discriminate|]. exact (Ireq r' Hr').
  - (* svc *) destruct Isvc as [A B]. split; [exact A|]. intros r' Hr'. sproj. unfold fupd.
    destruct (Nat.eqb_spec r r') as [<-|Hne]; cbn; [exact (B r Hr')|exact (B r' Hr')].
  - (* pass *) intros lt Hlt p0 st r0 Hpc. specialize (Ipass lt Hlt p0 st r0 Hpc).
    destruct Ipass as (A & B & C & D & E). repeat split; try assumption; try tauto.
    intros ND. apply D. intros X. apply ND. apply Hd. exact X.
  - (* route *) intros G. specialize (Iroute G). destruct Iroute as [A B]. split; [exact A|].
    intros lt p0 r0 Hlt Hpc D. apply Hd in D. eapply B; eauto.
  - (* phase *) revert Iphase. unfold phase_ok. sproj. destruct (calls s); [auto|].
    change (cur (enqueue (set_rstate (with_pub s p n l) r (QDone rho hdr)) (HStep (q_task (reqs s r))))) with (cur s).
    sproj. destruct (kindof s (cur s)); destruct (pcof s (cur s)) as [|now0 todo v r0|? ? ?|? ?|sids lt [e|]|nl [e|]|?|[?|e|]]; auto.
    + intros (A & B & C & D & E & F & G & I & K). repeat split; auto.
      * intros k Hk. specialize (F k Hk). lia.
      * unfold resp_fresh in *. sproj. unfold fupd. destruct (Nat.eqb_spec r r0) as [<-|Hne]; cbn.
        -- destruct rho as [m g| | |]; auto. specialize (Hsub m g K). rewrite P in Hsub. cbn [snd fst] in Hsub.
           destruct hdr as [y|]; auto. destruct Hsub as [-> Hn']. sproj in Hn'. subst n. split; [lia|]. exact F.
        -- destruct (q_state (reqs s r0)) as [|[m g| | |] [y|]|]; auto. destruct G as [G1 G2]. split; [lia|exact G2].
      * sproj. unfold fupd. destruct (Nat.eqb_spec r r0) as [<-|Hne]; cbn; [discriminate|]. exact I.
      * sproj. unfold fupd. destruct (Nat.eqb_spec r r0) as [<-|Hne]; cbn; auto.
    + intros (A & B & C). repeat split; auto. destruct C as [C|C]; [now left|right; now apply Hd].
Qed.

(* ---- kernel facts --------------------------------------------------------------------------------------------- *)
Lemma fold_enqueue l : forall s, fold_left enqueue l s = with_ready s (ready s ++ l).
Proof.
  induction l as [|h l IH]; intros s; cbn [fold_left].
  - rewrite app_nil_r. now destruct s.
  - rewrite IH. unfold enqueue. sproj. now rewrite <- app_assoc.
Qed.

Lemma cur_app s x l : calls s = l ++ [x] -> cur s = x.
Proof. unfold cur. intros ->. apply last_last. Qed.

Lemma filter_len_ext {A} (f g : A -> bool) l :
  (forall x, In x l -> f x = g x) -> length (filter f l) = length (filter g l).
Proof. intros H. now rewrite (filter_ext_in _ _ _ H). Qed.

Lemma filter_len_one (f g : nat -> bool) l t0 :
  NoDup l -> In t0 l -> f t0 = true -> g t0 = false -> (forall x, x <> t0 -> f x = g x) ->
  length (filter f l) = S (length (filter g l)).
Proof.
  induction l as [|a l IH]; intros ND Hin Hf Hg Hx; [destruct Hin|].
  inversion ND as [|? ? Hna ND']; subst. cbn [filter].
  destruct (Nat.eq_dec a t0) as [->|Hne].
  - rewrite Hf, Hg. cbn [length]. f_equal. apply filter_len_ext. intros x Hxin. apply Hx. intros ->. contradiction.
  - destruct Hin as [->|Hin]; [congruence|]. rewrite (Hx a Hne).
    destruct (g a); cbn [length]; rewrite (IH ND' Hin Hf Hg Hx); reflexivity.
Qed.

Lemma nlive_ext s s' c :
  ntasks s' = ntasks s -> (forall t, t < ntasks s -> live_kid s' c t = live_kid s c t) -> nlive s' c = nlive s c.
Proof.
  intros Hn H. unfold nlive. rewrite Hn. apply filter_len_ext. intros x Hx. apply in_seq in Hx. apply H. lia.
Qed.

Lemma nlive_zero s c : nlive s c = 0 -> forall t, t < ntasks s -> live_kid s c t = false.
Proof.
  unfold nlive. intros H t Ht. destruct (live_kid s c t) eqn:E; [|reflexivity].
  assert (Hin : In t (filter (live_kid s c) (seq 0 (ntasks s)))) by (apply filter_In; split; [apply in_seq; lia|exact E]).
  destruct (filter _ _); [destruct Hin|discriminate].
Qed.

Lemma nlive_none s c : (forall t, t < ntasks s -> is_kid c (tasks s t) = false) -> nlive s c = 0.
Proof.
  intros H. unfold nlive. rewrite (filter_ext_in _ (fun _ => false)).
  - induction (seq 0 (ntasks s)); [reflexivity|assumption].
  - intros x Hx. apply in_seq in Hx. unfold live_kid. rewrite H by lia. reflexivity.
Qed.

Lemma nlive_finish s s' c t0 :
  ntasks s' = ntasks s -> t0 < ntasks s -> live_kid s c t0 = true -> live_kid s' c t0 = false ->
  (forall t, t <> t0 -> live_kid s' c t = live_kid s c t) -> nlive s c = S (nlive s' c).
Proof.
  intros Hn Ht Ha Hb Hx. unfold nlive. rewrite Hn.
  apply filter_len_one with (t0 := t0); auto using seq_NoDup.
  - apply in_seq. lia.
  - intros x Hne. symmetry. now apply Hx.
Qed.

(* ---- a user call ------------------------------------------------------------------------------------------------ *)
Lemma user_busy_false s : user_busy s = false -> forall t, In t (calls s) -> donep s t.
Proof.
  unfold user_busy. intros H t Ht. destruct (is_done (tasks s t)) eqn:E; [reflexivity|].
  assert (X : existsb (fun t => negb (is_done (tasks s t))) (calls s) = true)
    by (apply existsb_exists; exists t; split; [exact Ht|now rewrite E]).
  congruence.
Qed.

Lemma nchild_small pend s p : count_ok pend s -> ntasks s <= p -> nchild pend p = 0.
Proof. intros [A _] H. destruct (nchild pend p) eqn:E; [reflexivity|]. assert (p < ntasks s) by (apply A; lia). lia. Qed.

Lemma Inv_call_sub pend s a :
  Inv pend s -> calls s = [] -> Inv (pend ++ [HStep (ntasks s)]) (call s (KSub a)).
Proof.
  intros H Hc. unfold call, user_busy. rewrite Hc. cbn [existsb]. unfold spawn.
  destruct H as [Icalls Ipc Idoom Icensus Irtask Ireq Ireqb Isid Isvc Ipass Iroute Iphase Iwait Icount].
  unfold calls_ok in Icalls. rewrite Hc in Icalls. destruct Icalls as (Hn & Hr & Hs & Hro & Hrt).
  rewrite Hn in *. cbn [app].
  constructor.
  - unfold calls_ok. sproj. unfold cur; sproj; cbn [last]. rewrite fupd_eq. cbn.
    split; [reflexivity|]. split; [intros u []|]. split; [intros t [<-|[]]; lia|].
    split; [intros t [<-|[]] X; congruence|]. repeat constructor; auto.
  - intros t Ht. sproj in Ht. sproj. assert (t = 0) by lia. subst. rewrite fupd_eq. exact I.
  - intros t Ht. sproj in Ht. assert (t = 0) by lia. subst. unfold doomed. sproj. rewrite fupd_eq. cbn. intuition discriminate.
  - intros t Ht. sproj in Ht. assert (t = 0) by lia. subst. unfold census. sproj. rewrite fupd_eq. reflexivity.
  - sproj. rewrite Hrt. discriminate.
  - sproj. intros r Hr'. lia.
  - intros t Ht. sproj in Ht. assert (t = 0) by lia. subst. sproj. rewrite fupd_eq. cbn. tauto.
  - sproj. rewrite Hs, Hro. cbn. repeat split; try constructor. intros x [].
  - sproj. rewrite Hro. split; [intros x v []|intros r Hr'; lia].
  - sproj. rewrite Hrt. discriminate.
  - sproj. intros _. rewrite Hro. split; [intros x []|]. rewrite Hrt. discriminate.
  - unfold phase_ok. sproj. unfold cur; sproj; cbn [last]. rewrite fupd_eq. cbn. auto.
  - intros t Ht. sproj in Ht. assert (t = 0) by lia. subst. sproj. rewrite fupd_eq. cbn. intros h [].
  - assert (Z : forall p, nchild (pend ++ [HStep 0]) p = 0).
    { intros p. rewrite nchild_app2, nchild_cons. cbn. destruct (handle_eq_dec (HStep 0) (HChild p)); [discriminate|].
      rewrite (nchild_small pend s p); [reflexivity| |lia]. exact Icount. }
    split; [intros p; rewrite Z; lia|]. intros _ _. unfold cur; sproj; cbn [last]. rewrite fupd_eq. cbn.
    split; [|apply Z]. intros t Ht. assert (t = 0) by lia. subst. rewrite fupd_eq. reflexivity.
Qed.

Lemma NoDup_snoc {A} (l : list A) x : NoDup l -> ~ In x l -> NoDup (l ++ [x]).
Proof.
  induction l as [|a l IH]; intros ND Hx; cbn; [repeat constructor; auto|].
  inversion ND; subst. constructor.
  - intros Hin. apply in_app_iff in Hin. destruct Hin as [|[<-|[]]]; [contradiction|]. apply Hx. now left.
  - apply IH; [assumption|]. intros X. apply Hx. now right.
Qed.

Lemma last_cons_app {A} (x : A) l y d : last (x :: l ++ [y]) d = y.
Proof. change (x :: l ++ [y]) with ((x :: l) ++ [y]). apply last_last. Qed.

Lemma doomed_tasks_ext s s' t :
  tasks s' t = tasks s t -> reqs s' = reqs s -> (doomed s' t <-> doomed s t).
Proof. intros A B. unfold doomed. rewrite A, B. tauto. Qed.

Lemma doomed_old s s' t : tasks s' t = tasks s t -> reqs s' = reqs s -> doomed s' t -> doomed s t.
Proof. intros A B. now apply doomed_tasks_ext. Qed.
Lemma doomed_new s s' t : tasks s' t = tasks s t -> reqs s' = reqs s -> doomed s t -> doomed s' t.
Proof. intros A B. now apply doomed_tasks_ext. Qed.

Lemma Inv_call_unsub pend s :
  Inv pend s -> calls s <> [] -> Inv (pend ++ [HStep (ntasks s)]) (call s KUnsub) \/ call s KUnsub = s.
Proof.
  intros H Hc. unfold call. destruct (user_busy s) eqn:Hb; [now right|left].
  pose proof (user_busy_false s Hb) as Hdone. unfold spawn.
  destruct H as [Icalls Ipc Idoom Icensus Irtask Ireq Ireqb Isid Isvc Ipass Iroute Iphase Iwait Icount].
  set (n := ntasks s).
  set (s' := with_calls (enqueue (with_tasks s (fupd (tasks s) n (mkTask KUnsub PStart false [])) (S n)) (HStep n))
                        (calls s ++ [n])).
  assert (Told : forall t, t < n -> tasks s' t = tasks s t) by (intros t Ht; subst s'; sproj; apply fupd_neq; lia).
  assert (Tnew : tasks s' n = mkTask KUnsub PStart false []) by (subst s'; sproj; apply fupd_eq).
  unfold calls_ok in Icalls. destruct (calls s) as [|c0 us] eqn:Ecalls; [congruence|].
  destruct Icalls as (K0 & Kus & Klt & Kdone & Knd).
  assert (Hcur' : cur s' = n) by (subst s'; unfold cur; sproj; rewrite ?Ecalls; apply last_cons_app).
  assert (Hcurdone : donep s (cur s)).
  { apply Hdone. unfold cur. rewrite ?Ecalls. clear. revert c0. induction us; intros c0; cbn; auto.
    destruct us; [cbn; auto|]. right. apply IHus. }
  assert (Hcurin : In (cur s) (calls s)).
  { unfold cur. rewrite ?Ecalls. clear. revert c0. induction us; intros c0; cbn; auto. destruct us; [cbn; auto|]. right. apply IHus. }
  assert (Hnokid : forall t x, t < n -> kindof s t = KOne (cur s) x -> donep s t).
  { intros t x Ht Hk. specialize (Icensus t Ht). unfold census in Icensus. rewrite Hk in Icensus.
    destruct Icensus as [[D|[_ D]] _]; [exact D|contradiction]. }
  constructor.
  - unfold calls_ok. subst s'. sproj. rewrite ?Ecalls. cbn [app].
    change (c0 :: us ++ [n]) with ((c0 :: us) ++ [n]).
    split; [rewrite fupd_neq by (specialize (Klt c0 (or_introl eq_refl)); lia); exact K0|].
    split.
    { intros u Hu. apply in_app_iff in Hu. destruct Hu as [Hu|[<-|[]]]; [|now rewrite fupd_eq].
      rewrite fupd_neq by (specialize (Klt u (or_intror Hu)); lia). now apply Kus. }
    split.
    { intros t Ht. apply in_app_iff in Ht. destruct Ht as [Ht|[<-|[]]]; [|lia]. specialize (Klt t Ht). lia. }
    split.
    { intros t Ht Hne. unfold cur in Hne. sproj in Hne. rewrite ?Ecalls in Hne. rewrite last_last in Hne.
      apply in_app_iff in Ht. destruct Ht as [Ht|[<-|[]]]; [|congruence].
      rewrite fupd_neq by (specialize (Klt t Ht); lia). apply Hdone. rewrite ?Ecalls. exact Ht. }
    apply NoDup_snoc; [exact Knd|]. intros X. specialize (Klt n X). lia.
  - intros t Ht. subst s'. sproj in Ht. sproj. unfold fupd. destruct (Nat.eqb_spec n t) as [<-|]; [exact I|]. apply Ipc. lia.
  - intros t Ht D. destruct (Nat.eq_dec t n) as [->|Hne].
    + unfold doomed in D. rewrite Tnew in D. cbn in D. intuition discriminate.
    + subst s'. sproj in Ht. assert (t < n) by lia. rewrite (Told t) by assumption.
      apply Idoom; [assumption|]. revert D. apply doomed_old; [now apply Told|reflexivity].
  - intros t Ht. subst s'. sproj in Ht. unfold census.
    destruct (Nat.eq_dec t n) as [->|Hne].
    + rewrite Tnew. cbn [t_kind]. sproj. rewrite ?Ecalls. cbn. apply in_app_iff. right. now left.
    + assert (Hlt : t < n) by lia. rewrite (Told t Hlt). specialize (Icensus t Hlt). unfold census in Icensus.
      sproj. destruct (kindof s t) eqn:Hk.
      * rewrite ?Ecalls in *. exact Icensus.
      * rewrite ?Ecalls in *. cbn [tl app] in *. apply in_app_iff. now left.
      * exact Icensus.
      * destruct Icensus as [A B]. split; [|apply in_app_iff; left; rewrite <- Ecalls; exact B]. left.
        destruct A as [A|[-> _]]; [exact A|]. eapply Hnokid; eauto.
  - intros lt Hlt. subst s'. sproj in Hlt. sproj. destruct (Irtask lt Hlt) as [A B]. split; [lia|].
    rewrite fupd_neq by lia. exact B.
  - intros r Hr Hq. subst s'. sproj in Hr. sproj in Hq. sproj. destruct (Ireq r Hr Hq) as [A B]. split; [lia|].
    rewrite fupd_neq by lia. exact B.
  - intros t Ht r Hr. subst s'. sproj in Ht. sproj in Hr. sproj. unfold fupd in Hr.
    destruct (Nat.eqb_spec n t) as [<-|]; [destruct Hr|]. eapply Ireqb; [|exact Hr]. lia.
  - exact Isid.
  - exact Isvc.
  - intros lt Hlt p st r Hpc. subst s'. sproj in Hlt. sproj in Hpc. destruct (Irtask lt Hlt) as [A B].
    rewrite fupd_neq in Hpc by lia. specialize (Ipass lt Hlt p st r Hpc).
    destruct Ipass as (P1 & P2 & P3 & P4 & P5). repeat split; try assumption; try tauto.
    intros ND. apply P4. intros X. apply ND. revert X. apply doomed_new; [|reflexivity]. sproj. apply fupd_neq. lia.
  - intros G. subst s'. sproj in G. specialize (Iroute G). destruct Iroute as [R1 R2]. split.
    + intros x Hx. sproj in Hx. sproj. destruct (R1 x Hx) as [A|[A|A]]; [now left| |].
      * right; left. destruct A as (lt & p & r & A1 & A2 & A3). exists lt, p, r. sproj.
        destruct (Irtask lt A1). rewrite fupd_neq by lia. auto.
      * exfalso. destruct A as [(sids & lt & re & A1 & _)|(t & A1 & A2 & A3)].
        -- unfold is_done in Hcurdone. rewrite A1 in Hcurdone. discriminate.
        -- specialize (Hnokid t x A1 A2). unfold is_done in Hnokid. rewrite A3 in Hnokid. discriminate.
    + intros lt p r Hlt Hpc D. sproj in Hlt. sproj in Hpc. destruct (Irtask lt Hlt). rewrite fupd_neq in Hpc by lia.
      eapply R2; eauto. revert D. apply doomed_old; [|reflexivity]. sproj. apply fupd_neq. lia.
  - unfold phase_ok. rewrite Hcur', Tnew. cbn [t_kind t_pc]. subst s'. sproj. rewrite ?Ecalls. cbn [app].
    intros Hlen. cbn [length] in Hlen. rewrite app_length in Hlen. cbn [length] in Hlen.
    destruct us as [|u1 us']; [cbn in Hlen; lia|].
    assert (Hu : is_unsub_kind (kindof s (cur s)) = true).
    { apply Kus. unfold cur. rewrite ?Ecalls. clear. revert u1. induction us'; intros u1; cbn; auto.
      destruct us'; [cbn; auto|]. right. apply IHus'. }
    unfold phase_ok in Iphase. rewrite ?Ecalls in Iphase. cbv zeta in Iphase.
    destruct (kindof s (cur s)); try discriminate.
    unfold is_done in Hcurdone. destruct (pcof s (cur s)); try discriminate.
    destruct Iphase as (A & B & C & D). repeat split; auto.
    intros t Ht Hne. rewrite fupd_neq by congruence. apply C. lia.
  - intros t Ht h Hh. subst s'. sproj in Ht. sproj in Hh. unfold fupd in Hh.
    destruct (Nat.eqb_spec n t) as [<-|]; [destruct Hh|]. eapply Iwait; [|exact Hh]. lia.
  - assert (Z : forall p, nchild (pend ++ [HStep n]) p = nchild pend p).
    { intros p. rewrite nchild_app2, nchild_cons. cbn. destruct (handle_eq_dec (HStep n) (HChild p)); [discriminate|]. lia. }
    destruct Icount as [C1 C2]. split.
    + intros p Hp. rewrite Z in Hp. specialize (C1 p Hp). subst s'. sproj. lia.
    + intros _ _. rewrite Hcur', Tnew. cbn [t_pc]. split.
      * intros t Ht. subst s'. sproj in Ht. destruct (Nat.eq_dec t n) as [->|Hne]; [now rewrite Tnew|].
        rewrite Told by lia. unfold is_kid. destruct (kindof s t) eqn:Hk; try reflexivity.
        assert (Hlt : t < n) by lia. specialize (Icensus t Hlt). unfold census in Icensus. rewrite Hk in Icensus.
        destruct Icensus as [_ Hin]. rewrite ?Ecalls in Hin. specialize (Klt parent Hin).
        destruct (Nat.eqb_spec parent n); [lia|reflexivity].
      * rewrite Z. eapply nchild_small; [split; eauto|]. lia.
Qed.

(* ---- generic: one step of the renewal task ----------------------------------------------------------------------- *)
Lemma cur_in s : calls s <> [] -> In (cur s) (calls s).
Proof.
  unfold cur. destruct (calls s) as [|a l]; [congruence|]. intros _. revert a.
  induction l as [|b l IH]; intros a; cbn; auto. right. apply IH.
Qed.

Lemma call_kind s t : calls_ok s -> In t (calls s) -> kindof s t <> KLoop /\ (forall p x, kindof s t <> KOne p x).
Proof.
  unfold calls_ok. destruct (calls s) as [|c0 us]; [intros _ []|].
  intros (K0 & Kus & _) [<-|Hin].
  - destruct (kindof s c0); try discriminate. split; [discriminate|intros; discriminate].
  - specialize (Kus t Hin). destruct (kindof s t); try discriminate. split; [discriminate|intros; discriminate].
Qed.

Lemma phase_loop_step s s' lt k' :
  phase_ok s -> calls_ok s -> rtask s = Some lt -> kindof s lt = KLoop ->
  calls s' = calls s -> rtask s' = rtask s -> ntasks s' = ntasks s ->
  tasks s' = fupd (tasks s) lt k' -> t_pc k' <> PStart ->
  ((donep s lt \/ doomed s lt) -> (is_done k' = true \/ doomed s' lt)) ->
  (subs s <> [] \/ ~ (donep s lt \/ doomed s lt) -> True) ->
  (subs s' = subs s /\ routed s' = routed s \/ ~ (donep s lt \/ doomed s lt)) ->
  phase_ok s'.
Proof.
  intros P C Hrt Hk Ec Er En Et Hpc Hdd _ Hsr.
  unfold phase_ok in *. rewrite Ec. destruct (calls s) as [|c0 us] eqn:Ecalls; [exact I|].
  assert (Hcur : cur s' = cur s) by (unfold cur; now rewrite Ec, Ecalls).
  assert (Hin : In (cur s) (calls s)) by (apply cur_in; congruence).
  assert (Hne : cur s <> lt).
  { intros E. rewrite E in Hin. destruct (call_kind s lt C Hin) as [X _]. contradiction. }
  cbv zeta in *. rewrite Hcur, Et, fupd_neq by congruence. rewrite Er, En.
  destruct (kindof s (cur s)); destruct (pcof s (cur s)) as [|now0 todo v r|? ? ?|? ?|sids lt' [e|]|nl [e|]|?|[?|e|]];
    try exact P; try (exfalso; clear - P Hrt; intuition congruence).
  - rewrite Hrt in *. intros X. rewrite fupd_eq in X. contradiction.
  - intros L. specialize (P L). exfalso; clear - P Hrt; intuition congruence.
  - destruct P as (A & B & D). assert (lt' = lt) by congruence. subst lt'.
    destruct Hsr as [[-> _]|Hsr]; [|tauto]. repeat split; auto. rewrite fupd_eq. auto.
Qed.

Lemma rtask_not_call s lt : calls_ok s -> kindof s lt = KLoop -> ~ In lt (calls s).
Proof. intros C K Hin. destruct (call_kind s lt C Hin) as [X _]. contradiction. Qed.

Lemma Inv_loop_update pend pend' s s' lt k' :
  Inv pend s -> rtask s = Some lt ->
  calls s' = calls s -> rtask s' = rtask s -> ntasks s' = ntasks s -> svcs s' = svcs s -> g_inflight s' = g_inflight s ->
  tasks s' = fupd (tasks s) lt k' -> t_kind k' = KLoop -> pc_ok k' -> t_pc k' <> PStart ->
  (forall h, In h (t_waiters k') -> exists u, h = HStep u) ->
  ((donep s lt \/ doomed s lt) -> (is_done k' = true \/ doomed s' lt)) ->
  (subs s' = subs s /\ routed s' = routed s \/ ~ (donep s lt \/ doomed s lt)) ->
  (forall c, nchild pend' c = nchild pend c) ->
  (* requests *)
  nreqs s <= nreqs s' -> (forall r, r < nreqs s -> reqs s' r = reqs s r) ->
  (forall r, r < nreqs s -> q_state (reqs s r) = QPending -> q_task (reqs s r) <> lt) ->
  (forall r, nreqs s <= r < nreqs s' ->
             q_task (reqs s' r) = lt /\ awaits (t_pc k') r /\ svc_interesting (svcs s) (q_svc (reqs s' r)) = true) ->
  (forall r, awaits (t_pc k') r -> r < nreqs s') ->
  (* routing *)
  NoDup (dkeys (subs s')) -> NoDup (dkeys (routed s')) -> incl (dkeys (subs s')) (dkeys (routed s')) ->
  (forall x v, In (x, v) (routed s') -> svc_interesting (svcs s) v = true) ->
  pass_ok s' lt ->
  (g_inflight s = false ->
   (forall x, In x (dkeys (routed s')) -> In x (dkeys (subs s')) \/ inflight s' x \/ unsub_pending s x) /\
   (forall p r, t_pc k' = PPass p StRenew r -> ~ doomed s' lt)) ->
  Inv pend' s'.
Proof.
  intros H Hrt Ec Er En Es Eg Et Kk Kpc Knot Kw Kdd Ksr Kch Rle Rold Rown Rnew Rb Ns Nr Ninc Nsvc Kpass Kroute.
  destruct H as [Icalls Ipc Idoom Icensus Irtask Ireq Ireqb Isid Isvc Ipass Iroute Iphase Iwait Icount].
  destruct (Irtask lt Hrt) as [Hlt Hkl].
  assert (Hnc : ~ In lt (calls s)) by (apply rtask_not_call; assumption).
  assert (Told : forall t, t <> lt -> tasks s' t = tasks s t) by (intros t Ht; rewrite Et; apply fupd_neq; congruence).
  assert (Tnew : tasks s' lt = k') by (rewrite Et; apply fupd_eq).
  assert (Kind : forall t, kindof s' t = kindof s t).
  { intros t. destruct (Nat.eq_dec t lt) as [->|Hne]; [rewrite Tnew; congruence|now rewrite Told]. }
  assert (Hcur : cur s' = cur s) by (unfold cur; now rewrite Ec).
  assert (Dold : forall t, t < ntasks s -> t <> lt -> (doomed s' t <-> doomed s t)).
  { intros t Ht Hne. unfold doomed. rewrite (Told t Hne).
    destruct (pcof s t) as [| ? ? ? r|? ? r|? []| | |r|] eqn:Epc; try tauto;
      (rewrite Rold; [tauto|]; eapply Ireqb; [exact Ht|]; rewrite Epc; reflexivity). }
  constructor.
  - (* calls *) unfold calls_ok in *. rewrite Ec, En. destruct (calls s) as [|c0 us] eqn:Ecalls.
    + rewrite Irtask_none. all: exfalso; destruct Icalls as (_ & _ & _ & _ & X); congruence.
    + destruct Icalls as (K0 & Kus & Klt & Kdone & Knd). rewrite Kind. split; [exact K0|].
      split; [intros u Hu; rewrite Kind; now apply Kus|]. split; [exact Klt|]. split; [|exact Knd].
      intros t Ht Hne. rewrite Hcur in Hne. rewrite Told; [now apply Kdone|]. intros ->. contradiction.
  - (* pc *) intros t Ht. rewrite En in Ht. destruct (Nat.eq_dec t lt) as [->|Hne]; [now rewrite Tnew|]. rewrite Told by assumption. now apply Ipc.
  - (* doom *) intros t Ht D. rewrite En in Ht. rewrite Kind. destruct (Nat.eq_dec t lt) as [->|Hne]; [exact Hkl|].
    apply Idoom; [assumption|]. now apply Dold.
  - (* census *) intros t Ht. rewrite En in Ht. specialize (Icensus t Ht). unfold census in *. rewrite Kind, Ec, Er, Hcur.
    destruct (kindof s t) eqn:Hk; try exact Icensus.
    + destruct (Nat.eq_dec t lt) as [->|Hne]; [now left|]. now rewrite Told.
    + destruct Icensus as [A B]. split; [|exact B].
      assert (Hp : parent <> lt) by (intros ->; contradiction).
      assert (Htl : t <> lt) by (intros ->; congruence).
      rewrite (Told t Htl), (Told parent Hp). exact A.
  - (* rtask *) intros lt' Hlt'. rewrite Er in Hlt'. rewrite En, Kind. now apply Irtask.
  - (* req *) intros r Hr Hq. rewrite En. destruct (Nat.lt_ge_cases r (nreqs s)) as [Hlo|Hhi].
    + rewrite Rold in * by assumption. destruct (Ireq r Hlo Hq) as [A B]. split; [exact A|].
      rewrite Told; [exact B|]. now apply Rown.
    + destruct (Rnew r (conj Hhi Hr)) as (A & B & _). rewrite A, Tnew. split; [exact Hlt|exact B].
  - (* reqb *) intros t Ht r Hr. rewrite En in Ht. destruct (Nat.eq_dec t lt) as [->|Hne].
    + rewrite Tnew in Hr. now apply Rb.
    + rewrite Told in Hr by assumption. specialize (Ireqb t Ht r Hr). lia.
  - (* sid *) auto.
  - (* svc *) rewrite Es. split; [exact Nsvc|]. intros r Hr. destruct (Nat.lt_ge_cases r (nreqs s)) as [Hlo|Hhi].
    + rewrite Rold by assumption. now apply Isvc.
    + now destruct (Rnew r (conj Hhi Hr)) as (_ & _ & X).
  - (* pass *) intros lt' Hlt'. rewrite Er in Hlt'. assert (lt' = lt) by congruence. subst. exact Kpass.
  - (* route *) intros G. rewrite Eg in G. destruct (Kroute G) as [R1 R2]. split.
    + intros x Hx. destruct (R1 x Hx) as [A|[A|A]]; [now left|right; now left|right; right].
      unfold unsub_pending in *. rewrite Hcur, En.
      assert (Hcl : cur s <> lt).
      { intros E. apply Hnc. rewrite <- E. apply cur_in. intros Z. unfold calls_ok in Icalls. rewrite Z in Icalls.
        destruct Icalls as (_ & _ & _ & _ & Y). congruence. }
      rewrite (Told _ Hcl). destruct A as [A|(t & A1 & A2 & A3)]; [now left|right].
      exists t. assert (t <> lt) by (intros ->; congruence). rewrite Told by assumption. auto.
    + intros lt' p r Hlt' Hpc. rewrite Er in Hlt'. assert (lt' = lt) by congruence. subst. rewrite Tnew in Hpc. eapply R2; eauto.
  - (* phase *) eapply phase_loop_step with (lt := lt) (k' := k'); eauto.
  - (* wait *) intros t Ht h Hh. rewrite En in Ht. destruct (Nat.eq_dec t lt) as [->|Hne].
    + rewrite Tnew in Hh. now apply Kw.
    + rewrite Told in Hh by assumption. eapply Iwait; eauto.
  - (* count *) eapply count_ok_ext with (pend := pend); [exact Kch|].
    destruct Icount as [C1 C2]. split; [intros p Hp; rewrite En; now apply C1|].
    rewrite Ec, Hcur. intros Hc Hd.
    assert (Hcl : cur s <> lt) by (intros E; apply Hnc; rewrite <- E; now apply cur_in).
    rewrite (Told _ Hcl) in *. specialize (C2 Hc Hd).
    assert (Hkid : forall t c, is_kid c (tasks s' t) = is_kid c (tasks s t)) by (intros t c; unfold is_kid; now rewrite Kind).
    destruct (pcof s (cur s)); try (destruct C2 as [C2 C3]; split; [intros t Ht; rewrite Hkid; apply C2; lia|exact C3]).
    rewrite (nlive_ext s' s); [exact C2|exact En|]. intros t Ht. unfold live_kid. rewrite Hkid.
    destruct (Nat.eq_dec t lt) as [->|Hne]; [|now rewrite Told].
    unfold is_kid. rewrite Hkl. reflexivity.
Qed.
