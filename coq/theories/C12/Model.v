(* C12 - profile subscriptions: subscribe all-or-nothing, background renewal, unsubscribe.  Definitions only.

   A hand-inlined small-step transition system (DESIGN.md section 8, fall-back (b)): one CPython 3.12 asyncio event
   loop in virtual time, the subscription machinery of async_upnp_client/profiles/profile.py
   (UpnpProfileDevice.async_subscribe_services, _async_resubscribe_services, _resubscribe_loop,
   _update_resubscriber_task, async_unsubscribe_services, _async_unsubscribe_service) composed with the parts of
   event_handler.py it calls (UpnpEventHandler.async_subscribe, async_resubscribe, _async_do_resubscribe,
   async_unsubscribe, service_for_sid) and a scripted publisher with its own expiry clock.

   KERNEL
     * time is a whole number of seconds (loop.time() = time.monotonic() = [now]); it passes only through the
       external action AAdvance, and only while the loop would sleep in select(): nothing ready, and not past the
       earliest pending timer
     * a task is a coroutine suspended at one of its await sites (type [pc], named after the source):
         PStart                      created (create_task / ensure_future / gather), body not entered yet
         PSubReq now todo v r        async_subscribe_services: awaiting the SUBSCRIBE response r for service v
         PPass p st r                _async_resubscribe_services: awaiting the renewal SUBSCRIBE (StRenew) or the
                                     fresh SUBSCRIBE after a refused renewal (StFallback) for p_sid p
         PSleep when w               _resubscribe_loop: in asyncio.sleep, timer due at [when]; w = state of the future
         PUnsubTask sids lt re       _update_resubscriber_task: `await self._resubscriber_task` (task lt)
         PUnsubGather n re           async_unsubscribe_services: awaiting gather(...), n children not yet reported
         POneReq r                   _async_unsubscribe_service: awaiting the UNSUBSCRIBE response r
         PDone st                    finished: returned / raised / cancelled
       [re] = Some e when async_unsubscribe_services runs inside the `except UpnpError` of
       async_subscribe_services (the caught e is re-raised afterwards)
     * ready queue: FIFO of handles - HStep t (Task.__step / __wakeup of t), HTimer t (the call_later handle of
       t's sleep: _set_result_unless_cancelled), HChild p (gather's _done_callback for one child of p);
       one iteration (_run_once) moves the due timers to the queue and runs exactly the handles queued at that point
     * completing / cancelling a future schedules the awaiting task; a finishing task schedules its done callbacks
     * Task.cancel(): done -> nothing; awaiting a PENDING future -> that future is cancelled and the wake-up is
       scheduled; otherwise _must_cancel; __step with _must_cancel, or waking up on a cancelled future, throws
       CancelledError at the await site (nothing on the way out of the renewal task catches it)
     * an outstanding request completes only through the external action ADeliver r reaction; the publisher
       processes a request at that moment (fresh SIDs, expiry = now + granted)
     * user calls are sequential: ASubscribe / AUnsubscribe are ignored while an earlier user call is pending

   An atomic section that would run forever without awaiting (the renewal loop with nothing but skipped
   subscriptions) sets [diverged]; every later action leaves the state alone. *)
From Coq Require Import List Bool Arith ZArith.
From AUC Require Import Prelude.PyDict Gen.Profile.
Import ListNotations.
Local Open Scope Z_scope.

Definition sid := nat.   (* SIDs, in the order the publisher issued them *)
Definition svc := nat.   (* index into profile_device.services.values() *)
Definition tid := nat.   (* tasks, in order of creation *)
Definition rid := nat.   (* requests, in the order the requester saw them *)

Definition TOL : Z := resubscribe_tolerance_secs.
Definition SUBT : Z := subscribe_timeout_secs.

Definition fupd {A} (f : nat -> A) (k : nat) (v : A) : nat -> A :=
  fun k' => if Nat.eqb k k' then v else f k'.

(* ---- alphabet -------------------------------------------------------------------------------------------- *)
Inductive grant := GSecs (n : Z) | GInfinite | GAbsent.        (* TIMEOUT: Second-n | Second-infinite | no header *)
Inductive sidmode := SidEcho | SidFresh | SidNone.             (* SID header of a 200: the request's / a new one / none *)
Inductive reaction :=
| RAccept (m : sidmode) (g : grant)     (* HTTP 200 *)
| RRefuse                               (* HTTP status <> 200              -> UpnpResponseError *)
| RUnreachable                          (* the requester raises UpnpConnectionError (or its timeout subclass) *)
| RCommErr.                             (* the requester raises another UpnpCommunicationError *)

Inductive action :=
| ASubscribe (auto : bool)              (* create_task(profile.async_subscribe_services(auto)) *)
| AUnsubscribe                          (* create_task(profile.async_unsubscribe_services()) *)
| ADeliver (r : rid) (rho : reaction)
| AAdvance (dt : Z)
| AIter.

Inductive exn := EResponse | EConnection | EComm | ESid | EKey.
Definition is_upnp (e : exn) : bool := match e with EKey => false | _ => true end.     (* isinstance(e, UpnpError) *)
Definition is_conn (e : exn) : bool := match e with EConnection => true | _ => false end.

Inductive rkind := QSub | QRenew | QUnsub.      (* SUBSCRIBE with NT/CALLBACK | SUBSCRIBE with SID | UNSUBSCRIBE *)
Inductive rstate := QPending | QDone (rho : reaction) (hdr : option sid) | QCancelled.
Record req := mkReq {
  q_time : Z; q_kind : rkind; q_svc : svc; q_sid : option sid;
  q_task : tid; q_bg : bool;            (* issued by the renewal task *)
  q_state : rstate
}.

Inductive status := SRet (v : option Z) | SExc (e : exn) | SCancelled.
Inductive wstate := WPending | WDone | WCancelled.
Inductive stage := StRenew | StFallback.
(* the frame of _async_resubscribe_services: now, what is left of list(self._subscriptions.items()), the SID being
   renewed with its old renewal_time, its service, notify_errors *)
Record pass := mkPass { p_now : Z; p_todo : list (sid * Z); p_sid : sid; p_dl : Z; p_svc : svc; p_notify : bool }.

Inductive tkind := KSub (auto : bool) | KUnsub | KLoop | KOne (parent : tid) (x : sid).
Inductive pc :=
| PStart
| PSubReq (now0 : Z) (todo : list svc) (v : svc) (r : rid)
| PPass (p : pass) (st : stage) (r : rid)
| PSleep (when : Z) (w : wstate)
| PUnsubTask (sids : list sid) (lt : tid) (re : option exn)
| PUnsubGather (nleft : nat) (re : option exn)
| POneReq (r : rid)
| PDone (st : status).
Inductive handle := HStep (t : tid) | HTimer (t : tid) | HChild (p : tid).
Record task := mkTask { t_kind : tkind; t_pc : pc; t_must : bool; t_waiters : list handle }.

Record state := mkState {
  now : Z;
  svcs : list bool;               (* per service of the profile device: is it one of the profile's (_interesting_service) *)
  subs : list (sid * Z);          (* UpnpProfileDevice._subscriptions: SID -> renewal deadline *)
  routed : list (sid * svc);      (* UpnpEventHandler._subscriptions: SID -> service *)
  avail : bool;                   (* profile_device.available *)
  evlog : list svc;               (* on_event(service, []) calls, oldest first *)
  rtask : option tid;             (* _resubscriber_task *)
  tasks : nat -> task; ntasks : nat;
  calls : list tid;               (* the user's calls, oldest first *)
  reqs : nat -> req; nreqs : nat;
  ready : list handle;
  pub : list (sid * option Z);    (* publisher: subscriptions it created, with their expiry (None = never) *)
  nsid : nat;
  lapsed : bool;                  (* the publisher accepted a renewal of a subscription it no longer held *)
  diverged : bool;
  (* ghost state: read by no transition, only by guards and premises *)
  g_overdue : bool;               (* a renewal pass of the loop started with a deadline more than TOL in the past *)
  g_inflight : bool;              (* async_unsubscribe_services cancelled the renewal task inside _async_do_resubscribe *)
  g_maxdur : Z                    (* longest time a subscribe call / renewal pass has spent waiting for its responses *)
}.

Definition dummy_task := mkTask KUnsub (PDone SCancelled) false [].
Definition dummy_req := mkReq 0 QUnsub 0%nat None 0%nat false QCancelled.
Definition init (sv : list bool) : state :=
  mkState 0 sv [] [] true [] None (fun _ => dummy_task) 0 [] (fun _ => dummy_req) 0 [] [] 0 false false
          false false 0.

(* ---- field updates -------------------------------------------------------------------------------------- *)
Definition with_now (s : state) x :=
  mkState x (svcs s) (subs s) (routed s) (avail s) (evlog s) (rtask s) (tasks s) (ntasks s) (calls s) (reqs s) (nreqs s)
          (ready s) (pub s) (nsid s) (lapsed s) (diverged s) (g_overdue s) (g_inflight s) (g_maxdur s).
Definition with_subs (s : state) x :=
  mkState (now s) (svcs s) x (routed s) (avail s) (evlog s) (rtask s) (tasks s) (ntasks s) (calls s) (reqs s) (nreqs s)
          (ready s) (pub s) (nsid s) (lapsed s) (diverged s) (g_overdue s) (g_inflight s) (g_maxdur s).
Definition with_routed (s : state) x :=
  mkState (now s) (svcs s) (subs s) x (avail s) (evlog s) (rtask s) (tasks s) (ntasks s) (calls s) (reqs s) (nreqs s)
          (ready s) (pub s) (nsid s) (lapsed s) (diverged s) (g_overdue s) (g_inflight s) (g_maxdur s).
Definition with_avail (s : state) x :=
  mkState (now s) (svcs s) (subs s) (routed s) x (evlog s) (rtask s) (tasks s) (ntasks s) (calls s) (reqs s) (nreqs s)
          (ready s) (pub s) (nsid s) (lapsed s) (diverged s) (g_overdue s) (g_inflight s) (g_maxdur s).
Definition with_evlog (s : state) x :=
  mkState (now s) (svcs s) (subs s) (routed s) (avail s) x (rtask s) (tasks s) (ntasks s) (calls s) (reqs s) (nreqs s)
          (ready s) (pub s) (nsid s) (lapsed s) (diverged s) (g_overdue s) (g_inflight s) (g_maxdur s).
Definition with_rtask (s : state) x :=
  mkState (now s) (svcs s) (subs s) (routed s) (avail s) (evlog s) x (tasks s) (ntasks s) (calls s) (reqs s) (nreqs s)
          (ready s) (pub s) (nsid s) (lapsed s) (diverged s) (g_overdue s) (g_inflight s) (g_maxdur s).
Definition with_tasks (s : state) f n :=
  mkState (now s) (svcs s) (subs s) (routed s) (avail s) (evlog s) (rtask s) f n (calls s) (reqs s) (nreqs s)
          (ready s) (pub s) (nsid s) (lapsed s) (diverged s) (g_overdue s) (g_inflight s) (g_maxdur s).
Definition with_calls (s : state) x :=
  mkState (now s) (svcs s) (subs s) (routed s) (avail s) (evlog s) (rtask s) (tasks s) (ntasks s) x (reqs s) (nreqs s)
          (ready s) (pub s) (nsid s) (lapsed s) (diverged s) (g_overdue s) (g_inflight s) (g_maxdur s).
Definition with_reqs (s : state) f n :=
  mkState (now s) (svcs s) (subs s) (routed s) (avail s) (evlog s) (rtask s) (tasks s) (ntasks s) (calls s) f n
          (ready s) (pub s) (nsid s) (lapsed s) (diverged s) (g_overdue s) (g_inflight s) (g_maxdur s).
Definition with_ready (s : state) x :=
  mkState (now s) (svcs s) (subs s) (routed s) (avail s) (evlog s) (rtask s) (tasks s) (ntasks s) (calls s) (reqs s) (nreqs s)
          x (pub s) (nsid s) (lapsed s) (diverged s) (g_overdue s) (g_inflight s) (g_maxdur s).
Definition with_pub (s : state) p n l :=
  mkState (now s) (svcs s) (subs s) (routed s) (avail s) (evlog s) (rtask s) (tasks s) (ntasks s) (calls s) (reqs s) (nreqs s)
          (ready s) p n l (diverged s) (g_overdue s) (g_inflight s) (g_maxdur s).
Definition set_diverged (s : state) :=
  mkState (now s) (svcs s) (subs s) (routed s) (avail s) (evlog s) (rtask s) (tasks s) (ntasks s) (calls s) (reqs s) (nreqs s)
          (ready s) (pub s) (nsid s) (lapsed s) true (g_overdue s) (g_inflight s) (g_maxdur s).
Definition with_ghost (s : state) o i m :=
  mkState (now s) (svcs s) (subs s) (routed s) (avail s) (evlog s) (rtask s) (tasks s) (ntasks s) (calls s) (reqs s) (nreqs s)
          (ready s) (pub s) (nsid s) (lapsed s) (diverged s) o i m.

Definition set_pc (s : state) (t : tid) (p : pc) : state :=
  let k := tasks s t in with_tasks s (fupd (tasks s) t (mkTask (t_kind k) p (t_must k) (t_waiters k))) (ntasks s).
Definition set_must (s : state) (t : tid) : state :=
  let k := tasks s t in with_tasks s (fupd (tasks s) t (mkTask (t_kind k) (t_pc k) true (t_waiters k))) (ntasks s).
Definition add_waiter (s : state) (t : tid) (h : handle) : state :=
  let k := tasks s t in
  with_tasks s (fupd (tasks s) t (mkTask (t_kind k) (t_pc k) (t_must k) (t_waiters k ++ [h]))) (ntasks s).
Definition set_rstate (s : state) (r : rid) (x : rstate) : state :=
  let q := reqs s r in
  with_reqs s (fupd (reqs s) r (mkReq (q_time q) (q_kind q) (q_svc q) (q_sid q) (q_task q) (q_bg q) x)) (nreqs s).
Definition enqueue (s : state) (h : handle) : state := with_ready s (ready s ++ [h]).     (* call_soon *)

(* the coroutine of t ends: result stored, _must_cancel cleared, done callbacks scheduled *)
Definition finish (s : state) (t : tid) (st : status) : state :=
  let k := tasks s t in
  let s1 := with_tasks s (fupd (tasks s) t (mkTask (t_kind k) (PDone st) false [])) (ntasks s) in
  let s2 := fold_left enqueue (t_waiters k) s1 in
  match t_kind k with
  | KOne p _ => enqueue s2 (HChild p)
  | _ => s2
  end.

Definition is_done (k : task) : bool := match t_pc k with PDone _ => true | _ => false end.
Definition is_cancelled (k : task) : bool := match t_pc k with PDone SCancelled => true | _ => false end.
Definition is_loop (k : task) : bool := match t_kind k with KLoop => true | _ => false end.

(* create_task: the first __step is scheduled *)
Definition spawn (s : state) (kd : tkind) : state :=
  let t := ntasks s in
  enqueue (with_tasks s (fupd (tasks s) t (mkTask kd PStart false [])) (S t)) (HStep t).

(* the requester sees a request of task t; its future is pending *)
Definition issue (s : state) (t : tid) (kd : rkind) (v : svc) (x : option sid) : state :=
  let r := nreqs s in
  with_reqs s (fupd (reqs s) r (mkReq (now s) kd v x t (is_loop (tasks s t)) QPending)) (S r).

Notation dget' := (dget Nat.eqb).
Notation dset' := (dset Nat.eqb).
Notation ddel' := (ddel Nat.eqb).
Notation dhas' := (dhas Nat.eqb).

(* Task.cancel() *)
Definition cancel (s : state) (t : tid) : state :=
  let k := tasks s t in
  match t_pc k with
  | PDone _ => s
  | PSleep w WPending => enqueue (set_pc s t (PSleep w WCancelled)) (HStep t)
  | PSubReq _ _ _ r | PPass _ _ r | POneReq r =>
      match q_state (reqs s r) with
      | QPending => enqueue (set_rstate s r QCancelled) (HStep t)
      | _ => set_must s t
      end
  | _ => set_must s t
  end.

(* ---- async_unsubscribe_services ---------------------------------------------------------------------------- *)
Definition unsub_return (s : state) (t : tid) (re : option exn) : state :=
  match re with
  | None => finish s t (SRet None)
  | Some e => finish s t (SExc e)          (* async_subscribe_services: `raise` after the rollback *)
  end.

(* await asyncio.gather(one _async_unsubscribe_service(sid) per sid in sids) *)
Definition unsub_gather (s : state) (t : tid) (sids : list sid) (re : option exn) : state :=
  match sids with
  | [] => unsub_return s t re              (* gather() of nothing is already done: the await does not suspend *)
  | _ => set_pc (fold_left (fun s x => spawn s (KOne t x)) sids s) t (PUnsubGather (length sids) re)
  end.

Definition in_do_resubscribe (k : task) : bool :=
  match t_pc k with PPass _ StRenew _ => true | _ => false end.

(* _update_resubscriber_task, first statement: "Clear out done task" - only a CANCELLED one is forgotten *)
Definition forget_cancelled (s : state) : state :=
  match rtask s with
  | Some lt => if is_cancelled (tasks s lt) then with_rtask s None else s
  | None => s
  end.

Definition mark_inflight (s : state) (lt : tid) : state :=
  with_ghost s (g_overdue s) (g_inflight s || in_do_resubscribe (tasks s lt)) (g_maxdur s).

(* try: await self._resubscriber_task / except CancelledError: pass; self._resubscriber_task = None; then the gather *)
Definition await_task (s : state) (t : tid) (sids : list sid) (lt : tid) (re : option exn) : state :=
  match t_pc (tasks s lt) with
  | PDone (SExc e) => finish s t (SExc e)                 (* `await task` re-raises what the task raised *)
  | PDone _ => unsub_gather (with_rtask s None) t sids re
  | _ => set_pc (add_waiter s lt (HStep t)) t (PUnsubTask sids lt re)
  end.

(* sids = list(self._subscriptions); self._subscriptions.clear(); await self._update_resubscriber_task(); gather *)
Definition unsub_services (s : state) (t : tid) (re : option exn) : state :=
  let s1 := forget_cancelled (with_subs s []) in
  match rtask s1 with
  | None => unsub_gather s1 t (dkeys (subs s)) re
  | Some lt => await_task (cancel (mark_inflight s1 lt) lt) t (dkeys (subs s)) lt re
  end.

(* ---- the tail of async_subscribe_services ------------------------------------------------------------------- *)
Fixpoint min_dl (l : list (sid * Z)) : Z :=
  match l with
  | [] => 0
  | [(_, d)] => d
  | (_, d) :: r => Z.min d (min_dl r)
  end.

Definition sub_post (s : state) (t : tid) (auto : bool) (now0 : Z) : state :=
  match subs s with
  | [] => finish s t (SRet None)
  | _ =>
      if auto then
        (* _update_resubscriber_task with subscriptions: forget a cancelled task, create one if there is none *)
        let s1 := forget_cancelled s in
        let s2 := match rtask s1 with
                  | None => with_rtask (spawn s1 KLoop) (Some (ntasks s1))
                  | Some _ => s1
                  end in
        finish s2 t (SRet None)
      else finish s t (SRet (Some (Z.max 0 (min_dl (subs s) - now0 - TOL))))
  end.

(* ---- _async_resubscribe_services ---------------------------------------------------------------------------- *)
Inductive outcome := OSusp (s : state) | ODone (s : state) | ORaise (s : state) (e : exn).

Definition grant_secs (g : grant) : Z := match g with GSecs n => n | _ => SUBT end.

(* the for loop over the snapshot, from the top of an iteration to the next await / the end / an exception *)
Fixpoint pass_scan (s : state) (t : tid) (pn : Z) (nf : bool) (todo : list (sid * Z)) : outcome :=
  match todo with
  | [] => ODone s
  | (x, d) :: rest =>
      if d <? pn - TOL then pass_scan s t pn nf rest                         (* "Skipping" *)
      else if negb (dhas' (subs s) x) then ORaise s EKey                      (* del self._subscriptions[sid] *)
      else
        let s1 := with_subs s (ddel' (subs s) x) in
        match dget' (routed s1) x with
        | None => pass_scan s1 t pn nf rest                                   (* "Subscription ... was lost" *)
        | Some v =>
            OSusp (set_pc (issue s1 t QRenew v (Some x)) t (PPass (mkPass pn rest x d v nf) StRenew (nreqs s1)))
        end
  end.

(* except UpnpError as err: ... *)
Definition pass_error (s : state) (t : tid) (p : pass) (e : exn) : outcome :=
  if is_upnp e then
    let s1 := if is_conn e then with_avail s false else s in
    if p_notify p then pass_scan (with_evlog s1 (evlog s1 ++ [p_svc p])) t (p_now p) true (p_todo p)
    else ORaise s1 e
  else ORaise s e.

(* else: self._subscriptions[new_sid] = now + timeout.total_seconds() *)
Definition pass_grant (s : state) (t : tid) (p : pass) (x : sid) (g : grant) : outcome :=
  pass_scan (with_subs s (dset' (subs s) x (p_now p + grant_secs g))) t (p_now p) (p_notify p) (p_todo p).

(* the response to the request awaited at PPass p st _ has arrived *)
Definition pass_resume (s0 : state) (t : tid) (p : pass) (st : stage) (rho : reaction) (hdr : option sid) : outcome :=
  let s := s0 in
  let x := p_sid p in
  let v := p_svc p in
  match st with
  | StRenew =>          (* _async_do_resubscribe inside async_resubscribe *)
      match rho with
      | RAccept _ g =>
          match (match hdr with Some y => if Nat.eqb y x then None else Some y | None => None end) with
          | Some y =>
              if dhas' (routed s) x
              then pass_grant (with_routed s (dset' (ddel' (routed s) x) y v)) t p y g
              else ORaise s EKey
          | None => pass_grant (with_routed s (dset' (routed s) x v)) t p x g
          end
      | RUnreachable =>   (* except UpnpConnectionError: del self._subscriptions[sid]; raise *)
          if dhas' (routed s) x then pass_error (with_routed s (ddel' (routed s) x)) t p EConnection
          else ORaise s EKey
      | _ =>              (* except UpnpError; del self._subscriptions[sid]; return await self.async_subscribe(...) *)
          if dhas' (routed s) x
          then let s1 := with_routed s (ddel' (routed s) x) in
               OSusp (set_pc (issue s1 t QSub v None) t (PPass p StFallback (nreqs s1)))
          else ORaise s EKey
      end
  | StFallback =>       (* async_subscribe *)
      match rho with
      | RAccept _ g =>
          match hdr with
          | None => pass_error s t p ESid
          | Some y => pass_grant (with_routed s (dset' (routed s) y v)) t p y g
          end
      | RRefuse => pass_error s t p EResponse
      | RUnreachable => pass_error s t p EConnection
      | RCommErr => pass_error s t p EComm
      end
  end.

(* ---- _resubscribe_loop -------------------------------------------------------------------------------------- *)
Definition overdue (pn : Z) (p : sid * Z) : bool := snd p <? pn - TOL.

(* await self._async_resubscribe_services(notify_errors=True) *)
Definition run_pass (s : state) (t : tid) : outcome :=
  let s1 := with_ghost s (g_overdue s || existsb (overdue (now s)) (subs s)) (g_inflight s) (g_maxdur s) in
  pass_scan s1 t (now s1) true (subs s1).

(* `while self._subscriptions:` from the loop test on.  A pass that neither awaited nor removed anything leaves the
   state as it was: the same pass would run again, forever. *)
Fixpoint loop_head (fuel : nat) (s : state) (t : tid) : state :=
  match subs s with
  | [] => finish s t (SRet None)
  | _ =>
      let w := min_dl (subs s) - now s - TOL in
      if 0 <? w then set_pc s t (PSleep (now s + w) WPending)
      else match run_pass s t with
           | OSusp s' => s'
           | ORaise s' e => finish s' t (SExc e)
           | ODone s' =>
               if (length (subs s') <? length (subs s))%nat then
                 match fuel with
                 | O => set_diverged s'
                 | S f => loop_head f s' t
                 end
               else set_diverged s'
           end
  end.

Definition after_pass_loop (t : tid) (o : outcome) : state :=
  match o with
  | OSusp s' => s'
  | ORaise s' e => finish s' t (SExc e)
  | ODone s' => loop_head (length (subs s')) s' t
  end.

Definition after_pass_sub (t : tid) (auto : bool) (now0 : Z) (o : outcome) : state :=
  match o with
  | OSusp s' => s'
  | ODone s' => sub_post s' t auto now0
  | ORaise s' e => if is_upnp e then unsub_services s' t (Some e) else finish s' t (SExc e)
  end.

(* ---- async_subscribe_services, first-time branch ------------------------------------------------------------ *)
Definition sub_next (s : state) (t : tid) (auto : bool) (now0 : Z) (todo : list svc) : state :=
  match todo with
  | [] => sub_post s t auto now0
  | v :: rest => set_pc (issue s t QSub v None) t (PSubReq now0 rest v (nreqs s))
  end.

Definition sub_resume (s0 : state) (t : tid) (auto : bool) (now0 : Z) (todo : list svc) (v : svc)
                      (rho : reaction) (hdr : option sid) : state :=
  let s := s0 in
  match rho with
  | RAccept _ g =>
      match hdr with
      | None => unsub_services s t (Some ESid)
      | Some y =>
          sub_next (with_subs (with_routed s (dset' (routed s) y v)) (dset' (subs s) y (now0 + grant_secs g)))
                   t auto now0 todo
      end
  | RRefuse => unsub_services s t (Some EResponse)
  | RUnreachable => unsub_services s t (Some EConnection)
  | RCommErr => unsub_services s t (Some EComm)
  end.

Fixpoint interesting_from (i : nat) (l : list bool) : list svc :=
  match l with
  | [] => []
  | b :: r => if b then i :: interesting_from (S i) r else interesting_from (S i) r
  end.
Definition interesting (l : list bool) : list svc := interesting_from 0 l.

(* ---- one handle --------------------------------------------------------------------------------------------- *)
Definition throw_cancel (s : state) (t : tid) : state := finish s t SCancelled.

Definition start_body (s : state) (t : tid) : state :=
  match t_kind (tasks s t) with
  | KSub auto =>
      match subs s with
      | [] => sub_next s t auto (now s) (interesting (svcs s))
      | _ => after_pass_sub t auto (now s) (pass_scan s t (now s) false (subs s))
      end
  | KUnsub => unsub_services s t None
  | KLoop => loop_head (length (subs s)) s t
  | KOne _ x =>
      match dget' (routed s) x with
      | None => finish s t (SRet None)               (* KeyError from _sid_and_service, caught and logged *)
      | Some v =>
          let s1 := with_routed s (ddel' (routed s) x) in
          set_pc (issue s1 t QUnsub v (Some x)) t (POneReq (nreqs s1))
      end
  end.

Definition step_task (s : state) (t : tid) : state :=
  let k := tasks s t in
  match t_pc k with
  | PDone _ => s
  | PStart => if t_must k then throw_cancel s t else start_body s t
  | PSubReq now0 todo v r =>
      match q_state (reqs s r) with
      | QPending => s
      | QCancelled => throw_cancel s t
      | QDone rho hdr =>
          if t_must k then throw_cancel s t
          else match t_kind k with
               | KSub auto => sub_resume s t auto now0 todo v rho hdr
               | _ => s
               end
      end
  | PPass p st r =>
      match q_state (reqs s r) with
      | QPending => s
      | QCancelled => throw_cancel s t
      | QDone rho hdr =>
          if t_must k then throw_cancel s t
          else match t_kind k with
               | KSub auto => after_pass_sub t auto (p_now p) (pass_resume s t p st rho hdr)
               | _ => after_pass_loop t (pass_resume s t p st rho hdr)
               end
      end
  | PSleep _ w =>
      match w with
      | WPending => s
      | WCancelled => throw_cancel s t
      | WDone => if t_must k then throw_cancel s t else after_pass_loop t (run_pass s t)
      end
  | PUnsubTask sids lt re =>
      if is_done (tasks s lt) then await_task s t sids lt re else s
  | PUnsubGather n re => match n with O => unsub_return s t re | S _ => s end
  | POneReq r =>
      match q_state (reqs s r) with
      | QPending => s
      | QCancelled => throw_cancel s t
      | QDone _ _ => if t_must k then throw_cancel s t else finish s t (SRet None)   (* errors are logged, not raised *)
      end
  end.

Definition run_handle (s : state) (h : handle) : state :=
  if diverged s then s else
  match h with
  | HStep t => step_task s t
  | HTimer t =>
      match t_pc (tasks s t) with
      | PSleep w WPending => enqueue (set_pc s t (PSleep w WDone)) (HStep t)
      | _ => s
      end
  | HChild p =>
      match t_pc (tasks s p) with
      | PUnsubGather (S n) re =>
          let s1 := set_pc s p (PUnsubGather n re) in
          match n with O => enqueue s1 (HStep p) | S _ => s1 end
      | _ => s
      end
  end.

(* ---- external actions ----------------------------------------------------------------------------------------- *)
Definition timer_due (s : state) (t : tid) : bool :=
  match t_pc (tasks s t) with PSleep w WPending => w <=? now s | _ => false end.
Definition due (s : state) : list tid := filter (timer_due s) (seq 0 (ntasks s)).
Definition iterate (s : state) : state :=
  fold_left run_handle (ready s ++ map HTimer (due s)) (with_ready s []).

Definition timer_of (s : state) (t : tid) : option Z :=
  match t_pc (tasks s t) with PSleep w WPending => Some w | _ => None end.
Definition next_timer (s : state) : option Z :=
  fold_left (fun acc t => match timer_of s t, acc with
                          | Some w, Some a => Some (Z.min a w)
                          | Some w, None => Some w
                          | None, _ => acc
                          end) (seq 0 (ntasks s)) None.
(* ghost: how long the subscribe call / renewal pass of task t has been going on at time nw *)
Definition phase_start (k : task) : option Z :=
  match t_pc k with
  | PSubReq n0 _ _ _ => Some n0
  | PPass p _ _ => Some (p_now p)
  | _ => None
  end.
Definition age_of (s : state) (nw : Z) (t : tid) : Z :=
  match phase_start (tasks s t) with Some st => nw - st | None => 0 end.
Definition max_age (s : state) (nw : Z) : Z :=
  fold_right (fun t acc => Z.max (age_of s nw t) acc) 0 (seq 0 (ntasks s)).

(* time passes while the loop sleeps in select(): not at all if something is ready, never past the next timer *)
Definition advance (s : state) (dt : Z) : state :=
  match ready s with
  | _ :: _ => s
  | [] =>
      let d := match next_timer s with
               | None => dt
               | Some w => Z.min dt (w - now s)
               end in
      let n' := now s + Z.max 0 d in
      with_ghost (with_now s n') (g_overdue s) (g_inflight s) (Z.max (g_maxdur s) (max_age s n'))
  end.

Definition expiry (s : state) (g : grant) : option Z :=
  match g with GSecs n => Some (now s + n) | GInfinite => None | GAbsent => Some (now s + SUBT) end.
Definition alive (s : state) (x : sid) : bool :=
  match dget' (pub s) x with
  | Some None => true
  | Some (Some e) => now s <=? e
  | None => false
  end.

(* what the publisher does with request q when it answers rho; returns the SID header of the response *)
Definition publisher (s : state) (q : req) (rho : reaction) : state * option sid :=
  match rho with
  | RAccept m g =>
      match q_kind q, q_sid q with
      | QSub, _ =>
          match m with
          | SidNone => (s, None)
          | _ => (with_pub s (dset' (pub s) (nsid s) (expiry s g)) (S (nsid s)) (lapsed s), Some (nsid s))
          end
      | QRenew, Some x =>
          let l := lapsed s || negb (alive s x) in
          match m with
          | SidFresh => (with_pub s (dset' (ddel' (pub s) x) (nsid s) (expiry s g)) (S (nsid s)) l, Some (nsid s))
          | SidEcho => (with_pub s (dset' (pub s) x (expiry s g)) (nsid s) l, Some x)
          | SidNone => (with_pub s (dset' (pub s) x (expiry s g)) (nsid s) l, None)
          end
      | QUnsub, Some x => (with_pub s (ddel' (pub s) x) (nsid s) (lapsed s), None)
      | _, None => (s, None)
      end
  | _ => (s, None)
  end.

Definition deliver (s : state) (r : rid) (rho : reaction) : state :=
  if (r <? nreqs s)%nat then
    let q := reqs s r in
    match q_state q with
    | QPending =>
        let (s1, hdr) := publisher s q rho in
        enqueue (set_rstate s1 r (QDone rho hdr)) (HStep (q_task q))
    | _ => s
    end
  else s.

Definition user_busy (s : state) : bool := existsb (fun t => negb (is_done (tasks s t))) (calls s).
Definition call (s : state) (kd : tkind) : state :=
  if user_busy s then s else with_calls (spawn s kd) (calls s ++ [ntasks s]).

Definition step (s : state) (a : action) : state :=
  if diverged s then s else
  match a with
  | ASubscribe auto => call s (KSub auto)
  | AUnsubscribe => call s KUnsub
  | ADeliver r rho => deliver s r rho
  | AAdvance dt => advance s dt
  | AIter => iterate s
  end.

Definition run_from (s : state) (sched : list action) : state := fold_left step sched s.

(* ---- what the harness observes after every action ------------------------------------------------------------- *)
Inductive rtstate := RtNone | RtPending | RtDone | RtCancelled | RtExc.
Record snap := mkSnap {
  o_now : Z;
  o_newreqs : list (rkind * svc * option sid * bool);  (* requests first seen during this action: kind, service, SID header, by the renewal task *)
  o_out : list rid;                                    (* requests whose future is still pending *)
  o_routed : list (sid * svc);                         (* sorted by SID *)
  o_subs : list (sid * Z);                             (* sorted by SID *)
  o_live : list (sid * option Z);                      (* publisher side, sorted by SID *)
  o_lapsed : bool;
  o_events : list svc;                                 (* on_event(service, []) calls during this action *)
  o_avail : bool;
  o_calls : list (option status);                      (* per user call: None = pending *)
  o_rtask : rtstate;
  o_idle : bool;                                       (* loop._ready is empty *)
  o_div : bool
}.

Fixpoint insert_by {A} (x : nat * A) (l : list (nat * A)) : list (nat * A) :=
  match l with
  | [] => [x]
  | y :: r => if (fst x <=? fst y)%nat then x :: l else y :: insert_by x r
  end.
Definition sort_by {A} (l : list (nat * A)) : list (nat * A) := fold_right insert_by [] l.

Definition is_qpending (x : rstate) : bool := match x with QPending => true | _ => false end.
Definition outstanding (s : state) : list rid :=
  filter (fun r => is_qpending (q_state (reqs s r))) (seq 0 (nreqs s)).
Definition req_obs (q : req) := (q_kind q, q_svc q, q_sid q, q_bg q).
Definition status_of (k : task) : option status := match t_pc k with PDone st => Some st | _ => None end.
Definition rtask_obs (s : state) : rtstate :=
  match rtask s with
  | None => RtNone
  | Some t => match t_pc (tasks s t) with
              | PDone (SRet _) => RtDone
              | PDone SCancelled => RtCancelled
              | PDone (SExc _) => RtExc
              | _ => RtPending
              end
  end.

Definition div_snap : snap := mkSnap 0 [] [] [] [] [] false [] true [] RtNone true true.

Definition observe (s0 s : state) : snap :=
  if diverged s then div_snap else
  mkSnap (now s)
         (map (fun r => req_obs (reqs s r)) (seq (nreqs s0) (nreqs s - nreqs s0)))
         (outstanding s) (sort_by (routed s)) (sort_by (subs s)) (sort_by (pub s)) (lapsed s)
         (skipn (length (evlog s0)) (evlog s)) (avail s)
         (map (fun t => status_of (tasks s t)) (calls s)) (rtask_obs s)
         (match ready s with [] => true | _ => false end) false.

Fixpoint trace_from (s : state) (sched : list action) : list snap :=
  match sched with
  | [] => []
  | a :: r => let s' := step s a in observe s s' :: trace_from s' r
  end.

Record input := mkInput { i_svcs : list bool; i_sched : list action }.
Definition observation := list snap.
Definition run (i : input) : state := run_from (init (i_svcs i)) (i_sched i).
Definition model_run (i : input) : observation := trace_from (init (i_svcs i)) (i_sched i).
