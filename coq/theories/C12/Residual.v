(* C12 - the residual clean-shutdown clause (Spec.clause_clean_res) holds for EVERY schedule of the domain, known finding
   D20 included: once an unsubscribe call has returned, every SID that is still routed is the SID of a renewal SUBSCRIBE of
   the renewal task that was in flight when an unsubscribe call started executing - identified by the specification from
   the schedule and the observed request log - and everything else clause 5 demands holds unconditionally.

   Structure: Leak E s  - the model-side reading of "routed SIDs are accounted for" once the ghost flag is up (before that
                          Inv.iv_route does the work);
              Pre / Arm - between the step at which an unsubscribe call is made and the first step of its task: which
                          request the renewal task can still be waiting for when that step happens;
              Cacc      - the relation between the accumulator of Spec.res_steps and the model state. *)
From Coq Require Import List Bool Arith ZArith Lia.
From AUC Require Import Prelude.PyDict C12.Model C12.Spec C12.Frame C12.InvDef C12.InvStep C12.InvStep2 C12.InvStep3
  C12.Reach C12.StepFrame C12.ReqStatic C12.Yields C12.Clean C12.Wake C12.Fail C12.Handles.
Import ListNotations.

(* ---- routed SIDs once an unsubscribe call has cancelled a renewal in flight ---------------------------------------------------- *)
Definition Leak (E : list sid) (s : state) : Prop :=
  g_inflight s = true -> forall x, In x (dkeys (routed s)) -> unsub_pending s x \/ In x E.

Lemma Leak_mono E E' s : incl E E' -> Leak E s -> Leak E' s.
Proof. intros Hi L G x Hx. destruct (L G x Hx) as [A|A]; [now left|right; now apply Hi]. Qed.

Lemma up_keep s s' x :
  calls s' = calls s -> ntasks s <= ntasks s' ->
  (forall sids lt re, pcof s (cur s) = PUnsubTask sids lt re -> In x sids -> pcof s' (cur s) = PUnsubTask sids lt re) ->
  (forall t, t < ntasks s -> kindof s t = KOne (cur s) x -> pcof s t = PStart -> tasks s' t = tasks s t) ->
  unsub_pending s x -> unsub_pending s' x.
Proof.
  intros Ec Hn H1 H2 [(sids & lt & re & A & B)|(t & A & B & C)]; unfold unsub_pending, cur; rewrite Ec; fold (cur s).
  - left. exists sids, lt, re. split; [now apply H1|exact B].
  - right. exists t. rewrite (H2 t A B C). repeat split; auto. lia.
Qed.

(* the current call has no children unless it is inside its gather *)
Lemma no_kids pend s t x :
  Inv pend s -> calls s <> [] -> ~ donep s (cur s) -> (forall n re, pcof s (cur s) <> PUnsubGather n re) ->
  t < ntasks s -> kindof s t = KOne (cur s) x -> False.
Proof.
  intros H Hc Hnd Hng Ht Hk. destruct (iv_count _ _ H) as [_ C2]. specialize (C2 Hc Hnd).
  destruct (pcof s (cur s)) as [| | | | |n re| |] eqn:E; try (now destruct (Hng n re));
    destruct C2 as [C2 _]; specialize (C2 t Ht); unfold is_kid in C2; rewrite Hk, Nat.eqb_refl in C2; discriminate.
Qed.

Lemma no_up_start pend s x : Inv pend s -> calls s <> [] -> pcof s (cur s) = PStart -> ~ unsub_pending s x.
Proof.
  intros H Hc Hp [(sids & lt & re & A & _)|(t & A & B & C)]; [congruence|].
  eapply (no_kids _ s t x H Hc); eauto.
  - unfold is_done. rewrite Hp. discriminate.
  - intros n re. congruence.
Qed.

(* once an unsubscribe call has started executing: the current call is an unsubscribe call *)
Lemma shut_cur pend s :
  Inv pend s -> ~ normal s -> calls s <> [] /\ In (cur s) (tl (calls s)) /\ kindof s (cur s) = KUnsub /\ cur s < ntasks s.
Proof.
  intros H N. destruct (calls s) as [|c0 us] eqn:Ec.
  { exfalso. apply N. intros u Hu. rewrite Ec in Hu. destruct Hu. }
  destruct us as [|u us'].
  { exfalso. apply N. intros u Hu. rewrite Ec in Hu. destruct Hu. }
  assert (Hin : In (cur s) (tl (calls s))).
  { unfold cur. rewrite Ec. cbn [tl]. apply (last_in_tail c0 (u :: us') 0). discriminate. }
  split; [discriminate|]. split; [now rewrite <- Ec|]. split; [now apply (tl_call_kind _ _ H)|].
  apply (call_lt _ _ H). now apply tl_in.
Qed.

Lemma doomed_step pend s t :
  Inv pend s -> t < ntasks s -> kindof s t = KLoop -> doomed s t -> step_task s t = s \/ step_task s t = throw_cancel s t.
Proof.
  intros H Ht Hk D. pose proof (iv_pc _ _ H t Ht) as Hpcok. unfold pc_ok in Hpcok. rewrite Hk in Hpcok.
  unfold step_task, doomed in *. destruct (pcof s t) as [| |p st r|w ws| | | |st] eqn:Epc; try contradiction; try (now left).
  - destruct D as [D|[]]. rewrite D. now right.
  - destruct (q_state (reqs s r)) eqn:Eq; [now left| |now right].
    destruct D as [D|D]; [rewrite D; now right|discriminate].
  - destruct ws; [now left| |now right]. destruct D as [D|[]]. rewrite D. now right.
Qed.

Lemma throw_tasks s t t' : t' <> t -> tasks (throw_cancel s t) t' = tasks s t'.
Proof. intros Hne. unfold throw_cancel. destruct (tasks_finish s t SCancelled) as [A _]. rewrite A. apply fupd_neq. congruence. Qed.
Lemma finish_tasks s t st t' : t' <> t -> tasks (finish s t st) t' = tasks s t'.
Proof. intros Hne. destruct (tasks_finish s t st) as [A _]. rewrite A. apply fupd_neq. congruence. Qed.

Lemma In_insert_by' {A} (x e : nat * A) l : In e (insert_by x l) <-> e = x \/ In e l.
Proof.
  induction l as [|y l IH]; cbn [insert_by]; [cbn; intuition|]. destruct (fst x <=? fst y)%nat; cbn [In]; [intuition|].
  rewrite IH. cbn. intuition.
Qed.
Lemma In_sort_by' {A} (e : nat * A) l : In e (sort_by l) <-> In e l.
Proof. unfold sort_by. induction l as [|y l IH]; cbn [fold_right]; [reflexivity|]. rewrite In_insert_by', IH. cbn. intuition. Qed.

(* ---- the flag is already up: every handle keeps Leak ------------------------------------------------------------------------------ *)
Lemma Leak_shut rest s h E :
  Inv (h :: rest ++ ready s) s -> ~ normal s -> diverged s = false -> Leak E s -> g_inflight s = true -> Leak E (run_handle s h).
Proof.
  intros H N Dv L G _ x Hx. specialize (L G).
  destruct (shut_cur _ _ H N) as (Hc & Hcin & Hck & Hclt).
  destruct (iv_sid _ _ H) as (_ & ND & _).
  unfold run_handle in *. rewrite Dv in *. destruct h as [t|t|p].
  - destruct (Nat.lt_ge_cases t (ntasks s)) as [Ht|Ht].
    2:{ unfold step_task in *. rewrite (beyond_noop _ _ _ H Ht) in *. now apply L. }
    destruct (is_done (tasks s t)) eqn:Ed; [rewrite done_noop in * by exact Ed; now apply L|].
    assert (Hnd : ~ donep s t) by congruence.
    destruct (kindof s t) as [a| | |q x0] eqn:Hk.
    + (* a subscribe call cannot be alive any more *)
      exfalso. destruct (live_sub _ _ H t a Ht Hk Hnd) as (_ & Hcur & _). congruence.
    + (* the current unsubscribe call *)
      assert (Hk' : is_sub_kind (kindof s t) || is_unsub_kind (kindof s t) = true) by (rewrite Hk; reflexivity).
      destruct (live_call_is_cur _ _ _ H Ht Hk' Hnd) as [_ Hcur]. subst t.
      assert (Hnl : kindof s (cur s) <> KLoop) by (rewrite Hk; discriminate).
      pose proof (not_doomed_must _ _ (not_loop_not_doomed _ _ _ H Ht Hnl)) as Hm.
      pose proof (iv_pc _ _ H _ Ht) as Hpcok. unfold pc_ok in Hpcok. rewrite Hk in Hpcok.
      unfold step_task in *.
      destruct (pcof s (cur s)) as [| | | |sids lt [e|]|n [e|]| |st] eqn:Epc; try contradiction.
      * (* PStart: nothing was pending, so every routed SID is exempt already *)
        rewrite Hm in *. unfold start_body in *. rewrite Hk in *. rewrite fr_routed_unsub_services in Hx.
        destruct (L x Hx) as [A|A]; [|now right]. exfalso. eapply no_up_start; eauto.
      * (* waiting for the renewal task *)
        destruct (is_done (tasks s lt)) eqn:Edl; [|now apply L].
        rewrite fr_routed_await_task in Hx. destruct (L x Hx) as [A|A]; [|now right]. left.
        destruct A as [(sids' & lt' & re' & A1 & A2)|(t' & A1 & A2 & A3)].
        2:{ exfalso. eapply (no_kids _ s t' x H Hc); eauto. intros n re. congruence. }
        assert (sids' = sids) by congruence. subst sids'. clear A1.
        (* the renewal task has ended: the gather starts *)
        pose proof (iv_phase _ _ H) as Ph. unfold phase_ok in Ph. destruct (calls s) eqn:Ecs; [congruence|]. rewrite <- Ecs in *. cbv zeta in Ph.
        rewrite Hk, Epc in Ph. destruct Ph as (_ & _ & Hrt & _).
        destruct (iv_rtask _ _ H lt Hrt) as [Hlt Hkl]. pose proof (iv_pc _ _ H lt Hlt) as Pl. unfold pc_ok in Pl. rewrite Hkl in Pl.
        unfold await_task. unfold is_done in Edl.
        assert (Gth : unsub_pending (unsub_gather (with_rtask s None) (cur s) sids None) x).
        { unfold unsub_gather. destruct sids as [|x1 l1]; [destruct A2|].
          fold (spawn_kids (with_rtask s None) (cur s) (x1 :: l1)).
          destruct (spawn_kids_spec (cur s) (x1 :: l1) (with_rtask s None)) as (S1 & _ & S3 & S4 & _ & _ & _ & _ & _ & _ & _ & _ & S13 & _).
          cbv zeta in *. set (s1 := spawn_kids (with_rtask s None) (cur s) (x1 :: l1)) in *.
          destruct (in_nth_ex _ _ A2) as (i & Hi & Hnth).
          right. exists (ntasks s + i). unfold cur. sproj. rewrite S13. sproj. fold (cur s).
          change (ntasks (with_rtask s None)) with (ntasks s) in *.
          rewrite fupd_neq by lia. rewrite (S4 i Hi), Hnth. cbn [t_kind t_pc]. repeat split; auto. rewrite S1. lia. }
        destruct (pcof s lt) as [| | | | | | |[[v|]|e|]]; try discriminate; try contradiction; exact Gth.
      * (* the gather is complete *)
        destruct n as [|n]; [|now apply L]. rewrite fr_routed_unsub_return in Hx. destruct (L x Hx) as [A|A]; [|now right]. left.
        unfold unsub_return. eapply up_keep; [| | | |exact A].
        -- now autorewrite with fr_calls.
        -- autorewrite with fr_ntasks. lia.
        -- intros sids lt re X. congruence.
        -- intros t' Ht' Hkk Hp'. apply finish_tasks. intros ->. congruence.
      * exfalso. apply Hnd. unfold is_done. now rewrite Epc.
    + (* the renewal task takes its CancelledError *)
      destruct (shutdown_dd _ _ H t N Ht Hk) as [D|D]; [contradiction|].
      destruct (doomed_step _ _ _ H Ht Hk D) as [E0|E0]; rewrite E0 in *; [now apply L|].
      rewrite fr_routed_throw_cancel in Hx. destruct (L x Hx) as [A|A]; [|now right]. left.
      assert (Hne : cur s <> t) by (intros X; rewrite X in Hck; congruence).
      eapply up_keep; [| | | |exact A].
      * now autorewrite with fr_calls.
      * autorewrite with fr_ntasks. lia.
      * intros sids lt re X _. rewrite throw_tasks by exact Hne. exact X.
      * intros t' Ht' Hkk Hp'. apply throw_tasks. intros ->. congruence.
    + (* one UNSUBSCRIBE of the gather *)
      assert (Hnl : kindof s t <> KLoop) by (rewrite Hk; discriminate).
      pose proof (not_doomed_must _ _ (not_loop_not_doomed _ _ _ H Ht Hnl)) as Hm.
      pose proof (iv_pc _ _ H t Ht) as Hpcok. unfold pc_ok in Hpcok. rewrite Hk in Hpcok.
      assert (Hne : cur s <> t) by (intros X; rewrite X in Hck; congruence).
      assert (Fin : forall st, In x (dkeys (routed (finish s t st))) -> (pcof s t = PStart -> x0 <> x) ->
                    unsub_pending (finish s t st) x \/ In x E).
      { intros st Hx' Hdiff. rewrite fr_routed_finish in Hx'. destruct (L x Hx') as [A|A]; [|now right]. left.
        eapply up_keep; [| | | |exact A].
        - now autorewrite with fr_calls.
        - autorewrite with fr_ntasks. lia.
        - intros sids lt re X _. rewrite finish_tasks by exact Hne. exact X.
        - intros t' Ht' Hkk Hp'. apply finish_tasks. intros ->. apply (Hdiff Hp'). congruence. }
      unfold step_task, throw_cancel in *.
      destruct (pcof s t) as [| | | | | |r|st] eqn:Epc; try contradiction.
      * rewrite Hm in *. unfold start_body in *. rewrite Hk in *.
        destruct (dget Nat.eqb (routed s) x0) as [v|] eqn:Ev.
        -- cbv zeta in Hx. unfold issue in Hx. sproj in Hx.
           apply nin_del in Hx; [|exact ND]. destruct Hx as [Hxne Hx].
           destruct (L x Hx) as [A|A]; [|now right]. left. cbv zeta.
           eapply up_keep; [| | | |exact A].
           ++ reflexivity.
           ++ unfold issue. sproj. lia.
           ++ intros sids lt re X _. unfold issue. sproj. rewrite fupd_neq by congruence. exact X.
           ++ intros t' Ht' Hkk Hp'. unfold issue. sproj. apply fupd_neq. intros <-. congruence.
        -- apply Fin; [exact Hx|]. intros _ <-. apply nget_none in Ev. apply Ev. now rewrite fr_routed_finish in Hx.
      * destruct (q_state (reqs s r)); [now apply L| |].
        -- destruct (t_must _); apply Fin; auto; intros X; discriminate.
        -- apply Fin; auto; intros X; discriminate.
      * exfalso. apply Hnd. unfold is_done. now rewrite Epc.
  - (* a timer *)
    destruct (pcof s t) as [| | |w [| |]| | | |] eqn:Epc; try (now apply L).
    sproj in Hx. destruct (L x Hx) as [A|A]; [|now right]. left.
    apply (up_keep s); [reflexivity|sproj; lia| | |exact A].
    + intros sids lt re X _. sproj. rewrite fupd_neq; [exact X|]. intros Heq. rewrite Heq in Epc. congruence.
    + intros t' Ht' Hkk Hp'. sproj. apply fupd_neq. intros Heq. rewrite Heq in Epc. congruence.
  - (* a child reports *)
    destruct (pcof s p) as [| | | | |[|n] re| |] eqn:Epc; try (now apply L).
    assert (X : unsub_pending (set_pc s p (PUnsubGather n re)) x \/ In x E).
    { destruct (L x) as [A|A]; [destruct n; exact Hx| |now right]. left.
      apply (up_keep s); [reflexivity|sproj; lia| | |exact A].
      - intros sids lt re' X _. sproj. rewrite fupd_neq; [exact X|]. intros Heq. rewrite Heq in Epc. congruence.
      - intros t' Ht' Hkk Hp'. sproj. apply fupd_neq. intros Heq. rewrite Heq in Epc. congruence. }
    destruct n; [|exact X]. destruct X as [X|X]; [left|now right].
    destruct X as [(sids & lt & re' & A & B)|(t' & A & B & C)]; [left; exists sids, lt, re'; auto|right; exists t'; auto].
Qed.

(* ---- the flag goes up: async_unsubscribe_services starts while the renewal task is inside a renewal --------------------------------- *)
Lemma Leak_mark rest s t E :
  Inv (HStep t :: rest ++ ready s) s -> t < ntasks s -> kindof s t = KUnsub -> pcof s t = PStart ->
  g_inflight s = false ->
  (forall lt p r, rtask s = Some lt -> pcof s lt = PPass p StRenew r -> In (p_sid p) E) ->
  Leak E (step_task s t).
Proof.
  intros H Ht Hk Hp G HE G' x Hx.
  assert (Hnd : ~ donep s t) by (unfold is_done; rewrite Hp; discriminate).
  assert (Hk' : is_sub_kind (kindof s t) || is_unsub_kind (kindof s t) = true) by (rewrite Hk; reflexivity).
  destruct (live_call_is_cur _ _ _ H Ht Hk' Hnd) as [Hc Hcur].
  assert (Hnl : kindof s t <> KLoop) by (rewrite Hk; discriminate).
  pose proof (not_doomed_must _ _ (not_loop_not_doomed _ _ _ H Ht Hnl)) as Hm.
  unfold step_task in *. rewrite Hp, Hm in *. unfold start_body in *. rewrite Hk in *.
  rewrite fr_routed_unsub_services in Hx.
  destruct (iv_route _ _ H G) as [R1 _]. destruct (R1 x Hx) as [A|[A|A]].
  - (* held by the profile: it is in the list the call will unsubscribe *)
    left. unfold unsub_services in *. set (s1 := forget_cancelled (with_subs s [])) in *.
    assert (T1 : tasks s1 = tasks s) by (subst s1; now rewrite fr_tasks_forget_cancelled).
    assert (N1 : ntasks s1 = ntasks s) by (subst s1; now rewrite fr_ntasks_forget_cancelled).
    assert (C1 : calls s1 = calls s) by (subst s1; now rewrite fr_calls_forget_cancelled).
    assert (G1 : g_inflight s1 = false) by (subst s1; now rewrite fr_g_inflight_forget_cancelled).
    assert (R1' : forall l, rtask s1 = Some l -> rtask s = Some l).
    { intros l El. subst s1. unfold forget_cancelled in El. sproj in El. destruct (rtask s) as [l0|] eqn:E0; [|sproj in El; congruence].
      destruct (is_cancelled _); sproj in El; congruence. }
    destruct (rtask s1) as [lt|] eqn:Er.
    2:{ exfalso. rewrite fr_g_inflight_unsub_gather in G'. congruence. }
    rewrite fr_g_inflight_await_task, fr_g_inflight_cancel in G'. unfold mark_inflight in G'. sproj in G'.
    rewrite G1, T1 in G'. cbn [orb] in G'.
    unfold in_do_resubscribe in G'. destruct (pcof s lt) as [| |p [|] r| | | | |] eqn:Epl; try discriminate.
    set (s3 := cancel (mark_inflight s1 lt) lt).
    assert (P3 : pcof s3 lt = PPass p StRenew r).
    { destruct (PCF_cancel lt (mark_inflight s1 lt) lt) as (_ & _ & K).
      assert (Hlt : lt < ntasks (mark_inflight s1 lt)).
      { rewrite fr_ntasks_mark_inflight, N1. apply (iv_rtask _ _ H). now apply R1'. }
      specialize (K Hlt). fold s3 in K. rewrite fr_tasks_mark_inflight, T1, Epl in K.
      destruct K as [K|(w & K & _)]; [exact K|discriminate]. }
    unfold await_task. rewrite P3. left. exists (dkeys (subs s)), lt, None. split; [|exact A].
    unfold cur. sproj. replace (calls s3) with (calls s).
    2:{ subst s3. rewrite fr_calls_cancel. unfold mark_inflight. sproj. now rewrite C1. }
    fold (cur s). rewrite Hcur. now rewrite fupd_eq.
  - right. destruct A as (lt & p & r & A1 & A2 & A3). subst x. eapply HE; eauto.
  - exfalso. eapply no_up_start; eauto. now rewrite Hcur.
Qed.

Lemma Leak_run_handle rest s h E :
  Inv (h :: rest ++ ready s) s -> Xinv s -> diverged s = false -> Leak E s ->
  (g_inflight s = false -> forall t, h = HStep t -> t < ntasks s -> kindof s t = KUnsub -> pcof s t = PStart ->
   forall lt p r, rtask s = Some lt -> pcof s lt = PPass p StRenew r -> In (p_sid p) E) ->
  Leak E (run_handle s h).
Proof.
  intros H X Dv L HE. destruct (g_inflight s) eqn:G.
  - apply Leak_shut with (rest := rest); auto. intros N. pose proof (x_ng _ X N). congruence.
  - intros G'. unfold run_handle in *. rewrite Dv in *. destruct h as [t|t|p].
    + destruct (Nat.lt_ge_cases t (ntasks s)) as [Ht|Ht].
      2:{ unfold step_task in G'. rewrite (beyond_noop _ _ _ H Ht) in G'. congruence. }
      destruct (is_done (tasks s t)) eqn:Ed; [rewrite done_noop in G' by exact Ed; congruence|].
      assert (Hnd : ~ donep s t) by congruence.
      destruct (kindof s t) as [a| | |q x0] eqn:Hk.
      * rewrite ginf_step_task in G'; [congruence|intros Y; congruence|].
        intros a' Hk'. now destruct (live_sub _ _ H t a Ht Hk Hnd) as [Y _].
      * destruct (pcof s t) eqn:Hp; try (rewrite ginf_step_task in G'; [congruence|intros _ Y; congruence|intros a' Y; congruence]).
        eapply Leak_mark; eauto.
      * rewrite ginf_step_task in G'; [congruence|intros Y; congruence|intros a' Y; congruence].
      * rewrite ginf_step_task in G'; [congruence|intros Y; congruence|intros a' Y; congruence].
    + destruct (pcof s t) as [| | |w [| |]| | | |]; sproj in G'; congruence.
    + destruct (pcof s p) as [| | | | |[|n] re| |]; try congruence. destruct n; sproj in G'; congruence.
Qed.

(* ---- no unsubscribe call is waiting for its first step ------------------------------------------------------------------------------ *)
Definition NoStart (s : state) : Prop := forall u, In u (tl (calls s)) -> pcof s u <> PStart.

Lemma NoStart_run_handle pend s h : Inv pend s -> NoStart s -> NoStart (run_handle s h).
Proof. intros H N u Hu E. rewrite fr_calls_run_handle in Hu. apply (N u Hu). eapply unsub_no_restart; eauto. Qed.

Lemma fold_quiet E hs : forall s,
  Inv (hs ++ ready s) s -> Xinv s -> diverged s = false -> NoStart s -> Leak E s ->
  let s' := fold_left run_handle hs s in diverged s' = true \/ (Leak E s' /\ NoStart s').
Proof.
  induction hs as [|h hs IH]; intros s H X Dv N L; cbn [fold_left]; [right; now split|]. cbv zeta.
  destruct (Xinv_run_handle hs s h H X Dv) as [D|X']; [left; now rewrite fold_run_diverged|].
  destruct (Inv_run_handle hs s h H) as [D|I']; [left; now rewrite fold_run_diverged|].
  destruct (diverged (run_handle s h)) eqn:D'; [left; now rewrite fold_run_diverged|].
  apply IH; auto.
  - eapply NoStart_run_handle; eauto.
  - apply Leak_run_handle with (rest := hs); auto.
    intros _ t -> Ht Hk Hp. exfalso. pose proof (iv_census _ _ H t Ht) as C. unfold census in C. rewrite Hk in C. now apply (N t C).
Qed.

(* ---- between the moment an unsubscribe call is made and the first step of its task -------------------------------------------------- *)
(* out = the requests outstanding when the call was made, n0 = their number then; A = the handles that run before the call's
   first step: a request made before the call is still pending only if it was then, and if the renewal task waits for an
   answered one that was not outstanding then, its wake-up comes before the call's first step *)
Definition Pre (out : list rid) (n0 : nat) (A : list handle) (s : state) : Prop :=
  (forall r, r < n0 -> q_state (reqs s r) = QPending -> In r out) /\
  (normal s -> forall lt p st r, rtask s = Some lt -> pcof s lt = PPass p st r -> r < n0 ->
     q_state (reqs s r) <> QPending -> In r out \/ In (HStep lt) A).

Lemma Pre_run_handle out n0 c A rest s h :
  Inv (h :: (A ++ HStep c :: rest) ++ ready s) s -> Winv (h :: (A ++ HStep c :: rest) ++ ready s) s -> diverged s = false ->
  n0 <= nreqs s -> cur s = c -> In c (tl (calls s)) -> pcof s c = PStart -> h <> HStep c ->
  Pre out n0 (h :: A) s ->
  let s' := run_handle s h in diverged s' = true \/ (Pre out n0 A s' /\ pcof s' c = PStart).
Proof.
  intros H W Dv Hn Hcur Hcin Hpc Hh [P1 P2] s'.
  destruct (diverged s') eqn:Dv'; [now left|right].
  assert (Hclt : c < ntasks s) by (apply (call_lt _ _ H); now apply tl_in).
  assert (Hck : kindof s c = KUnsub) by (now apply (tl_call_kind _ _ H)).
  assert (Hcnd : ~ donep s c) by (unfold is_done; rewrite Hpc; discriminate).
  destruct (QN_run_handle s h) as [Q1 Q2]. fold s' in Q1, Q2.
  (* a live call task that takes a step is the current call *)
  assert (IsC : forall t, t < ntasks s -> ~ donep s t -> (is_sub_kind (kindof s t) || is_unsub_kind (kindof s t) = true) -> kindof s t = KUnsub -> h <> HStep t).
  { intros t Ht Hnd Hk' _ ->. destruct (live_call_is_cur _ _ _ H Ht Hk' Hnd) as [_ X]. apply Hh. congruence. }
  split; [split|].
  - intros r Hr Hq. destruct (Q2 r ltac:(lia)) as [E|[_ E]]; [|congruence]. apply P1; [exact Hr|congruence].
  - intros N' lt p st r Hrt' Hpc' Hr Hq.
    pose proof (normal_back _ s h H N') as N. specialize (P2 N). destruct W as [Wc _]. specialize (Wc N).
    destruct (q_state (reqs s r)) eqn:Eq0; [left; now apply P1| |].
    (* the request had been answered (or cancelled) before this handle *)
    all: assert (Unch : rtask s = Some lt -> pcof s lt = PPass p st r -> h <> HStep lt -> In r out \/ In (HStep lt) A)
           by (intros U1 U2 U3; destruct (P2 lt p st r U1 U2 Hr ltac:(rewrite Eq0; discriminate)) as [Y|[Y|Y]]; [now left|congruence|now right]).
    all: subst s'; unfold run_handle in *; rewrite Dv in *; destruct h as [t|t|q].
    all: try (destruct (pcof s t) as [| | |w [| |]| | | |] eqn:Ept;
              try (apply Unch; [exact Hrt'|exact Hpc'|discriminate]);
              sproj in Hrt'; sproj in Hpc'; destruct (Nat.eq_dec t lt) as [->|Hne]; [rewrite fupd_eq in Hpc'; discriminate|];
              rewrite fupd_neq in Hpc' by exact Hne; apply Unch; [exact Hrt'|exact Hpc'|discriminate]).
    all: try (destruct (pcof s q) as [| | | | |[|n] re| |] eqn:Epq;
              try (apply Unch; [exact Hrt'|exact Hpc'|discriminate]);
              assert (Y : rtask (set_pc s q (PUnsubGather n re)) = Some lt /\ pcof (set_pc s q (PUnsubGather n re)) lt = PPass p st r)
                by (destruct n; split; assumption);
              destruct Y as [Y1 Y2]; sproj in Y1; sproj in Y2; destruct (Nat.eq_dec q lt) as [->|Hne]; [rewrite fupd_eq in Y2; discriminate|];
              rewrite fupd_neq in Y2 by exact Hne; apply Unch; [exact Y1|exact Y2|discriminate]).
    all: destruct (Nat.lt_ge_cases t (ntasks s)) as [Ht|Ht];
      [|unfold step_task in *; rewrite (beyond_noop _ _ _ H Ht) in *; apply Unch; auto; intros X; injection X as ->;
        destruct (iv_rtask _ _ H lt Hrt'); lia].
    all: destruct (is_done (tasks s t)) eqn:Ed;
      [rewrite done_noop in * by exact Ed; apply Unch; auto; intros X; injection X as ->; unfold is_done in Ed; rewrite Hpc' in Ed; discriminate|].
    all: assert (Hnd : ~ donep s t) by congruence.
    all: destruct (rtask s) as [lt0|] eqn:Ert.
    all: try (destruct (Nat.eq_dec t lt0) as [->|Hne];
      [destruct (iv_rtask _ _ H lt0 Ert) as [_ Hkl]; specialize (Wc lt0 eq_refl Hnd);
       rewrite (loop_step_rtask _ _ _ H Ht Hkl) in Hrt'; assert (lt = lt0) by congruence; subst lt0;
       destruct (loop_step_settled _ _ _ H Ht Hkl Hnd Wc) as [E|[E|[_ E]]]; [|congruence|rewrite Hpc' in E; congruence];
       exfalso; rewrite E in Hpc'; unfold step_task in E; rewrite Hpc', Eq0 in E
      |destruct (normal_others _ _ H lt0 t N Ert Ht Hne) as [Y|[Y1 Y2]]; [contradiction|];
       exfalso; apply (IsC t Ht Hnd); [rewrite Y1; reflexivity|exact Y1|reflexivity]]).
    all: try (destruct (kindof s t) as [a| | |q x] eqn:Hk;
      [destruct (sub_step_rtask (A ++ HStep c :: rest) s t a H Ht Hk Hnd) as [E|(lt' & E & E1 & _)]; [congruence|];
       assert (lt = lt') by congruence; subst lt'; congruence
      |exfalso; apply (IsC t Ht Hnd); [rewrite Hk; reflexivity|exact Hk|reflexivity]
      |pose proof (loop_is_rtask _ _ _ H Ht Hk Hnd); congruence
      |rewrite (kid_step_rtask _ _ _ _ _ H Ht Hk) in Hrt'; congruence]).
    + rewrite (not_doomed_must _ _ Wc) in E. rewrite Hkl in E.
      destruct (after_loop_ok lt _ (pass_resume_ok s lt p st rho hdr (not_doomed_must _ _ Wc))) as [X|[_ X]]; rewrite E in X; [congruence|].
      rewrite Hpc', Eq0 in X. discriminate.
    + apply Wc. right. now rewrite Hpc'.
  - (* the call's own record is untouched *)
    subst s'. unfold run_handle. rewrite Dv. destruct h as [t|t|q].
    + destruct (PF_step_task t s) as (_ & _ & F). destruct (F c Hclt ltac:(congruence)) as [E|E]; [now rewrite E|].
      destruct (iv_rtask _ _ H c E) as [_ X]. congruence.
    + destruct (pcof s t) as [| | |w [| |]| | | |] eqn:Ept; try exact Hpc. sproj. rewrite fupd_neq; [exact Hpc|]. intros ->. congruence.
    + destruct (pcof s q) as [| | | | |[|n] re| |] eqn:Epq; try exact Hpc.
      assert (X : pcof (set_pc s q (PUnsubGather n re)) c = PStart) by (sproj; rewrite fupd_neq; [exact Hpc|]; intros ->; congruence).
      destruct n; exact X.
Qed.

(* what the specification reads off a renewal request of the renewal task *)
Lemma renewal_entry pend s lt p r :
  Inv pend s -> Xinv s -> rtask s = Some lt -> pcof s lt = PPass p StRenew r ->
  r < nreqs s /\ bg_renewal (req_obs (reqs s r)) = [p_sid p].
Proof.
  intros H X Hrt Hp. destruct (iv_rtask _ _ H lt Hrt) as [Hlt Hkl].
  assert (A : awaits (pcof s lt) r) by (rewrite Hp; reflexivity).
  pose proof (iv_reqb _ _ H lt Hlt r A) as Hr. pose proof (iv_reqo _ _ H lt Hlt r A) as Ho.
  destruct (iv_preq _ _ H lt p StRenew r Hrt Hp) as [_ Ek]. destruct (iv_bg _ _ H r Hr) as [Eb _].
  pose proof (x_sid _ X lt Hrt p r Hp) as Es.
  split; [exact Hr|]. unfold req_obs, bg_renewal. rewrite Ek, Es, Eb, Ho. unfold is_loop. now rewrite Hkl.
Qed.

Lemma req_obs_static s s' r : RS s s' -> r < nreqs s -> req_obs (reqs s' r) = req_obs (reqs s r).
Proof. intros [_ R] Hr. specialize (R r Hr). unfold req_static in R. unfold req_obs. congruence. Qed.

(* a call that has not started and finds a renewal task is the first unsubscribe call *)
Lemma start_normal pend s lt :
  Inv pend s -> In (cur s) (tl (calls s)) -> kindof s (cur s) = KUnsub -> pcof s (cur s) = PStart -> rtask s = Some lt -> normal s.
Proof.
  intros H Hcin Hck Hpc Hrt. destruct (normal_dec s) as [Y|Y]; [exact Y|exfalso].
  pose proof (iv_phase _ _ H) as Ph. unfold phase_ok in Ph. destruct (calls s) as [|c0 us] eqn:Ec; [destruct Hcin|].
  rewrite <- Ec in *. cbv zeta in Ph. rewrite Hck, Hpc in Ph.
  assert (L2 : 2 < length (calls s)).
  { rewrite Ec. destruct us as [|u1 [|u2 us']]; cbn; try lia.
    - rewrite Ec in Hcin. destruct Hcin.
    - exfalso. apply Y. intros u Hu. rewrite Ec in Hu. cbn in Hu. destruct Hu as [<-|[]].
      unfold cur in Hpc. rewrite Ec in Hpc. exact Hpc. }
  destruct (Ph L2) as (_ & Z & _). congruence.
Qed.

(* the loop iteration in which the call made with [out] outstanding takes its first step *)
Lemma fold_armed E out n0 c s_end : forall A rest s,
  Inv ((A ++ HStep c :: rest) ++ ready s) s -> Winv ((A ++ HStep c :: rest) ++ ready s) s -> Xinv s -> diverged s = false ->
  n0 <= nreqs s -> cur s = c -> In c (tl (calls s)) -> pcof s c = PStart -> ~ In (HStep c) A ->
  Pre out n0 A s -> Leak E s ->
  fold_left run_handle (A ++ HStep c :: rest) s = s_end ->
  (forall r, In r out -> r < n0 -> forall x, In x (bg_renewal (req_obs (reqs s r))) -> In x E) ->
  (forall r, n0 <= r -> r < nreqs s_end -> forall x, In x (bg_renewal (req_obs (reqs s_end r))) -> In x E) ->
  diverged s_end = true \/ (Leak E s_end /\ NoStart s_end).
Proof.
  induction A as [|h A IH]; intros rest s H W X Dv Hn Hcur Hcin Hpc Hni P L Hend C1 C2.
  - (* the call's first step *)
    cbn [app fold_left] in *.
    assert (Hclt : c < ntasks s) by (apply (call_lt _ _ H); now apply tl_in).
    assert (Hck : kindof s c = KUnsub) by (now apply (tl_call_kind _ _ H)).
    destruct (Xinv_run_handle rest s (HStep c) H X Dv) as [D|X']; [left; subst s_end; now rewrite fold_run_diverged|].
    destruct (Inv_run_handle rest s (HStep c) H) as [D|I']; [left; subst s_end; now rewrite fold_run_diverged|].
    destruct (diverged (run_handle s (HStep c))) eqn:D'; [left; subst s_end; now rewrite fold_run_diverged|].
    assert (R : RS s s_end) by (subst s_end; eapply RS_trans; [apply RS_run_handle|apply RS_fold]).
    subst s_end. apply fold_quiet; auto.
    + (* no call is waiting for its first step any more *)
      intros u Hu E0. rewrite fr_calls_run_handle in Hu.
      pose proof (unsub_no_restart _ s (HStep c) u H Hu E0) as E1.
      destruct (Nat.eq_dec u c) as [->|Hne].
      * assert (Hnl : kindof s c <> KLoop) by (rewrite Hck; discriminate).
        pose proof (not_doomed_must _ _ (not_loop_not_doomed _ _ _ H Hclt Hnl)) as Hm.
        unfold run_handle in E0. rewrite Dv in E0. unfold step_task in E0. rewrite Hpc, Hm in E0. unfold start_body in E0. rewrite Hck in E0.
        now apply pc_unsub_services in E0.
      * pose proof (iv_calls _ _ H) as K. unfold calls_ok in K. destruct (calls s) as [|c0 us] eqn:Ec; [destruct Hu|].
        destruct K as (_ & _ & _ & Kd & _). assert (Y : donep s u) by (apply Kd; [right; exact Hu|congruence]).
        unfold is_done in Y. rewrite E1 in Y. discriminate.
    + apply Leak_run_handle with (rest := rest); auto.
      intros G t Et _ _ _ lt p r Hrt Hp. injection Et as <-.
      destruct (renewal_entry _ s lt p r H X Hrt Hp) as [Hr Eb].
      destruct (Nat.lt_ge_cases r n0) as [Hlt|Hge].
      * assert (Hin : In r out).
        { destruct P as [P1 P2]. destruct (q_state (reqs s r)) eqn:Eq; [now apply P1| |].
          all: assert (Nm : normal s) by (subst c; eapply start_normal; eauto).
          all: destruct (P2 Nm lt p StRenew r Hrt Hp Hlt ltac:(rewrite Eq; discriminate)) as [Y|[]]; exact Y. }
        apply (C1 r Hin Hlt). rewrite Eb. now left.
      * apply (C2 r Hge); [destruct R; lia|]. rewrite (req_obs_static s _ r R Hr), Eb. now left.
  - (* a handle that runs before the call's first step *)
    cbn [app fold_left] in *.
    assert (Hh : h <> HStep c) by (intros ->; apply Hni; now left).
    destruct (Xinv_run_handle (A ++ HStep c :: rest) s h H X Dv) as [D|X']; [left; subst s_end; now rewrite fold_run_diverged|].
    destruct (Inv_run_handle (A ++ HStep c :: rest) s h H) as [D|I']; [left; subst s_end; now rewrite fold_run_diverged|].
    destruct (Winv_run_handle (A ++ HStep c :: rest) s h H W Dv) as [D|W']; [left; subst s_end; now rewrite fold_run_diverged|].
    destruct (Pre_run_handle out n0 c A rest s h H W Dv Hn Hcur Hcin Hpc Hh P) as [D|[P' Hpc']]; [left; subst s_end; now rewrite fold_run_diverged|].
    destruct (diverged (run_handle s h)) eqn:D'; [left; subst s_end; now rewrite fold_run_diverged|].
    pose proof (RS_run_handle s h) as R1.
    apply (IH rest (run_handle s h)); auto.
    + destruct R1. lia.
    + unfold cur. rewrite fr_calls_run_handle. exact Hcur.
    + now rewrite fr_calls_run_handle.
    + intros X0. apply Hni. now right.
    + apply Leak_run_handle with (rest := A ++ HStep c :: rest); auto.
      intros _ t -> Ht Hk Hp. exfalso. apply Hh. f_equal.
      assert (Hnd : ~ donep s t) by (unfold is_done; rewrite Hp; discriminate).
      assert (Hk' : is_sub_kind (kindof s t) || is_unsub_kind (kindof s t) = true) by (rewrite Hk; reflexivity).
      destruct (live_call_is_cur _ _ _ H Ht Hk' Hnd) as [_ Y]. congruence.
    + intros r Hin Hr x Hx. apply (C1 r Hin Hr). now rewrite <- (req_obs_static s _ r R1) by lia.
Qed.

(* ---- the accumulator of Spec.res_steps and the model state -------------------------------------------------------------------------- *)
Record Cacc (acc : cacc) (s : state) : Prop := mkCa {
  ca_log : c_log acc = logof s;
  ca_leak : Leak (c_exempt acc) s;
  ca_arm : match c_armed acc with
           | None => NoStart s
           | Some out => exists A l3, In (cur s) (tl (calls s)) /\ pcof s (cur s) = PStart /\
                           ready s = A ++ HStep (cur s) :: l3 /\ ~ In (HStep (cur s)) A /\ Pre out (nreqs s) A s
           end
}.

Lemma res_acc_log acc a prev o : c_log (res_acc acc a prev o) = c_log acc ++ o_newreqs o.
Proof. unfold res_acc. destruct a; try reflexivity; [destruct (_ <? _)%nat; reflexivity|destruct (c_armed acc); reflexivity]. Qed.

Lemma res_acc_exempt acc a prev o : a <> AIter -> c_exempt (res_acc acc a prev o) = c_exempt acc.
Proof. intros Ha. unfold res_acc. destruct a; try reflexivity; [destruct (_ <? _)%nat; reflexivity|congruence]. Qed.

Lemma In_outstanding s r : In r (outstanding s) <-> r < nreqs s /\ q_state (reqs s r) = QPending.
Proof.
  unfold outstanding. rewrite filter_In, in_seq. split.
  - intros [A B]. split; [lia|]. destruct (q_state (reqs s r)); try discriminate. reflexivity.
  - intros [A B]. split; [lia|now rewrite B].
Qed.

Lemma up_ext s s' x : calls s' = calls s -> tasks s' = tasks s -> ntasks s' = ntasks s -> unsub_pending s x -> unsub_pending s' x.
Proof.
  intros Ec Et En A. apply (up_keep s); auto; [lia| |]; intros; now rewrite Et.
Qed.

Lemma deliver_states s r rho r' :
  q_state (reqs (deliver s r rho) r') = q_state (reqs s r') \/ q_state (reqs s r') = QPending.
Proof.
  unfold deliver. destruct (r <? nreqs s)%nat; [|now left]. destruct (q_state (reqs s r)) eqn:Eq; try now left.
  pose proof (fr_reqs_publisher s (reqs s r) rho) as F. destruct (publisher s (reqs s r) rho) as [s1 hdr]. cbn [fst] in F.
  sproj. rewrite F. unfold fupd. destruct (Nat.eqb_spec r r') as [<-|]; [now right|now left].
Qed.

Lemma observe_newreqs s s' : diverged s' = false ->
  o_newreqs (observe s s') = map (fun r => req_obs (reqs s' r)) (seq (nreqs s) (nreqs s' - nreqs s)).
Proof. intros D. unfold observe. now rewrite D. Qed.
Lemma observe_calls s s' : diverged s' = false -> o_calls (observe s s') = map (fun t => status_of (tasks s' t)) (calls s').
Proof. intros D. unfold observe. now rewrite D. Qed.
Lemma observe_out s s' : diverged s' = false -> o_out (observe s s') = outstanding s'.
Proof. intros D. unfold observe. now rewrite D. Qed.

Lemma Cacc_step acc s a prev :
  Inv (ready s) s -> Winv (ready s) s -> Xinv s -> allowed s a -> diverged s = false -> diverged (step s a) = false ->
  length (o_calls prev) = length (calls s) ->
  Cacc acc s -> Cacc (res_acc acc a prev (observe s (step s a))) (step s a).
Proof.
  intros H W X Ha Dv Dv' Hprev [Cl Ck Ca].
  assert (Log : c_log (res_acc acc a prev (observe s (step s a))) = logof (step s a)).
  { rewrite res_acc_log, Cl, (observe_newreqs _ _ Dv'). apply logof_step. apply RS_step. }
  assert (Len : length (o_calls (observe s (step s a))) = length (calls (step s a))) by (rewrite (observe_calls _ _ Dv'); apply map_length).
  unfold step in *. rewrite Dv in *. destruct a as [b| |r rho|dt|].
  - (* the subscribe call: nothing has happened yet *)
    cbn [allowed] in Ha. constructor; [exact Log| |].
    + intros G. rewrite fr_g_inflight_call in G. pose proof (iv_calls _ _ H) as K. unfold calls_ok in K. rewrite Ha in K.
      destruct K as (_ & _ & _ & _ & _ & K). congruence.
    + cbn [res_acc c_armed]. destruct (c_armed acc) as [out|].
      * destruct Ca as (A & l3 & Y & _). rewrite Ha in Y. destruct Y.
      * intros u Hu. unfold call in Hu. destruct (user_busy s); [rewrite Ha in Hu; destruct Hu|]. sproj in Hu. rewrite Ha in Hu. destruct Hu.
  - (* an unsubscribe call *)
    cbn [allowed] in Ha. unfold call in *. destruct (user_busy s) eqn:Eb.
    + (* ignored *)
      constructor; [exact Log| |]; cbn [res_acc]; rewrite Len, Hprev, Nat.ltb_irrefl; cbn [c_exempt c_armed]; assumption.
    + pose proof (user_busy_false s Eb) as Alld.
      set (c := ntasks s) in *. set (s' := with_calls (spawn s KUnsub) (calls s ++ [c])) in *.
      assert (Old : forall t, t < ntasks s -> tasks s' t = tasks s t) by (intros t Ht; subst s' c; unfold spawn; sproj; apply fupd_neq; lia).
      assert (Hcur' : cur s' = c) by (apply (cur_app s' c (calls s)); reflexivity).
      constructor; [exact Log| |].
      * (* the previous call had returned: nothing was pending *)
        rewrite res_acc_exempt by discriminate.
        intros G x Hx. change (g_inflight s') with (g_inflight s) in G. change (routed s') with (routed s) in Hx.
        destruct (Ck G x Hx) as [Y|Y]; [exfalso|now right].
        assert (N : ~ normal s) by (intros N; pose proof (x_ng _ X N); congruence).
        destruct (shut_cur _ _ H N) as (Hc & Hcin & Hck & Hclt).
        pose proof (Alld _ (tl_in s _ Hcin)) as Hd.
        pose proof (iv_phase _ _ H) as Ph. unfold phase_ok in Ph. destruct (calls s) eqn:Ecs; [congruence|]. rewrite <- Ecs in *. cbv zeta in Ph.
        rewrite Hck in Ph. unfold is_done in Hd. destruct (pcof s (cur s)) eqn:Epc; try discriminate.
        destruct Ph as (_ & _ & Ad & _).
        destruct Y as [(sids & lt & re & Y1 & _)|(t9 & Y1 & _ & Y3)]; [congruence|].
        specialize (Ad t9 Y1). unfold is_done in Ad. rewrite Y3 in Ad. discriminate.
      * cbn [res_acc]. rewrite Len, Hprev.
        assert (Ln : length (calls s') = length (calls s) + 1) by (change (calls s') with (calls s ++ [c]); rewrite app_length; reflexivity).
        rewrite Ln. replace (length (calls s) <? length (calls s) + 1)%nat with true by (symmetry; apply Nat.ltb_lt; lia).
        cbn [c_armed]. rewrite (observe_out _ _ Dv').
        exists (ready s), []. rewrite Hcur'. split; [|split; [|split; [|split]]].
        -- change (calls s') with (calls s ++ [c]). destruct (calls s) as [|c0 us]; [congruence|]. cbn [app tl]. apply in_or_app. right. now left.
        -- subst s' c. unfold spawn. sproj. now rewrite fupd_eq.
        -- reflexivity.
        -- intros Y. destruct (x_hbs _ X) as [B _]. specialize (B _ Y). subst c. lia.
        -- split.
           ++ intros r0 Hr Hq. apply In_outstanding. split; assumption.
           ++ intros N' lt p st r0 Hrt Hpc Hr Hq. right. change (rtask s') with (rtask s) in Hrt.
              destruct (iv_rtask _ _ H lt Hrt) as [Hlt _]. rewrite (Old lt Hlt) in Hpc. change (reqs s') with (reqs s) in Hq.
              assert (N : normal s).
              { intros u Hu. rewrite <- Old by (apply (call_lt _ _ H); now apply tl_in). apply N'. change (calls s') with (calls s ++ [c]).
                destruct (calls s); [destruct Hu|]. cbn in *. apply in_or_app. now left. }
              apply (w_wake _ _ W N lt Hrt). unfold needs_wake. now rewrite Hpc.
  - (* a response *)
    assert (Ec : calls (deliver s r rho) = calls s) by now autorewrite with fr_calls.
    assert (Et : tasks (deliver s r rho) = tasks s) by now autorewrite with fr_tasks.
    assert (En : ntasks (deliver s r rho) = ntasks s) by now autorewrite with fr_ntasks.
    constructor; [exact Log| |]; cbn [res_acc c_exempt c_armed].
    + intros G x Hx. rewrite fr_g_inflight_deliver in G. rewrite fr_routed_deliver in Hx.
      destruct (Ck G x Hx) as [Y|Y]; [left; now apply (up_ext s)|now right].
    + destruct (c_armed acc) as [out|].
      * destruct Ca as (A & l3 & C1 & C2 & C3 & C4 & [P1 P2]).
        destruct (ready_deliver s r rho I) as (t & [Er|Er]).
        -- exists A, l3. unfold cur. rewrite Ec, Et. fold (cur s). rewrite Er, fr_nreqs_deliver.
           repeat split; auto.
           ++ intros r0 Hr Hq. destruct (deliver_states s r rho r0) as [E|E]; [apply P1; congruence|now apply P1].
           ++ intros N' lt p st r0 Hrt Hpc Hr Hq. rewrite fr_rtask_deliver in Hrt.
              destruct (deliver_states s r rho r0) as [E|E]; [|left; now apply P1].
              apply (P2 ltac:(intros u Hu; rewrite <- Et; apply N'; now rewrite Ec) lt p st r0); auto; [now rewrite <- Et|congruence].
        -- exists A, (l3 ++ [HStep t]). unfold cur. rewrite Ec, Et. fold (cur s). rewrite Er, C3, fr_nreqs_deliver, <- app_assoc.
           repeat split; auto.
           ++ intros r0 Hr Hq. destruct (deliver_states s r rho r0) as [E|E]; [apply P1; congruence|now apply P1].
           ++ intros N' lt p st r0 Hrt Hpc Hr Hq. rewrite fr_rtask_deliver in Hrt.
              destruct (deliver_states s r rho r0) as [E|E]; [|left; now apply P1].
              apply (P2 ltac:(intros u Hu; rewrite <- Et; apply N'; now rewrite Ec) lt p st r0); auto; [now rewrite <- Et|congruence].
      * intros u Hu. rewrite Ec in Hu. rewrite Et. now apply Ca.
  - (* time passes *)
    assert (Ec : calls (advance s dt) = calls s) by now autorewrite with fr_calls.
    assert (Et : tasks (advance s dt) = tasks s) by now autorewrite with fr_tasks.
    assert (En : ntasks (advance s dt) = ntasks s) by now autorewrite with fr_ntasks.
    constructor; [exact Log| |]; cbn [res_acc c_exempt c_armed].
    + intros G x Hx. rewrite fr_g_inflight_advance in G. rewrite fr_routed_advance in Hx.
      destruct (Ck G x Hx) as [Y|Y]; [left; now apply (up_ext s)|now right].
    + destruct (c_armed acc) as [out|].
      * destruct Ca as (A & l3 & C1 & C2 & C3 & C4 & [P1 P2]).
        exists A, l3. unfold cur. rewrite Ec, Et. fold (cur s). rewrite fr_ready_advance, fr_nreqs_advance.
        repeat split; auto.
        -- intros r0 Hr Hq. rewrite fr_reqs_advance in Hq. now apply P1.
        -- intros N' lt p st r0 Hrt Hpc Hr Hq. rewrite fr_rtask_advance in Hrt. rewrite fr_reqs_advance in Hq.
           apply (P2 ltac:(intros u Hu; rewrite <- Et; apply N'; now rewrite Ec) lt p st r0); auto. now rewrite <- Et.
      * intros u Hu. rewrite Ec in Hu. rewrite Et. now apply Ca.
  - (* a loop iteration *)
    unfold iterate in *. set (s0 := with_ready s []) in *. set (hs := ready s ++ map HTimer (due s)) in *.
    pose proof (Inv_iterate_start s H) as H0. fold s0 hs in H0.
    assert (W0 : Winv (hs ++ ready s0) s0).
    { eapply Winv_ext; [| | | | |exact W]; try reflexivity. intros h Hh. subst hs s0. sproj. rewrite app_nil_r. apply in_or_app. now left. }
    assert (X0 : Xinv s0).
    { destruct X as [[B1 B2] B3 B4]. constructor; [split; [intros t []|exact B2]|exact B3|exact B4]. }
    constructor; [exact Log| |]; cbn [res_acc c_exempt c_armed]; destruct (c_armed acc) as [out|] eqn:Earm; cbn [c_exempt c_armed].
    + destruct Ca as (A & l3 & C1 & C2 & C3 & C4 & P).
      set (E' := c_exempt acc ++ renewals_of (c_log acc) out ++ flat_map bg_renewal (o_newreqs (observe s (fold_left run_handle hs s0)))).
      assert (Hhs : hs = A ++ HStep (cur s) :: (l3 ++ map HTimer (due s))) by (subst hs; rewrite C3, <- app_assoc; reflexivity).
      assert (H0' : Inv ((A ++ HStep (cur s) :: l3 ++ map HTimer (due s)) ++ ready s0) s0) by (rewrite <- Hhs; exact H0).
      assert (W0' : Winv ((A ++ HStep (cur s) :: l3 ++ map HTimer (due s)) ++ ready s0) s0) by (rewrite <- Hhs; exact W0).
      destruct (fold_armed E' out (nreqs s) (cur s) (fold_left run_handle hs s0) A (l3 ++ map HTimer (due s)) s0) as [D|[L' _]];
        auto; try congruence.
      * eapply Leak_mono; [|exact Ck]. subst E'. intros y Hy. apply in_or_app. now left.
      * intros r0 Hin Hr x Hx. subst E'. apply in_or_app. right. apply in_or_app. left. unfold renewals_of.
        apply in_flat_map. exists r0. split; [exact Hin|]. rewrite Cl, (logof_nth s r0 Hr). exact Hx.
      * intros r0 Hge Hr x Hx. subst E'. apply in_or_app. right. apply in_or_app. right. rewrite (observe_newreqs _ _ Dv').
        apply in_flat_map. exists (req_obs (reqs (fold_left run_handle hs s0) r0)). split; [|exact Hx].
        apply in_map_iff. exists r0. split; [reflexivity|]. apply in_seq. change (nreqs s0) with (nreqs s) in *. lia.
    + destruct (fold_quiet (c_exempt acc) hs s0 H0 X0 Dv Ca Ck) as [D|[L' _]]; [congruence|exact L'].
    + destruct Ca as (A & l3 & C1 & C2 & C3 & C4 & P).
      set (E' := c_exempt acc ++ renewals_of (c_log acc) out ++ flat_map bg_renewal (o_newreqs (observe s (fold_left run_handle hs s0)))).
      assert (Hhs : hs = A ++ HStep (cur s) :: (l3 ++ map HTimer (due s))) by (subst hs; rewrite C3, <- app_assoc; reflexivity).
      assert (H0' : Inv ((A ++ HStep (cur s) :: l3 ++ map HTimer (due s)) ++ ready s0) s0) by (rewrite <- Hhs; exact H0).
      assert (W0' : Winv ((A ++ HStep (cur s) :: l3 ++ map HTimer (due s)) ++ ready s0) s0) by (rewrite <- Hhs; exact W0).
      destruct (fold_armed E' out (nreqs s) (cur s) (fold_left run_handle hs s0) A (l3 ++ map HTimer (due s)) s0) as [D|[_ N']];
        auto; try congruence.
      * eapply Leak_mono; [|exact Ck]. subst E'. intros y Hy. apply in_or_app. now left.
      * intros r0 Hin Hr x Hx. subst E'. apply in_or_app. right. apply in_or_app. left. unfold renewals_of.
        apply in_flat_map. exists r0. split; [exact Hin|]. rewrite Cl, (logof_nth s r0 Hr). exact Hx.
      * intros r0 Hge Hr x Hx. subst E'. apply in_or_app. right. apply in_or_app. right. rewrite (observe_newreqs _ _ Dv').
        apply in_flat_map. exists (req_obs (reqs (fold_left run_handle hs s0) r0)). split; [|exact Hx].
        apply in_map_iff. exists r0. split; [reflexivity|]. apply in_seq. change (nreqs s0) with (nreqs s) in *. lia.
    + destruct (fold_quiet (c_exempt acc) hs s0 H0 X0 Dv Ca Ck) as [D|[_ N']]; [congruence|exact N'].
Qed.

(* ---- the clause, along a run ----------------------------------------------------------------------------------------------------------- *)
Lemma res_step_ok E prev s a :
  Good s -> Good (step s a) -> (forall b, a <> ASubscribe b) \/ calls s = [] ->
  (diverged (step s a) = false -> Leak E (step s a)) ->
  (diverged s = false -> later_calls prev = lc s) ->
  res_step E prev (observe s (step s a)) = true.
Proof.
  intros G G' Ha HL Hprev. unfold res_step. rewrite observe_div.
  destruct (diverged (step s a)) eqn:D'; [reflexivity|]. specialize (HL eq_refl).
  destruct G' as [X|I']; [congruence|].
  assert (D : diverged s = false).
  { destruct (diverged s) eqn:E0; [|reflexivity]. rewrite step_diverged in D' by exact E0. congruence. }
  destruct G as [X|I]; [congruence|].
  rewrite later_calls_observe by exact D'. rewrite (returned_ok_all _ _ I'). cbn [andb].
  destruct (existsb is_some (lc (step s a))) eqn:Ex; [|reflexivity].
  destruct (unsub_returned _ _ I' Ex) as (F1 & F2 & F3 & Q & NP).
  assert (Rt : forallb (exempted E) (sort_by (routed (step s a))) = true).
  { apply forallb_forall. intros [x v] Hin. apply (proj1 (In_sort_by' _ _)) in Hin. unfold exempted. cbn [fst].
    assert (Hx : In x (dkeys (routed (step s a)))) by (unfold dkeys; apply in_map_iff; exists (x, v); split; [reflexivity|exact Hin]).
    destruct (g_inflight (step s a)) eqn:Gi; [|rewrite (F3 eq_refl) in Hin; destruct Hin].
    destruct (HL Gi x Hx) as [Y|Y]; [exfalso|apply existsb_exists; exists x; split; [exact Y|apply Nat.eqb_refl]].
    destruct Q as (_ & _ & Q).
    destruct Y as [(sids & lt & re & Y1 & _)|(t & _ & Y2 & Y3)].
    - destruct (Q (cur (step s a))) as [Z|(_ & Z & _)]; [unfold is_done in Z; rewrite Y1 in Z; discriminate|congruence].
    - destruct (Q t) as [Z|(Z & _)]; [unfold is_done in Z; rewrite Y3 in Z; discriminate|congruence]. }
  unfold observe. rewrite D'. cbn [o_routed o_subs o_out o_rtask o_newreqs].
  rewrite Rt, (sort_by_nil _ F1), (outstanding_nil _ NP). unfold rtask_obs. rewrite F2. cbn.
  rewrite (Hprev D). destruct (existsb is_some (lc s)) eqn:Ex0; [|reflexivity].
  destruct (unsub_returned _ _ I Ex0) as (_ & _ & _ & Q0 & _).
  assert (Hns : forall b, a <> ASubscribe b).
  { destruct Ha as [Ha|Ha]; [exact Ha|]. exfalso. unfold lc in Ex0. rewrite Ha in Ex0. discriminate. }
  destruct (quiet_step s a Hns Q0) as [_ Nq].
  match goal with |- context [seq _ ?d] => replace d with 0%nat by lia end. reflexivity.
Qed.

Lemma res_diverged sched : forall s acc prev,
  diverged s = true -> Forall (fun b => b = true) (res_steps acc prev sched (trace_from s sched)).
Proof.
  induction sched as [|a r IH]; intros s acc prev D; cbn [trace_from res_steps]; [constructor|].
  rewrite step_diverged by exact D. constructor; [|now apply IH]. unfold res_step. now rewrite observe_div, D.
Qed.

Lemma calls_of_later prev s :
  o_calls prev = map (fun t => status_of (tasks s t)) (calls s) -> later_calls prev = lc s /\ length (o_calls prev) = length (calls s).
Proof. intros E. unfold later_calls, lc. rewrite E, map_length. split; [now destruct (calls s)|reflexivity]. Qed.

Lemma res_from sched : forall s acc prev,
  Good s -> (diverged s = true \/ Winv (ready s) s) -> (diverged s = true \/ Xinv s) -> dom_sched (started s) sched = true ->
  (diverged s = false -> Cacc acc s /\ o_calls prev = map (fun t => status_of (tasks s t)) (calls s)) ->
  Forall (fun b => b = true) (res_steps acc prev sched (trace_from s sched)).
Proof.
  induction sched as [|a r IH]; intros s acc prev G W X D R; [constructor|].
  destruct (diverged s) eqn:Dv; [now apply res_diverged|].
  destruct G as [Y|I]; [congruence|]. destruct W as [Y|W]; [congruence|]. destruct X as [Y|X]; [congruence|].
  destruct (R eq_refl) as [C Hp]. destruct (calls_of_later _ _ Hp) as [Hl Hn].
  cbn [trace_from res_steps].
  pose proof (allowed_of_dom _ _ _ D) as Ha.
  pose proof (Inv_step s a I Ha) as G'. pose proof (Winv_step s a I W Ha) as W'. pose proof (Xinv_step s a I X Ha) as X'.
  assert (C' : diverged (step s a) = false -> Cacc (res_acc acc a prev (observe s (step s a))) (step s a))
    by (intros Dv'; now apply Cacc_step).
  constructor.
  - apply res_step_ok; [now right|exact G'|eapply dom_no_sub; eauto| |intros _; exact Hl].
    intros Dv'. exact (ca_leak _ _ (C' Dv')).
  - apply IH; auto.
    + now apply dom_sched_step.
    + intros Dv'. split; [now apply C'|]. now apply observe_calls.
Qed.

Theorem clean_shutdown_residual i : in_domain i = true -> clause_clean_res i (model_run i) = None.
Proof.
  intros D. unfold clause_clean_res, model_run. apply first_false_none. apply res_from.
  - right. apply Inv_init.
  - right. apply Winv_init.
  - right. apply Xinv_init.
  - now apply in_domain_dom_sched.
  - intros _. split; [|reflexivity]. constructor; [reflexivity| |].
    + intros G. discriminate.
    + intros u Hu. destruct Hu.
Qed.

(* ---- clause 5 outside the observation-based guard, as a consequence on the specification side ------------------------------------------ *)
(* no field of a model run is read here: if nothing was ever exempted, the residual clause IS clause 5 *)
Lemma first_false_none_inv l : forall n, first_false n l = None -> Forall (fun b => b = true) l.
Proof. induction l as [|b l IH]; intros n H; [constructor|]. cbn in H. destruct b; [constructor; eauto|discriminate]. Qed.

Lemma res_acc_exempt_grows acc a prev o : exists l, c_exempt (res_acc acc a prev o) = c_exempt acc ++ l.
Proof.
  unfold res_acc. destruct a; try (exists []; cbn; now rewrite app_nil_r).
  - destruct (_ <? _)%nat; exists []; cbn; now rewrite app_nil_r.
  - destruct (c_armed acc); [eexists; reflexivity|exists []; cbn; now rewrite app_nil_r].
Qed.
Lemma res_final_grows sched : forall o acc prev, exists l, c_exempt (res_final acc prev sched o) = c_exempt acc ++ l.
Proof.
  induction sched as [|a sr IH]; intros o acc prev; cbn [res_final]; [exists []; now rewrite app_nil_r|].
  destruct o as [|x r]; [exists []; now rewrite app_nil_r|].
  destruct (IH r (res_acc acc a prev x) x) as [l1 E1]. destruct (res_acc_exempt_grows acc a prev x) as [l2 E2].
  exists (l2 ++ l1). now rewrite E1, E2, app_assoc.
Qed.

Lemma res_step_nil prev x : res_step [] prev x = true -> clean_step prev x = true.
Proof.
  unfold res_step, clean_step. destruct (o_div x); [auto|]. destruct (forallb returned_ok (later_calls x)); [|auto]. cbn [andb].
  destruct (existsb is_some (later_calls x)); [|auto]. destruct (o_routed x) as [|p l]; [auto|]. cbn. discriminate.
Qed.

Lemma res_to_clean sched : forall o acc prev,
  length sched = length o -> Forall (fun b => b = true) (res_steps acc prev sched o) ->
  c_exempt (res_final acc prev sched o) = [] -> Forall (fun b => b = true) (steps_with_prev clean_step prev o).
Proof.
  induction sched as [|a sr IH]; intros o acc prev Hl F E; destruct o as [|x r]; try discriminate; [constructor|].
  cbn [res_steps res_final steps_with_prev] in *. inversion F as [|? ? F1 F2]; subst.
  destruct (res_final_grows sr r (res_acc acc a prev x) x) as [l El]. rewrite El in E. apply app_eq_nil in E. destruct E as [E E2].
  rewrite E in F1. constructor; [now apply res_step_nil|]. eapply IH; eauto. rewrite El, E, E2. reflexivity.
Qed.

Lemma trace_length sched : forall s, length (trace_from s sched) = length sched.
Proof. induction sched as [|a r IH]; intros s; cbn; [reflexivity|]. now rewrite IH. Qed.

Theorem clean_shutdown_partial_obs i :
  in_domain i = true -> kf_inflight_obs i (model_run i) = false -> clause_clean i (model_run i) = None.
Proof.
  intros D G. pose proof (clean_shutdown_residual i D) as R. unfold clause_clean_res in R. apply first_false_none_inv in R.
  unfold clause_clean. apply first_false_none. eapply res_to_clean; [|exact R|].
  - unfold model_run. now rewrite trace_length.
  - unfold kf_inflight_obs in G. apply negb_false_iff in G. destruct (c_exempt _); [reflexivity|discriminate].
Qed.
