(* C12 - the structural invariant of reachable states for schedules of the domain (one subscribe call first, then
   unsubscribe calls, each made after the previous call returned).  Definitions and basic facts. *)
From Coq Require Import List Bool Arith ZArith Lia.
From AUC Require Import Prelude.PyDict C12.Model C12.Spec C12.Frame.
Import ListNotations.

Notation pcof s t := (t_pc (tasks s t)).
Notation kindof s t := (t_kind (tasks s t)).
Notation donep s t := (is_done (tasks s t) = true).

Ltac nlia := unfold sid, svc, tid, rid in *; lia.

Definition cur (s : state) : tid := last (calls s) 0.

(* the task will take CancelledError at its next step (or never steps again) *)
Definition doomed (s : state) (t : tid) : Prop :=
  t_must (tasks s t) = true \/
  match pcof s t with
  | PSleep _ WCancelled => True
  | PPass _ _ r | PSubReq _ _ _ r | POneReq r => q_state (reqs s r) = QCancelled
  | _ => False
  end.

Definition awaits (p : pc) (r : rid) : Prop :=
  match p with
  | PSubReq _ _ _ r' | PPass _ _ r' | POneReq r' => r' = r
  | _ => False
  end.

(* which program counters and results a task of each kind can have *)
Definition pc_ok (k : task) : Prop :=
  match t_kind k, t_pc k with
  | _, PStart => True
  | KSub _, PSubReq _ _ _ _ => True
  | KSub _, PUnsubGather _ (Some e) => is_upnp e = true
  | KSub _, PDone (SRet _) => True
  | KSub _, PDone (SExc e) => is_upnp e = true
  | KUnsub, PUnsubTask _ _ None => True
  | KUnsub, PUnsubGather _ None => True
  | KUnsub, PDone (SRet None) => True
  | KLoop, PSleep _ _ => True
  | KLoop, PPass p _ _ => p_notify p = true
  | KLoop, PDone (SRet None) => True
  | KLoop, PDone SCancelled => True
  | KOne _ _, POneReq _ => True
  | KOne _ _, PDone (SRet None) => True
  | _, _ => False
  end.

Definition census (s : state) (t : tid) : Prop :=
  match kindof s t with
  | KSub _ => hd_error (calls s) = Some t
  | KUnsub => In t (tl (calls s))
  | KLoop => rtask s = Some t \/ donep s t
  | KOne p _ => (donep s t \/ (p = cur s /\ ~ donep s p)) /\ In p (calls s)
  end.

Definition is_sub_kind (k : tkind) : bool := match k with KSub _ => true | _ => false end.
Definition is_unsub_kind (k : tkind) : bool := match k with KUnsub => true | _ => false end.

Definition calls_ok (s : state) : Prop :=
  match calls s with
  | [] => ntasks s = 0 /\ nreqs s = 0 /\ subs s = [] /\ routed s = [] /\ rtask s = None /\ g_inflight s = false
  | c0 :: us =>
      is_sub_kind (kindof s c0) = true /\
      (forall u, In u us -> is_unsub_kind (kindof s u) = true) /\
      (forall t, In t (calls s) -> t < ntasks s) /\
      (forall t, In t (calls s) -> t <> cur s -> donep s t) /\
      NoDup (calls s)
  end.

Definition inflight (s : state) (x : sid) : Prop :=
  exists lt p r, rtask s = Some lt /\ pcof s lt = PPass p StRenew r /\ p_sid p = x.
Definition unsub_pending (s : state) (x : sid) : Prop :=
  (exists sids lt re, pcof s (cur s) = PUnsubTask sids lt re /\ In x sids) \/
  (exists t, t < ntasks s /\ kindof s t = KOne (cur s) x /\ pcof s t = PStart).

(* the frame of a renewal pass of the background task *)
Definition pass_ok (s : state) (lt : tid) : Prop :=
  forall p st r, pcof s lt = PPass p st r ->
    ~ In (p_sid p) (dkeys (subs s)) /\
    (st = StRenew -> In (p_sid p) (dkeys (routed s))) /\
    (st = StFallback -> ~ In (p_sid p) (dkeys (routed s))) /\
    (~ doomed s lt -> forall x, In x (map fst (p_todo p)) -> In x (dkeys (subs s))) /\
    NoDup (map fst (p_todo p)) /\ ~ In (p_sid p) (map fst (p_todo p)) /\
    svc_interesting (svcs s) (p_svc p) = true.

Fixpoint sorted_lt (l : list nat) : Prop :=
  match l with
  | [] => True
  | x :: r => (forall y, In y r -> x < y) /\ sorted_lt r
  end.

(* the response a subscribe call is about to process carries a SID larger than every routed one *)
Definition resp_fresh (s : state) (r : rid) : Prop :=
  match q_state (reqs s r) with
  | QDone (RAccept _ _) (Some y) => y < nsid s /\ forall k, In k (dkeys (routed s)) -> k < y
  | _ => True
  end.

(* what the first call leaves when it returns normally *)
Definition all_subscribed (s : state) : Prop :=
  map fst (subs s) = map fst (routed s) /\ sorted_lt (map fst (routed s)) /\ map snd (routed s) = interesting (svcs s).

Definition all_done (s : state) : Prop := forall t, t < ntasks s -> donep s t.

Definition phase_ok (s : state) : Prop :=
  match calls s with
  | [] => True
  | _ =>
      let c := cur s in
      match kindof s c, pcof s c with
      | KSub _, PStart => g_inflight s = false /\ subs s = [] /\ routed s = [] /\ rtask s = None /\ ntasks s = 1 /\ nreqs s = 0
      | KSub _, PSubReq now0 todo v r =>
          g_inflight s = false /\ rtask s = None /\ ntasks s = 1 /\ map fst (subs s) = map fst (routed s) /\
          map snd (routed s) ++ v :: todo = interesting (svcs s) /\ sorted_lt (map fst (routed s)) /\
          (forall k, In k (dkeys (routed s)) -> k < nsid s) /\ resp_fresh s r /\
          (q_state (reqs s r) = QPending -> r < nreqs s) /\ q_kind (reqs s r) = QSub
      | KSub _, PUnsubGather _ (Some _) => g_inflight s = false /\ subs s = [] /\ rtask s = None
      | KSub _, PDone (SExc _) => g_inflight s = false /\ subs s = [] /\ routed s = [] /\ rtask s = None /\ all_done s
      | KSub _, PDone (SRet _) =>
          match rtask s with
          | None => all_subscribed s /\ all_done s
          | Some lt => (forall r, r < nreqs s -> q_bg (reqs s r) = false) -> all_subscribed s
          end
      | KUnsub, PStart =>
          2 < length (calls s) ->
          subs s = [] /\ rtask s = None /\ (forall t, t < ntasks s -> t <> c -> donep s t) /\
          (g_inflight s = false -> routed s = [])
      | KUnsub, PUnsubTask _ lt None => length (calls s) = 2 /\ subs s = [] /\ rtask s = Some lt /\ (donep s lt \/ doomed s lt)
      | KUnsub, PUnsubGather _ None => length (calls s) = 2 /\ subs s = [] /\ rtask s = None
      | KUnsub, PDone _ => subs s = [] /\ rtask s = None /\ all_done s /\ (g_inflight s = false -> routed s = [])
      | _, _ => False
      end
  end.

Definition is_kid (c : tid) (k : task) : bool :=
  match t_kind k with KOne p _ => Nat.eqb p c | _ => false end.
Definition live_kid (s : state) (c : tid) (t : tid) : bool := is_kid c (tasks s t) && negb (is_done (tasks s t)).
Definition nlive (s : state) (c : tid) : nat := length (filter (live_kid s c) (seq 0 (ntasks s))).
Definition handle_eq_dec : forall a b : handle, {a = b} + {a <> b}.
Proof. decide equality; apply Nat.eq_dec. Defined.
Definition nchild (pend : list handle) (c : tid) : nat := count_occ handle_eq_dec pend (HChild c).

Definition count_ok (pend : list handle) (s : state) : Prop :=
  (forall p, 0 < nchild pend p -> p < ntasks s) /\
  (calls s <> [] -> ~ donep s (cur s) ->
   match pcof s (cur s) with
   | PUnsubGather n _ => nlive s (cur s) + nchild pend (cur s) <= n
   | _ => (forall t, t < ntasks s -> is_kid (cur s) (tasks s t) = false) /\ nchild pend (cur s) = 0
   end).

Record Inv (pend : list handle) (s : state) : Prop := mkInv {
  iv_calls : calls_ok s;
  iv_pc : forall t, t < ntasks s -> pc_ok (tasks s t);
  iv_doom : forall t, t < ntasks s -> doomed s t -> kindof s t = KLoop;
  iv_census : forall t, t < ntasks s -> census s t;
  iv_rtask : forall lt, rtask s = Some lt -> lt < ntasks s /\ kindof s lt = KLoop;
  iv_req : forall r, r < nreqs s -> q_state (reqs s r) = QPending ->
           q_task (reqs s r) < ntasks s /\ awaits (pcof s (q_task (reqs s r))) r;
  iv_reqb : forall t, t < ntasks s -> forall r, awaits (pcof s t) r -> r < nreqs s;
  iv_reqo : forall t, t < ntasks s -> forall r, awaits (pcof s t) r -> q_task (reqs s r) = t;
  iv_bg : forall r, r < nreqs s -> q_bg (reqs s r) = is_loop (tasks s (q_task (reqs s r))) /\ q_task (reqs s r) < ntasks s;
  iv_sid : NoDup (dkeys (subs s)) /\ NoDup (dkeys (routed s)) /\ incl (dkeys (subs s)) (dkeys (routed s));
  iv_svc : (forall x v, In (x, v) (routed s) -> svc_interesting (svcs s) v = true) /\
           (forall r, r < nreqs s -> svc_interesting (svcs s) (q_svc (reqs s r)) = true);
  iv_pass : forall lt, rtask s = Some lt -> pass_ok s lt;
  iv_preq : forall lt p st r, rtask s = Some lt -> pcof s lt = PPass p st r ->
            q_svc (reqs s r) = p_svc p /\ q_kind (reqs s r) = (match st with StRenew => QRenew | StFallback => QSub end);
  iv_route : g_inflight s = false ->
             (forall x, In x (dkeys (routed s)) -> In x (dkeys (subs s)) \/ inflight s x \/ unsub_pending s x) /\
             (forall lt p r, rtask s = Some lt -> pcof s lt = PPass p StRenew r -> ~ doomed s lt);
  iv_phase : phase_ok s;
  iv_wait : forall t, t < ntasks s -> forall h, In h (t_waiters (tasks s t)) -> exists u, h = HStep u;
  iv_beyond : forall t, ntasks s <= t -> tasks s t = dummy_task;
  iv_count : count_ok pend s
}.

(* the schedule condition carried along a run *)
Definition allowed (s : state) (a : action) : Prop :=
  match a with
  | ASubscribe _ => calls s = []
  | AUnsubscribe => calls s <> []
  | _ => True
  end.
