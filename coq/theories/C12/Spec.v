(* C12 - the property restated over what is observed after every action of a schedule.

   "For every combination of granted timeouts and publisher behaviour: subscribing a profile device subscribes all
   and only its profile's services or, if any fails, leaves none subscribed and raises; with automatic renewal every
   subscription is renewed before the publisher would expire it for as long as the publisher accepts renewals, a
   failed renewal is reported once through the event callback with an empty change list (marking the device
   unavailable when it is unreachable), and the renewal loop always yields to the event loop.  After unsubscribing
   returns - under every interleaving with an in-flight renewal - no SID of that profile is still routed, the
   renewal task has ended and no further requests are sent."

   Every clause is an executable function of (input, observation) returning the first step at which it fails, so
   that the same definition is evaluated on the implementation's observation by Run.report and is what the
   theorems of Properties.v are about:  forall i, in_domain i = true -> clause_pos c i (model_run i) = None.

   Status: all clauses are theorems of Properties.v for every schedule of the domain: 1 (all_or_nothing), 2
   (kept_alive, under lapse_premise) and 3 (failure_reported) unconditionally, 4 (loop_yields) and 5 (clean_shutdown)
   outside the guards of the known findings D19 / D20, with the refutations proved next to them, and the two RESIDUAL
   clauses 6 (clean_residual) and 7 (yields_residual) unconditionally: they state what is left of 5 and 4 under the two
   findings, are evaluated by Run.report on every case and are never suppressed, so that a violation of clean shutdown or
   of yielding that is not D20 / D19 itself is reported also on the inputs those findings flag.

   Readings fixed here:
     * "its profile's services" = the services of the profile device itself (profile_device.services) whose type is
       in the profile's alias table; services of embedded devices are not subscribed by the code and not by the spec
     * the user awaits one API call before making the next (the model ignores a call made while another is pending)
       and calls async_subscribe_services once, first: in_domain
     * "subscribes all and only" is checked when the subscribe call returns, before the renewal task has sent a
       request of its own (in one event loop the two coincide: the task is only created by the returning call)
     * a TIMEOUT-less 200 is taken to grant what was requested (SUBSCRIBE_TIMEOUT); Second-infinite never expires
     * the publisher processes a request at the moment its response is delivered *)
From Coq Require Import List Bool Arith ZArith NArith.
From AUC Require Import C12.Model.
Import ListNotations.
Local Open Scope Z_scope.

(* ---- domain ----------------------------------------------------------------------------------------------- *)
Definition is_call (a : action) : bool :=
  match a with ASubscribe _ | AUnsubscribe => true | _ => false end.
Definition is_unsub (a : action) : bool := match a with AUnsubscribe => true | _ => false end.
Definition user_calls (sched : list action) : list action := filter is_call sched.

Definition in_domain (i : input) : bool :=
  match user_calls (i_sched i) with
  | [] => true
  | ASubscribe _ :: r => forallb is_unsub r
  | _ => false
  end.

(* ---- known-finding guards (functions of the input, through the ghost fields of the model's run) ------------- *)
(* Run.report uses kf_overdue for D19 and, for D20, the observation-based kf_inflight_obs defined with clause 6 below;
   kf_inflight remains the guard of C12_clean_shutdown_partial / _refuted. *)
(* D19: some renewal pass of the background loop started while a deadline it holds was more than the tolerance in
   the past (equivalently: the subscribe call or an earlier pass lasted longer than tolerance + a timeout granted in it) *)
Definition kf_overdue (i : input) : bool := g_overdue (run i).
(* D20: async_unsubscribe_services started while the renewal task was inside _async_do_resubscribe
   (renewal SUBSCRIBE sent, response not yet processed) *)
Definition kf_inflight (i : input) : bool := g_inflight (run i).

(* ---- helpers ------------------------------------------------------------------------------------------------ *)
Definition first_call (o : snap) : option (option status) :=
  match o_calls o with [] => None | c :: _ => Some c end.
Definition later_calls (o : snap) : list (option status) := tl (o_calls o).
Definition is_some {A} (x : option A) : bool := match x with Some _ => true | None => false end.

Definition svc_interesting (sv : list bool) (v : svc) : bool := nth v sv false.

Fixpoint insert_nat (x : nat) (l : list nat) : list nat :=
  match l with
  | [] => [x]
  | y :: r => if (x <=? y)%nat then x :: l else y :: insert_nat x r
  end.
Definition sort_nat (l : list nat) : list nat := fold_right insert_nat [] l.
Fixpoint nat_list_eqb (a b : list nat) : bool :=
  match a, b with
  | [], [] => true
  | x :: a', y :: b' => Nat.eqb x y && nat_list_eqb a' b'
  | _, _ => false
  end.
Definition is_nil {A} (l : list A) : bool := match l with [] => true | _ => false end.

(* index of the first element of a list of per-step verdicts that is false *)
Fixpoint first_false (n : nat) (l : list bool) : option nat :=
  match l with
  | [] => None
  | b :: r => if b then first_false (S n) r else Some n
  end.

(* ---- clause 1: all or nothing ------------------------------------------------------------------------------- *)
(* at the step at which the subscribe call completes *)
Definition subscribed_all (sv : list bool) (o : snap) : bool :=
  nat_list_eqb (sort_nat (map snd (o_routed o))) (interesting sv)
  && nat_list_eqb (map fst (o_subs o)) (map fst (o_routed o)).
Definition subscribed_none (o : snap) : bool :=
  is_nil (o_routed o) && is_nil (o_subs o) && is_nil (o_out o).

(* [bg] = the renewal task has already sent a request of its own (from then on the subscriptions are in flux) *)
Definition aon_step (sv : list bool) (prev : snap) (bg : bool) (o : snap) : bool :=
  if o_div o then true else
  forallb (fun q => svc_interesting sv (snd (fst (fst q)))) (o_newreqs o)
  && match first_call prev, first_call o with
     | (None | Some None), Some (Some st) =>
         match st with
         | SRet _ => bg || subscribed_all sv o
         | SExc e => is_upnp e && subscribed_none o
         | SCancelled => false
         end
     | _, _ => true
     end.

Definition snap0 : snap := mkSnap 0 [] [] [] [] [] false [] true [] RtNone true false.

Fixpoint steps_with_prev {A} (f : snap -> snap -> A) (prev : snap) (o : list snap) : list A :=
  match o with
  | [] => []
  | x :: r => f prev x :: steps_with_prev f x r
  end.

Definition has_bg (o : snap) : bool := existsb (fun q : rkind * svc * option sid * bool => snd q) (o_newreqs o).
Fixpoint aon_steps (sv : list bool) (prev : snap) (bg : bool) (o : list snap) : list bool :=
  match o with
  | [] => []
  | x :: r => let bg' := bg || has_bg x in aon_step sv prev bg' x :: aon_steps sv x bg' r
  end.

Definition clause_aon (i : input) (o : observation) : option nat :=
  first_false 0 (aon_steps (i_svcs i) snap0 false o).

(* ---- clause 4: the loop yields ------------------------------------------------------------------------------ *)
Definition clause_yields (i : input) (o : observation) : option nat :=
  first_false 0 (map (fun x => negb (o_div x)) o).

(* ---- clause 5: clean shutdown ------------------------------------------------------------------------------- *)
Definition returned_ok (c : option status) : bool :=
  match c with Some (SRet None) | None => true | _ => false end.
Definition clean_step (prev o : snap) : bool :=
  if o_div o then true else
  forallb returned_ok (later_calls o)
  && (if existsb is_some (later_calls o) then
        (* an unsubscribe call has returned *)
        is_nil (o_routed o) && is_nil (o_subs o) && is_nil (o_out o)
        && negb (match o_rtask o with RtPending => true | _ => false end)
        && (if existsb is_some (later_calls prev) then is_nil (o_newreqs o) else true)
      else true).
Definition clause_clean (i : input) (o : observation) : option nat :=
  first_false 0 (steps_with_prev clean_step snap0 o).

(* ---- clause 3: failures are reported once --------------------------------------------------------------------- *)
(* the spec's own reading of the schedule: which deliveries took effect, and which of them made a renewal fail *)
Definition req_entry := (rkind * svc * option sid * bool)%type.
Definition renewal_failed (q : req_entry) (rho : reaction) : bool :=
  let '(kd, _, _, bg) := q in
  bg && match kd, rho with
        | QRenew, RUnreachable => true
        | QSub, RAccept SidNone _ => true
        | QSub, RAccept _ _ => false
        | QSub, _ => true
        | _, _ => false
        end.
Definition is_unreachable (rho : reaction) : bool := match rho with RUnreachable => true | _ => false end.

Record racc := mkRacc {
  a_log : list req_entry;       (* every request seen so far *)
  a_exp : list svc;             (* services whose renewal failed, in the order the failures were delivered *)
  a_unreach : bool;             (* one of them was unreachable *)
  a_seen : list svc;            (* on_event(service, []) calls seen so far *)
  a_prev_out : list rid
}.
Definition racc0 : racc := mkRacc [] [] false [] [].

Fixpoint is_prefix (a b : list nat) : bool :=
  match a, b with
  | [], _ => true
  | x :: a', y :: b' => Nat.eqb x y && is_prefix a' b'
  | _ :: _, [] => false
  end.

Definition rep_acc (acc : racc) (a : action) (o : snap) : racc :=
  let log := a_log acc ++ o_newreqs o in
  let '(ex, un) :=
    match a with
    | ADeliver r rho =>
        if existsb (Nat.eqb r) (a_prev_out acc) then
          match nth_error (a_log acc) r with
          | Some q => if renewal_failed q rho
                      then (a_exp acc ++ [snd (fst (fst q))], a_unreach acc || is_unreachable rho)
                      else (a_exp acc, a_unreach acc)
          | None => (a_exp acc, a_unreach acc)
          end
        else (a_exp acc, a_unreach acc)
    | _ => (a_exp acc, a_unreach acc)
    end in
  mkRacc log ex un (a_seen acc ++ o_events o) (o_out o).

Definition rep_ok (acc : racc) (o : snap) : bool :=
  if o_div o then true else
  is_prefix (a_seen acc) (a_exp acc)
  && (o_avail o || a_unreach acc)
  && (if o_idle o && (length (o_calls o) <=? 1)%nat
      then nat_list_eqb (a_seen acc) (a_exp acc) && Bool.eqb (o_avail o) (negb (a_unreach acc))
      else true).

Fixpoint rep_steps (acc : racc) (sched : list action) (o : list snap) : list bool :=
  match sched, o with
  | a :: sr, x :: r => let acc' := rep_acc acc a x in rep_ok acc' x :: rep_steps acc' sr r
  | _, _ => []
  end.
Definition clause_reported (i : input) (o : observation) : option nat :=
  first_false 0 (rep_steps racc0 (i_sched i) o).

(* ---- clause 2: kept alive --------------------------------------------------------------------------------------- *)
Fixpoint lookup_live (l : list (sid * option Z)) (x : sid) : option (option Z) :=
  match l with
  | [] => None
  | (y, e) :: r => if Nat.eqb x y then Some e else lookup_live r x
  end.
Definition held_alive (o : snap) (p : sid * Z) : bool :=
  match lookup_live (o_live o) (fst p) with
  | Some None => true
  | Some (Some e) => o_now o <=? e
  | None => false
  end.
Definition alive_step (o : snap) : bool :=
  if o_div o then true else negb (o_lapsed o) && forallb (held_alive o) (o_subs o).

Fixpoint grants_of (sched : list action) : list grant :=
  match sched with
  | [] => []
  | ADeliver _ (RAccept _ g) :: r => g :: grants_of r
  | _ :: r => grants_of r
  end.
Definition auto_sub (sched : list action) : bool :=
  match user_calls sched with ASubscribe true :: _ => true | _ => false end.
(* premises of lapse-freedom: automatic renewal was asked for; no subscribe call / renewal pass of this run waited
   longer than the tolerance for its responses in total; every granted timeout exceeds tolerance + that longest wait *)
Definition lapse_premise (i : input) : bool :=
  let m := g_maxdur (run i) in
  auto_sub (i_sched i) && (m <=? TOL) && forallb (fun g => TOL + m <? grant_secs g) (grants_of (i_sched i)).

Definition clause_alive (i : input) (o : observation) : option nat :=
  if lapse_premise i then first_false 0 (map alive_step o) else None.

(* ---- clause 6: clean shutdown, residual (what is left of clause 5 under known finding D20) ------------------------ *)
(* Clause 5 fails on the current code exactly when async_unsubscribe_services starts executing while a renewal SUBSCRIBE
   of the background task is outstanding (D20): the SID being renewed stays routed.  This clause is clause 5 with
   exactly that SID exempted from "nothing is routed", the exemption being computed here, from the schedule and the
   observation alone (no field of a model run is read):

     * an unsubscribe call is MADE at an AUnsubscribe step at which the list of user calls grows (the call was not
       ignored); it STARTS EXECUTING in the first loop iteration (AIter step) after that
     * the renewals in flight for that call = the requests (QRenew, _, Some x, by the renewal task) that were
       outstanding (o_out) when the call was made - still outstanding, or answered between the call and that iteration,
       so that the renewal task cannot have seen the answer before the unsubscribe call runs - or that are first seen
       in that very iteration (sent by the renewal task in the same iteration, just before the call started executing)
     * from the moment an unsubscribe call has returned, every routed SID is the SID x of such a renewal

   Everything else clause 5 demands is demanded unconditionally: every unsubscribe call returned None, the profile holds
   nothing, no request is outstanding (the cancelled renewal's request included), the renewal task is not pending, and
   once an unsubscribe call has returned no request is ever sent again.  No UNSUBSCRIBE is demanded for the exempted
   SIDs (none is sent), for every other SID "not routed" is what the handler's unsubscribe leaves.
   A failure of this clause is never a known finding. *)
Definition bg_renewal (q : req_entry) : list sid :=
  match q with (QRenew, _, Some x, true) => [x] | _ => [] end.
Definition renewals_of (log : list req_entry) (out : list rid) : list sid :=
  flat_map (fun r => match nth_error log r with Some q => bg_renewal q | None => [] end) out.

Record cacc := mkCacc {
  c_log : list req_entry;       (* every request seen so far *)
  c_armed : option (list rid);  (* Some out: an unsubscribe call was made, no loop iteration has run since; out = the
                                   requests outstanding when it was made *)
  c_exempt : list sid           (* SIDs of the renewals in flight when an unsubscribe call started executing *)
}.
Definition cacc0 : cacc := mkCacc [] None [].

Definition res_acc (acc : cacc) (a : action) (prev o : snap) : cacc :=
  let log := c_log acc ++ o_newreqs o in
  match a with
  | AUnsubscribe =>
      if (length (o_calls prev) <? length (o_calls o))%nat
      then mkCacc log (Some (o_out o)) (c_exempt acc)
      else mkCacc log (c_armed acc) (c_exempt acc)
  | AIter =>
      match c_armed acc with
      | Some out => mkCacc log None (c_exempt acc ++ renewals_of (c_log acc) out ++ flat_map bg_renewal (o_newreqs o))
      | None => mkCacc log None (c_exempt acc)
      end
  | _ => mkCacc log (c_armed acc) (c_exempt acc)
  end.

Definition exempted (ex : list sid) (p : sid * svc) : bool := existsb (Nat.eqb (fst p)) ex.
Definition res_step (ex : list sid) (prev o : snap) : bool :=
  if o_div o then true else
  forallb returned_ok (later_calls o)
  && (if existsb is_some (later_calls o) then
        (* an unsubscribe call has returned *)
        forallb (exempted ex) (o_routed o) && is_nil (o_subs o) && is_nil (o_out o)
        && negb (match o_rtask o with RtPending => true | _ => false end)
        && (if existsb is_some (later_calls prev) then is_nil (o_newreqs o) else true)
      else true).

Fixpoint res_steps (acc : cacc) (prev : snap) (sched : list action) (o : list snap) : list bool :=
  match sched, o with
  | a :: sr, x :: r => let acc' := res_acc acc a prev x in res_step (c_exempt acc') prev x :: res_steps acc' x sr r
  | _, _ => []
  end.
Definition clause_clean_res (i : input) (o : observation) : option nat :=
  first_false 0 (res_steps cacc0 snap0 (i_sched i) o).

(* the set exempted at the end of the run: non-empty = some unsubscribe call started executing with a renewal in flight *)
Fixpoint res_final (acc : cacc) (prev : snap) (sched : list action) (o : list snap) : cacc :=
  match sched, o with
  | a :: sr, x :: r => res_final (res_acc acc a prev x) x sr r
  | _, _ => acc
  end.
Definition kf_inflight_obs (i : input) (o : observation) : bool :=
  negb (is_nil (c_exempt (res_final cacc0 snap0 (i_sched i) o))).

(* ---- clause 7: the loop yields, residual (what is left of clause 4 under known finding D19) ----------------------- *)
(* Once a section of a task runs forever the event loop is frozen: the harness' watchdog ends the run and every later
   snapshot is div_snap, so nothing that happens "during" the spin (such as: no request is sent) is observable.  What
   remains observable is WHERE the run stops: D19 is a spin of the renewal loop, so the first divergent step is a loop
   iteration (AIter) and at the step before it the renewal task existed and had not ended.  A spin at any other action,
   or in an iteration with no live renewal task (the subscribe / unsubscribe call or a per-SID unsubscribe spinning),
   is a different violation and fails this clause whatever the guard of D19 says.  The other clauses judge every step
   before the first divergent one as usual. *)
Definition yields_res_step (a : action) (prev o : snap) : bool :=
  if o_div o && negb (o_div prev) then
    match a, o_rtask prev with
    | AIter, RtPending => true
    | _, _ => false
    end
  else true.
Fixpoint yields_res_steps (prev : snap) (sched : list action) (o : list snap) : list bool :=
  match sched, o with
  | a :: sr, x :: r => yields_res_step a prev x :: yields_res_steps x sr r
  | _, _ => []
  end.
Definition clause_yields_res (i : input) (o : observation) : option nat :=
  first_false 0 (yields_res_steps snap0 (i_sched i) o).

(* ---- all clauses ---------------------------------------------------------------------------------------------- *)
Definition all_clauses : list N := [1; 2; 3; 4; 5; 6; 7]%N.
Definition clause_pos (c : N) (i : input) (o : observation) : option nat :=
  match c with
  | 1%N => clause_aon i o
  | 2%N => clause_alive i o
  | 3%N => clause_reported i o
  | 4%N => clause_yields i o
  | 5%N => clause_clean i o
  | 6%N => clause_clean_res i o
  | 7%N => clause_yields_res i o
  | _ => None
  end.
