(* C12 - the property restated over what is observed after every action of a schedule.

   "For every combination of granted timeouts and publisher behaviour: subscribing a profile device subscribes all
   and only its profile's services or, if any fails, leaves none subscribed and raises; with automatic renewal every
   subscription is renewed before the publisher would expire it for as long as the publisher accepts renewals, a
   failed renewal is reported once through the event callback with an empty change list (marking the device
   unavailable when it is unreachable), and the renewal loop always yields to the event loop.  After unsubscribing
   returns - under every interleaving with an in-flight renewal - no SID of that profile is still routed, the
   renewal task has ended and no further requests are sent."

   Every clause is an executable function of (input, observation) returning the first step at which it fails, so
   that the same definition is evaluated on the implementation's observation by Run.report and is what the
   theorems of Properties.v are about:  forall i, in_domain i = true -> clause_pos c i (model_run i) = None.

   Status: all five clauses are theorems of Properties.v for every schedule of the domain: 1 (all_or_nothing), 2
   (kept_alive, under lapse_premise) and 3 (failure_reported) unconditionally, 4 (loop_yields) and 5 (clean_shutdown)
   outside the guards of the known findings D19 / D20, with the refutations proved next to them.

   Readings fixed here:
     * "its profile's services" = the services of the profile device itself (profile_device.services) whose type is
       in the profile's alias table; services of embedded devices are not subscribed by the code and not by the spec
     * the user awaits one API call before making the next (the model ignores a call made while another is pending)
       and calls async_subscribe_services once, first: in_domain
     * "subscribes all and only" is checked when the subscribe call returns, before the renewal task has sent a
       request of its own (in one event loop the two coincide: the task is only created by the returning call)
     * a TIMEOUT-less 200 is taken to grant what was requested (SUBSCRIBE_TIMEOUT); Second-infinite never expires
     * the publisher processes a request at the moment its response is delivered *)
From Coq Require Import List Bool Arith ZArith NArith.
From AUC Require Import C12.Model.
Import ListNotations.
Local Open Scope Z_scope.

(* ---- domain ----------------------------------------------------------------------------------------------- *)
Definition is_call (a : action) : bool :=
  match a with ASubscribe _ | AUnsubscribe => true | _ => false end.
Definition is_unsub (a : action) : bool := match a with AUnsubscribe => true | _ => false end.
Definition user_calls (sched : list action) : list action := filter is_call sched.

Definition in_domain (i : input) : bool :=
  match user_calls (i_sched i) with
  | [] => true
  | ASubscribe _ :: r => forallb is_unsub r
  | _ => false
  end.

(* ---- known-finding guards (functions of the input, through the ghost fields of the model's run) ------------- *)
(* D19: some renewal pass of the background loop started while a deadline it holds was more than the tolerance in
   the past (equivalently: the subscribe call or an earlier pass lasted longer than tolerance + a timeout granted in it) *)
Definition kf_overdue (i : input) : bool := g_overdue (run i).
(* D20: async_unsubscribe_services started while the renewal task was inside _async_do_resubscribe
   (renewal SUBSCRIBE sent, response not yet processed) *)
Definition kf_inflight (i : input) : bool := g_inflight (run i).

(* ---- helpers ------------------------------------------------------------------------------------------------ *)
Definition first_call (o : snap) : option (option status) :=
  match o_calls o with [] => None | c :: _ => Some c end.
Definition later_calls (o : snap) : list (option status) := tl (o_calls o).
Definition is_some {A} (x : option A) : bool := match x with Some _ => true | None => false end.

Definition svc_interesting (sv : list bool) (v : svc) : bool := nth v sv false.

Fixpoint insert_nat (x : nat) (l : list nat) : list nat :=
  match l with
  | [] => [x]
  | y :: r => if (x <=? y)%nat then x :: l else y :: insert_nat x r
  end.
Definition sort_nat (l : list nat) : list nat := fold_right insert_nat [] l.
Fixpoint nat_list_eqb (a b : list nat) : bool :=
  match a, b with
  | [], [] => true
  | x :: a', y :: b' => Nat.eqb x y && nat_list_eqb a' b'
  | _, _ => false
  end.
Definition is_nil {A} (l : list A) : bool := match l with [] => true | _ => false end.

(* index of the first element of a list of per-step verdicts that is false *)
Fixpoint first_false (n : nat) (l : list bool) : option nat :=
  match l with
  | [] => None
  | b :: r => if b then first_false (S n) r else Some n
  end.

(* ---- clause 1: all or nothing ------------------------------------------------------------------------------- *)
(* at the step at which the subscribe call completes *)
Definition subscribed_all (sv : list bool) (o : snap) : bool :=
  nat_list_eqb (sort_nat (map snd (o_routed o))) (interesting sv)
  && nat_list_eqb (map fst (o_subs o)) (map fst (o_routed o)).
Definition subscribed_none (o : snap) : bool :=
  is_nil (o_routed o) && is_nil (o_subs o) && is_nil (o_out o).

(* [bg] = the renewal task has already sent a request of its own (from then on the subscriptions are in flux) *)
Definition aon_step (sv : list bool) (prev : snap) (bg : bool) (o : snap) : bool :=
  if o_div o then true else
  forallb (fun q => svc_interesting sv (snd (fst (fst q)))) (o_newreqs o)
  && match first_call prev, first_call o with
     | (None | Some None), Some (Some st) =>
         match st with
         | SRet _ => bg || subscribed_all sv o
         | SExc e => is_upnp e && subscribed_none o
         | SCancelled => false
         end
     | _, _ => true
     end.

Definition snap0 : snap := mkSnap 0 [] [] [] [] [] false [] true [] RtNone true false.

Fixpoint steps_with_prev {A} (f : snap -> snap -> A) (prev : snap) (o : list snap) : list A :=
  match o with
  | [] => []
  | x :: r => f prev x :: steps_with_prev f x r
  end.

Definition has_bg (o : snap) : bool := existsb (fun q : rkind * svc * option sid * bool => snd q) (o_newreqs o).
Fixpoint aon_steps (sv : list bool) (prev : snap) (bg : bool) (o : list snap) : list bool :=
  match o with
  | [] => []
  | x :: r => let bg' := bg || has_bg x in aon_step sv prev bg' x :: aon_steps sv x bg' r
  end.

Definition clause_aon (i : input) (o : observation) : option nat :=
  first_false 0 (aon_steps (i_svcs i) snap0 false o).

(* ---- clause 4: the loop yields ------------------------------------------------------------------------------ *)
Definition clause_yields (i : input) (o : observation) : option nat :=
  first_false 0 (map (fun x => negb (o_div x)) o).

(* ---- clause 5: clean shutdown ------------------------------------------------------------------------------- *)
Definition returned_ok (c : option status) : bool :=
  match c with Some (SRet None) | None => true | _ => false end.
Definition clean_step (prev o : snap) : bool :=
  if o_div o then true else
  forallb returned_ok (later_calls o)
  && (if existsb is_some (later_calls o) then
        (* an unsubscribe call has returned *)
        is_nil (o_routed o) && is_nil (o_subs o) && is_nil (o_out o)
        && negb (match o_rtask o with RtPending => true | _ => false end)
        && (if existsb is_some (later_calls prev) then is_nil (o_newreqs o) else true)
      else true).
Definition clause_clean (i : input) (o : observation) : option nat :=
  first_false 0 (steps_with_prev clean_step snap0 o).

(* ---- clause 3: failures are reported once --------------------------------------------------------------------- *)
(* the spec's own reading of the schedule: which deliveries took effect, and which of them made a renewal fail *)
Definition req_entry := (rkind * svc * option sid * bool)%type.
Definition renewal_failed (q : req_entry) (rho : reaction) : bool :=
  let '(kd, _, _, bg) := q in
  bg && match kd, rho with
        | QRenew, RUnreachable => true
        | QSub, RAccept SidNone _ => true
        | QSub, RAccept _ _ => false
        | QSub, _ => true
        | _, _ => false
        end.
Definition is_unreachable (rho : reaction) : bool := match rho with RUnreachable => true | _ => false end.

Record racc := mkRacc {
  a_log : list req_entry;       (* every request seen so far *)
  a_exp : list svc;             (* services whose renewal failed, in the order the failures were delivered *)
  a_unreach : bool;             (* one of them was unreachable *)
  a_seen : list svc;            (* on_event(service, []) calls seen so far *)
  a_prev_out : list rid
}.
Definition racc0 : racc := mkRacc [] [] false [] [].

Fixpoint is_prefix (a b : list nat) : bool :=
  match a, b with
  | [], _ => true
  | x :: a', y :: b' => Nat.eqb x y && is_prefix a' b'
  | _ :: _, [] => false
  end.

Definition rep_acc (acc : racc) (a : action) (o : snap) : racc :=
  let log := a_log acc ++ o_newreqs o in
  let '(ex, un) :=
    match a with
    | ADeliver r rho =>
        if existsb (Nat.eqb r) (a_prev_out acc) then
          match nth_error (a_log acc) r with
          | Some q => if renewal_failed q rho
                      then (a_exp acc ++ [snd (fst (fst q))], a_unreach acc || is_unreachable rho)
                      else (a_exp acc, a_unreach acc)
          | None => (a_exp acc, a_unreach acc)
          end
        else (a_exp acc, a_unreach acc)
    | _ => (a_exp acc, a_unreach acc)
    end in
  mkRacc log ex un (a_seen acc ++ o_events o) (o_out o).

Definition rep_ok (acc : racc) (o : snap) : bool :=
  if o_div o then true else
  is_prefix (a_seen acc) (a_exp acc)
  && (o_avail o || a_unreach acc)
  && (if o_idle o && (length (o_calls o) <=? 1)%nat
      then nat_list_eqb (a_seen acc) (a_exp acc) && Bool.eqb (o_avail o) (negb (a_unreach acc))
      else true).

Fixpoint rep_steps (acc : racc) (sched : list action) (o : list snap) : list bool :=
  match sched, o with
  | a :: sr, x :: r => let acc' := rep_acc acc a x in rep_ok acc' x :: rep_steps acc' sr r
  | _, _ => []
  end.
Definition clause_reported (i : input) (o : observation) : option nat :=
  first_false 0 (rep_steps racc0 (i_sched i) o).

(* ---- clause 2: kept alive --------------------------------------------------------------------------------------- *)
Fixpoint lookup_live (l : list (sid * option Z)) (x : sid) : option (option Z) :=
  match l with
  | [] => None
  | (y, e) :: r => if Nat.eqb x y then Some e else lookup_live r x
  end.
Definition held_alive (o : snap) (p : sid * Z) : bool :=
  match lookup_live (o_live o) (fst p) with
  | Some None => true
  | Some (Some e) => o_now o <=? e
  | None => false
  end.
Definition alive_step (o : snap) : bool :=
  if o_div o then true else negb (o_lapsed o) && forallb (held_alive o) (o_subs o).

Fixpoint grants_of (sched : list action) : list grant :=
  match sched with
  | [] => []
  | ADeliver _ (RAccept _ g) :: r => g :: grants_of r
  | _ :: r => grants_of r
  end.
Definition auto_sub (sched : list action) : bool :=
  match user_calls sched with ASubscribe true :: _ => true | _ => false end.
(* premises of lapse-freedom: automatic renewal was asked for; no subscribe call / renewal pass of this run waited
   longer than the tolerance for its responses in total; every granted timeout exceeds tolerance + that longest wait *)
Definition lapse_premise (i : input) : bool :=
  let m := g_maxdur (run i) in
  auto_sub (i_sched i) && (m <=? TOL) && forallb (fun g => TOL + m <? grant_secs g) (grants_of (i_sched i)).

Definition clause_alive (i : input) (o : observation) : option nat :=
  if lapse_premise i then first_false 0 (map alive_step o) else None.

(* ---- all clauses ---------------------------------------------------------------------------------------------- *)
Definition all_clauses : list N := [1; 2; 3; 4; 5]%N.
Definition clause_pos (c : N) (i : input) (o : observation) : option nat :=
  match c with
  | 1%N => clause_aon i o
  | 2%N => clause_alive i o
  | 3%N => clause_reported i o
  | 4%N => clause_yields i o
  | 5%N => clause_clean i o
  | _ => None
  end.
