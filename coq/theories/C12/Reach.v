(* C12 - every state of a run over a schedule of the domain satisfies the structural invariant (or has diverged). *)
From Coq Require Import List Bool Arith ZArith Lia.
From AUC Require Import Prelude.PyDict C12.Model C12.Spec C12.Frame C12.InvDef C12.InvStep C12.InvStep2 C12.InvStep3.
Import ListNotations.

Notation Good s := (diverged s = true \/ Inv (ready s) s).

Lemma Inv_init sv : Inv [] (init sv).
Proof.
  constructor; cbn; try (intros; lia); try discriminate; auto.
  - repeat split; auto.
  - repeat split; try constructor. intros x [].
  - split; [intros x v []|intros; lia].
  - intros _. split; [intros x []|discriminate].
  - split; [intros p Hp; cbn in Hp; lia|intros X; now destruct X].
Qed.

(* the schedule condition: the first user call is a subscribe, every later one an unsubscribe *)
Fixpoint dom_sched (started : bool) (sched : list action) : bool :=
  match sched with
  | [] => true
  | ASubscribe _ :: r => negb started && dom_sched true r
  | AUnsubscribe :: r => started && dom_sched true r
  | _ :: r => dom_sched started r
  end.

Lemma in_domain_dom_sched i : in_domain i = true -> dom_sched false (i_sched i) = true.
Proof.
  unfold in_domain. generalize (i_sched i). intros sched.
  assert (Started : forall l, forallb is_unsub (user_calls l) = true -> dom_sched true l = true).
  { induction l as [|a l IH]; intros H; [reflexivity|]. destruct a; cbn in *; auto; discriminate. }
  induction sched as [|a sched IH]; intros H; [reflexivity|].
  destruct a; cbn in *; auto.
Qed.

Definition started (s : state) : bool := negb (is_nil (calls s)).

Lemma calls_step_other s a : (forall b, a <> ASubscribe b) -> a <> AUnsubscribe -> calls (step s a) = calls s.
Proof.
  intros H1 H2. unfold step. destruct (diverged s); [reflexivity|].
  destruct a as [b| |r rho|dt|]; [exfalso; now apply (H1 b)|congruence| | |]; now autorewrite with fr_calls.
Qed.

Lemma started_call s kd : diverged s = false -> calls s = [] -> started (call s kd) = true.
Proof. intros _ E. unfold call, user_busy, started. rewrite E. cbn. reflexivity. Qed.

Lemma started_mono s a : started s = true -> started (step s a) = true.
Proof.
  unfold started, step. intros H. destruct (diverged s); [exact H|].
  destruct a; autorewrite with fr_calls; try exact H; unfold call; destruct (user_busy s); try exact H; sproj;
    destruct (calls s); try discriminate; reflexivity.
Qed.

(* the states after each action *)
Fixpoint states_from (s : state) (sched : list action) : list state :=
  match sched with
  | [] => []
  | a :: r => step s a :: states_from (step s a) r
  end.

Lemma step_diverged s a : diverged s = true -> step s a = s.
Proof. unfold step. now intros ->. Qed.

Lemma states_diverged sched : forall s, diverged s = true -> Forall (fun s' => s' = s) (states_from s sched).
Proof.
  induction sched as [|a r IH]; intros s D; cbn [states_from]; [constructor|].
  rewrite step_diverged by exact D. constructor; [reflexivity|]. now apply IH.
Qed.

Lemma started_other s a : (forall b, a <> ASubscribe b) -> a <> AUnsubscribe -> started (step s a) = started s.
Proof. intros H1 H2. unfold started. now rewrite calls_step_other. Qed.

Lemma Good_states sched : forall s,
  Good s -> dom_sched (started s) sched = true -> Forall (fun s' => Good s') (states_from s sched).
Proof.
  induction sched as [|a r IH]; intros s G D; [constructor|].
  destruct (diverged s) eqn:Dv.
  { eapply Forall_impl; [|apply states_diverged; exact Dv]. intros s' ->. now left. }
  destruct G as [X|I]; [congruence|]. cbn [states_from].
  assert (Gs : Good (step s a) /\ dom_sched (started (step s a)) r = true).
  { destruct a as [b| |r0 rho|dt|]; cbn [dom_sched] in D.
    - apply andb_true_iff in D. destruct D as [D1 D2]. apply negb_true_iff in D1.
      assert (Ec : calls s = []) by (unfold started in D1; destruct (calls s); [reflexivity|discriminate]).
      split; [apply Inv_step; [exact I|exact Ec]|].
      unfold step. rewrite Dv. now rewrite started_call.
    - apply andb_true_iff in D. destruct D as [D1 D2].
      assert (Ec : calls s <> []) by (unfold started in D1; destruct (calls s); [discriminate|discriminate]).
      split; [apply Inv_step; [exact I|exact Ec]|]. now rewrite started_mono.
    - split; [apply Inv_step; [exact I|exact Logic.I]|]. rewrite started_other; [exact D|discriminate|discriminate].
    - split; [apply Inv_step; [exact I|exact Logic.I]|]. rewrite started_other; [exact D|discriminate|discriminate].
    - split; [apply Inv_step; [exact I|exact Logic.I]|]. rewrite started_other; [exact D|discriminate|discriminate]. }
  destruct Gs as [G1 G2]. constructor; [exact G1|]. now apply IH.
Qed.

Lemma Good_run i : in_domain i = true -> Forall (fun s' => Good s') (states_from (init (i_svcs i)) (i_sched i)).
Proof.
  intros D. apply Good_states; [right; apply Inv_init|]. now apply in_domain_dom_sched.
Qed.
