(* C12 - instantiation used by the correspondence check (never by a theorem). *)
From Coq Require Import List Bool Arith ZArith NArith.
From AUC Require Export C12.Model C12.Spec.
Import ListNotations.

Fixpoint list_eqb {A} (f : A -> A -> bool) (a b : list A) : bool :=
  match a, b with
  | [], [] => true
  | x :: a', y :: b' => f x y && list_eqb f a' b'
  | _, _ => false
  end.
Definition opt_eqb {A} (f : A -> A -> bool) (a b : option A) : bool :=
  match a, b with
  | None, None => true
  | Some x, Some y => f x y
  | _, _ => false
  end.
Definition pair_eqb {A B} (f : A -> A -> bool) (g : B -> B -> bool) (a b : A * B) : bool :=
  f (fst a) (fst b) && g (snd a) (snd b).

Definition rkind_eqb (a b : rkind) : bool :=
  match a, b with QSub, QSub | QRenew, QRenew | QUnsub, QUnsub => true | _, _ => false end.
Definition exn_eqb (a b : exn) : bool :=
  match a, b with
  | EResponse, EResponse | EConnection, EConnection | EComm, EComm | ESid, ESid | EKey, EKey => true
  | _, _ => false
  end.
Definition status_eqb (a b : status) : bool :=
  match a, b with
  | SRet x, SRet y => opt_eqb Z.eqb x y
  | SExc x, SExc y => exn_eqb x y
  | SCancelled, SCancelled => true
  | _, _ => false
  end.
Definition rt_eqb (a b : rtstate) : bool :=
  match a, b with
  | RtNone, RtNone | RtPending, RtPending | RtDone, RtDone | RtCancelled, RtCancelled | RtExc, RtExc => true
  | _, _ => false
  end.

Definition snap_eqb (a b : snap) : bool :=
  Z.eqb (o_now a) (o_now b)
  && list_eqb (pair_eqb (pair_eqb (pair_eqb rkind_eqb Nat.eqb) (opt_eqb Nat.eqb)) Bool.eqb) (o_newreqs a) (o_newreqs b)
  && list_eqb Nat.eqb (o_out a) (o_out b)
  && list_eqb (pair_eqb Nat.eqb Nat.eqb) (o_routed a) (o_routed b)
  && list_eqb (pair_eqb Nat.eqb Z.eqb) (o_subs a) (o_subs b)
  && list_eqb (pair_eqb Nat.eqb (opt_eqb Z.eqb)) (o_live a) (o_live b)
  && Bool.eqb (o_lapsed a) (o_lapsed b)
  && list_eqb Nat.eqb (o_events a) (o_events b)
  && Bool.eqb (o_avail a) (o_avail b)
  && list_eqb (opt_eqb status_eqb) (o_calls a) (o_calls b)
  && rt_eqb (o_rtask a) (o_rtask b)
  && Bool.eqb (o_idle a) (o_idle b)
  && Bool.eqb (o_div a) (o_div b).

Fixpoint first_diff (n : N) (a b : observation) : option N :=
  match a, b with
  | [], [] => None
  | x :: a', y :: b' => if snap_eqb x y then first_diff (N.succ n) a' b' else Some n
  | _, _ => Some n
  end.

(* short constructors for the generated case files *)
Definition sn := mkSnap.
Definition mk_in := mkInput.
Definition eR : list (rkind * svc * option sid * bool) := [].
Definition eN : list nat := [].
Definition eP : list (nat * nat) := [].
Definition eZ : list (nat * Z) := [].
Definition eL : list (nat * option Z) := [].
Definition cP : option status := None.                    (* call pending *)
Definition cN : option status := Some (SRet None).        (* call returned None *)
Definition AI := AIter.

Definition clause_fail (c : N) (i : input) (o : observation) : option N :=
  match clause_pos c i o with
  | Some p => Some (N.of_nat p)
  | None => None
  end.

Fixpoint emit_clauses (base : N) (cs : list N) (i : input) (o : observation) : list (N * N * N) :=
  match cs with
  | [] => []
  | c :: r =>
      (match clause_fail c i o with Some p => [(base, c, p)] | None => [] end) ++ emit_clauses base r i o
  end.

(* (case index, kind, position): kind 0 = the model's trace differs from the implementation's at that step;
   kind c in 1..7 = spec clause c fails on the implementation's observation at that step (only inside the domain);
   clauses 6 (clean_residual) and 7 (yields_residual) are evaluated on every case like the others and are the clause of
   no known finding: a failure of either is a violation whatever guard holds;
   kind 101 = the guard of known finding D19 holds for this input (kf_overdue: a ghost field of the model's run);
   kind 102 = the guard of known finding D20 holds for this case, read off the schedule and the IMPLEMENTATION's
   observation (kf_inflight_obs: some unsubscribe call started executing with a renewal of the renewal task in flight;
   outside it clause 5 is a theorem, C12_clean_shutdown_partial_obs) *)
Fixpoint report (base : N) (cases : list (input * observation)) : list (N * N * N) :=
  match cases with
  | [] => []
  | (i, o) :: r =>
      (match first_diff 0 (model_run i) o with Some p => [(base, 0%N, p)] | None => [] end) ++
      (if in_domain i then emit_clauses base all_clauses i o else []) ++
      (if kf_overdue i then [(base, 101%N, 0%N)] else []) ++
      (if kf_inflight_obs i o then [(base, 102%N, 0%N)] else []) ++
      report (N.succ base) r
  end.

Definition replay (c : input * observation) :=
  (model_run (fst c), first_diff 0 (model_run (fst c)) (snd c),
   map (fun k => (k, clause_fail k (fst c) (snd c))) all_clauses,
   (in_domain (fst c), kf_overdue (fst c), kf_inflight (fst c), lapse_premise (fst c), kf_inflight_obs (fst c) (snd c))).
