(* C12 - the structural invariant is preserved by every handle (continued): timers, gather callbacks, the user's
   calls and their children. *)
From Coq Require Import List Bool Arith ZArith Lia.
From AUC Require Import Prelude.PyDict C12.Model C12.Spec C12.Frame C12.InvDef C12.InvStep.
Import ListNotations.

Lemma loop_is_rtask pend s t : Inv pend s -> t < ntasks s -> kindof s t = KLoop -> ~ donep s t -> rtask s = Some t.
Proof.
  intros H Ht Hk Hnd. pose proof (iv_census _ _ H t Ht) as C. unfold census in C. rewrite Hk in C.
  destruct C; [assumption|contradiction].
Qed.

(* ---- the timer of the renewal task fires ---------------------------------------------------------------------- *)
Lemma Inv_htimer pend pend' s t w :
  Inv pend s -> t < ntasks s -> pcof s t = PSleep w WPending ->
  (forall c, nchild pend' c = nchild pend c) ->
  Inv pend' (enqueue (set_pc s t (PSleep w WDone)) (HStep t)).
Proof.
  intros H Ht Hpc Hch.
  assert (Hk : kindof s t = KLoop).
  { pose proof (iv_pc _ _ H t Ht) as P. unfold pc_ok in P. rewrite Hpc in P. destruct (kindof s t); try contradiction. reflexivity. }
  assert (Hnd : ~ donep s t) by (unfold is_done; rewrite Hpc; discriminate).
  pose proof (loop_is_rtask _ _ _ H Ht Hk Hnd) as Hrt.
  destruct (iv_sid _ _ H) as (S1 & S2 & S3). destruct (iv_svc _ _ H) as [V1 V2].
  eapply Inv_loop_update with (s := s) (lt := t)
    (k' := mkTask KLoop (PSleep w WDone) (t_must (tasks s t)) (t_waiters (tasks s t)));
    try eassumption; sproj; try assumption; try reflexivity; auto.
  - now rewrite Hk.
  - discriminate.
  - intros h Hh. eapply (iv_wait _ _ H); eauto.
  - intros [D|D]; [contradiction|]. right. unfold doomed in *. sproj. rewrite fupd_eq. cbn. rewrite Hpc in D. tauto.
  - intros r Hr Hq E. destruct (iv_req _ _ H r Hr Hq) as [_ A]. rewrite E, Hpc in A. destruct A.
  - intros r Hr. lia.
  - intros r [].
  - intros p st r X. sproj in X. rewrite fupd_eq in X. discriminate.
  - intros G. destruct (iv_route _ _ H G) as [R1 R2]. split; [|intros p r X; discriminate].
    intros x Hx. destruct (R1 x Hx) as [A|[A|A]]; [now left| |now right; right].
    exfalso. destruct A as (lt' & p & r & A1 & A2 & _). assert (lt' = t) by congruence. subst. congruence.
  - intros r Hr. lia.
  - intros p st r X. discriminate.
Qed.

(* ---- facts about the current call -------------------------------------------------------------------------------- *)
Lemma live_call_is_cur pend s t :
  Inv pend s -> t < ntasks s -> (is_sub_kind (kindof s t) || is_unsub_kind (kindof s t) = true) -> ~ donep s t ->
  calls s <> [] /\ cur s = t.
Proof.
  intros H Ht Hk Hnd. pose proof (iv_census _ _ H t Ht) as C. unfold census in C.
  pose proof (iv_calls _ _ H) as K. unfold calls_ok in K.
  assert (Hin : In t (calls s)).
  { destruct (kindof s t); try discriminate.
    - destruct (calls s); [discriminate|]. cbn in C. injection C as ->. now left.
    - destruct (calls s); [destruct C|]. now right. }
  destruct (calls s) as [|c0 us] eqn:E; [destruct Hin|]. split; [discriminate|].
  destruct K as (_ & _ & _ & Kd & _). destruct (Nat.eq_dec t (cur s)) as [->|X]; [reflexivity|].
  exfalso. apply Hnd. apply Kd; [rewrite <- E in *; exact Hin|exact X].
Qed.

Lemma live_kid_parent pend s t p x :
  Inv pend s -> t < ntasks s -> kindof s t = KOne p x -> ~ donep s t -> p = cur s /\ ~ donep s p /\ calls s <> [].
Proof.
  intros H Ht Hk Hnd. pose proof (iv_census _ _ H t Ht) as C. unfold census in C. rewrite Hk in C.
  destruct C as [[C|[C1 C2]] C3]; [contradiction|]. repeat split; auto. intros E. rewrite E in C3. destruct C3.
Qed.

Lemma not_loop_not_doomed pend s t : Inv pend s -> t < ntasks s -> kindof s t <> KLoop -> ~ doomed s t.
Proof. intros H Ht Hk D. apply Hk. now apply (iv_doom _ _ H). Qed.

(* ---- gather's done callback for one child -------------------------------------------------------------------------- *)
Lemma Inv_hchild pend' rest s p n re :
  Inv (HChild p :: rest) s -> p < ntasks s -> pcof s p = PUnsubGather (S n) re ->
  (forall c, nchild pend' c = nchild rest c) ->
  Inv pend' (match n with O => enqueue (set_pc s p (PUnsubGather n re)) (HStep p) | S _ => set_pc s p (PUnsubGather n re) end).
Proof.
  intros H Hp Hpc Hch.
  pose proof (iv_pc _ _ H p Hp) as P. unfold pc_ok in P. rewrite Hpc in P.
  assert (Hk : is_sub_kind (kindof s p) || is_unsub_kind (kindof s p) = true) by (destruct (kindof s p); try contradiction; reflexivity).
  assert (Hnd : ~ donep s p) by (unfold is_done; rewrite Hpc; discriminate).
  destruct (live_call_is_cur _ _ _ H Hp Hk Hnd) as [Hc Hcur].
  assert (Hnl : kindof s p <> KLoop) by (destruct (kindof s p); try discriminate; contradiction).
  pose proof (not_loop_not_doomed _ _ _ H Hp Hnl) as Hndm.
  destruct (iv_sid _ _ H) as (S1 & S2 & S3). destruct (iv_svc _ _ H) as [V1 V2].
  set (s' := match n with O => _ | S _ => _ end).
  assert (Ts : tasks s' = fupd (tasks s) p (mkTask (kindof s p) (PUnsubGather n re) (t_must (tasks s p)) (t_waiters (tasks s p))))
    by (subst s'; destruct n; reflexivity).
  assert (Same : calls s' = calls s /\ ntasks s' = ntasks s /\ svcs s' = svcs s /\ reqs s' = reqs s /\ nreqs s' = nreqs s /\
                 subs s' = subs s /\ routed s' = routed s /\ rtask s' = rtask s /\ g_inflight s' = g_inflight s)
    by (subst s'; destruct n; repeat split; reflexivity).
  destruct Same as (E1 & E2 & E3 & E4 & E5 & E6 & E7 & E8 & E9).
  assert (Hcur' : cur s' = p) by (unfold cur; rewrite E1; exact Hcur).
  assert (Tp : tasks s' p = mkTask (kindof s p) (PUnsubGather n re) (t_must (tasks s p)) (t_waiters (tasks s p))) by (rewrite Ts; apply fupd_eq).
  assert (Told : forall t, t <> p -> tasks s' t = tasks s t) by (intros t X; rewrite Ts; apply fupd_neq; congruence).
  eapply Inv_update1 with (s := s) (t := p); try eassumption; try reflexivity; try (rewrite ?E4, ?E5, ?E6, ?E7, ?E8; auto; fail).
  - cbn. intros h Hh. eapply (iv_wait _ _ H); eauto.
  - intros D. exfalso. apply Hndm. unfold doomed in *. rewrite Tp in D. cbn in D. rewrite Hpc. tauto.
  - cbn. discriminate.
  - intros r Hr Hq E. exfalso. destruct (iv_req _ _ H r Hr Hq) as [_ A]. rewrite E, Hpc in A. destruct A.
  - intros r Hr. rewrite E5 in Hr. lia.
  - intros r [].
  - intros lt Hlt. rewrite E8 in Hlt. destruct (iv_rtask _ _ H lt Hlt) as [L1 L2].
    assert (lt <> p) by (intros ->; congruence).
    pose proof (iv_pass _ _ H lt Hlt) as Q. unfold pass_ok in *. rewrite Told by assumption. rewrite E3, E6, E7.
    intros p0 st r Hq. destruct (Q p0 st r Hq) as (Q1 & Q2 & Q3 & Q4 & Q5). repeat split; try assumption; try tauto.
    intros ND. apply Q4. intros D. apply ND. unfold doomed in *. rewrite Told by assumption. now rewrite E4.
  - intros G. rewrite E9 in G. destruct (iv_route _ _ H G) as [R1 R2]. rewrite E6, E7, E8. split.
    + intros x Hx. destruct (R1 x Hx) as [A|[A|A]]; [now left|right; left|right; right].
      * destruct A as (lt & p0 & r & A1 & A2 & A3). exists lt, p0, r. rewrite E8. destruct (iv_rtask _ _ H lt A1).
        assert (lt <> p) by (intros ->; congruence). rewrite Told by assumption. auto.
      * unfold unsub_pending in *. rewrite Hcur', E2. rewrite Hcur in A. destruct A as [(sids & lt & re' & A1 & _)|(t & A1 & A2 & A3)]; [congruence|].
        right. exists t. assert (t <> p) by (intros ->; congruence). rewrite Told by assumption. auto.
    + intros lt p0 r Hlt Hq D. destruct (iv_rtask _ _ H lt Hlt). assert (lt <> p) by (intros ->; congruence).
      rewrite Told in Hq by assumption. eapply R2; eauto. unfold doomed in *. rewrite Told in D by assumption. now rewrite E4 in D.
  - (* phase *) pose proof (iv_phase _ _ H) as Ph. unfold phase_ok in *. rewrite E1. destruct (calls s); [exact I|]. cbv zeta in *.
    rewrite Hcur', Tp. rewrite Hcur, Hpc in Ph. cbn [t_kind t_pc]. rewrite E6, E8, E9.
    destruct (kindof s p); destruct re; try contradiction; exact Ph.
  - (* count *) destruct (iv_count _ _ H) as [C1 C2]. split.
    + intros c Hc'. rewrite Hch in Hc'. rewrite E2. apply C1. rewrite nchild_cons. lia.
    + intros _ _. rewrite Hcur', Tp. cbn [t_pc]. specialize (C2 Hc). rewrite Hcur in C2. specialize (C2 Hnd). rewrite Hpc in C2.
      rewrite nchild_cons in C2. destruct (handle_eq_dec (HChild p) (HChild p)); [|congruence]. rewrite Hch.
      rewrite (nlive_ext s s'); [lia|exact E2|]. intros t Ht. unfold live_kid.
      destruct (Nat.eq_dec t p) as [->|X]; [|now rewrite Told].
      rewrite Tp. unfold is_kid. cbn [t_kind]. destruct (kindof s p); try reflexivity; contradiction.
Qed.

(* ---- the children of a gather ------------------------------------------------------------------------------------- *)
Lemma kid_context pend s t p x :
  Inv pend s -> t < ntasks s -> kindof s t = KOne p x -> ~ donep s t ->
  exists n re, pcof s p = PUnsubGather n re /\ subs s = [] /\ rtask s = None /\ nlive s p + nchild pend p <= n /\
               cur s = p /\ calls s <> [] /\ p < ntasks s /\ p <> t.
Proof.
  intros H Ht Hk Hnd. destruct (live_kid_parent _ _ _ _ _ H Ht Hk Hnd) as (Hp & Hpd & Hc).
  destruct (iv_count _ _ H) as [_ C2]. specialize (C2 Hc). rewrite <- Hp in C2. specialize (C2 Hpd).
  assert (Hin : In p (calls s)) by (rewrite Hp; now apply cur_in).
  assert (Hpn : p < ntasks s).
  { pose proof (iv_calls _ _ H) as K. unfold calls_ok in K. destruct (calls s); [congruence|]. destruct K as (_ & _ & X & _). now apply X. }
  assert (Hpt : p <> t) by (intros ->; destruct (call_kind s t (iv_calls _ _ H) Hin) as [_ X]; now destruct (X t x)).
  destruct (pcof s p) as [| | | | |n re| |] eqn:Epc;
    try (exfalso; destruct C2 as [C2 _]; specialize (C2 t Ht); unfold is_kid in C2; rewrite Hk, Nat.eqb_refl in C2; discriminate).
  exists n, re. pose proof (iv_phase _ _ H) as Ph. unfold phase_ok in Ph. destruct (calls s) eqn:Ec; [congruence|]. cbv zeta in Ph.
  rewrite <- Hp, Epc in Ph. rewrite <- Ec in *.
  destruct (call_kind s p (iv_calls _ _ H) Hin) as [K1 K2].
  destruct (kindof s p); destruct re; try contradiction; try (now destruct (K2 parent x0)); repeat split; auto; tauto.
Qed.

Lemma finish_kid s t p x st :
  kindof s t = KOne p x ->
  finish s t st = enqueue (with_ready (with_tasks s (fupd (tasks s) t (mkTask (KOne p x) (PDone st) false [])) (ntasks s))
                                      (ready s ++ t_waiters (tasks s t))) (HChild p).
Proof. intros H. unfold finish. rewrite fold_enqueue, H. reflexivity. Qed.

(* a child ends: its request was answered, or its SID was not routed *)
Lemma Inv_kid_finish pend pend' s t p x :
  Inv pend s -> t < ntasks s -> kindof s t = KOne p x -> ~ donep s t ->
  (forall r, awaits (pcof s t) r -> q_state (reqs s r) <> QPending) ->
  (pcof s t = PStart -> ~ In x (dkeys (routed s))) ->
  (forall c, nchild pend' c = nchild pend c + (if Nat.eqb c p then 1 else 0)) ->
  Inv pend' (finish s t (SRet None)).
Proof.
  intros H Ht Hk Hnd Hnp Hnr Hch. rewrite (finish_kid _ _ _ _ _ Hk).
  destruct (kid_context _ _ _ _ _ H Ht Hk Hnd) as (n & re & Epc & Esubs & Ert & Hcnt & Hcur & Hc & Hpn & Hpt).
  destruct (iv_sid _ _ H) as (S1 & S2 & S3). destruct (iv_svc _ _ H) as [V1 V2].
  set (s' := enqueue _ _).
  assert (Told : forall t', t' <> t -> tasks s' t' = tasks s t') by (intros t' X; subst s'; sproj; apply fupd_neq; congruence).
  assert (Tt : tasks s' t = mkTask (KOne p x) (PDone (SRet None)) false []) by (subst s'; sproj; apply fupd_eq).
  assert (Hcur' : cur s' = p) by exact Hcur.
  eapply Inv_update1 with (s := s) (t := t) (k' := mkTask (KOne p x) (PDone (SRet None)) false []);
    try eassumption; try reflexivity; auto.
  - intros h [].
  - intros D. exfalso. unfold doomed in D. rewrite Tt in D. cbn in D. intuition discriminate.
  - intros _ _ t' x' Ht' Hk'. exfalso. pose proof (iv_census _ _ H t' Ht') as C. unfold census in C. rewrite Hk' in C.
    destruct C as [_ C]. destruct (call_kind s t (iv_calls _ _ H) C) as [_ X]. now destruct (X p x).
  - intros r Hr Hq E. exfalso. destruct (iv_req _ _ H r Hr Hq) as [_ A]. rewrite E in A. now apply (Hnp r).
  - intros r Hr. subst s'. sproj in Hr. lia.
  - intros r [].
  - intros lt Hlt. subst s'. sproj in Hlt. congruence.
  - intros G. split; [|intros lt p0 r Hlt; subst s'; sproj in Hlt; congruence].
    destruct (iv_route _ _ H G) as [R1 _]. intros y Hy. right; right.
    destruct (R1 y Hy) as [A|[A|A]].
    + rewrite Esubs in A. destruct A.
    + destruct A as (lt & ? & ? & A & _). congruence.
    + unfold unsub_pending in *. rewrite Hcur', Hcur in *. destruct A as [(sids & lt & re' & A1 & _)|(t' & A1 & A2 & A3)]; [congruence|].
      right. exists t'. assert (t' <> t).
      { intros ->. rewrite Hk in A2. injection A2 as <-. apply (Hnr A3). exact Hy. }
      rewrite Told by assumption. auto.
  - (* phase *) pose proof (iv_phase _ _ H) as Ph. unfold phase_ok in *. change (calls s') with (calls s).
    destruct (calls s); [exact I|]. cbv zeta in *. rewrite Hcur', Told by exact Hpt. rewrite Hcur in Ph. rewrite Epc in *.
    destruct (kindof s p); destruct re; exact Ph.
  - (* count *) destruct (iv_count _ _ H) as [C1 C2]. split.
    + intros c Hc'. rewrite Hch in Hc'. change (ntasks s') with (ntasks s).
      destruct (Nat.eq_dec c p) as [E|X]; [subst c; exact Hpn|]. apply C1. rewrite (proj2 (Nat.eqb_neq c p) X) in Hc'. lia.
    + intros _ _. rewrite Hcur', Told by exact Hpt. rewrite Epc, Hch, Nat.eqb_refl.
      assert (L : nlive s p = S (nlive s' p)).
      { apply nlive_finish with (t0 := t); auto.
        - unfold live_kid, is_kid. rewrite Hk, Nat.eqb_refl. cbn. destruct (is_done (tasks s t)); [contradiction Hnd; reflexivity|reflexivity].
        - unfold live_kid. rewrite Tt. cbn. apply andb_false_r.
        - intros t' X. unfold live_kid. now rewrite Told. }
      lia.
  - rewrite Hk. discriminate.
Qed.

(* a child removes its SID from the registry and sends UNSUBSCRIBE *)
Lemma Inv_kid_send pend pend' s t p x v :
  Inv pend s -> t < ntasks s -> kindof s t = KOne p x -> pcof s t = PStart ->
  dget Nat.eqb (routed s) x = Some v ->
  (forall c, nchild pend' c = nchild pend c) ->
  Inv pend' (set_pc (issue (with_routed s (ddel Nat.eqb (routed s) x)) t QUnsub v (Some x)) t (POneReq (nreqs s))).
Proof.
  intros H Ht Hk Hpc Hv Hch.
  assert (Hnd : ~ donep s t) by (unfold is_done; rewrite Hpc; discriminate).
  destruct (kid_context _ _ _ _ _ H Ht Hk Hnd) as (n & re & Epc & Esubs & Ert & Hcnt & Hcur & Hc & Hpn & Hpt).
  destruct (iv_sid _ _ H) as (S1 & S2 & S3). destruct (iv_svc _ _ H) as [V1 V2].
  assert (Hnl : kindof s t <> KLoop) by (rewrite Hk; discriminate).
  pose proof (not_doomed_must _ _ (not_loop_not_doomed _ _ _ H Ht Hnl)) as Hm.
  set (s' := set_pc _ _ _).
  assert (Told : forall t', t' <> t -> tasks s' t' = tasks s t') by (intros t' X; subst s'; unfold issue; sproj; apply fupd_neq; congruence).
  assert (Tt : tasks s' t = mkTask (KOne p x) (POneReq (nreqs s)) false (t_waiters (tasks s t))).
  { subst s'. unfold issue. sproj. rewrite fupd_eq, Hk, Hm. reflexivity. }
  assert (Hcur' : cur s' = p) by exact Hcur.
  eapply Inv_update1 with (s := s) (t := t) (k' := mkTask (KOne p x) (POneReq (nreqs s)) false (t_waiters (tasks s t)));
    try eassumption; try reflexivity; auto.
  - subst s'. unfold issue. sproj. now rewrite Hk, Hm.
  - intros h Hh. cbn in Hh. exact (iv_wait _ _ H t Ht h Hh).
  - intros D. exfalso. unfold doomed in D. rewrite Tt in D. cbn in D. subst s'. unfold issue in D. sproj in D. rewrite fupd_eq in D.
    cbn in D. intuition discriminate.
  - cbn. discriminate.
  - subst s'. unfold issue. sproj. lia.
  - intros r Hr. subst s'. unfold issue. sproj. apply fupd_neq. lia.
  - intros r Hr Hq E. exfalso. destruct (iv_req _ _ H r Hr Hq) as [_ A]. rewrite E, Hpc in A. destruct A.
  - intros r Hr. subst s'. unfold issue in *. sproj in Hr. sproj. assert (r = nreqs s) by lia. subst r. rewrite fupd_eq. cbn.
    split; [reflexivity|]. split; [reflexivity|]. split; [eapply V1; apply ndget_in; exact Hv|]. unfold is_loop. now rewrite Hk.
  - intros r Hr. cbn in Hr. subst s'. unfold issue. sproj. lia.
  - subst s'. unfold issue. sproj. rewrite Esubs. repeat split; [constructor|now apply nnd_del|intros y []].
  - intros y w Hin. subst s'. unfold issue in Hin. sproj in Hin. apply In_ddel_inv in Hin; [|assumption]. eapply V1; eauto.
  - intros lt Hlt. subst s'. unfold issue in Hlt. sproj in Hlt. congruence.
  - intros G. split; [|intros lt p0 r Hlt; subst s'; unfold issue in Hlt; sproj in Hlt; congruence].
    destruct (iv_route _ _ H G) as [R1 _]. intros y Hy. right; right.
    assert (Hy' : y <> x /\ In y (dkeys (routed s))) by (subst s'; unfold issue in Hy; sproj in Hy; apply nin_del in Hy; assumption).
    destruct Hy' as [Hyx Hy'].
    destruct (R1 y Hy') as [A|[A|A]].
    + rewrite Esubs in A. destruct A.
    + destruct A as (lt & ? & ? & A & _). congruence.
    + unfold unsub_pending in *. rewrite Hcur', Hcur in *. destruct A as [(sids & lt & re' & A1 & _)|(t' & A1 & A2 & A3)]; [congruence|].
      right. exists t'. assert (t' <> t) by (intros ->; rewrite Hk in A2; congruence).
      rewrite Told by assumption. auto.
  - (* phase *) pose proof (iv_phase _ _ H) as Ph. unfold phase_ok in *. change (calls s') with (calls s).
    destruct (calls s); [exact I|]. cbv zeta in *. rewrite Hcur', Told by exact Hpt. rewrite Hcur in Ph. rewrite Epc in *.
    destruct (kindof s p); destruct re; exact Ph.
  - (* count *) eapply count_ok_ext with (pend := pend); [exact Hch|]. destruct (iv_count _ _ H) as [C1 C2]. split; [exact C1|].
    intros _ _. rewrite Hcur', Told by exact Hpt. rewrite Epc.
    rewrite (nlive_ext s s'); [exact Hcnt|reflexivity|]. intros t' Ht'. unfold live_kid.
    destruct (Nat.eq_dec t' t) as [->|X]; [|now rewrite Told].
    rewrite Tt. unfold is_kid, is_done. rewrite Hk, Hpc. reflexivity.
Qed.

(* ---- the subscribe call ---------------------------------------------------------------------------------------------- *)
Lemma sorted_lt_NoDup l : sorted_lt l -> NoDup l.
Proof.
  induction l as [|x l IH]; intros H; [constructor|]. destruct H as [H1 H2]. constructor; [|auto].
  intros Hin. specialize (H1 x Hin). lia.
Qed.
Lemma sorted_lt_snoc l y : sorted_lt l -> (forall k, In k l -> k < y) -> sorted_lt (l ++ [y]).
Proof.
  induction l as [|x l IH]; intros H Hy; cbn; [split; [intros z []|exact I]|].
  destruct H as [H1 H2]. split.
  - intros z Hz. apply in_app_iff in Hz. destruct Hz as [Hz|[<-|[]]]; [now apply H1|apply Hy; now left].
  - apply IH; [exact H2|]. intros k Hk. apply Hy. now right.
Qed.

Lemma interesting_from_in i l v : In v (interesting_from i l) -> i <= v /\ nth (v - i) l false = true.
Proof.
  revert i. induction l as [|b l IH]; intros i H; cbn in H; [destruct H|].
  destruct b.
  - destruct H as [<-|H]; [split; [lia|]; now rewrite Nat.sub_diag|].
    apply IH in H. destruct H as [H1 H2]. split; [lia|]. replace (v - i) with (S (v - S i)) by lia. exact H2.
  - apply IH in H. destruct H as [H1 H2]. split; [lia|]. replace (v - i) with (S (v - S i)) by lia. exact H2.
Qed.
Lemma interesting_in l v : In v (interesting l) -> svc_interesting l v = true.
Proof. intros H. apply interesting_from_in in H. destruct H as [_ H]. now rewrite Nat.sub_0_r in H. Qed.

Lemma only_task pend s : Inv pend s -> ntasks s = 1 -> calls s <> [] -> calls s = [0] /\ cur s = 0.
Proof.
  intros H Hn Hc. pose proof (iv_calls _ _ H) as K. unfold calls_ok in K. destruct (calls s) as [|c0 us] eqn:E; [congruence|].
  destruct K as (_ & _ & Klt & _ & Knd).
  assert (c0 = 0) by (specialize (Klt c0 (or_introl eq_refl)); lia). subst c0.
  destruct us as [|u us]; [split; [reflexivity|unfold cur; now rewrite E]|].
  exfalso. assert (u = 0) by (specialize (Klt u (or_intror (or_introl eq_refl))); lia). subst u.
  inversion Knd as [|? ? X _]. apply X. now left.
Qed.

Lemma In_map_snd_in {A B} (l : list (A * B)) x v : In (x, v) l -> In v (map snd l).
Proof. intros H. apply in_map_iff. exists (x, v). auto. Qed.

(* async_subscribe_services sends the SUBSCRIBE for the next service *)
Lemma Inv_sub_issue pend pend' s b a now0 v rest :
  Inv pend s -> ntasks s = 1 -> calls s <> [] -> kindof s 0 = KSub a -> ~ donep s 0 ->
  (forall n re, pcof s 0 <> PUnsubGather n re) ->
  (forall r, r < nreqs s -> q_state (reqs s r) <> QPending) ->
  tasks b = tasks s -> ntasks b = 1 -> calls b = calls s -> svcs b = svcs s -> reqs b = reqs s -> nreqs b = nreqs s ->
  rtask b = None -> g_inflight b = false ->
  map fst (subs b) = map fst (routed b) -> sorted_lt (map fst (routed b)) -> (forall k, In k (dkeys (routed b)) -> k < nsid b) ->
  map snd (routed b) ++ v :: rest = interesting (svcs s) ->
  (forall c, nchild pend' c = nchild pend c) ->
  Inv pend' (set_pc (issue b 0 QSub v None) 0 (PSubReq now0 rest v (nreqs b))).
Proof.
  intros H Hn Hc Hk Hnd Hng Hnp Bt Bn Bc Bs Br Bnr Brt Bg Bfst Bsort Bns Beq Hch.
  destruct (only_task _ _ H Hn Hc) as [Ecalls Hcur].
  assert (Hnl : kindof s 0 <> KLoop) by (rewrite Hk; discriminate).
  assert (H0 : 0 < ntasks s) by lia.
  pose proof (not_doomed_must _ _ (not_loop_not_doomed _ _ _ H H0 Hnl)) as Hm.
  set (s' := set_pc _ _ _).
  assert (T0 : tasks s' 0 = mkTask (KSub a) (PSubReq now0 rest v (nreqs s)) false (t_waiters (tasks s 0))).
  { subst s'. unfold issue. sproj. rewrite fupd_eq, Bt, Hk, Hm, Bnr. reflexivity. }
  assert (Hcur' : cur s' = 0) by (unfold cur; subst s'; unfold issue; sproj; rewrite Bc; exact Hcur).
  assert (Hvi : forall w, In w (map snd (routed b)) \/ w = v -> svc_interesting (svcs s) w = true).
  { intros w Hw. apply interesting_in. rewrite <- Beq. apply in_app_iff. destruct Hw as [Hw| ->]; [now left|right; now left]. }
  eapply Inv_update1 with (s := s) (t := 0) (k' := mkTask (KSub a) (PSubReq now0 rest v (nreqs s)) false (t_waiters (tasks s 0)));
    try eassumption; try reflexivity; auto.
  - subst s'. unfold issue. sproj. now rewrite Bn.
  - subst s'. unfold issue. sproj. now rewrite Bt, Hk, Hm, Bnr.
  - intros h Hh. cbn in Hh. exact (iv_wait _ _ H 0 H0 h Hh).
  - intros D. exfalso. unfold doomed in D. rewrite T0 in D. cbn in D. subst s'. unfold issue in D. sproj in D. rewrite Bnr, fupd_eq in D.
    cbn in D. intuition discriminate.
  - cbn. discriminate.
  - right. split; [exact Brt|]. intros lt Hlt. destruct (iv_rtask _ _ H lt Hlt) as [L1 L2].
    assert (lt = 0) by lia. subst. congruence.
  - subst s'. unfold issue. sproj. lia.
  - intros r Hr. subst s'. unfold issue. sproj. rewrite Br, Bnr. apply fupd_neq. lia.
  - intros r Hr Hq. now destruct (Hnp r Hr).
  - intros r Hr. subst s'. unfold issue in *. sproj in Hr. sproj. rewrite Bnr in *. assert (r = nreqs s) by lia. subst r. rewrite fupd_eq. cbn.
    split; [reflexivity|]. split; [reflexivity|]. split; [apply Hvi; now right|]. unfold is_loop. now rewrite Bt, Hk.
  - intros r Hr. cbn in Hr. subst s'. unfold issue. sproj. lia.
  - subst s'. unfold issue. sproj. unfold dkeys. rewrite Bfst. pose proof (sorted_lt_NoDup _ Bsort) as ND.
    repeat split; auto. intros y Hy. exact Hy.
  - intros y w Hin. subst s'. unfold issue in Hin. sproj in Hin. apply Hvi. left. eapply In_map_snd_in; eauto.
  - intros lt Hlt. subst s'. unfold issue in Hlt. sproj in Hlt. congruence.
  - intros G. split; [|intros lt p0 r Hlt; subst s'; unfold issue in Hlt; sproj in Hlt; congruence].
    intros y Hy. left. subst s'. unfold issue in *. sproj in Hy. sproj. unfold dkeys in *. now rewrite Bfst.
  - (* phase *) unfold phase_ok. replace (calls s') with (calls s) by (subst s'; unfold issue; sproj; now rewrite Bc).
    destruct (calls s); [congruence|]. cbv zeta. rewrite Hcur', T0. cbn [t_kind t_pc].
    subst s'. unfold issue, resp_fresh. sproj. rewrite Bnr, fupd_eq. cbn. repeat split; auto. now rewrite Bs.
  - (* count *) destruct (iv_count _ _ H) as [C1 C2]. split.
    + intros c Hc'. rewrite Hch in Hc'. replace (ntasks s') with (ntasks s) by (subst s'; unfold issue; sproj; lia). now apply C1.
    + intros _ _. rewrite Hcur', T0. cbn [t_pc]. specialize (C2 Hc). rewrite Hcur in C2. specialize (C2 Hnd).
      assert (Z : nchild pend 0 = 0).
      { destruct (pcof s 0) eqn:E; try (destruct C2 as [_ C2]; exact C2). now destruct (Hng nleft re). }
      split; [|now rewrite Hch].
      intros t Ht. replace (ntasks s') with 1 in Ht by (subst s'; unfold issue; sproj; lia). assert (t = 0) by lia. subst t.
      rewrite T0. reflexivity.
Qed.

(* async_subscribe_services returns normally, without automatic renewal (or with nothing to renew) *)
Lemma Inv_sub_return_manual pend pend' s b a val :
  Inv pend s -> ntasks s = 1 -> calls s <> [] -> kindof s 0 = KSub a -> ~ donep s 0 ->
  (forall r, r < nreqs s -> q_state (reqs s r) <> QPending) ->
  tasks b = tasks s -> ntasks b = 1 -> calls b = calls s -> svcs b = svcs s -> reqs b = reqs s -> nreqs b = nreqs s ->
  rtask b = None -> g_inflight b = false ->
  map fst (subs b) = map fst (routed b) -> sorted_lt (map fst (routed b)) ->
  map snd (routed b) = interesting (svcs s) ->
  (forall c, nchild pend' c = nchild pend c) ->
  Inv pend' (with_ready (with_tasks b (fupd (tasks b) 0 (mkTask (KSub a) (PDone (SRet val)) false [])) (ntasks b))
                        (ready b ++ t_waiters (tasks b 0))).
Proof.
  intros H Hn Hc Hk Hnd Hnp Bt Bn Bc Bs Br Bnr Brt Bg Bfst Bsort Beq Hch.
  destruct (only_task _ _ H Hn Hc) as [Ecalls Hcur].
  assert (H0 : 0 < ntasks s) by lia.
  set (s' := with_ready _ _).
  assert (T0 : tasks s' 0 = mkTask (KSub a) (PDone (SRet val)) false []) by (subst s'; sproj; apply fupd_eq).
  assert (Hcur' : cur s' = 0) by (unfold cur; subst s'; sproj; rewrite Bc; exact Hcur).
  assert (Hvi : forall w, In w (map snd (routed b)) -> svc_interesting (svcs s) w = true).
  { intros w Hw. apply interesting_in. now rewrite <- Beq. }
  eapply Inv_update1 with (s := s) (t := 0) (k' := mkTask (KSub a) (PDone (SRet val)) false []);
    try eassumption; try reflexivity; auto.
  - subst s'. sproj. now rewrite Bn.
  - subst s'. sproj. now rewrite Bt.
  - intros h [].
  - intros D. exfalso. unfold doomed in D. rewrite T0 in D. cbn in D. intuition discriminate.
  - intros _ _ t' x Ht'. assert (t' = 0) by lia. subst t'. rewrite Hk. discriminate.
  - right. split; [exact Brt|]. intros lt Hlt. destruct (iv_rtask _ _ H lt Hlt) as [L1 L2].
    assert (lt = 0) by lia. subst. congruence.
  - subst s'. sproj. lia.
  - intros r Hr. subst s'. sproj. now rewrite Br.
  - intros r Hr Hq. now destruct (Hnp r Hr).
  - intros r Hr. subst s'. sproj in Hr. lia.
  - intros r [].
  - subst s'. sproj. unfold dkeys. rewrite Bfst. pose proof (sorted_lt_NoDup _ Bsort) as ND.
    repeat split; auto. intros y Hy. exact Hy.
  - intros y w Hin. subst s'. sproj in Hin. apply Hvi. eapply In_map_snd_in; eauto.
  - intros lt Hlt. subst s'. sproj in Hlt. congruence.
  - intros G. split; [|intros lt p0 r Hlt; subst s'; sproj in Hlt; congruence].
    intros y Hy. left. subst s'. sproj in Hy. sproj. unfold dkeys in *. now rewrite Bfst.
  - (* phase *) unfold phase_ok. replace (calls s') with (calls s) by (subst s'; sproj; now rewrite Bc).
    destruct (calls s); [congruence|]. cbv zeta. rewrite Hcur', T0. cbn [t_kind t_pc].
    replace (rtask s') with (@None tid) by (subst s'; sproj; now rewrite Brt). split.
    + unfold all_subscribed. subst s'. sproj. rewrite Bs. auto.
    + intros t' Ht'. replace (ntasks s') with 1 in Ht' by (subst s'; sproj; lia). assert (t' = 0) by lia. subst t'. now rewrite T0.
  - (* count *) destruct (iv_count _ _ H) as [C1 C2]. split.
    + intros c Hc'. rewrite Hch in Hc'. replace (ntasks s') with (ntasks s) by (subst s'; sproj; lia). now apply C1.
    + intros _ X. exfalso. apply X. rewrite Hcur', T0. reflexivity.
  - rewrite Hk. discriminate.
Qed.

(* async_subscribe_services returns normally and has created the renewal task *)
Definition auto_state (b : state) (a : bool) : state :=
  with_ready (with_tasks (with_rtask b (Some 1))
                         (fupd (fupd (tasks b) 1 (mkTask KLoop PStart false [])) 0 (mkTask (KSub a) (PDone (SRet None)) false [])) 2)
             ((ready b ++ [HStep 1]) ++ t_waiters (tasks b 0)).

Lemma Inv_sub_return_auto pend pend' s b a :
  Inv pend s -> ntasks s = 1 -> calls s <> [] -> kindof s 0 = KSub a -> ~ donep s 0 ->
  (forall r, r < nreqs s -> q_state (reqs s r) <> QPending) ->
  tasks b = tasks s -> ntasks b = 1 -> calls b = calls s -> svcs b = svcs s -> reqs b = reqs s -> nreqs b = nreqs s ->
  rtask b = None -> g_inflight b = false ->
  map fst (subs b) = map fst (routed b) -> sorted_lt (map fst (routed b)) ->
  map snd (routed b) = interesting (svcs s) ->
  (forall c, nchild pend' c = nchild pend c) ->
  Inv pend' (auto_state b a).
Proof.
  intros H Hn Hc Hk Hnd Hnp Bt Bn Bc Bs Br Bnr Brt Bg Bfst Bsort Beq Hch.
  destruct (only_task _ _ H Hn Hc) as [Ecalls Hcur].
  set (s' := auto_state b a).
  assert (T0 : tasks s' 0 = mkTask (KSub a) (PDone (SRet None)) false []) by reflexivity.
  assert (T1 : tasks s' 1 = mkTask KLoop PStart false []) by reflexivity.
  assert (Tb : forall t, 2 <= t -> tasks s' t = dummy_task).
  { intros t Ht. subst s'. unfold auto_state. sproj. rewrite !fupd_neq by lia. rewrite Bt. apply (iv_beyond _ _ H). lia. }
  assert (Cs : calls s' = [0]) by (subst s'; unfold auto_state; sproj; congruence).
  assert (Hcur' : cur s' = 0) by (unfold cur; now rewrite Cs).
  assert (Two : forall t, t < 2 -> t = 0 \/ t = 1) by (intros; lia).
  assert (Hvi : forall w, In w (map snd (routed b)) -> svc_interesting (svcs s) w = true).
  { intros w Hw. apply interesting_in. now rewrite <- Beq. }
  assert (NP : forall r, r < nreqs s' -> q_state (reqs s' r) <> QPending).
  { intros r Hr. subst s'. unfold auto_state in *. sproj in Hr. sproj. rewrite Br. apply Hnp. lia. }
  constructor.
  - unfold calls_ok. rewrite Cs. rewrite T0. cbn [t_kind is_sub_kind]. split; [reflexivity|]. split; [intros u []|].
    split; [intros t [<-|[]]; subst s'; unfold auto_state; sproj; lia|]. split; [intros t [<-|[]] X; congruence|].
    repeat constructor. auto.
  - intros t Ht. destruct (Two t Ht) as [-> | ->]; [rewrite T0|rewrite T1]; exact I.
  - intros t Ht D. exfalso. unfold doomed in D. destruct (Two t Ht) as [-> | ->]; [rewrite T0 in D|rewrite T1 in D]; cbn in D; intuition discriminate.
  - intros t Ht. unfold census. destruct (Two t Ht) as [-> | ->]; [rewrite T0|rewrite T1]; cbn [t_kind].
    + now rewrite Cs.
    + left. reflexivity.
  - intros lt Hlt. assert (lt = 1) by (subst s'; unfold auto_state in Hlt; sproj in Hlt; congruence). subst lt.
    split; [subst s'; unfold auto_state; sproj; lia|now rewrite T1].
  - intros r Hr Hq. now destruct (NP r Hr).
  - intros t Ht r Hr. destruct (Two t Ht) as [-> | ->]; [rewrite T0 in Hr|rewrite T1 in Hr]; destruct Hr.
  - intros t Ht r Hr. destruct (Two t Ht) as [-> | ->]; [rewrite T0 in Hr|rewrite T1 in Hr]; destruct Hr.
  - intros r Hr. assert (Hr0 : r < nreqs s) by (subst s'; unfold auto_state in Hr; sproj in Hr; lia).
    destruct (iv_bg _ _ H r Hr0) as [A B]. assert (E0 : q_task (reqs s r) = 0) by lia.
    replace (reqs s' r) with (reqs s r) by (subst s'; unfold auto_state; sproj; now rewrite Br).
    rewrite E0, T0 in *. split; [|subst s'; unfold auto_state; sproj; lia]. rewrite A. unfold is_loop. now rewrite Hk.
  - subst s'. unfold auto_state. sproj. unfold dkeys. rewrite Bfst. pose proof (sorted_lt_NoDup _ Bsort) as ND.
    repeat split; auto. intros y Hy. exact Hy.
  - subst s'. unfold auto_state. sproj. rewrite Bs. split.
    + intros y w Hin. apply Hvi. eapply In_map_snd_in; eauto.
    + intros r Hr. rewrite Br. apply (iv_svc _ _ H). lia.
  - intros lt Hlt p st r Hpc. assert (lt = 1) by (subst s'; unfold auto_state in Hlt; sproj in Hlt; congruence). subst lt.
    rewrite T1 in Hpc. discriminate.
  - intros lt p st r Hlt Hpc. assert (lt = 1) by (subst s'; unfold auto_state in Hlt; sproj in Hlt; congruence). subst lt.
    rewrite T1 in Hpc. discriminate.
  - intros G. split.
    + intros y Hy. left. subst s'. unfold auto_state in *. sproj in Hy. sproj. unfold dkeys in *. now rewrite Bfst.
    + intros lt p r Hlt Hpc. assert (lt = 1) by (subst s'; unfold auto_state in Hlt; sproj in Hlt; congruence). subst lt.
      rewrite T1 in Hpc. discriminate.
  - unfold phase_ok. rewrite Cs. cbv zeta. rewrite Hcur', T0. cbn [t_kind t_pc].
    replace (rtask s') with (Some 1) by reflexivity. intros _. unfold all_subscribed. subst s'. unfold auto_state. sproj. rewrite Bs. auto.
  - intros t Ht h Hh. destruct (Two t Ht) as [-> | ->]; [rewrite T0 in Hh|rewrite T1 in Hh]; destruct Hh.
  - exact Tb.
  - destruct (iv_count _ _ H) as [C1 C2]. split.
    + intros c Hc'. rewrite Hch in Hc'. specialize (C1 c Hc'). subst s'. unfold auto_state. sproj. lia.
    + intros _ X. exfalso. apply X. rewrite Hcur', T0. reflexivity.
Qed.

(* ---- Task.cancel() on the renewal task --------------------------------------------------------------------------- *)
Lemma cancel_spec s lt :
  ~ donep s lt -> pc_ok (tasks s lt) -> kindof s lt = KLoop ->
  let s' := cancel s lt in
  now s' = now s /\ svcs s' = svcs s /\ subs s' = subs s /\ routed s' = routed s /\ rtask s' = rtask s /\
  ntasks s' = ntasks s /\ calls s' = calls s /\ nreqs s' = nreqs s /\ g_inflight s' = g_inflight s /\ nsid s' = nsid s /\
  (ready s' = ready s \/ ready s' = ready s ++ [HStep lt]) /\
  (forall t, t <> lt -> tasks s' t = tasks s t) /\
  kindof s' lt = KLoop /\ t_waiters (tasks s' lt) = t_waiters (tasks s lt) /\ ~ donep s' lt /\
  (pcof s' lt = pcof s lt \/ exists w, pcof s lt = PSleep w WPending /\ pcof s' lt = PSleep w WCancelled) /\
  doomed s' lt /\
  (forall r, reqs s' r = reqs s r \/
             (awaits (pcof s lt) r /\ q_state (reqs s r) = QPending /\ q_state (reqs s' r) = QCancelled /\
              q_task (reqs s' r) = q_task (reqs s r) /\ q_svc (reqs s' r) = q_svc (reqs s r) /\
              q_bg (reqs s' r) = q_bg (reqs s r) /\ q_kind (reqs s' r) = q_kind (reqs s r))) /\
  (forall r, awaits (pcof s lt) r -> q_state (reqs s r) = QPending -> q_state (reqs s' r) = QCancelled).
Proof.
  intros Hnd Hpc Hk. cbv zeta. unfold cancel. unfold pc_ok in Hpc. rewrite Hk in Hpc.
  destruct (pcof s lt) as [| ? ? ? r|p st r|w [| |]| | |r|st] eqn:Epc; try contradiction.
  - (* PStart *) unfold doomed. sproj. rewrite fupd_eq. cbn. rewrite Hk, Epc.
    repeat split; auto; try (intros t X; apply fupd_neq; congruence); try (unfold is_done; rewrite ?Epc; cbn; discriminate); try (intros r' A Q; cbn in A; try contradiction; subst; congruence).
  - (* PPass *) destruct (q_state (reqs s r)) eqn:Eq.
    + unfold doomed. sproj. rewrite Epc. sproj. rewrite fupd_eq. cbn.
      repeat split; auto; try (unfold is_done; rewrite ?Epc; cbn; discriminate); try (intros r' A Q; cbn in A; try contradiction; subst; congruence).
      * intros r'. unfold fupd. destruct (Nat.eqb_spec r r') as [<-|X]; [right; cbn; repeat split; auto|now left].
      * intros r' A _. cbn in A. subst r'. now rewrite fupd_eq.
    + unfold doomed. sproj. rewrite fupd_eq. cbn. rewrite Hk, Epc.
      repeat split; auto; try (intros t X; apply fupd_neq; congruence); try (unfold is_done; rewrite ?Epc; cbn; discriminate); try (intros r' A Q; cbn in A; try contradiction; subst; congruence).
    + unfold doomed. sproj. rewrite fupd_eq. cbn. rewrite Hk, Epc.
      repeat split; auto; try (intros t X; apply fupd_neq; congruence); try (unfold is_done; rewrite ?Epc; cbn; discriminate); try (intros r' A Q; cbn in A; try contradiction; subst; congruence).
  - (* sleeping *) unfold doomed. sproj. rewrite fupd_eq. cbn. rewrite Hk.
    repeat split; auto; try (intros t X; apply fupd_neq; congruence); try discriminate; try (intros r' A Q; cbn in A; contradiction).
    right. exists w. auto.
  - unfold doomed. sproj. rewrite fupd_eq. cbn. rewrite Hk, Epc.
    repeat split; auto; try (intros t X; apply fupd_neq; congruence); try (unfold is_done; rewrite ?Epc; cbn; discriminate); try (intros r' A Q; cbn in A; try contradiction; subst; congruence).
  - unfold doomed. sproj. rewrite fupd_eq. cbn. rewrite Hk, Epc.
    repeat split; auto; try (intros t X; apply fupd_neq; congruence); try (unfold is_done; rewrite ?Epc; cbn; discriminate); try (intros r' A Q; cbn in A; try contradiction; subst; congruence).
  - exfalso. apply Hnd. unfold is_done. now rewrite Epc.
Qed.

(* ---- async_unsubscribe_services cancels the running renewal task and waits for it ----------------------------------- *)
Lemma Inv_unsub_wait pend pend' s t lt :
  Inv pend s -> t < ntasks s -> kindof s t = KUnsub -> pcof s t = PStart -> rtask s = Some lt -> ~ donep s lt ->
  let s3 := cancel (mark_inflight (with_subs s []) lt) lt in
  (forall c, nchild pend' c = nchild pend c) ->
  Inv pend' (set_pc (add_waiter s3 lt (HStep t)) t (PUnsubTask (dkeys (subs s)) lt None)).
Proof.
  intros H Ht Hk Hpc Hrt Hnd s3 Hch.
  destruct (iv_rtask _ _ H lt Hrt) as [Hlt Hkl].
  set (s2 := mark_inflight (with_subs s []) lt) in *.
  assert (Hnd2 : ~ donep s2 lt) by exact Hnd.
  assert (Hpc2 : pc_ok (tasks s2 lt)) by exact (iv_pc _ _ H lt Hlt).
  destruct (cancel_spec s2 lt Hnd2 Hpc2 Hkl) as (_ & C2 & C3 & C4 & C5 & C6 & C7 & C8 & C9 & _ & C11 & C12 & C13 & C14 & C15 & C16 & C17 & C18 & C19).
  fold s3 in C2, C3, C4, C5, C6, C7, C8, C9, C11, C12, C13, C14, C15, C16, C17, C18, C19.
  change (svcs s2) with (svcs s) in *. change (subs s2) with (@nil (sid * Z)) in *. change (routed s2) with (routed s) in *.
  change (rtask s2) with (rtask s) in *. change (ntasks s2) with (ntasks s) in *. change (calls s2) with (calls s) in *.
  change (nreqs s2) with (nreqs s) in *. change (tasks s2) with (tasks s) in *. change (reqs s2) with (reqs s) in *.
  change (ready s2) with (ready s) in *.
  change (g_inflight s2) with (g_inflight s || in_do_resubscribe (tasks s lt)) in C9.
  assert (Hk' : is_sub_kind (kindof s t) || is_unsub_kind (kindof s t) = true) by (rewrite Hk; reflexivity).
  assert (Hndt : ~ donep s t) by (unfold is_done; rewrite Hpc; discriminate).
  destruct (live_call_is_cur _ _ _ H Ht Hk' Hndt) as [Hc Hcur].
  assert (Htl : t <> lt) by (intros ->; congruence).
  assert (Hnl : kindof s t <> KLoop) by (rewrite Hk; discriminate).
  pose proof (not_doomed_must _ _ (not_loop_not_doomed _ _ _ H Ht Hnl)) as Hm.
  set (sids := dkeys (subs s)).
  set (s' := set_pc _ _ _).
  assert (Tt : tasks s' t = mkTask KUnsub (PUnsubTask sids lt None) false (t_waiters (tasks s t))).
  { subst s'. sproj. rewrite fupd_eq, fupd_neq by congruence. rewrite C12 by exact Htl. now rewrite Hk, Hm. }
  assert (Tl : tasks s' lt = mkTask KLoop (pcof s3 lt) (t_must (tasks s3 lt)) (t_waiters (tasks s lt) ++ [HStep t])).
  { subst s'. sproj. rewrite fupd_neq by congruence. rewrite fupd_eq. now rewrite C13, C14. }
  assert (Told : forall t', t' <> t -> t' <> lt -> tasks s' t' = tasks s t').
  { intros t' X Y. subst s'. sproj. rewrite !fupd_neq by congruence. now apply C12. }
  assert (Kind : forall t', kindof s' t' = kindof s t').
  { intros t'. destruct (Nat.eq_dec t' t) as [->|X]; [now rewrite Tt, Hk|]. destruct (Nat.eq_dec t' lt) as [->|Y]; [now rewrite Tl, Hkl|now rewrite Told]. }
  assert (Fields : calls s' = calls s /\ ntasks s' = ntasks s /\ svcs s' = svcs s /\ nreqs s' = nreqs s /\ subs s' = [] /\
                   routed s' = routed s /\ rtask s' = Some lt /\ reqs s' = reqs s3).
  { subst s'. sproj. rewrite C2, C3, C4, C5, C6, C7, C8, Hrt. repeat split; reflexivity. }
  destruct Fields as (F1 & F2 & F3 & F4 & F5 & F6 & F7 & F8).
  assert (Hcur' : cur s' = t) by (unfold cur; rewrite F1; exact Hcur).
  assert (Dl : doomed s' lt).
  { unfold doomed in *. rewrite Tl, F8. cbn [t_must t_pc]. exact C17. }
  assert (Rother : forall t' r, t' < ntasks s -> t' <> lt -> awaits (pcof s t') r -> reqs s3 r = reqs s r).
  { intros t' r Ht' X A. destruct (C18 r) as [E|(B1 & _)]; [exact E|]. exfalso.
    rewrite <- (iv_reqo _ _ H t' Ht' r A) in X. apply X. now apply (iv_reqo _ _ H lt Hlt r). }
  assert (Dold : forall t', t' < ntasks s -> t' <> t -> t' <> lt -> (doomed s' t' <-> doomed s t')).
  { intros t' Ht' X Y. unfold doomed. rewrite (Told t' X Y), F8.
    destruct (pcof s t') as [| ? ? ? r|? ? r|? []| | |r|] eqn:Epc; try tauto;
      (rewrite (Rother t' r Ht' Y); [tauto|rewrite Epc; reflexivity]). }
  destruct (iv_count _ _ H) as [Cn1 Cn2]. specialize (Cn2 Hc). rewrite Hcur, Hpc in Cn2. specialize (Cn2 Hndt). destruct Cn2 as [Nokid Nch].
  destruct (iv_sid _ _ H) as (S1 & S2 & S3). destruct (iv_svc _ _ H) as [V1 V2].
  constructor.
  - (* calls *) pose proof (iv_calls _ _ H) as K. unfold calls_ok in *. rewrite F1, F2. destruct (calls s) as [|c0 us] eqn:Ecalls; [congruence|].
    destruct K as (K0 & Kus & Klt & Kdone & Knd). rewrite Kind. split; [exact K0|].
    split; [intros u Hu; rewrite Kind; now apply Kus|]. split; [exact Klt|]. split; [|exact Knd].
    intros t' Ht' X. rewrite Hcur' in X. assert (t' <> lt) by (intros ->; eapply rtask_not_call; [exact (iv_calls _ _ H)|exact Hkl|now rewrite Ecalls]).
    rewrite Told by assumption. apply Kdone; [exact Ht'|congruence].
  - (* pc *) intros t' Ht'. rewrite F2 in Ht'. destruct (Nat.eq_dec t' t) as [->|X]; [rewrite Tt; exact I|].
    destruct (Nat.eq_dec t' lt) as [->|Y]; [|rewrite Told by assumption; now apply (iv_pc _ _ H)].
    rewrite Tl. unfold pc_ok. cbn [t_kind t_pc]. unfold pc_ok in Hpc2. rewrite Hkl in Hpc2.
    destruct C16 as [E|(w & E1 & E2)]; [rewrite E; destruct (pcof s lt); auto|rewrite E2; exact I].
  - (* doom *) intros t' Ht' D. rewrite F2 in Ht'. rewrite Kind. destruct (Nat.eq_dec t' lt) as [->|Y]; [exact Hkl|].
    destruct (Nat.eq_dec t' t) as [->|X].
    + exfalso. unfold doomed in D. rewrite Tt in D. cbn in D. intuition discriminate.
    + apply (iv_doom _ _ H); [exact Ht'|]. now apply Dold.
  - (* census *) intros t' Ht'. rewrite F2 in Ht'. pose proof (iv_census _ _ H t' Ht') as C. unfold census in *. rewrite Kind, F1, Hcur', F7.
    destruct (kindof s t') eqn:Ek; try exact C.
    + destruct (Nat.eq_dec t' lt) as [->|Y]; [now left|]. destruct C as [C|C]; [congruence|]. right.
      assert (t' <> t) by (intros ->; congruence). now rewrite Told.
    + destruct C as [[C|[Ca Cb]] Cc]; split; try exact Cc.
      * left. assert (t' <> t) by (intros ->; congruence). assert (t' <> lt) by (intros ->; congruence). now rewrite Told.
      * exfalso. specialize (Nokid t' Ht'). unfold is_kid in Nokid. rewrite Ek, Ca, Hcur, Nat.eqb_refl in Nokid. discriminate.
  - (* rtask *) intros lt' Hlt'. rewrite F7 in Hlt'. injection Hlt' as <-. rewrite F2, Kind. auto.
  - (* req *) intros r Hr Hq. rewrite F4 in Hr. rewrite F8 in *. rewrite F2.
    destruct (C18 r) as [E|(B1 & B2 & B3 & _)]; [|congruence]. rewrite E in *.
    destruct (iv_req _ _ H r Hr Hq) as [A B]. split; [exact A|].
    set (o := q_task (reqs s r)) in *.
    assert (o <> t) by (intros E'; rewrite E', Hpc in B; destruct B).
    assert (o <> lt).
    { intros E'. rewrite E' in B. pose proof (C19 r B Hq) as Z. rewrite E in Z. congruence. }
    now rewrite Told.
  - (* reqb *) intros t' Ht' r Hr. rewrite F2 in Ht'. rewrite F4. destruct (Nat.eq_dec t' t) as [->|X]; [rewrite Tt in Hr; destruct Hr|].
    destruct (Nat.eq_dec t' lt) as [->|Y]; [|rewrite Told in Hr by assumption; now apply (iv_reqb _ _ H t' Ht')].
    rewrite Tl in Hr. cbn [t_pc] in Hr. apply (iv_reqb _ _ H lt Hlt).
    destruct C16 as [E|(w & E1 & E2)]; [now rewrite <- E|rewrite E2 in Hr; destruct Hr].
  - (* reqo *) intros t' Ht' r Hr. rewrite F2 in Ht'. rewrite F8. destruct (Nat.eq_dec t' t) as [->|X]; [rewrite Tt in Hr; destruct Hr|].
    destruct (Nat.eq_dec t' lt) as [->|Y].
    + rewrite Tl in Hr. cbn [t_pc] in Hr. assert (A : awaits (pcof s lt) r) by (destruct C16 as [E|(w & E1 & E2)]; [now rewrite <- E|rewrite E2 in Hr; destruct Hr]).
      destruct (C18 r) as [E|(_ & _ & _ & E & _ & _ & _)]; rewrite E; now apply (iv_reqo _ _ H lt Hlt).
    + rewrite Told in Hr by assumption. rewrite (Rother t' r Ht' Y Hr). now apply (iv_reqo _ _ H t' Ht').
  - (* bg *) intros r Hr. rewrite F4 in Hr. rewrite F8, F2. destruct (iv_bg _ _ H r Hr) as [A B].
    destruct (C18 r) as [E|(_ & _ & _ & E1 & _ & E2 & _)].
    + rewrite E. split; [|exact B]. rewrite A. unfold is_loop. now rewrite Kind.
    + rewrite E1, E2. split; [|exact B]. rewrite A. unfold is_loop. now rewrite Kind.
  - (* sid *) rewrite F5, F6. repeat split; [constructor|exact S2|intros y []].
  - (* svc *) rewrite F3, F6, F4, F8. split; [exact V1|]. intros r Hr.
    destruct (C18 r) as [E|(_ & _ & _ & _ & E & _ & _)]; rewrite E; now apply V2.
  - (* pass *) intros lt' Hlt'. rewrite F7 in Hlt'. injection Hlt' as <-. intros p st r Hq.
    rewrite Tl in Hq. cbn [t_pc] in Hq.
    assert (Hq0 : pcof s lt = PPass p st r) by (destruct C16 as [E|(w & E1 & E2)]; [now rewrite <- E|congruence]).
    destruct (iv_pass _ _ H lt Hrt p st r Hq0) as (P1 & P2 & P3 & P4 & P5 & P6 & P7).
    rewrite F5, F6, F3. repeat split; auto. intros ND. now destruct (ND Dl).
  - (* preq *) intros lt' p st r Hlt' Hq. rewrite F7 in Hlt'. injection Hlt' as <-. rewrite Tl in Hq. cbn [t_pc] in Hq.
    assert (Hq0 : pcof s lt = PPass p st r) by (destruct C16 as [E|(w & E1 & E2)]; [now rewrite <- E|congruence]).
    destruct (iv_preq _ _ H lt p st r Hrt Hq0) as [A B]. rewrite F8.
    destruct (C18 r) as [E|(_ & _ & _ & _ & E1 & _ & E2)]; [now rewrite E|now rewrite E1, E2].
  - (* route *) intros G. assert (G' : g_inflight s = false /\ in_do_resubscribe (tasks s lt) = false).
    { subst s'. sproj in G. rewrite C9 in G. now apply orb_false_iff in G. }
    destruct G' as [G1 G2]. destruct (iv_route _ _ H G1) as [R1 R2]. rewrite F5, F6. split.
    + intros x Hx. right; right. left. exists sids, lt, None. rewrite Hcur', Tt. split; [reflexivity|].
      destruct (R1 x Hx) as [A|[A|A]]; [exact A| |].
      * exfalso. destruct A as (lt' & p & r & A1 & A2 & _). assert (lt' = lt) by congruence. subst lt'.
        unfold in_do_resubscribe in G2. rewrite A2 in G2. discriminate.
      * exfalso. unfold unsub_pending in A. rewrite Hcur, Hpc in A. destruct A as [(? & ? & ? & A & _)|(t' & A1 & A2 & A3)]; [discriminate|].
        specialize (Nokid t' A1). unfold is_kid in Nokid. rewrite A2, Nat.eqb_refl in Nokid. discriminate.
    + intros lt' p r Hlt' Hq. rewrite F7 in Hlt'. injection Hlt' as <-. exfalso. rewrite Tl in Hq. cbn [t_pc] in Hq.
      assert (Hq0 : pcof s lt = PPass p StRenew r) by (destruct C16 as [E|(w & E1 & E2)]; [now rewrite <- E|congruence]).
      unfold in_do_resubscribe in G2. rewrite Hq0 in G2. discriminate.
  - (* phase *) pose proof (iv_phase _ _ H) as Ph. pose proof (iv_calls _ _ H) as K. unfold phase_ok, calls_ok in *. rewrite F1.
    destruct (calls s) as [|c0 us] eqn:Ecalls; [congruence|]. cbv zeta in *. rewrite Hcur', Tt. cbn [t_kind t_pc].
    rewrite Hcur, Hk, Hpc in Ph. rewrite F5, F7. repeat split; auto.
    destruct K as (K0 & _). destruct us as [|u1 us'].
    + exfalso. unfold cur in Hcur. rewrite Ecalls in Hcur. cbn in Hcur. subst c0. rewrite Hk in K0. discriminate.
    + destruct us' as [|u2 us'']; [reflexivity|]. exfalso. assert (L : 2 < length (c0 :: u1 :: u2 :: us'')) by (cbn; lia).
      destruct (Ph L) as (_ & X & _). congruence.
  - (* wait *) intros t' Ht' h Hh. rewrite F2 in Ht'. destruct (Nat.eq_dec t' t) as [->|X]; [rewrite Tt in Hh; exact (iv_wait _ _ H t Ht h Hh)|].
    destruct (Nat.eq_dec t' lt) as [->|Y]; [|rewrite Told in Hh by assumption; exact (iv_wait _ _ H t' Ht' h Hh)].
    rewrite Tl in Hh. cbn [t_waiters] in Hh. apply in_app_iff in Hh. destruct Hh as [Hh|[<-|[]]]; [exact (iv_wait _ _ H lt Hlt h Hh)|eauto].
  - (* beyond *) intros t' Ht'. rewrite F2 in Ht'. rewrite Told by lia. now apply (iv_beyond _ _ H).
  - (* count *) split.
    + intros c Hc'. rewrite Hch in Hc'. rewrite F2. now apply Cn1.
    + intros _ _. rewrite Hcur', Tt. cbn [t_pc]. split; [|now rewrite Hch].
      intros t' Ht'. rewrite F2 in Ht'. unfold is_kid. rewrite Kind. exact (Nokid t' Ht').
Qed.
