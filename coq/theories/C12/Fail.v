(* C12 - a failed renewal is reported exactly once through the event callback, in order, and the device is marked
   unavailable exactly when one of the failures was "unreachable" (clause 3 of Spec.v), for every schedule of the domain.

   The spec's own accumulator (which deliveries made a renewal fail) is matched against the model state: while no
   unsubscribe call has started, the expected events are the ones already reported plus the one the renewal task will
   report at its next step (its response has arrived and is a failure); once an unsubscribe has started the renewal
   task is cancelled and reports nothing more. *)
From Coq Require Import List Bool Arith ZArith Lia.
From AUC Require Import Prelude.PyDict C12.Model C12.Spec C12.Frame C12.InvDef C12.InvStep C12.InvStep2 C12.InvStep3
  C12.Reach C12.StepFrame C12.Yields C12.Clean C12.ReqStatic C12.Wake.
Import ListNotations.

(* ---- the failure the renewal task is about to report ---------------------------------------------------------------------- *)
Definition failing (st : stage) (rho : reaction) (hdr : option sid) : bool :=
  match st, rho with
  | StRenew, RUnreachable => true
  | StRenew, _ => false
  | StFallback, RAccept _ _ => match hdr with None => true | Some _ => false end
  | StFallback, _ => true
  end.

Definition pf (s : state) : option (svc * bool) :=
  match rtask s with
  | Some lt =>
      match pcof s lt with
      | PPass p st r =>
          match q_state (reqs s r) with
          | QDone rho hdr => if failing st rho hdr then Some (p_svc p, is_unreachable rho) else None
          | _ => None
          end
      | _ => None
      end
  | None => None
  end.
Definition pfs (s : state) : list svc := match pf s with Some (v, _) => [v] | None => [] end.
Definition pfu (s : state) : bool := match pf s with Some (_, u) => u | None => false end.

Lemma pf_ext s s' : rtask s' = rtask s -> tasks s' = tasks s -> reqs s' = reqs s -> pf s' = pf s.
Proof. intros A B C. unfold pf. now rewrite A, B, C. Qed.

Lemma pf_settled s lt : rtask s = Some lt -> settled s lt -> pf s = None.
Proof.
  intros Hrt [_ St]. unfold pf. rewrite Hrt. destruct (pcof s lt) as [| |p st r| | | | |]; try reflexivity. now rewrite St.
Qed.
Lemma pf_fresh s : fresh_loop s -> pf s = None.
Proof. intros [E|(lt & E & A & _)]; unfold pf; rewrite E; [reflexivity|now rewrite A]. Qed.
Lemma pf_wake s lt : rtask s = Some lt -> pf s <> None -> needs_wake s lt.
Proof.
  intros Hrt Hp. unfold pf in Hp. rewrite Hrt in Hp. unfold needs_wake.
  destruct (pcof s lt) as [| |p st r| | | | |]; try congruence. destruct (q_state (reqs s r)); congruence.
Qed.

(* ---- which steps report an event --------------------------------------------------------------------------------------------- *)
Lemma evlog_step_other s t :
  (forall p st r rho hdr, pcof s t = PPass p st r -> q_state (reqs s r) = QDone rho hdr -> t_must (tasks s t) = true) ->
  evlog (step_task s t) = evlog s /\ avail (step_task s t) = avail s.
Proof.
  intros Hx. unfold step_task.
  destruct (t_pc (tasks s t)) as [|now0 todo v r|p st r|w ws|sids lt re|n re|r|st] eqn:Epc; auto.
  - destruct (t_must _); now autorewrite with fr_evlog fr_avail.
  - destruct (q_state _); auto; [|now autorewrite with fr_evlog fr_avail]. destruct (t_must _); [now autorewrite with fr_evlog fr_avail|].
    destruct (t_kind _); auto. now autorewrite with fr_evlog fr_avail.
  - destruct (q_state (reqs s r)) as [|rho hdr|] eqn:Eq; auto; [|now autorewrite with fr_evlog fr_avail].
    rewrite (Hx p st r rho hdr eq_refl Eq). now autorewrite with fr_evlog fr_avail.
  - destruct ws; auto; [|now autorewrite with fr_evlog fr_avail]. destruct (t_must _); now autorewrite with fr_evlog fr_avail.
  - destruct (is_done _); auto. now autorewrite with fr_evlog fr_avail.
  - destruct n; auto. now autorewrite with fr_evlog fr_avail.
  - destruct (q_state _); auto; [|now autorewrite with fr_evlog fr_avail]. destruct (t_must _); now autorewrite with fr_evlog fr_avail.
Qed.

Lemma evlog_run_handle_other s h :
  (forall t p st r rho hdr, h = HStep t -> pcof s t = PPass p st r -> q_state (reqs s r) = QDone rho hdr -> t_must (tasks s t) = true) ->
  evlog (run_handle s h) = evlog s /\ avail (run_handle s h) = avail s.
Proof.
  intros Hx. unfold run_handle. destruct (diverged s); [auto|]. destruct h as [t|t|p].
  - apply evlog_step_other. intros p st r rho hdr. now apply Hx.
  - destruct (t_pc _) as [| | |w [| |]| | | |]; auto.
  - destruct (t_pc _) as [| | | | |[|n] re| |]; auto. destruct n; auto.
Qed.

(* what processing a response does to the event log and the availability flag *)
Lemma resume_effect s t p st rho hdr :
  (st = StRenew -> In (p_sid p) (dkeys (routed s))) -> p_notify p = true ->
  let o := pass_resume s t p st rho hdr in
  evlog (ost o) = evlog s ++ (if failing st rho hdr then [p_svc p] else []) /\
  avail (ost o) = avail s && negb (failing st rho hdr && is_unreachable rho).
Proof.
  intros Hr Hn. cbv zeta.
  assert (Err : forall b e, is_upnp e = true -> evlog (ost (pass_error b t p e)) = evlog b ++ [p_svc p] /\
                 avail (ost (pass_error b t p e)) = avail b && negb (is_conn e)).
  { intros b e He. unfold pass_error. rewrite He, Hn. autorewrite with fr_evlog fr_avail. destruct (is_conn e); sproj; split; auto; cbn [negb]; now rewrite ?andb_true_r, ?andb_false_r. }
  unfold pass_resume. cbv zeta. destruct st.
  - rewrite (dhas_in _ _ _ (Hr eq_refl)). destruct rho as [m g| | |]; cbn [failing is_unreachable andb negb].
    + destruct (match hdr with Some y => _ | None => _ end); autorewrite with fr_evlog fr_avail; sproj; now rewrite app_nil_r, andb_true_r.
    + sproj. unfold issue. sproj. now rewrite app_nil_r, andb_true_r.
    + destruct (Err (with_routed s (ddel Nat.eqb (routed s) (p_sid p))) EConnection eq_refl) as [A B]. rewrite A, B. sproj. auto.
    + sproj. unfold issue. sproj. now rewrite app_nil_r, andb_true_r.
  - destruct rho as [m g| | |]; cbn [failing is_unreachable andb negb].
    + destruct hdr as [y|].
      * autorewrite with fr_evlog fr_avail. sproj. now rewrite app_nil_r, andb_true_r.
      * destruct (Err s ESid eq_refl) as [A B]. rewrite A, B. cbn. now rewrite andb_true_r.
    + destruct (Err s EResponse eq_refl) as [A B]. rewrite A, B. cbn. now rewrite andb_true_r.
    + destruct (Err s EConnection eq_refl) as [A B]. rewrite A, B. cbn. auto.
    + destruct (Err s EComm eq_refl) as [A B]. rewrite A, B. cbn. now rewrite andb_true_r.
Qed.

(* ---- the first step of an unsubscribe call ends the normal regime; a step of the renewal task does not ------------------------ *)
Lemma unsub_leaves pend s t :
  Inv pend s -> t < ntasks s -> kindof s t = KUnsub -> ~ donep s t -> normal s -> ~ normal (step_task s t).
Proof.
  intros H Ht Hk Hnd N N'. pose proof (iv_census _ _ H t Ht) as C. unfold census in C. rewrite Hk in C.
  pose proof (N t C) as Ep. assert (Hnl : kindof s t <> KLoop) by (rewrite Hk; discriminate).
  pose proof (not_doomed_must _ _ (not_loop_not_doomed _ _ _ H Ht Hnl)) as Hm.
  assert (X : pcof (step_task s t) t = PStart) by (apply N'; now rewrite fr_calls_step_task).
  unfold step_task in X. rewrite Ep, Hm in X. unfold start_body in X. rewrite Hk in X. now apply pc_unsub_services in X.
Qed.

Lemma loop_step_normal pend s t : Inv pend s -> t < ntasks s -> kindof s t = KLoop -> normal s -> normal (step_task s t).
Proof.
  intros H Ht Hk N u Hu. rewrite fr_calls_step_task in Hu. pose proof (tl_call_kind _ _ H u Hu) as Hku.
  pose proof (call_lt _ _ H u (tl_in s u Hu)) as Hlt.
  destruct (PF_step_task t s) as (_ & _ & F). destruct (F u Hlt ltac:(congruence)) as [E|E]; [rewrite E; now apply N|].
  destruct (iv_rtask _ _ H u E) as [_ X]. congruence.
Qed.

Lemma pf_upd s s' t k' :
  tasks s' = fupd (tasks s) t k' -> reqs s' = reqs s -> rtask s' = rtask s ->
  (forall p st r, pcof s t <> PPass p st r) -> (forall p st r, t_pc k' <> PPass p st r) -> pf s' = pf s.
Proof.
  intros Et Er Ert A B. unfold pf. rewrite Ert, Et, Er. destruct (rtask s) as [lt|]; [|reflexivity].
  destruct (Nat.eq_dec t lt) as [->|Hne]; [|now rewrite fupd_neq by exact Hne]. rewrite fupd_eq.
  destruct (pcof s lt) eqn:E1; try (exfalso; eapply A; reflexivity); destruct (t_pc k') eqn:E2; try reflexivity; exfalso; eapply B; reflexivity.
Qed.

(* ---- the expected events and the model state, across one handle -------------------------------------------------------------- *)
Definition Tr (ex : list svc) (un : bool) (s : state) : Prop :=
  (normal s -> ex = evlog s ++ pfs s /\ un = negb (avail s) || pfu s) /\
  (~ normal s -> is_prefix (evlog s) ex = true /\ (avail s = false -> un = true)).

Lemma is_prefix_app a b : is_prefix a (a ++ b) = true.
Proof. induction a as [|x a IH]; [reflexivity|]. cbn. now rewrite Nat.eqb_refl. Qed.
Lemma is_prefix_snoc a b x : is_prefix a b = true -> is_prefix a (b ++ [x]) = true.
Proof.
  revert b. induction a as [|y a IH]; intros b Hp; [reflexivity|]. destruct b as [|z b]; [discriminate|]. cbn in *.
  apply andb_true_iff in Hp. destruct Hp as [A B]. rewrite A. cbn. now apply IH.
Qed.

Lemma Tr_run_handle rest s h ex un :
  Inv (h :: rest ++ ready s) s -> Winv (h :: rest ++ ready s) s -> diverged s = false -> Tr ex un s ->
  let s' := run_handle s h in
  diverged s' = true \/ (Tr ex un s' /\ exists l, evlog s' = evlog s ++ l).
Proof.
  intros H W Dv T s'. destruct (diverged s') eqn:Dv'; [now left|right].
  assert (K : (evlog s' = evlog s /\ avail s' = avail s /\ (normal s -> normal s' -> pf s' = pf s)) \/
              (normal s /\ normal s' /\ evlog s' ++ pfs s' = evlog s ++ pfs s /\
               negb (avail s') || pfu s' = negb (avail s) || pfu s /\ exists l, evlog s' = evlog s ++ l)).
  2:{ destruct T as [T1 T2]. destruct K as [(K1 & K2 & K3)|(K1 & K2 & K3 & K4 & K5)].
      - split; [|exists []; now rewrite app_nil_r]. split.
        + intros N'. pose proof (normal_back _ s h H N') as N. destruct (T1 N) as [A B].
          unfold pfs, pfu. rewrite (K3 N N'), K1, K2. auto.
        + intros N'. rewrite K1, K2. destruct (normal_dec s) as [N|N]; [|now apply T2].
          destruct (T1 N) as [-> ->]. split; [apply is_prefix_app|]. now intros ->.
      - split; [|exact K5]. split; [|tauto]. intros _. destruct (T1 K1) as [A B]. now rewrite K3, K4. }
  destruct W as [Wc Ww].
  subst s'. unfold run_handle in *. rewrite Dv in *. destruct h as [t|t|p].
  - (* a task takes a step *)
    destruct (Nat.lt_ge_cases t (ntasks s)) as [Ht|Ht].
    2:{ left. unfold step_task. rewrite (beyond_noop _ _ _ H Ht). auto. }
    destruct (is_done (tasks s t)) eqn:Ed.
    { left. unfold step_task. unfold is_done in Ed. destruct (pcof s t); try discriminate. auto. }
    assert (Hnd : ~ donep s t) by congruence.
    assert (Xdec : (forall p st r rho hdr, pcof s t = PPass p st r -> q_state (reqs s r) = QDone rho hdr -> t_must (tasks s t) = true) \/
                   (exists p st r rho hdr, pcof s t = PPass p st r /\ q_state (reqs s r) = QDone rho hdr /\ t_must (tasks s t) = false)).
    { destruct (pcof s t) as [| |p st r| | | | |] eqn:Epc; try (left; intros; discriminate).
      destruct (q_state (reqs s r)) as [|rho hdr|] eqn:Eq; try (left; intros ? ? ? ? ? E1 E2; injection E1 as <- <- <-; congruence).
      destruct (t_must (tasks s t)) eqn:Em; [left; auto|right; eauto 10]. }
    destruct Xdec as [Hx|(p & st & r & rho & hdr & Epc & Eq & Em)].
    + (* no event *)
      left. destruct (evlog_step_other s t Hx) as [A B]. split; [exact A|]. split; [exact B|]. intros N N'.
      destruct (rtask s) as [lt|] eqn:Ert.
      * destruct (Nat.eq_dec t lt) as [->|Hne].
        -- destruct (iv_rtask _ _ H lt Ert) as [_ Hkl]. specialize (Wc N lt eq_refl Hnd).
           destruct (loop_step_settled _ _ _ H Ht Hkl Hnd Wc) as [E|[E|E]]; [now rewrite E|congruence|].
           rewrite (pf_settled _ lt) by (try exact E; now rewrite (loop_step_rtask _ _ _ H Ht Hkl)).
           unfold pf. rewrite Ert. destruct (pcof s lt) as [| |p st r| | | | |] eqn:Epc; try reflexivity.
           destruct (q_state (reqs s r)) as [|rho hdr|] eqn:Eq; try reflexivity.
           exfalso. apply Wc. left. exact (Hx p st r rho hdr eq_refl Eq).
        -- destruct (normal_others _ _ H lt t N Ert Ht Hne) as [X|[X _]]; [contradiction|].
           now destruct (unsub_leaves _ _ _ H Ht X Hnd N).
      * assert (P0 : pf s = None) by (unfold pf; now rewrite Ert). rewrite P0.
        destruct (kindof s t) as [a| | |q x] eqn:Hk.
        -- apply pf_fresh. eapply sub_step_rtask; eassumption.
        -- now destruct (unsub_leaves _ _ _ H Ht Hk Hnd N).
        -- pose proof (loop_is_rtask _ _ _ H Ht Hk Hnd). congruence.
        -- apply pf_fresh. left. now rewrite (kid_step_rtask _ _ _ _ _ H Ht Hk).
    + (* the renewal task processes a response *)
      right. pose proof (iv_pc _ _ H t Ht) as Pc. unfold pc_ok in Pc. rewrite Epc in Pc.
      destruct (kindof s t) eqn:Hk; try contradiction.
      pose proof (loop_is_rtask _ _ _ H Ht Hk Hnd) as Hrt.
      assert (N : normal s).
      { destruct (normal_dec s) as [N|N]; [exact N|]. exfalso.
        destruct (shutdown_dd _ _ H t N Ht Hk) as [X|[X|X]]; [contradiction|congruence|]. rewrite Epc, Eq in X. discriminate. }
      pose proof (loop_step_normal _ _ _ H Ht Hk N) as N'.
      destruct (iv_pass _ _ H t Hrt p st r Epc) as (_ & P2 & _).
      assert (Es : step_task s t = after_pass_loop t (pass_resume s t p st rho hdr)) by (unfold step_task; now rewrite Epc, Eq, Em, Hk).
      rewrite Es in *. destruct (resume_effect s t p st rho hdr P2 Pc) as [A B].
      autorewrite with fr_evlog fr_avail. rewrite A, B.
      assert (P1 : pf (after_pass_loop t (pass_resume s t p st rho hdr)) = None).
      { destruct (after_loop_ok t _ (pass_resume_ok s t p st rho hdr Em)) as [X|X]; [congruence|].
        apply (pf_settled _ t); [|exact X]. rewrite <- Es. now rewrite (loop_step_rtask _ _ _ H Ht Hk). }
      assert (P0 : pf s = if failing st rho hdr then Some (p_svc p, is_unreachable rho) else None) by (unfold pf; now rewrite Hrt, Epc, Eq).
      unfold pfs, pfu. rewrite P1, P0. split; [exact N|]. split; [exact N'|].
      destruct (failing st rho hdr); cbn [andb]; rewrite ?app_nil_r.
      * split; [reflexivity|]. split; [|eauto]. destruct (avail s), (is_unreachable rho); reflexivity.
      * split; [reflexivity|]. split; [|exists []; now rewrite app_nil_r]. now rewrite andb_true_r.
  - (* a timer fires *)
    left. destruct (pcof s t) as [| | |w [| |]| | | |] eqn:Epc; auto.
    split; [reflexivity|]. split; [reflexivity|]. intros _ _.
    eapply pf_upd with (t := t); try reflexivity; [intros; rewrite Epc; discriminate|intros; discriminate].
  - (* a child of a gather reports *)
    left. destruct (pcof s p) as [| | | | |[|n] re| |] eqn:Epc; auto.
    split; [now destruct n|]. split; [now destruct n|]. intros _ _.
    assert (X : pf (set_pc s p (PUnsubGather n re)) = pf s).
    { eapply pf_upd with (t := p); try reflexivity; [intros; rewrite Epc; discriminate|intros; discriminate]. }
    destruct n; [|exact X]. rewrite <- X. now apply pf_ext.
Qed.

Lemma Tr_fold hs : forall s ex un,
  Inv (hs ++ ready s) s -> Winv (hs ++ ready s) s -> diverged s = false -> Tr ex un s ->
  let s' := fold_left run_handle hs s in
  diverged s' = true \/ (Tr ex un s' /\ exists l, evlog s' = evlog s ++ l).
Proof.
  induction hs as [|h hs IH]; intros s ex un H W Dv T; cbn [fold_left]; [right; split; [exact T|exists []; now rewrite app_nil_r]|].
  cbv zeta. destruct (Tr_run_handle hs s h ex un H W Dv T) as [D|[T' [l El]]]; [left; now rewrite fold_run_diverged|].
  destruct (Winv_run_handle hs s h H W Dv) as [D|W']; [left; now rewrite fold_run_diverged|].
  destruct (Inv_run_handle hs s h H) as [D|I']; [left; now rewrite fold_run_diverged|].
  destruct (diverged (run_handle s h)) eqn:D'; [left; now rewrite fold_run_diverged|].
  destruct (IH _ ex un I' W' D' T') as [D|[T'' [l' El']]]; [now left|right]. split; [exact T''|].
  exists (l ++ l'). now rewrite El', El, app_assoc.
Qed.

Lemma Tr_ext ex un s s' :
  (normal s <-> normal s') -> evlog s' = evlog s -> avail s' = avail s -> pf s' = pf s -> Tr ex un s -> Tr ex un s'.
Proof. intros N A B C [T1 T2]. unfold Tr, pfs, pfu in *. rewrite A, B, C. split; intros X; [apply T1|apply T2]; tauto. Qed.

(* ---- the spec's log of requests and the model's ------------------------------------------------------------------------------ *)
Definition logof (s : state) : list req_entry := map (fun r => req_obs (reqs s r)) (seq 0 (nreqs s)).

Lemma logof_step s s' :
  RS s s' -> logof s ++ map (fun r => req_obs (reqs s' r)) (seq (nreqs s) (nreqs s' - nreqs s)) = logof s'.
Proof.
  intros [R1 R2]. unfold logof. replace (nreqs s') with (nreqs s + (nreqs s' - nreqs s)) at 2 by lia.
  rewrite seq_app, map_app. f_equal. apply map_ext_in. intros r Hr. apply in_seq in Hr.
  specialize (R2 r ltac:(lia)). unfold req_static in R2. unfold req_obs. congruence.
Qed.
Lemma logof_nth s r : r < nreqs s -> nth_error (logof s) r = Some (req_obs (reqs s r)).
Proof.
  intros Hr. unfold logof. rewrite nth_error_map. rewrite (nth_error_nth' _ 0) by (rewrite seq_length; exact Hr).
  now rewrite seq_nth.
Qed.
Lemma in_outstanding s r : existsb (Nat.eqb r) (outstanding s) = true <-> r < nreqs s /\ q_state (reqs s r) = QPending.
Proof.
  rewrite existsb_exists. unfold outstanding. split.
  - intros (x & Hx & E). apply Nat.eqb_eq in E. subst x. apply filter_In in Hx. destruct Hx as [A B]. apply in_seq in A.
    split; [lia|]. destruct (q_state (reqs s r)); try discriminate. reflexivity.
  - intros [A B]. exists r. split; [|apply Nat.eqb_refl]. apply filter_In. split; [apply in_seq; lia|now rewrite B].
Qed.

Lemma publisher_hdr s q m g :
  q_kind q = QSub -> snd (publisher s q (RAccept m g)) = match m with SidNone => None | _ => Some (nsid s) end.
Proof. intros E. unfold publisher. rewrite E. now destruct m. Qed.

Lemma failed_link s q st rho :
  q_bg q = true -> q_kind q = (match st with StRenew => QRenew | StFallback => QSub end) ->
  renewal_failed (req_obs q) rho = failing st rho (snd (publisher s q rho)).
Proof.
  intros Eb Ek. unfold req_obs, renewal_failed. rewrite Eb, Ek. destruct st; cbn [andb failing].
  - now destruct rho.
  - destruct rho as [m g| | |]; try reflexivity. rewrite publisher_hdr by exact Ek. now destruct m.
Qed.

(* ---- the accumulator of Spec.rep_steps and the model state ------------------------------------------------------------------- *)
Record Racc (acc : racc) (s : state) : Prop := mkRa {
  ra_log : a_log acc = logof s;
  ra_out : a_prev_out acc = outstanding s;
  ra_seen : a_seen acc = evlog s;
  ra_tr : Tr (a_exp acc) (a_unreach acc) s
}.

Lemma skipn_app_len {A} (a b : list A) : skipn (length a) (a ++ b) = b.
Proof. induction a; [reflexivity|exact IHa]. Qed.
Lemma nat_list_eqb_rfl l : nat_list_eqb l l = true.
Proof. induction l; cbn; [reflexivity|]. now rewrite Nat.eqb_refl. Qed.

(* the checks of the clause follow from the relation *)
Lemma rep_ok_of acc s0 s :
  diverged s = false -> Inv (ready s) s -> Winv (ready s) s -> Racc acc s -> rep_ok acc (observe s0 s) = true.
Proof.
  intros D H W [_ _ Rs [T1 T2]]. unfold rep_ok, observe. rewrite D. cbn [o_div o_avail o_idle o_calls]. rewrite Rs, map_length.
  assert (A : is_prefix (evlog s) (a_exp acc) && (avail s || a_unreach acc) = true).
  { destruct (normal_dec s) as [N|N].
    - destruct (T1 N) as [-> ->]. rewrite is_prefix_app. now destruct (avail s).
    - destruct (T2 N) as [-> B]. destruct (avail s); [reflexivity|]. now rewrite B. }
  rewrite A. cbn [andb].
  destruct (ready s) eqn:Er; [|reflexivity]. cbn [andb].
  match goal with |- (if ?c then _ else _) = true => destruct c eqn:El; [|reflexivity] end.
  apply Nat.leb_le in El. pose proof (few_calls_normal s El) as N. destruct (T1 N) as [-> ->].
  assert (P : pf s = None).
  { destruct (pf s) eqn:E; [|reflexivity]. exfalso. assert (E' : pf s <> None) by congruence.
    unfold pf in E. destruct (rtask s) as [lt|] eqn:Ert; [|discriminate].
    pose proof (w_wake _ _ W N lt Ert (pf_wake s lt Ert E')) as X. destruct X. }
  unfold pfs, pfu. rewrite P, app_nil_r, nat_list_eqb_rfl. now destruct (avail s).
Qed.

Lemma normal_call s kd pend : Inv pend s -> normal s <-> normal (with_calls (spawn s kd) (calls s ++ [ntasks s])).
Proof.
  intros H. set (s' := with_calls _ _).
  assert (Old : forall t, t < ntasks s -> tasks s' t = tasks s t) by (intros t Ht; subst s'; unfold spawn; sproj; apply fupd_neq; lia).
  assert (New : pcof s' (ntasks s) = PStart) by (subst s'; unfold spawn; sproj; now rewrite fupd_eq).
  split; intros N u Hu.
  - change (calls s') with (calls s ++ [ntasks s]) in Hu. destruct (calls s) as [|c0 us] eqn:Ec; [destruct Hu|]. cbn in Hu. apply in_app_iff in Hu.
    destruct Hu as [Hu|[<-|[]]]; [|exact New]. rewrite Old; [apply N; now rewrite Ec|].
    apply (call_lt _ _ H). rewrite Ec. now right.
  - rewrite <- Old by (apply (call_lt _ _ H); now apply tl_in). apply N. change (calls s') with (calls s ++ [ntasks s]).
    destruct (calls s); [destruct Hu|]. cbn in *. apply in_or_app. now left.
Qed.

Lemma Tr_call ex un s kd pend : Inv pend s -> Tr ex un s -> Tr ex un (call s kd).
Proof.
  intros H T. unfold call. destruct (user_busy s); [exact T|]. eapply Tr_ext; [apply (normal_call s kd pend H)| | | |exact T]; try reflexivity.
  unfold pf, spawn. sproj. destruct (rtask s) as [lt|] eqn:Ert; [|reflexivity]. destruct (iv_rtask _ _ H lt Ert) as [Hlt _].
  rewrite fupd_neq by lia. reflexivity.
Qed.

Lemma Tr_deliver acc s r rho :
  Inv (ready s) s -> diverged s = false -> Racc acc s ->
  let s' := deliver s r rho in
  let '(ex, un) :=
    if existsb (Nat.eqb r) (a_prev_out acc) then
      match nth_error (a_log acc) r with
      | Some q => if renewal_failed q rho
                  then (a_exp acc ++ [snd (fst (fst q))], a_unreach acc || is_unreachable rho)
                  else (a_exp acc, a_unreach acc)
      | None => (a_exp acc, a_unreach acc)
      end
    else (a_exp acc, a_unreach acc) in
  Tr ex un s'.
Proof.
  intros H Dv [Rl Ro _ T]. cbv zeta. rewrite Ro, Rl.
  destruct (existsb (Nat.eqb r) (outstanding s)) eqn:Ex.
  2:{ assert (E : deliver s r rho = s); [|now rewrite E].
      unfold deliver. destruct (r <? nreqs s)%nat eqn:Hr; [|reflexivity]. apply Nat.ltb_lt in Hr.
      destruct (q_state (reqs s r)) eqn:Eq; try reflexivity. exfalso.
      assert (X : existsb (Nat.eqb r) (outstanding s) = true) by (apply in_outstanding; auto). congruence. }
  apply in_outstanding in Ex. destruct Ex as [Hr Eq]. rewrite (logof_nth s r Hr).
  unfold deliver. replace (r <? nreqs s)%nat with true by (symmetry; now apply Nat.ltb_lt). rewrite Eq.
  pose proof (fr_tasks_publisher s (reqs s r) rho) as F1. pose proof (fr_reqs_publisher s (reqs s r) rho) as F2.
  pose proof (fr_rtask_publisher s (reqs s r) rho) as F3. pose proof (fr_calls_publisher s (reqs s r) rho) as F4.
  pose proof (fr_evlog_publisher s (reqs s r) rho) as F5. pose proof (fr_avail_publisher s (reqs s r) rho) as F6.
  destruct (publisher s (reqs s r) rho) as [s1 hdr] eqn:Epub. cbn [fst snd] in *.
  assert (Eh : snd (publisher s (reqs s r) rho) = hdr) by now rewrite Epub.
  set (s' := enqueue (set_rstate s1 r (QDone rho hdr)) (HStep (q_task (reqs s r)))).
  assert (Et : tasks s' = tasks s) by (subst s'; sproj; exact F1).
  assert (Ert : rtask s' = rtask s) by (subst s'; sproj; exact F3).
  assert (Er : forall r', r' <> r -> reqs s' r' = reqs s r') by (intros r' Hne; subst s'; sproj; rewrite fupd_neq by congruence; now rewrite F2).
  assert (Err : q_state (reqs s' r) = QDone rho hdr) by (subst s'; sproj; now rewrite fupd_eq).
  assert (Ev : evlog s' = evlog s) by (subst s'; sproj; exact F5).
  assert (Ea : avail s' = avail s) by (subst s'; sproj; exact F6).
  assert (Nn : normal s <-> normal s').
  { apply normal_ext; [subst s'; sproj; exact F4|]. intros u _. now rewrite Et. }
  destruct (iv_req _ _ H r Hr Eq) as [Hq Haw]. destruct (iv_bg _ _ H r Hr) as [Hbg _].
  destruct T as [T1 T2].
  destruct (q_bg (reqs s r)) eqn:Eb.
  - (* a request of the renewal task *)
    set (lt := q_task (reqs s r)) in *.
    assert (Hkl : kindof s lt = KLoop) by (symmetry in Hbg; unfold is_loop in Hbg; destruct (kindof s lt); try discriminate; reflexivity).
    assert (Hnd : ~ donep s lt) by (unfold is_done; destruct (pcof s lt); try discriminate; destruct Haw).
    pose proof (loop_is_rtask _ _ _ H Hq Hkl Hnd) as Hrt.
    pose proof (iv_pc _ _ H lt Hq) as Pc. unfold pc_ok in Pc. rewrite Hkl in Pc.
    destruct (pcof s lt) as [| |p st r'| | | | |] eqn:Epc; try contradiction; try (now destruct Haw).
    cbn in Haw. subst r'. destruct (iv_preq _ _ H lt p st r Hrt Epc) as [Esv Ekd].
    rewrite (failed_link s (reqs s r) st rho Eb Ekd), Eh.
    assert (P0 : pf s = None) by (unfold pf; now rewrite Hrt, Epc, Eq).
    assert (P1 : pf s' = if failing st rho hdr then Some (p_svc p, is_unreachable rho) else None) by (unfold pf; now rewrite Ert, Hrt, Et, Epc, Err).
    change (snd (fst (fst (req_obs (reqs s r))))) with (q_svc (reqs s r)). rewrite Esv.
    destruct (failing st rho hdr).
    + split.
      * intros N'. destruct (T1 (proj2 Nn N')) as [A B]. unfold pfs, pfu in *. rewrite P0 in *. rewrite P1, Ev, Ea, A, B.
        rewrite app_nil_r, orb_false_r. auto.
      * intros N'. assert (N : ~ normal s) by tauto. destruct (T2 N) as [A B]. rewrite Ev, Ea. split; [now apply is_prefix_snoc|].
        intros X. now rewrite (B X).
    + eapply Tr_ext; [exact Nn|exact Ev|exact Ea|congruence|]. now split.
  - (* of another task *)
    assert (Ef : renewal_failed (req_obs (reqs s r)) rho = false) by (unfold renewal_failed, req_obs; now rewrite Eb).
    rewrite Ef. eapply Tr_ext; [exact Nn|exact Ev|exact Ea| |now split].
    unfold pf. rewrite Ert, Et. destruct (rtask s) as [lt|] eqn:Hrt; [|reflexivity].
    destruct (pcof s lt) as [| |p st r'| | | | |] eqn:Epc; try reflexivity.
    destruct (Nat.eq_dec r' r) as [->|Hne]; [|now rewrite Er].
    exfalso. destruct (iv_rtask _ _ H lt Hrt) as [Hlt Hkl]. assert (A : awaits (pcof s lt) r) by (now rewrite Epc).
    rewrite (iv_reqo _ _ H lt Hlt r A) in Hbg. unfold is_loop in Hbg. rewrite Hkl in Hbg. discriminate.
Qed.

Definition exun (acc : racc) (a : action) : list svc * bool :=
  match a with
  | ADeliver r rho =>
      if existsb (Nat.eqb r) (a_prev_out acc) then
        match nth_error (a_log acc) r with
        | Some q => if renewal_failed q rho
                    then (a_exp acc ++ [snd (fst (fst q))], a_unreach acc || is_unreachable rho)
                    else (a_exp acc, a_unreach acc)
        | None => (a_exp acc, a_unreach acc)
        end
      else (a_exp acc, a_unreach acc)
  | _ => (a_exp acc, a_unreach acc)
  end.
Lemma rep_acc_eq acc a o :
  rep_acc acc a o = mkRacc (a_log acc ++ o_newreqs o) (fst (exun acc a)) (snd (exun acc a)) (a_seen acc ++ o_events o) (o_out o).
Proof. unfold rep_acc, exun. destruct a; try reflexivity. destruct (existsb _ _); [|reflexivity]. destruct (nth_error _ _); [|reflexivity]. now destruct (renewal_failed _ _). Qed.

Lemma allowed_of_dom s a r : dom_sched (started s) (a :: r) = true -> allowed s a.
Proof.
  intros D. destruct a; cbn [dom_sched allowed] in *; try exact Logic.I.
  - apply andb_true_iff in D. destruct D as [D1 _]. apply negb_true_iff in D1. unfold started in D1. destruct (calls s); [reflexivity|discriminate].
  - apply andb_true_iff in D. destruct D as [D1 _]. unfold started in D1. destruct (calls s); discriminate.
Qed.

Lemma rep_step acc s a :
  Inv (ready s) s -> Winv (ready s) s -> allowed s a -> diverged s = false -> Racc acc s ->
  diverged (step s a) = true \/ Racc (rep_acc acc a (observe s (step s a))) (step s a).
Proof.
  intros H W Ha Dv R. destruct (diverged (step s a)) eqn:Dv'; [now left|right].
  assert (TE : Tr (fst (exun acc a)) (snd (exun acc a)) (step s a) /\ exists l, evlog (step s a) = evlog s ++ l).
  { pose proof (ra_tr _ _ R) as T. unfold step in *. rewrite Dv in *. destruct a as [auto| |r rho|dt|]; cbn [exun fst snd].
    - split; [eapply Tr_call; eassumption|]. exists []. now autorewrite with fr_evlog list.
    - split; [eapply Tr_call; eassumption|]. exists []. now autorewrite with fr_evlog list.
    - split; [|exists []; now autorewrite with fr_evlog list].
      pose proof (Tr_deliver acc s r rho H Dv R) as TD. cbv zeta in TD.
      destruct (if existsb (Nat.eqb r) (a_prev_out acc) then _ else _) as [ex un]. exact TD.
    - split; [|exists []; now autorewrite with fr_evlog list].
      eapply Tr_ext; [| | | |exact T]; autorewrite with fr_evlog fr_avail; try reflexivity.
      + apply normal_ext; autorewrite with fr_calls fr_tasks; auto.
      + apply pf_ext; now autorewrite with fr.
    - unfold iterate in *.
      assert (T0 : Tr (a_exp acc) (a_unreach acc) (with_ready s [])).
      { eapply Tr_ext; [| | | |exact T]; reflexivity. }
      assert (W0 : Winv ((ready s ++ map HTimer (due s)) ++ ready (with_ready s [])) (with_ready s [])).
      { eapply Winv_ext; [| | | | |exact W]; try reflexivity. intros h Hh. sproj. rewrite app_nil_r. apply in_or_app. now left. }
      destruct (Tr_fold _ _ _ _ (Inv_iterate_start s H) W0 Dv T0) as [D|X]; [congruence|exact X]. }
  destruct TE as [T' [l El]]. destruct R as [Rl Ro Rs _].
  rewrite rep_acc_eq. unfold observe. rewrite Dv'. cbn [o_newreqs o_events o_out]. constructor; cbn [a_log a_prev_out a_seen a_exp a_unreach].
  - rewrite Rl. apply logof_step. apply RS_step.
  - reflexivity.
  - rewrite Rs, El. now rewrite skipn_app_len.
  - exact T'.
Qed.

Lemma rep_diverged sched : forall s acc,
  diverged s = true -> Forall (fun b => b = true) (rep_steps acc sched (trace_from s sched)).
Proof.
  induction sched as [|a r IH]; intros s acc D; cbn [trace_from rep_steps]; [constructor|].
  rewrite step_diverged by exact D. constructor; [|now apply IH]. unfold rep_ok. now rewrite observe_div, D.
Qed.

Lemma rep_from sched : forall s acc,
  Good s -> (diverged s = true \/ Winv (ready s) s) -> dom_sched (started s) sched = true -> (diverged s = false -> Racc acc s) ->
  Forall (fun b => b = true) (rep_steps acc sched (trace_from s sched)).
Proof.
  induction sched as [|a r IH]; intros s acc G W D R; [constructor|].
  destruct (diverged s) eqn:Dv; [now apply rep_diverged|].
  destruct G as [X|I]; [congruence|]. destruct W as [X|W]; [congruence|]. specialize (R eq_refl).
  cbn [trace_from rep_steps].
  pose proof (allowed_of_dom _ _ _ D) as Ha.
  pose proof (Inv_step s a I Ha) as G'. pose proof (Winv_step s a I W Ha) as W'.
  pose proof (rep_step acc s a I W Ha Dv R) as R'.
  constructor.
  - destruct (diverged (step s a)) eqn:Dv'; [unfold rep_ok; now rewrite observe_div, Dv'|].
    destruct G' as [X|I']; [congruence|]. destruct W' as [X|W']; [congruence|]. destruct R' as [X|R']; [congruence|].
    now apply rep_ok_of.
  - apply IH; auto.
    + now apply dom_sched_step.
    + intros Dv'. destruct R' as [X|R']; [congruence|exact R'].
Qed.

Theorem failure_reported i : in_domain i = true -> clause_reported i (model_run i) = None.
Proof.
  intros D. unfold clause_reported, model_run. apply first_false_none. apply rep_from.
  - right. apply Inv_init.
  - right. apply Winv_init.
  - now apply in_domain_dom_sched.
  - intros _. constructor; try reflexivity. split.
    + intros _. split; reflexivity.
    + intros _. split; [reflexivity|discriminate].
Qed.
