(* C07 — specification: what "decoded faithfully" means, over the simplest description of a response.

   A control response is (status, body).  The body's document is the body without its padding; the
   XML parser (an oracle) says whether it is XML and gives its tree.  The tree is classified by what it
   HOLDS (list comprehensions over all descendants, no search order, no early exit), and each class has
   one expected result:

     category          condition                                                        expected
     ----------------  ---------------------------------------------------------------  -----------------------------
     CatFault          the first Body/Fault element has content, any status             action error (code, desc) and
                                                                                        the status when it is not 200
     CatOtherStatus    status <> 200 and no such fault (XML or not)                     response error (status)
     CatNotXml         status = 200 and the document is not XML                         XML-parse error
     CatSuccess        status = 200, no fault, response element {serviceType}<A>Response,  mapping name -> converted value
                       all children are declared out-arguments                          of exactly the children present
     CatStrictness     status = 200, no fault, and: an undeclared child, or the response  strict: UpnpError;  non-strict:
                       element only in a foreign namespace, or no response element      tolerated (undeclared skipped,
                                                                                        foreign accepted); none: UpnpError

   [expected] returns None outside the domain the statement speaks about.  Readings (each a named
   definition below): [parser_total] the parser answers with a tree or a parse error (defusedxml's policy
   exceptions are neither); [empty_fault] a childless <Fault/> is not decided; [fault_code] the error code
   is an integer, empty or absent; [convertible] the texts of declared out-arguments are values of their
   types; [wf_config] well-formed service type / action name, known data types; a body is present.
   Outside the domain the model still says what the code does and the correspondence check still compares.
   The clauses are executable booleans over (input, observation): the same definitions judge the model
   (theorems) and the implementation's observations (correspondence check). *)
From Coq Require Import List Bool NArith ZArith.
From AUC Require Import Prelude.PyStr Prelude.PyDict C08.TypesDef C08.Model Gen.Types Gen.DateMatchers
  C07.Model.
Import ListNotations.
Local Open Scope N_scope.

(* ------------------------------------------------------------------ decidable equalities *)
Definition fl_eqb (a b : fl) : bool :=
  match a, b with
  | FFin m1 e1, FFin m2 e2 => (m1 =? m2)%Z && (e1 =? e2)%Z
  | FInf x, FInf y => Bool.eqb x y
  | FNan, FNan => true
  | _, _ => false
  end.
Definition oz_eqb (a b : option Z) : bool :=
  match a, b with Some x, Some y => (x =? y)%Z | None, None => true | _, _ => false end.
Definition date_eqb (a b : pdate) := (dy a =? dy b) && (dm a =? dm b) && (dd a =? dd b).
Definition time_eqb (a b : ptime) :=
  (th a =? th b) && (tmi a =? tmi b) && (ts a =? ts b) && oz_eqb (ttz a) (ttz b).
Definition val_eqb (a b : pyval) : bool :=
  match a, b with
  | VInt x, VInt y => (x =? y)%Z
  | VBool x, VBool y => Bool.eqb x y
  | VFloat x, VFloat y => fl_eqb x y
  | VStr x, VStr y => str_eqb x y
  | VDate x, VDate y => date_eqb x y
  | VTime x, VTime y => time_eqb x y
  | VDateTime d1 t1, VDateTime d2 t2 => date_eqb d1 d2 && time_eqb t1 t2
  | VNone, VNone => true
  | _, _ => false
  end.
Definition oval_eqb (a b : option pyval) : bool :=
  match a, b with Some x, Some y => val_eqb x y | None, None => true | _, _ => false end.
Definition ostr_eqb (a b : option pystr) : bool :=
  match a, b with Some x, Some y => str_eqb x y | None, None => true | _, _ => false end.
Definition exn_eqb (a b : exn) : bool :=
  match a, b with
  | ValueError, ValueError | TypeError, TypeError | AttributeError, AttributeError
  | UpnpValueError, UpnpValueError | IndexError, IndexError | OtherError, OtherError => true
  | _, _ => false
  end.
Definition err_eqb (a b : err) : bool :=
  match a, b with
  | EUpnpError, EUpnpError | EXmlParse, EXmlParse => true
  | EResponse s1, EResponse s2 => (s1 =? s2)%Z
  | EAction c1 d1, EAction c2 d2 => oz_eqb c1 c2 && ostr_eqb d1 d2
  | EActionResponse c1 d1 s1, EActionResponse c2 d2 s2 => oz_eqb c1 c2 && ostr_eqb d1 d2 && (s1 =? s2)%Z
  | ERaw e1, ERaw e2 => exn_eqb e1 e2
  | _, _ => false
  end.
Fixpoint nodupb (l : list pystr) : bool :=
  match l with [] => true | x :: r => negb (existsb (str_eqb x) r) && nodupb r end.

(* ------------------------------------------------------------------ what a tree holds *)
(* every Fault child of every Body element below the root, in document order *)
Definition faults (x : xml) : list xml :=
  flat_map (fun b => filter (has_tag tag_fault) (children_of b)) (filter (has_tag tag_body) (descend x)).

(* the SOAP fault of a response: its first Body/Fault element, provided it has content *)
Definition soap_fault (x : xml) : option xml :=
  match faults x with
  | f :: _ => match children_of f with [] => None | _ :: _ => Some f end
  | [] => None
  end.
(* Reading [empty_fault]: a childless <Fault/> carries neither code nor description; whether it is "a SOAP
   fault" in the statement's sense is not decided here: such documents are outside the domain (the code
   treats them as no fault at all - Element truthiness - and the model follows the code). *)
Definition empty_fault (x : xml) : bool :=
  match faults x with
  | f :: _ => match children_of f with [] => true | _ :: _ => false end
  | [] => false
  end.

Definition first_text (tag : pystr) (f : xml) : option pystr :=
  match filter (has_tag tag) (descend f) with
  | e :: _ => Some (or_empty (text_of e))
  | [] => None
  end.

(* Reading [fault_code]: the UPnP error code is the decimal integer in <errorCode> (Python int()
   spelling); absent or empty = no code; any other text is not a UPnP error code: outside the domain. *)
Definition fault_code (f : xml) : option (option Z) :=
  match first_text tag_error_code f with
  | None | Some [] => Some None
  | Some s => match int_of_str s with Ok z => Some (Some z) | Raise _ => None end
  end.

Inductive expect :=
| XReturn (pairs : list (pystr * pyval))      (* the mapping these pairs denote (a later pair wins) *)
| XRaise (e : err).
Inductive category := CatSuccess | CatFault | CatOtherStatus | CatNotXml | CatStrictness.
Definition cat_eqb (a b : category) : bool :=
  match a, b with
  | CatSuccess, CatSuccess | CatFault, CatFault | CatOtherStatus, CatOtherStatus
  | CatNotXml, CatNotXml | CatStrictness, CatStrictness => true
  | _, _ => false
  end.

(* Reading [wf_config]: service type and action name are non-empty and made of letters, digits and
   ":._-" (what UPnP allows; ElementPath's query syntax is not modelled for anything else), and every
   declared argument's data type is a row of STATE_VARIABLE_TYPE_MAPPING (the factory refuses others). *)
Definition name_char (c : N) : bool :=
  ((48 <=? c) && (c <=? 58)) || ((65 <=? c) && (c <=? 90)) || ((97 <=? c) && (c <=? 122)) ||
  (c =? 45) || (c =? 46) || (c =? 95).
Definition name_ok (s : pystr) : bool :=
  match s with [] => false | _ => forallb name_char s end.
Definition wf_config (cfg : config) : bool :=
  name_ok (c_service_type cfg) && name_ok (c_action cfg) &&
  forallb (fun a => match find_row (a_type a) type_table with Some _ => true | None => false end) (c_args cfg).

Section Spec.
  Variable parse : pystr -> parsed.
  Variable float_of_str : pystr -> option fl.
  Variable lower_ext : N -> N.

  Definition exact_responses (cfg : config) (x : xml) : list xml :=
    filter (has_tag (response_tag cfg)) (descend x).
  Definition any_ns_responses (cfg : config) (x : xml) : list xml :=
    filter (fun e => wildcard_match (response_local cfg) (tag_of e)) (descend x).
  (* the action's response element: in the service's namespace; failing that, non-strict clients accept
     the same local name in any (or no) namespace; the first in document order *)
  Definition response_element (cfg : config) (x : xml) : option xml :=
    match exact_responses cfg x with
    | e :: _ => Some e
    | [] => if c_non_strict cfg then hd_error (any_ns_responses cfg x) else None
    end.

  Definition declared (cfg : config) (c : xml) : bool :=
    match find_argument (c_args cfg) (tag_of c) with Some _ => true | None => false end.

  (* (name, converted value) of every child that is a declared out-argument, in document order;
     None when a text is not a value of the declared type (Reading [convertible]: the statement is about
     out-arguments "converted to the declared Python types"; what cannot be converted is outside) *)
  Fixpoint arg_pairs (cfg : config) (children : list xml) : option (list (pystr * pyval)) :=
    match children with
    | [] => Some []
    | c :: r =>
        match find_argument (c_args cfg) (tag_of c) with
        | None => arg_pairs cfg r
        | Some a =>
            match coerce float_of_str lower_ext a (or_empty (text_of c)), arg_pairs cfg r with
            | Ok v, Some ps => Some ((tag_of c, v) :: ps)
            | _, _ => None
            end
        end
    end.

  Definition classify_tree (cfg : config) (status : Z) (x : xml) : option (category * expect) :=
    if empty_fault x then None else
    match soap_fault x with
    | Some f =>
        match fault_code f with
        | Some code =>
            let desc := first_text tag_error_desc f in
            Some (CatFault, XRaise (if (status =? 200)%Z then EAction code desc
                                    else EActionResponse code desc status))
        | None => None
        end
    | None =>
        if negb (status =? 200)%Z then Some (CatOtherStatus, XRaise (EResponse status))
        else
          match response_element cfg x with
          | None => Some (CatStrictness, XRaise EUpnpError)
          | Some r =>
              match arg_pairs cfg (children_of r) with
              | None => None
              | Some ps =>
                  let undeclared := existsb (fun c => negb (declared cfg c)) (children_of r) in
                  let foreign := negb (has_tag (response_tag cfg) r) in
                  if undeclared || foreign
                  then Some (CatStrictness,
                             if undeclared && negb (c_non_strict cfg) then XRaise EUpnpError else XReturn ps)
                  else Some (CatSuccess, XReturn ps)
              end
          end
    end.

  (* the document: trailing padding never counts; with an error status leading padding is dropped too *)
  Definition document (status : Z) (b : pystr) : pystr :=
    if (status =? 200)%Z then rstrip_pad b else strip_pad b.

  (* None = outside the domain: no body at all, or the XML parser refused the document with
     something other than a parse error (Reading [parser_total]: defusedxml's policy exceptions are
     not "a body that is not XML"), or one of the readings above *)
  Definition expected (cfg : config) (status : Z) (body : option pystr) : option (category * expect) :=
    if negb (wf_config cfg) then None else
    match body with
    | None => None
    | Some b =>
        match parse (document status b) with
        | PTree x => classify_tree cfg status x
        | PParseError =>
            Some (if (status =? 200)%Z then (CatNotXml, XRaise EXmlParse)
                  else (CatOtherStatus, XRaise (EResponse status)))
        | PRaised | PUnrecorded => None
        end
    end.

  Definition in_domain (cfg : config) (status : Z) (body : option pystr) : bool :=
    match expected cfg status body with Some _ => true | None => false end.
End Spec.

(* the returned dict IS the mapping denoted by the pairs: no key twice, and for every name (of the dict or
   of the pairs) the dict's value is the value of the last pair of that name *)
Definition args_match (ps : list (pystr * pyval)) (d : dict pystr pyval) : bool :=
  nodupb (dkeys d) &&
  forallb (fun k => oval_eqb (dget str_eqb d k) (dlast str_eqb ps k)) (dkeys d ++ map fst ps).

Definition meets (x : expect) (o : outcome) : bool :=
  match x, o with
  | XReturn ps, Returned d => args_match ps d
  | XRaise e, Raised e' => err_eqb e e'
  | _, _ => false
  end.

(* clause c holds of (input, observation): if the input is in the domain and of category c, the
   observation is the expected one *)
Definition clause (c : category) (ex : option (category * expect)) (o : outcome) : bool :=
  match ex with
  | Some (c', x) => if cat_eqb c c' then meets x o else true
  | None => true
  end.
