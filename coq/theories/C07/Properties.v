(* C07 — SOAP responses and faults are decoded faithfully.  Property theorems only.

   Everywhere: parse is the XML parser (text -> tree | ParseError | other exception), float_of_str is
   float(), lower_ext is str.lower() outside ASCII - arbitrary functions, nothing is assumed of them
   unless a premise says so.  `call parse float_of_str lower_ext cfg status body` is the model of
   UpnpAction.async_call from the moment the requester returned (status, headers, body). *)
From Coq Require Import List Bool NArith ZArith Permutation.
From AUC Require Import Prelude.PyStr Prelude.PyDict C08.TypesDef C08.Model C08.Spec Gen.Types Gen.DateMatchers
  C07.Model C07.Spec C07.Proofs C07.Readings C07.Table.
Import ListNotations.
Local Open Scope N_scope.

(* For every parser, configuration, status and body inside the domain of the specification (Spec.v:
   a body is present, the parser yields a tree or a parse error, an error code is an integer or absent,
   the texts of declared out-arguments are values of their types, well-formed service/action names):
   the outcome is the one the decode table prescribes for the response's category - fault / other
   status / not XML / success / strictness. *)
Theorem C07_decode_exact :
  forall (parse : pystr -> parsed) (float_of_str : pystr -> option fl) (lower_ext : N -> N)
         (cfg : config) (status : Z) (body : option pystr) (c : category) (x : expect),
    expected parse float_of_str lower_ext cfg status body = Some (c, x) ->
    meets x (call parse float_of_str lower_ext cfg status body) = true.
Proof. exact decode_exact. Qed.
Print Assumptions C07_decode_exact.

(* The same through the five clause booleans the correspondence check evaluates on the
   implementation's observations. *)
Theorem C07_clauses :
  forall (parse : pystr -> parsed) (float_of_str : pystr -> option fl) (lower_ext : N -> N)
         (cat : category) (cfg : config) (status : Z) (body : option pystr),
    clause cat (expected parse float_of_str lower_ext cfg status body)
           (call parse float_of_str lower_ext cfg status body) = true.
Proof. exact clause_holds. Qed.
Print Assumptions C07_clauses.

(* A 200 response whose document has no fault and holds the action's response element r returns a dict
   that is exactly the mapping of the declared out-arguments present under r to their converted values
   (no other key; strict clients: provided every child is declared; non-strict: the others are skipped). *)
Theorem C07_success_exact :
  forall (parse : pystr -> parsed) (float_of_str : pystr -> option fl) (lower_ext : N -> N)
         (cfg : config) (b : pystr) (x r : xml) (ps : list (pystr * pyval)),
    parse (rstrip_pad b) = PTree x -> soap_fault x = None ->
    response_element cfg x = Some r ->
    (c_non_strict cfg = false -> forall c, In c (children_of r) -> declared cfg c = true) ->
    arg_pairs float_of_str lower_ext cfg (children_of r) = Some ps ->
    exists d, call parse float_of_str lower_ext cfg 200%Z (Some b) = Returned d /\ NoDup (dkeys d) /\
              forall k, dget str_eqb d k = dlast str_eqb ps k.
Proof. exact success_exact. Qed.
Print Assumptions C07_success_exact.

(* ... where the pairs are, in document order, one per child that is a declared out-argument: its name
   and its text ("" for an empty element) converted by the related state variable's in-coercer. *)
Theorem C07_args_exact :
  forall (float_of_str : pystr -> option fl) (lower_ext : N -> N) (cfg : config) (children : list xml)
         (ps : list (pystr * pyval)),
    arg_pairs float_of_str lower_ext cfg children = Some ps ->
    Forall2 (fun c p => fst p = tag_of c /\
                        exists a, find_argument (c_args cfg) (tag_of c) = Some a /\
                                  coerce float_of_str lower_ext a (or_empty (text_of c)) = Ok (snd p))
            (filter (declared cfg) children) ps.
Proof. exact arg_pairs_exact. Qed.
Print Assumptions C07_args_exact.

(* A SOAP fault, with any HTTP status, raises the action error carrying the UPnP error code and
   description, and the HTTP status when it is not 200 (UpnpActionResponseError). *)
Theorem C07_fault_decoded :
  forall (parse : pystr -> parsed) (float_of_str : pystr -> option fl) (lower_ext : N -> N)
         (cfg : config) (status : Z) (b : pystr) (x f : xml) (code : option Z),
    parse (document status b) = PTree x -> soap_fault x = Some f -> fault_code f = Some code ->
    call parse float_of_str lower_ext cfg status (Some b) =
    Raised (if (status =? 200)%Z then EAction code (first_text tag_error_desc f)
            else EActionResponse code (first_text tag_error_desc f) status).
Proof. exact fault_decoded. Qed.
Print Assumptions C07_fault_decoded.

(* Any other non-200 response (not XML, or XML without a fault) raises the response error carrying the status. *)
Theorem C07_other_status :
  forall (parse : pystr -> parsed) (float_of_str : pystr -> option fl) (lower_ext : N -> N)
         (cfg : config) (status : Z) (b : pystr),
    status <> 200%Z ->
    (parse (strip_pad b) = PParseError \/ exists x, parse (strip_pad b) = PTree x /\ soap_fault x = None) ->
    call parse float_of_str lower_ext cfg status (Some b) = Raised (EResponse status).
Proof. exact other_status. Qed.
Print Assumptions C07_other_status.

(* A 200 body that is not XML raises the XML-parse error. *)
Theorem C07_not_xml :
  forall (parse : pystr -> parsed) (float_of_str : pystr -> option fl) (lower_ext : N -> N)
         (cfg : config) (b : pystr),
    parse (rstrip_pad b) = PParseError ->
    call parse float_of_str lower_ext cfg 200%Z (Some b) = Raised EXmlParse.
Proof. exact not_xml. Qed.
Print Assumptions C07_not_xml.

(* Strict mode: no response element in the service's own namespace, or an undeclared child, is UpnpError. *)
Theorem C07_strict_refuses :
  forall (parse : pystr -> parsed) (float_of_str : pystr -> option fl) (lower_ext : N -> N)
         (cfg : config) (b : pystr) (x : xml),
    c_non_strict cfg = false ->
    parse (rstrip_pad b) = PTree x -> soap_fault x = None ->
    (exact_responses cfg x = [] \/
     exists r ps, response_element cfg x = Some r /\
                  arg_pairs float_of_str lower_ext cfg (children_of r) = Some ps /\
                  existsb (fun c => negb (declared cfg c)) (children_of r) = true) ->
    call parse float_of_str lower_ext cfg 200%Z (Some b) = Raised EUpnpError.
Proof. exact strict_refuses. Qed.
Print Assumptions C07_strict_refuses.

(* Non-strict mode: failing the service's namespace, the response element is the first one with the
   action's local name in any namespace (C07_success_exact then applies to it, undeclared children skipped). *)
Theorem C07_non_strict_foreign :
  forall (cfg : config) (x : xml),
    c_non_strict cfg = true -> exact_responses cfg x = [] ->
    response_element cfg x = hd_error (any_ns_responses cfg x).
Proof. exact non_strict_foreign. Qed.
Print Assumptions C07_non_strict_foreign.

(* Trailing padding (blank, tab, CR, LF, NUL; any number, any order) never changes the outcome; with a
   status other than 200 leading padding does not either.  For EVERY parser. *)
Theorem C07_padding_irrelevant :
  forall (parse : pystr -> parsed) (float_of_str : pystr -> option fl) (lower_ext : N -> N)
         (cfg : config) (status : Z) (b lead trail : pystr),
    forallb is_pad lead = true -> forallb is_pad trail = true ->
    (status = 200%Z -> lead = []) ->
    call parse float_of_str lower_ext cfg status (Some (lead ++ b ++ trail)) =
    call parse float_of_str lower_ext cfg status (Some b).
Proof. exact padding_irrelevant. Qed.
Print Assumptions C07_padding_irrelevant.

(* Decode table, success row: the envelope a conforming device sends (any root tag, any container
   texts = any whitespace, response element in the service's namespace, arguments as leaf elements in
   any order and number), every argument declared and convertible: the dict is the mapping of the values. *)
Theorem C07_table_success :
  forall (parse : pystr -> parsed) (float_of_str : pystr -> option fl) (lower_ext : N -> N)
         (cfg : config) (b tenv : pystr) (t1 t2 t3 : option pystr)
         (args : list (pystr * pystr)) (vals : list (pystr * pyval)),
    wf_config cfg = true ->
    parse (rstrip_pad b) = PTree (success_tree cfg tenv t1 t2 t3 args) ->
    Forall2 (fun (nt : pystr * pystr) (nv : pystr * pyval) =>
               fst nv = fst nt /\
               exists a, find_argument (c_args cfg) (fst nt) = Some a /\
                         coerce float_of_str lower_ext a (snd nt) = Ok (snd nv)) args vals ->
    exists d, call parse float_of_str lower_ext cfg 200%Z (Some b) = Returned d /\ NoDup (dkeys d) /\
              forall k, dget str_eqb d k = dlast str_eqb vals k.
Proof. exact table_success. Qed.
Print Assumptions C07_table_success.

(* "converted to the declared Python types": for every row of STATE_VARIABLE_TYPE_MAPPING (generated) and
   every value of the row's type (C08's domain), the wire text the row's out-coercer writes converts back
   to that value (float: under the stated premise on repr/parse). *)
Theorem C07_typed_value :
  forall (float_str : fl -> pystr) (float_of_str : pystr -> option fl) (lower_ext : N -> N)
         (a : arg) (row : type_row) (v : pyval) (w : pystr),
    (forall f, f <> FNan -> float_of_str (float_str f) = Some f) ->
    find_row (a_type a) type_table = Some row -> value_in_domain (r_type row) v = true ->
    apply_out float_str (r_out row) v = Ok w ->
    coerce float_of_str lower_ext a w = Ok v.
Proof. exact coerce_typed. Qed.
Print Assumptions C07_typed_value.

(* Argument order is irrelevant: two conforming 200 responses carrying the same arguments (each name at
   most once) in different orders decode to the same mapping. *)
Theorem C07_order_irrelevant :
  forall (parse : pystr -> parsed) (float_of_str : pystr -> option fl) (lower_ext : N -> N)
         (cfg : config) (b b' tenv tenv' : pystr) (t1 t2 t3 t1' t2' t3' : option pystr)
         (args args' : list (pystr * pystr)) (vals : list (pystr * pyval)),
    wf_config cfg = true ->
    Permutation args args' -> NoDup (map fst args) ->
    parse (rstrip_pad b) = PTree (success_tree cfg tenv t1 t2 t3 args) ->
    parse (rstrip_pad b') = PTree (success_tree cfg tenv' t1' t2' t3' args') ->
    Forall2 (fun (nt : pystr * pystr) (nv : pystr * pyval) =>
               fst nv = fst nt /\
               exists a, find_argument (c_args cfg) (fst nt) = Some a /\
                         coerce float_of_str lower_ext a (snd nt) = Ok (snd nv)) args vals ->
    exists d d', call parse float_of_str lower_ext cfg 200%Z (Some b) = Returned d /\
                 call parse float_of_str lower_ext cfg 200%Z (Some b') = Returned d' /\
                 forall k, dget str_eqb d k = dget str_eqb d' k.
Proof. exact order_irrelevant. Qed.
Print Assumptions C07_order_irrelevant.

(* Decode table, fault row: the standard SOAP fault with UPnP error z (every integer, written in decimal)
   and description desc (an empty element reads as ""), any container texts, any status. *)
Theorem C07_table_fault :
  forall (parse : pystr -> parsed) (float_of_str : pystr -> option fl) (lower_ext : N -> N)
         (cfg : config) (status : Z) (b tenv : pystr) (t1 t2 t3 t4 t5 fc fs : option pystr)
         (z : Z) (desc : option pystr),
    parse (document status b) = PTree (fault_tree tenv t1 t2 t3 t4 t5 fc fs (str_of_int z) desc) ->
    call parse float_of_str lower_ext cfg status (Some b) =
    Raised (if (status =? 200)%Z then EAction (Some z) (Some (or_empty desc))
            else EActionResponse (Some z) (Some (or_empty desc)) status).
Proof. exact table_fault. Qed.
Print Assumptions C07_table_fault.

(* ------------------------------------------------------------------ non-vacuity *)
Definition ex_cfg (non_strict : bool) : config :=
  mkConfig [117;114;110;58;120;58;121]                      (* urn:x:y *)
           [71;101;116]                                     (* Get *)
           [mkArg [86] s_out [117;105;50];                  (* V : ui2, out *)
            mkArg [78] s_out [115;116;114;105;110;103];     (* N : string, out *)
            mkArg [86] [105;110] [115;116;114;105;110;103]] (* V : string, in *)
           non_strict.
Definition ex_body : pystr := [60;120;47;62].                (* stands for the document text *)
Definition ex_parse (t : xml) (s : pystr) : parsed := if str_eqb s ex_body then PTree t else PParseError.
Definition ex_success : xml :=
  success_tree (ex_cfg false) [69] (Some [10]) None (Some [32]) [([78], [110]); ([86], [32;53;32])].

(* the domain is inhabited by each category; padding included; values convert *)
Example C07_success_inhabited :
  wf_config (ex_cfg false) = true /\
  expected (ex_parse ex_success) (fun _ => None) (fun c => c) (ex_cfg false) 200%Z (Some (ex_body ++ [0;10;0]))
  = Some (CatSuccess, XReturn [([78], VStr [110]); ([86], VInt 5)]) /\
  call (ex_parse ex_success) (fun _ => None) (fun c => c) (ex_cfg false) 200%Z (Some (ex_body ++ [0;10;0]))
  = Returned [([78], VStr [110]); ([86], VInt 5)].
Proof. vm_compute. repeat split; reflexivity. Qed.

Example C07_fault_inhabited :
  let t := fault_tree [69] None None None None None None None [52;48;50] (Some [73;110;118]) in
  expected (ex_parse t) (fun _ => None) (fun c => c) (ex_cfg false) 500%Z (Some ([32] ++ ex_body ++ [0]))
  = Some (CatFault, XRaise (EActionResponse (Some 402%Z) (Some [73;110;118]) 500%Z)) /\
  call (ex_parse t) (fun _ => None) (fun c => c) (ex_cfg false) 200%Z (Some ex_body)
  = Raised (EAction (Some 402%Z) (Some [73;110;118])).
Proof. vm_compute. split; reflexivity. Qed.

Example C07_strictness_inhabited :
  let foreign := Elem [69] None [Elem tag_body None
                   [Elem (qname [117;114;110;58;122] (response_local (ex_cfg false))) None [Elem [86] (Some [55]) []; Elem [88] None []]]] in
  expected (ex_parse foreign) (fun _ => None) (fun c => c) (ex_cfg false) 200%Z (Some ex_body)
  = Some (CatStrictness, XRaise EUpnpError) /\
  expected (ex_parse foreign) (fun _ => None) (fun c => c) (ex_cfg true) 200%Z (Some ex_body)
  = Some (CatStrictness, XReturn [([86], VInt 7)]) /\
  call (ex_parse foreign) (fun _ => None) (fun c => c) (ex_cfg true) 200%Z (Some ex_body) = Returned [([86], VInt 7)] /\
  expected (fun _ => PParseError) (fun _ => None) (fun c => c) (ex_cfg true) 200%Z (Some ex_body)
  = Some (CatNotXml, XRaise EXmlParse) /\
  expected (fun _ => PParseError) (fun _ => None) (fun c => c) (ex_cfg true) 404%Z (Some ex_body)
  = Some (CatOtherStatus, XRaise (EResponse 404%Z)).
Proof. vm_compute. repeat split; reflexivity. Qed.

(* the premises of the table rows are satisfiable: the arguments of ex_success are declared and convertible *)
Example C07_table_premises :
  Forall2 (fun (nt : pystr * pystr) (nv : pystr * pyval) =>
             fst nv = fst nt /\
             exists a, find_argument (c_args (ex_cfg false)) (fst nt) = Some a /\
                       coerce (fun _ => None) (fun c => c) a (snd nt) = Ok (snd nv))
          [([78], [110]); ([86], [32;53;32])] [([78], VStr [110]); ([86], VInt 5)].
Proof.
  repeat constructor; cbn [fst snd]; eexists; split; vm_compute; reflexivity.
Qed.
