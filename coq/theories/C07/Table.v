(* C07 — the decode table on rendered responses: a response model (success with out-arguments, fault with
   code and description) rendered as the SOAP envelope tree a conforming device sends, for every
   configuration, every text the parser may attach to the container elements (whitespace), every
   argument order; typed values through C08's round trip. *)
From Coq Require Import List Bool NArith ZArith Lia Permutation.
From AUC Require Import Prelude.PyStr Prelude.PyDict C08.TypesDef C08.Model C08.Spec C08.CodecInt C08.Codec
  Gen.Types Gen.DateMatchers C07.Model C07.Spec C07.Proofs C07.Readings.
Import ListNotations.
Local Open Scope N_scope.

Definition s_faultcode : pystr := [102;97;117;108;116;99;111;100;101].
Definition s_faultstring : pystr := [102;97;117;108;116;115;116;114;105;110;103].
Definition s_detail : pystr := [100;101;116;97;105;108].
Definition s_UPnPError : pystr := [85;80;110;80;69;114;114;111;114].
Definition tag_upnp_error : pystr := qname ns_control s_UPnPError.

(* ------------------------------------------------------------------ rendering *)
(* <name>text</name> *)
Definition arg_elem (p : pystr * pystr) : xml := Elem (fst p) (Some (snd p)) [].

(* <E:Envelope><E:Body><u:ActionResponse xmlns:u=serviceType> args </u:ActionResponse></E:Body></E:Envelope>;
   tenv: the root's tag (never looked at); t1 t2 t3: whatever text the parser attached to the containers *)
Definition success_tree (cfg : config) (tenv : pystr) (t1 t2 t3 : option pystr) (args : list (pystr * pystr)) : xml :=
  Elem tenv t1 [Elem tag_body t2 [Elem (response_tag cfg) t3 (map arg_elem args)]].

Definition fault_elem (t3 t4 t5 fc fs : option pystr) (code : pystr) (desc : option pystr) : xml :=
  Elem tag_fault t3
    [Elem s_faultcode fc []; Elem s_faultstring fs [];
     Elem s_detail t4 [Elem tag_upnp_error t5 [Elem tag_error_code (Some code) []; Elem tag_error_desc desc []]]].
Definition fault_tree (tenv : pystr) (t1 t2 t3 t4 t5 fc fs : option pystr) (code : pystr) (desc : option pystr) : xml :=
  Elem tenv t1 [Elem tag_body t2 [fault_elem t3 t4 t5 fc fs code desc]].

(* ------------------------------------------------------------------ well-formed names never collide with SOAP's *)
Definition has_slash (s : pystr) : bool := existsb (N.eqb 47) s.

Lemma name_ok_no_slash s : name_ok s = true -> has_slash s = false.
Proof.
  unfold name_ok, has_slash. destruct s as [|c0 r0]; [discriminate|]. generalize (c0 :: r0). clear.
  induction l as [|c r IH]; cbn [forallb existsb]; [reflexivity|]. intros H.
  apply andb_true_iff in H as [Hc Hr]. rewrite (IH Hr), orb_false_r.
  destruct (N.eqb_spec 47 c) as [<-|]; [|reflexivity]. vm_compute in Hc. discriminate.
Qed.

Lemma response_tag_no_slash cfg : wf_config cfg = true -> has_slash (response_tag cfg) = false.
Proof.
  unfold wf_config. intros H. apply andb_true_iff in H as [H _]. apply andb_true_iff in H as [Hs Ha].
  unfold response_tag, response_local, qname, has_slash.
  cbn [existsb]. rewrite existsb_app. cbn [existsb]. rewrite existsb_app.
  fold (has_slash (c_service_type cfg)). fold (has_slash (c_action cfg)).
  rewrite (name_ok_no_slash _ Hs), (name_ok_no_slash _ Ha). reflexivity.
Qed.

Lemma tag_body_slash : has_slash tag_body = true. Proof. vm_compute. reflexivity. Qed.
Lemma tag_fault_slash : has_slash tag_fault = true. Proof. vm_compute. reflexivity. Qed.

Lemma response_tag_not cfg t :
  wf_config cfg = true -> has_slash t = true ->
  str_eqb (response_tag cfg) t = false /\ str_eqb t (response_tag cfg) = false.
Proof.
  intros Hwf Ht. pose proof (response_tag_no_slash cfg Hwf) as Hn.
  split; apply not_true_is_false; intros E; apply str_eqb_true in E; congruence.
Qed.

(* ------------------------------------------------------------------ what the success tree holds *)
Lemma has_tag_elem t tag tx cs : has_tag t (Elem tag tx cs) = str_eqb tag t.
Proof. reflexivity. Qed.

Lemma flat_map_iter_leaves args : flat_map iter (map arg_elem args) = map arg_elem args.
Proof. induction args as [|a r IH]; cbn [map flat_map iter arg_elem app]; [reflexivity|]. now rewrite IH. Qed.

Lemma descend_success cfg tenv t1 t2 t3 args :
  descend (success_tree cfg tenv t1 t2 t3 args) =
  Elem tag_body t2 [Elem (response_tag cfg) t3 (map arg_elem args)] ::
  Elem (response_tag cfg) t3 (map arg_elem args) :: map arg_elem args.
Proof.
  unfold success_tree, descend. cbn [children_of flat_map iter app].
  now rewrite flat_map_iter_leaves, !app_nil_r.
Qed.

Lemma leaves_no_faults (pb pf : xml -> bool) args :
  flat_map (fun b => filter pf (children_of b)) (filter pb (map arg_elem args)) = [].
Proof.
  induction args as [|a r IH]; cbn [map filter flat_map]; [reflexivity|].
  destruct (pb (arg_elem a)); cbn [flat_map children_of arg_elem filter app]; exact IH.
Qed.

Lemma success_no_fault cfg tenv t1 t2 t3 args :
  wf_config cfg = true -> soap_fault (success_tree cfg tenv t1 t2 t3 args) = None.
Proof.
  intros Hwf. unfold soap_fault, faults. rewrite descend_success.
  destruct (response_tag_not cfg tag_body Hwf tag_body_slash) as [Hb _].
  destruct (response_tag_not cfg tag_fault Hwf tag_fault_slash) as [Hf _].
  cbn [filter]. rewrite !has_tag_elem, str_eqb_refl, Hb.
  cbn [flat_map children_of filter]. rewrite has_tag_elem, Hf. cbn [app].
  now rewrite leaves_no_faults.
Qed.

Lemma success_response cfg tenv t1 t2 t3 args :
  wf_config cfg = true ->
  response_element cfg (success_tree cfg tenv t1 t2 t3 args) =
  Some (Elem (response_tag cfg) t3 (map arg_elem args)).
Proof.
  intros Hwf. unfold response_element, exact_responses. rewrite descend_success.
  destruct (response_tag_not cfg tag_body Hwf tag_body_slash) as [_ Hb].
  cbn [filter]. now rewrite !has_tag_elem, Hb, str_eqb_refl.
Qed.

Lemma tag_of_arg_elem p : tag_of (arg_elem p) = fst p.
Proof. reflexivity. Qed.
Lemma text_of_arg_elem p : or_empty (text_of (arg_elem p)) = snd p.
Proof. reflexivity. Qed.

(* the converted pairs of rendered arguments *)
Lemma arg_pairs_rendered float_of_str lower_ext cfg args vals :
  Forall2 (fun (nt : pystr * pystr) (nv : pystr * pyval) =>
             fst nv = fst nt /\
             exists a, find_argument (c_args cfg) (fst nt) = Some a /\
                       coerce float_of_str lower_ext a (snd nt) = Ok (snd nv)) args vals ->
  arg_pairs float_of_str lower_ext cfg (map arg_elem args) = Some vals /\
  forall c, In c (map arg_elem args) -> declared cfg c = true.
Proof.
  induction 1 as [|[n t] [n' v] args vals [Hn [a [Ha Hc]]] _ [IH1 IH2]]; cbn [map arg_pairs].
  - split; [reflexivity | intros c []].
  - cbn [fst snd] in *. subst n'. rewrite !tag_of_arg_elem, !text_of_arg_elem. cbn [fst snd].
    rewrite Ha, Hc, IH1. split; [reflexivity|].
    intros c [<-|Hin]; [|now apply IH2]. unfold declared, arg_elem. cbn [tag_of fst]. now rewrite Ha.
Qed.

(* decode table, success row *)
Theorem table_success parse float_of_str lower_ext cfg b tenv t1 t2 t3 args vals :
  wf_config cfg = true ->
  parse (rstrip_pad b) = PTree (success_tree cfg tenv t1 t2 t3 args) ->
  Forall2 (fun (nt : pystr * pystr) (nv : pystr * pyval) =>
             fst nv = fst nt /\
             exists a, find_argument (c_args cfg) (fst nt) = Some a /\
                       coerce float_of_str lower_ext a (snd nt) = Ok (snd nv)) args vals ->
  exists d, call parse float_of_str lower_ext cfg 200%Z (Some b) = Returned d /\ NoDup (dkeys d) /\
            forall k, dget str_eqb d k = dlast str_eqb vals k.
Proof.
  intros Hwf Hp Hargs. destruct (arg_pairs_rendered _ _ _ _ _ Hargs) as [Hps Hdecl].
  eapply success_exact; [exact Hp | now apply success_no_fault | now apply success_response | | exact Hps].
  intros _ c Hin. cbn [children_of] in Hin. now apply Hdecl.
Qed.

(* ------------------------------------------------------------------ typed values (C08) *)
Lemma find_row_In name t row : find_row name t = Some row -> In row t.
Proof.
  induction t as [|r t IH]; cbn [find_row]; [discriminate|].
  destruct (str_eqb (r_name r) name); [intros [= <-]; now left | intros H; right; now apply IH].
Qed.

(* a value of the declared type, written by the library's own out-coercer (the normative wire format),
   converts back to itself *)
Lemma coerce_typed float_str float_of_str lower_ext a row v w :
  (forall f, f <> FNan -> float_of_str (float_str f) = Some f) ->
  find_row (a_type a) type_table = Some row -> value_in_domain (r_type row) v = true ->
  apply_out float_str (r_out row) v = Ok w ->
  coerce float_of_str lower_ext a w = Ok v.
Proof.
  intros Hfl Hrow Hdom Hout. unfold coerce. rewrite Hrow.
  destruct (roundtrip float_str float_of_str lower_ext Hfl row v (find_row_In _ _ _ Hrow) Hdom)
    as [w' [Ho [Hi _]]].
  rewrite Hout in Ho. injection Ho as <-. exact Hi.
Qed.

(* ------------------------------------------------------------------ argument order *)
Lemma dlast_perm (A : Type) (ps ps' : list (pystr * A)) :
  Permutation ps ps' -> NoDup (map fst ps) -> forall k, dlast str_eqb ps k = dlast str_eqb ps' k.
Proof.
  intros Hperm Hnd k.
  assert (Hnd' : NoDup (map fst ps')).
  { eapply Permutation_NoDup; [|exact Hnd]. now apply Permutation_map. }
  rewrite !(dlast_dget str_eqb str_eqb_spec) by assumption.
  destruct (dget str_eqb ps k) as [v|] eqn:E.
  - symmetry. apply (In_dget str_eqb str_eqb_spec); [exact Hnd'|].
    eapply Permutation_in; [exact Hperm|]. now apply (dget_In str_eqb str_eqb_spec).
  - destruct (dget str_eqb ps' k) as [v|] eqn:E'; [|reflexivity].
    apply (dget_In str_eqb str_eqb_spec) in E'. apply Permutation_sym in Hperm.
    eapply Permutation_in in E'; [|exact Hperm].
    apply (In_dget str_eqb str_eqb_spec) in E'; [|exact Hnd]. congruence.
Qed.

Lemma Forall2_perm (A B : Type) (R : A -> B -> Prop) l l' m :
  Permutation l l' -> Forall2 R l m -> exists m', Forall2 R l' m' /\ Permutation m m'.
Proof.
  intros Hp. revert m. induction Hp as [|x l l' Hp IH|x y l|l l' l'' Hp1 IH1 Hp2 IH2]; intros m H.
  - inversion H; subst. exists []. split; constructor.
  - inversion H as [|? y ? m0 Hxy Hr]; subst. destruct (IH _ Hr) as [m' [H1 H2]].
    exists (y :: m'). split; constructor; assumption.
  - inversion H as [|? b ? m0 Hyb Hr]; subst. inversion Hr as [|? a ? m1 Hxa Hr']; subst.
    exists (a :: b :: m1). split; [repeat constructor; assumption | apply perm_swap].
  - destruct (IH1 _ H) as [m1 [H1 P1]]. destruct (IH2 _ H1) as [m2 [H2 P2]].
    exists m2. split; [assumption | now apply perm_trans with m1].
Qed.

(* two 200 responses that carry the same out-arguments (each at most once) in different orders decode to
   the same mapping *)
Theorem order_irrelevant parse float_of_str lower_ext cfg b b' tenv tenv' t1 t2 t3 t1' t2' t3' args args' vals :
  wf_config cfg = true ->
  Permutation args args' -> NoDup (map fst args) ->
  parse (rstrip_pad b) = PTree (success_tree cfg tenv t1 t2 t3 args) ->
  parse (rstrip_pad b') = PTree (success_tree cfg tenv' t1' t2' t3' args') ->
  Forall2 (fun (nt : pystr * pystr) (nv : pystr * pyval) =>
             fst nv = fst nt /\
             exists a, find_argument (c_args cfg) (fst nt) = Some a /\
                       coerce float_of_str lower_ext a (snd nt) = Ok (snd nv)) args vals ->
  exists d d', call parse float_of_str lower_ext cfg 200%Z (Some b) = Returned d /\
               call parse float_of_str lower_ext cfg 200%Z (Some b') = Returned d' /\
               forall k, dget str_eqb d k = dget str_eqb d' k.
Proof.
  intros Hwf Hperm Hnd Hp Hp' Hargs.
  destruct (Forall2_perm _ _ _ _ _ _ Hperm Hargs) as [vals' [Hargs' Hpv]].
  destruct (table_success _ _ _ _ _ _ _ _ _ _ _ Hwf Hp Hargs) as [d [Hd [_ Hget]]].
  destruct (table_success _ _ _ _ _ _ _ _ _ _ _ Hwf Hp' Hargs') as [d' [Hd' [_ Hget']]].
  exists d, d'. split; [exact Hd|]. split; [exact Hd'|]. intros k. rewrite Hget, Hget'.
  apply dlast_perm; [exact Hpv|].
  assert (E : map fst vals = map fst args).
  { clear -Hargs. induction Hargs as [|x y l m [H _] _ IH]; cbn; [reflexivity|]. now rewrite H, IH. }
  now rewrite E.
Qed.

(* ------------------------------------------------------------------ the fault row *)
Lemma fault_tree_fault tenv t1 t2 t3 t4 t5 fc fs code desc :
  soap_fault (fault_tree tenv t1 t2 t3 t4 t5 fc fs code desc) = Some (fault_elem t3 t4 t5 fc fs code desc).
Proof. vm_compute. reflexivity. Qed.

Lemma fault_elem_code t3 t4 t5 fc fs code desc :
  first_text tag_error_code (fault_elem t3 t4 t5 fc fs code desc) = Some code.
Proof. vm_compute. reflexivity. Qed.

Lemma fault_elem_desc t3 t4 t5 fc fs code desc :
  first_text tag_error_desc (fault_elem t3 t4 t5 fc fs code desc) = Some (or_empty desc).
Proof. vm_compute. reflexivity. Qed.

Lemma str_of_int_nonnil z : str_of_int z <> [].
Proof.
  intros E. pose proof (int_roundtrip z) as H. rewrite E in H. vm_compute in H. discriminate.
Qed.

(* decode table, fault row: UPnP error z with description desc (an empty element reads as ""), any status *)
Theorem table_fault parse float_of_str lower_ext cfg status b tenv t1 t2 t3 t4 t5 fc fs (z : Z) desc :
  parse (document status b) = PTree (fault_tree tenv t1 t2 t3 t4 t5 fc fs (str_of_int z) desc) ->
  call parse float_of_str lower_ext cfg status (Some b) =
  Raised (if (status =? 200)%Z then EAction (Some z) (Some (or_empty desc))
          else EActionResponse (Some z) (Some (or_empty desc)) status).
Proof.
  intros Hp.
  rewrite (fault_decoded parse float_of_str lower_ext cfg status b _ _ (Some z) Hp (fault_tree_fault _ _ _ _ _ _ _ _ _ _)).
  - now rewrite fault_elem_desc.
  - unfold fault_code. rewrite fault_elem_code.
    destruct (str_of_int z) as [|c s] eqn:E; [now apply str_of_int_nonnil in E|].
    rewrite <- E, int_roundtrip. reflexivity.
Qed.
