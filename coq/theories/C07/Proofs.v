(* C07 — the model refines the specification: for every parser oracle, float oracle, configuration,
   status and body inside the domain, the model's outcome is the expected one. *)
From Coq Require Import List Bool NArith ZArith Lia Permutation.
From AUC Require Import Prelude.PyStr Prelude.PyDict C08.TypesDef C08.Model Gen.Types Gen.DateMatchers
  C07.Model C07.Spec.
Import ListNotations.
Local Open Scope N_scope.

(* ------------------------------------------------------------------ reflexivity of the comparisons *)
Lemma str_eqb_refl s : str_eqb s s = true.
Proof. destruct (str_eqb_spec s s); congruence. Qed.
Lemma str_eqb_true a b : str_eqb a b = true -> a = b.
Proof. destruct (str_eqb_spec a b); congruence. Qed.
Lemma oz_eqb_refl a : oz_eqb a a = true.
Proof. destruct a; cbn; [apply Z.eqb_refl | reflexivity]. Qed.
Lemma ostr_eqb_refl a : ostr_eqb a a = true.
Proof. destruct a; cbn; [apply str_eqb_refl | reflexivity]. Qed.
Lemma exn_eqb_refl e : exn_eqb e e = true.
Proof. destruct e; reflexivity. Qed.
Lemma err_eqb_refl e : err_eqb e e = true.
Proof.
  destruct e; cbn; rewrite ?oz_eqb_refl, ?ostr_eqb_refl, ?Z.eqb_refl, ?exn_eqb_refl; reflexivity.
Qed.
Lemma fl_eqb_refl f : fl_eqb f f = true.
Proof. destruct f; cbn; rewrite ?Z.eqb_refl, ?eqb_reflx; reflexivity. Qed.
Lemma date_eqb_refl d : date_eqb d d = true.
Proof. unfold date_eqb. now rewrite !N.eqb_refl. Qed.
Lemma time_eqb_refl t : time_eqb t t = true.
Proof. unfold time_eqb. now rewrite !N.eqb_refl, oz_eqb_refl. Qed.
Lemma val_eqb_refl v : val_eqb v v = true.
Proof.
  destruct v; cbn; rewrite ?Z.eqb_refl, ?eqb_reflx, ?fl_eqb_refl, ?str_eqb_refl, ?date_eqb_refl,
    ?time_eqb_refl; reflexivity.
Qed.
Lemma oval_eqb_refl v : oval_eqb v v = true.
Proof. destruct v; cbn; [apply val_eqb_refl | reflexivity]. Qed.

Lemma nodupb_NoDup l : NoDup l -> nodupb l = true.
Proof.
  induction 1 as [|x l Hn Hnd IH]; cbn; [reflexivity|]. rewrite IH, andb_true_r.
  apply negb_true_iff. apply not_true_is_false. intros H. apply existsb_exists in H as [y [Hy E]].
  apply str_eqb_true in E. subst. contradiction.
Qed.
Lemma nodupb_true l : nodupb l = true -> NoDup l.
Proof.
  induction l as [|x l IH]; cbn; [constructor|]. intros H. apply andb_true_iff in H as [H1 H2].
  constructor; [|now apply IH]. intros Hin. apply negb_true_iff in H1.
  assert (existsb (str_eqb x) l = true) by (apply existsb_exists; exists x; split; [assumption | apply str_eqb_refl]).
  congruence.
Qed.

(* ------------------------------------------------------------------ searches = comprehensions *)
Lemma find_hd (A : Type) (p : A -> bool) l : find p l = hd_error (filter p l).
Proof. induction l as [|a l IH]; cbn; [reflexivity|]. destruct (p a); [reflexivity | exact IH]. Qed.

Lemma first_fault_child_spec l :
  first_fault_child l =
  hd_error (flat_map (fun b => filter (has_tag tag_fault) (children_of b)) (filter (has_tag tag_body) l)).
Proof.
  induction l as [|b l IH]; [reflexivity|].
  cbn [first_fault_child filter]. destruct (has_tag tag_body b); [|exact IH].
  cbn [flat_map]. rewrite find_hd.
  destruct (filter (has_tag tag_fault) (children_of b)); [exact IH | reflexivity].
Qed.

Lemma find_fault_spec x : find_fault x = hd_error (faults x).
Proof. apply first_fault_child_spec. Qed.

Lemma findtext_spec tag f : findtext tag f = first_text tag f.
Proof.
  unfold findtext, first_text. rewrite find_hd.
  destruct (filter (has_tag tag) (descend f)); reflexivity.
Qed.

Lemma parse_fault_none x st : soap_fault x = None -> parse_fault x st = None.
Proof.
  unfold soap_fault, parse_fault. rewrite find_fault_spec.
  destruct (faults x) as [|f r]; [reflexivity|]. cbn [hd_error].
  destruct (children_of f); [reflexivity | discriminate].
Qed.

Lemma parse_fault_some x st f code :
  soap_fault x = Some f -> fault_code f = Some code ->
  parse_fault x st =
  Some (match st with
        | Some s => EActionResponse code (first_text tag_error_desc f) s
        | None => EAction code (first_text tag_error_desc f)
        end).
Proof.
  unfold soap_fault, parse_fault, fault_code. rewrite find_fault_spec.
  destruct (faults x) as [|f0 r]; [discriminate|]. cbn [hd_error].
  destruct (children_of f0) eqn:Ec; [discriminate|]. intros [= ->].
  rewrite !findtext_spec.
  destruct (first_text tag_error_code f) as [[|c s]|].
  - intros [= <-]. reflexivity.
  - destruct (int_of_str (c :: s)); [|discriminate]. intros [= <-]. reflexivity.
  - intros [= <-]. reflexivity.
Qed.

(* a fault whose code text is not an integer: the builtin exception escapes (outside the domain) *)
Lemma parse_fault_badcode x st f :
  soap_fault x = Some f -> fault_code f = None -> exists e, parse_fault x st = Some (ERaw e).
Proof.
  unfold soap_fault, parse_fault, fault_code. rewrite find_fault_spec.
  destruct (faults x) as [|f0 r]; [discriminate|]. cbn [hd_error].
  destruct (children_of f0) eqn:Ec; [discriminate|]. intros [= ->].
  rewrite !findtext_spec.
  destruct (first_text tag_error_code f) as [[|c s]|]; try discriminate.
  destruct (int_of_str (c :: s)) as [z|e]; [discriminate|]. intros _. now exists e.
Qed.

Lemma find_response_spec cfg x : find_response cfg x = response_element cfg x.
Proof.
  unfold find_response, response_element, exact_responses, any_ns_responses. rewrite !find_hd.
  destruct (filter (has_tag (response_tag cfg)) (descend x)); reflexivity.
Qed.

(* ------------------------------------------------------------------ the argument loop *)
Section Loop.
  Variable float_of_str : pystr -> option fl.
  Variable lower_ext : N -> N.
  Variable cfg : config.
  Let loop := args_loop float_of_str lower_ext cfg.
  Let pairs := arg_pairs float_of_str lower_ext cfg.

  Lemma args_loop_spec children : forall acc ps,
    pairs children = Some ps ->
    loop children acc =
    if negb (c_non_strict cfg) && existsb (fun c => negb (declared cfg c)) children
    then Raised EUpnpError
    else Returned (dmerge str_eqb acc ps).
  Proof.
    subst loop pairs.
    induction children as [|c r IH]; intros acc ps H.
    - cbn in H. injection H as <-. cbn. now rewrite andb_false_r.
    - cbn [arg_pairs] in H. cbn [args_loop existsb]. unfold declared at 1.
      destruct (find_argument (c_args cfg) (tag_of c)) as [a|] eqn:Ea.
      + destruct (coerce float_of_str lower_ext a (or_empty (text_of c))) as [v|e]; [|discriminate].
        destruct (arg_pairs float_of_str lower_ext cfg r) as [ps'|] eqn:Ep; [|discriminate].
        injection H as <-. cbn [negb orb]. rewrite (IH _ ps' eq_refl). reflexivity.
      + cbn [negb orb]. destruct (c_non_strict cfg) eqn:Ens.
        * cbn [negb andb]. rewrite (IH _ ps H). reflexivity.
        * reflexivity.
  Qed.

  (* a child that cannot be converted: the builtin exception escapes, unless an undeclared child
     comes first in strict mode (outside the domain either way) *)
  Lemma args_loop_unconvertible children : forall acc,
    pairs children = None ->
    exists e, loop children acc = Raised e.
  Proof.
    subst loop pairs.
    induction children as [|c r IH]; intros acc H; [discriminate|].
    cbn [arg_pairs] in H. cbn [args_loop].
    destruct (find_argument (c_args cfg) (tag_of c)) as [a|].
    - destruct (coerce float_of_str lower_ext a (or_empty (text_of c))) as [v|e]; [|eexists; reflexivity].
      destruct (arg_pairs float_of_str lower_ext cfg r); [discriminate|]. now apply IH.
    - destruct (c_non_strict cfg); [now apply IH | eexists; reflexivity].
  Qed.
End Loop.

Lemma dget_dmerge_nil (ps : list (pystr * pyval)) k :
  dget str_eqb (dmerge str_eqb [] ps) k = dlast str_eqb ps k.
Proof.
  rewrite (dget_dmerge str_eqb str_eqb_spec). destruct (dlast str_eqb ps k); reflexivity.
Qed.

Lemma NoDup_dmerge_nil (ps : list (pystr * pyval)) : NoDup (dkeys (dmerge str_eqb [] ps)).
Proof. apply (NoDup_dmerge str_eqb str_eqb_spec). constructor. Qed.

Lemma args_match_dmerge ps : args_match ps (dmerge str_eqb [] ps) = true.
Proof.
  unfold args_match. rewrite (nodupb_NoDup _ (NoDup_dmerge_nil ps)). cbn [andb].
  apply forallb_forall. intros k _. rewrite dget_dmerge_nil. apply oval_eqb_refl.
Qed.

(* what args_match says, as a proposition *)
Lemma args_match_sound ps d :
  args_match ps d = true ->
  NoDup (dkeys d) /\ forall k, dget str_eqb d k = dlast str_eqb ps k.
Proof.
  unfold args_match. intros H. apply andb_true_iff in H as [H1 H2]. split; [now apply nodupb_true|].
  intros k. rewrite forallb_forall in H2.
  destruct (dget str_eqb d k) as [v|] eqn:Eg.
  - assert (Hin : In k (dkeys d ++ map fst ps)).
    { apply in_app_iff. left. now apply (dget_Some_in str_eqb str_eqb_spec) with v. }
    specialize (H2 _ Hin). rewrite Eg in H2.
    destruct (dlast str_eqb ps k) as [w|]; [|discriminate]. cbn in H2.
    (* val_eqb is a sound equality *)
    revert H2. clear. revert w.
    assert (Hoz : forall a b, oz_eqb a b = true -> a = b).
    { intros [a|] [b|]; cbn; try discriminate; try reflexivity. intros H. apply Z.eqb_eq in H. now subst. }
    assert (Hd : forall a b, date_eqb a b = true -> a = b).
    { intros [] []; unfold date_eqb; cbn. intros H.
      apply andb_true_iff in H as [H H3]. apply andb_true_iff in H as [H1 H2].
      apply N.eqb_eq in H1, H2, H3. now subst. }
    assert (Ht : forall a b, time_eqb a b = true -> a = b).
    { intros [] []; unfold time_eqb; cbn. intros H.
      apply andb_true_iff in H as [H H4]. apply andb_true_iff in H as [H H3].
      apply andb_true_iff in H as [H1 H2]. apply N.eqb_eq in H1, H2, H3. apply Hoz in H4. now subst. }
    destruct v, w; cbn; try discriminate; intros H.
    + apply Z.eqb_eq in H. now subst.
    + apply eqb_prop in H. now subst.
    + destruct f, f0; cbn in H; try discriminate.
      * apply andb_true_iff in H as [H1 H2]. apply Z.eqb_eq in H1, H2. now subst.
      * apply eqb_prop in H. now subst.
      * reflexivity.
    + apply str_eqb_true in H. now subst.
    + apply Hd in H. now subst.
    + apply Ht in H. now subst.
    + apply andb_true_iff in H as [H1 H2]. apply Hd in H1. apply Ht in H2. now subst.
    + reflexivity.
  - destruct (dlast str_eqb ps k) as [w|] eqn:El; [|reflexivity].
    assert (Hin : In k (dkeys d ++ map fst ps)).
    { apply in_app_iff. right. apply (dlast_In str_eqb str_eqb_spec) in El.
      apply in_map_iff. now exists (k, w). }
    specialize (H2 _ Hin). rewrite Eg, El in H2. discriminate.
Qed.

(* ------------------------------------------------------------------ the main refinement *)
Section Main.
  Variable parse : pystr -> parsed.
  Variable float_of_str : pystr -> option fl.
  Variable lower_ext : N -> N.
  Let callm := call parse float_of_str lower_ext.
  Let expectedm := expected parse float_of_str lower_ext.

  (* the model on a 200 response whose document is the tree x without a fault *)
  Lemma response_args_spec cfg x :
    parse_response_args float_of_str lower_ext cfg x =
    match response_element cfg x with
    | None => Raised EUpnpError
    | Some r => args_loop float_of_str lower_ext cfg (children_of r) []
    end.
  Proof. unfold parse_response_args. now rewrite find_response_spec. Qed.

  Theorem decode_exact cfg status body c x :
    expectedm cfg status body = Some (c, x) ->
    meets x (callm cfg status body) = true.
  Proof.
    subst callm expectedm. unfold expected, call, document.
    destruct (wf_config cfg); [|discriminate]. cbn [negb].
    destruct body as [b|]; [|discriminate].
    destruct (status =? 200)%Z eqn:Est; cbn [negb].
    - destruct (parse (rstrip_pad b)) as [t| | |]; try discriminate.
      + unfold classify_tree. rewrite Est. cbn [negb].
        destruct (empty_fault t); [discriminate|].
        destruct (soap_fault t) as [f|] eqn:Ef.
        * destruct (fault_code f) as [code|] eqn:Ec; [|discriminate]. intros [= <- <-].
          rewrite (parse_fault_some _ None _ _ Ef Ec). cbn [meets]. apply err_eqb_refl.
        * rewrite (parse_fault_none _ None Ef), response_args_spec.
          destruct (response_element cfg t) as [r|].
          -- destruct (arg_pairs float_of_str lower_ext cfg (children_of r)) as [ps|] eqn:Ep; [|discriminate].
             rewrite (args_loop_spec _ _ _ _ _ _ Ep).
             destruct (existsb (fun c0 => negb (declared cfg c0)) (children_of r));
               destruct (negb (has_tag (response_tag cfg) r)); destruct (c_non_strict cfg);
               cbn [andb orb negb]; intros [= <- <-]; cbn [meets]; try apply args_match_dmerge; reflexivity.
          -- intros [= <- <-]. reflexivity.
      + intros [= <- <-]. reflexivity.
    - destruct (parse (strip_pad b)) as [t| | |]; try discriminate.
      + unfold classify_tree. rewrite Est. cbn [negb].
        destruct (empty_fault t); [discriminate|].
        destruct (soap_fault t) as [f|] eqn:Ef.
        * destruct (fault_code f) as [code|] eqn:Ec; [|discriminate]. intros [= <- <-].
          rewrite (parse_fault_some _ (Some status) _ _ Ef Ec). cbn [meets]. apply err_eqb_refl.
        * rewrite (parse_fault_none _ (Some status) Ef). intros [= <- <-]. cbn [meets err_eqb]. apply Z.eqb_refl.
      + intros [= <- <-]. cbn [meets err_eqb]. apply Z.eqb_refl.
  Qed.

  (* the five clauses the correspondence check evaluates, each for the model *)
  Corollary clause_holds cat cfg status body :
    clause cat (expectedm cfg status body) (callm cfg status body) = true.
  Proof.
    unfold clause. destruct (expectedm cfg status body) as [[c x]|] eqn:E; [|reflexivity].
    destruct (cat_eqb cat c); [|reflexivity]. now apply decode_exact with c.
  Qed.
End Main.
