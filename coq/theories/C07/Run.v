(* C07 — instantiation used by the correspondence check (never by a theorem). *)
From Coq Require Import List Bool NArith ZArith.
From AUC Require Export Prelude.PyStr Prelude.PyDict C08.TypesDef C08.Model Gen.Types Gen.DateMatchers
  C07.Model C07.Spec.
Import ListNotations.
Local Open Scope N_scope.

(* one response handed to async_call on the same action object.  s_orc: recorded answers of the XML
   parser, each for the body without its first a and last z characters, with its source:
     0 = the call the harness saw the implementation make (with whatever parser options it passed),
     1 = the harness's own call of defusedxml.ElementTree.fromstring (default options) on the document
         the specification speaks about (the body without its padding),
     2 = both (same text, same answer).
   The model asks the implementation's parser first, the specification the reference parser first, so
   the specification can judge the implementation's observation even when the implementation parsed
   some other text or configured the parser differently. *)
Record step := mkStep { s_status : Z; s_body : option pystr; s_orc : list (nat * nat * N * parsed) }.
(* configuration, recorded answers of float(), the responses in order *)
Definition input : Type := config * list (pystr * option fl) * list step.
Definition observation : Type := list outcome.

Definition slice (a z : nat) (b : pystr) : pystr := firstn (length b - a - z) (skipn a b).

Definition lookup (prefer : N) (s : step) (t : pystr) : parsed :=
  match s_body s with
  | Some b =>
      let hit (any : bool) (e : nat * nat * N * parsed) :=
        let '(a, z, src, _) := e in
        (any || (src =? prefer) || (src =? 2)) && str_eqb t (slice a z b) in
      match find (hit false) (s_orc s) with
      | Some (_, _, _, r) => r
      | None => match find (hit true) (s_orc s) with Some (_, _, _, r) => r | None => PUnrecorded end
      end
  | None => PUnrecorded
  end.
Definition step_parse (s : step) : pystr -> parsed := lookup 0 s.        (* the model's oracle *)
Definition step_parse_ref (s : step) : pystr -> parsed := lookup 1 s.    (* the specification's oracle *)
Definition fparse (tbl : list (pystr * option fl)) (s : pystr) : option fl :=
  match find (fun p => str_eqb (fst p) s) tbl with Some p => snd p | None => None end.
Definition lext (c : N) : N := c.

Definition model_step (cfg : config) (tbl : list (pystr * option fl)) (s : step) : outcome :=
  call (step_parse s) (fparse tbl) lext cfg (s_status s) (s_body s).
Definition expected_step (cfg : config) (tbl : list (pystr * option fl)) (s : step) :=
  expected (step_parse_ref s) (fparse tbl) lext cfg (s_status s) (s_body s).

(* the action object is stateless as far as its results go: a history is decoded response by response *)
Definition model_run (i : input) : observation :=
  let '(cfg, tbl, steps) := i in map (model_step cfg tbl) steps.

(* Python's dict == dict (order-insensitive), exceptions by class and attributes *)
Definition outcome_eqb (a b : outcome) : bool :=
  match a, b with
  | Returned d1, Returned d2 => nodupb (dkeys d2) && deqb str_eqb val_eqb d1 d2
  | Raised e1, Raised e2 => err_eqb e1 e2
  | _, _ => false
  end.

Definition cat_id (c : category) : N :=
  match c with CatSuccess => 1 | CatFault => 2 | CatOtherStatus => 3 | CatNotXml => 4 | CatStrictness => 5 end.
Definition all_cats := [CatSuccess; CatFault; CatOtherStatus; CatNotXml; CatStrictness].

Fixpoint report_steps (base : N) (k : N) (cfg : config) (tbl : list (pystr * option fl))
         (steps : list step) (obs : list outcome) : list (N * N * N) :=
  match steps, obs with
  | [], [] => []
  | s :: steps', o :: obs' =>
      (if outcome_eqb (model_step cfg tbl s) o then [] else [(base, 0, k)]) ++
      (let ex := expected_step cfg tbl s in
       flat_map (fun c => if clause c ex o then [] else [(base, cat_id c, k)]) all_cats) ++
      report_steps base (N.succ k) cfg tbl steps' obs'
  | _, _ => [(base, 0, k)]
  end.

Fixpoint report (base : N) (cases : list (input * observation)) : list (N * N * N) :=
  match cases with
  | [] => []
  | ((cfg, tbl, steps), obs) :: r =>
      report_steps base 0 cfg tbl steps obs ++ report (N.succ base) r
  end.

Definition replay (c : input * observation) :=
  let '((cfg, tbl, steps), obs) := c in
  (model_run (cfg, tbl, steps), map (expected_step cfg tbl) steps, report 0 [c]).
