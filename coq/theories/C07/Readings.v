(* C07 — the statement's sentences as propositions about the model, and padding irrelevance. *)
From Coq Require Import List Bool NArith ZArith Lia Permutation.
From AUC Require Import Prelude.PyStr Prelude.PyDict C08.TypesDef C08.Model Gen.Types Gen.DateMatchers
  C07.Model C07.Spec C07.Proofs.
Import ListNotations.
Local Open Scope N_scope.

Section Readings.
  Variable parse : pystr -> parsed.
  Variable float_of_str : pystr -> option fl.
  Variable lower_ext : N -> N.
  Let callm := call parse float_of_str lower_ext.
  Let pairs := arg_pairs float_of_str lower_ext.

  (* "a 200 response whose body holds the action's response element returns exactly the out-arguments
     present, converted to the declared Python types" (in non-strict mode also: undeclared children are
     skipped and the response element may be the one found in a foreign namespace) *)
  Theorem success_exact cfg b x r ps :
    parse (rstrip_pad b) = PTree x -> soap_fault x = None ->
    response_element cfg x = Some r ->
    (c_non_strict cfg = false -> forall c, In c (children_of r) -> declared cfg c = true) ->
    pairs cfg (children_of r) = Some ps ->
    exists d, callm cfg 200%Z (Some b) = Returned d /\ NoDup (dkeys d) /\
              forall k, dget str_eqb d k = dlast str_eqb ps k.
  Proof.
    subst callm pairs. intros Hp Hf Hr Hdecl Hps. unfold call. cbn [Z.eqb Pos.eqb negb].
    rewrite Hp, (parse_fault_none _ None Hf), response_args_spec, Hr, (args_loop_spec _ _ _ _ _ _ Hps).
    assert (E : negb (c_non_strict cfg) && existsb (fun c => negb (declared cfg c)) (children_of r) = false).
    { destruct (c_non_strict cfg) eqn:Ens; [reflexivity|]. cbn [negb andb].
      apply not_true_is_false. intros H. apply existsb_exists in H as [c [Hin Hc]].
      rewrite (Hdecl eq_refl c Hin) in Hc. discriminate. }
    rewrite E. eexists. split; [reflexivity|]. split; [apply NoDup_dmerge_nil | apply dget_dmerge_nil].
  Qed.

  (* what the pairs are: one per child that is a declared out-argument, in document order, carrying the
     child's name and its text ("" for an empty element) converted by the related state variable's
     in-coercer *)
  Lemma arg_pairs_exact cfg children ps :
    pairs cfg children = Some ps ->
    Forall2 (fun c p => fst p = tag_of c /\
                        exists a, find_argument (c_args cfg) (tag_of c) = Some a /\
                                  coerce float_of_str lower_ext a (or_empty (text_of c)) = Ok (snd p))
            (filter (declared cfg) children) ps.
  Proof.
    subst pairs. revert ps. induction children as [|c r IH]; intros ps H.
    - cbn in H. injection H as <-. constructor.
    - cbn [arg_pairs] in H. cbn [filter]. unfold declared at 1.
      destruct (find_argument (c_args cfg) (tag_of c)) as [a|] eqn:Ea.
      + destruct (coerce float_of_str lower_ext a (or_empty (text_of c))) as [v|] eqn:Ev; [|discriminate].
        destruct (arg_pairs float_of_str lower_ext cfg r) as [ps'|]; [|discriminate].
        injection H as <-. constructor; [|now apply IH]. split; [reflexivity|]. exists a. now split.
      + now apply IH.
  Qed.

  (* "a SOAP fault, with any HTTP status, raises the action error carrying the UPnP error code and
     description (and the HTTP status when it is not 200)" *)
  Theorem fault_decoded cfg status b x f code :
    parse (document status b) = PTree x -> soap_fault x = Some f -> fault_code f = Some code ->
    callm cfg status (Some b) =
    Raised (if (status =? 200)%Z then EAction code (first_text tag_error_desc f)
            else EActionResponse code (first_text tag_error_desc f) status).
  Proof.
    subst callm. unfold document, call. intros Hp Hf Hc.
    destruct (status =? 200)%Z; cbn [negb]; rewrite Hp.
    - now rewrite (parse_fault_some _ None _ _ Hf Hc).
    - now rewrite (parse_fault_some _ (Some status) _ _ Hf Hc).
  Qed.

  (* "any other non-200 raises the response error carrying the status" *)
  Theorem other_status cfg status b :
    status <> 200%Z ->
    (parse (strip_pad b) = PParseError \/ exists x, parse (strip_pad b) = PTree x /\ soap_fault x = None) ->
    callm cfg status (Some b) = Raised (EResponse status).
  Proof.
    subst callm. intros Hs H. unfold call. apply Z.eqb_neq in Hs. rewrite Hs. cbn [negb].
    destruct H as [-> | [x [-> Hf]]]; [reflexivity|]. now rewrite (parse_fault_none _ (Some status) Hf).
  Qed.

  (* "a body that is not XML raises the XML-parse error" *)
  Theorem not_xml cfg b :
    parse (rstrip_pad b) = PParseError -> callm cfg 200%Z (Some b) = Raised EXmlParse.
  Proof. subst callm. intros H. unfold call. cbn [Z.eqb Pos.eqb negb]. now rewrite H. Qed.

  (* "Unknown out-arguments or a response element in a foreign namespace are errors in strict mode ..." *)
  Theorem strict_refuses cfg b x :
    c_non_strict cfg = false ->
    parse (rstrip_pad b) = PTree x -> soap_fault x = None ->
    (exact_responses cfg x = [] \/
     exists r ps, response_element cfg x = Some r /\ pairs cfg (children_of r) = Some ps /\
                  existsb (fun c => negb (declared cfg c)) (children_of r) = true) ->
    callm cfg 200%Z (Some b) = Raised EUpnpError.
  Proof.
    subst callm pairs. intros Hs Hp Hf H. unfold call. cbn [Z.eqb Pos.eqb negb].
    rewrite Hp, (parse_fault_none _ None Hf), response_args_spec.
    destruct H as [He | [r [ps [Hr [Hps Hu]]]]].
    - unfold response_element. now rewrite He, Hs.
    - rewrite Hr, (args_loop_spec _ _ _ _ _ _ Hps), Hs, Hu. reflexivity.
  Qed.

  (* "... and tolerated in non-strict mode": the response element is then looked up by local name, and
     [success_exact] applies to it with undeclared children skipped *)
  Theorem non_strict_foreign cfg x :
    c_non_strict cfg = true -> exact_responses cfg x = [] ->
    response_element cfg x = hd_error (any_ns_responses cfg x).
  Proof. intros Hn He. unfold response_element. now rewrite He, Hn. Qed.
End Readings.

(* ------------------------------------------------------------------ padding *)
Lemma lstrip_pad_all p : forallb is_pad p = true -> lstrip_pad p = [].
Proof.
  induction p as [|c r IH]; cbn [forallb lstrip_pad]; [reflexivity|]. intros H.
  apply andb_true_iff in H as [-> H]. now apply IH.
Qed.

Lemma lstrip_pad_app_pad p s : forallb is_pad p = true -> lstrip_pad (p ++ s) = lstrip_pad s.
Proof.
  induction p as [|c r IH]; cbn [forallb lstrip_pad app]; [reflexivity|]. intros H.
  apply andb_true_iff in H as [-> H]. now apply IH.
Qed.

Lemma forallb_rev (A : Type) (f : A -> bool) l : forallb f l = true -> forallb f (rev l) = true.
Proof.
  rewrite !forallb_forall. intros H x Hx. apply H. now apply in_rev.
Qed.

Lemma rstrip_pad_app b p : forallb is_pad p = true -> rstrip_pad (b ++ p) = rstrip_pad b.
Proof.
  intros H. unfold rstrip_pad. rewrite rev_app_distr, lstrip_pad_app_pad; [reflexivity|].
  now apply forallb_rev.
Qed.

Lemma lstrip_pad_app b t :
  forallb is_pad t = true ->
  lstrip_pad (b ++ t) = lstrip_pad b ++ t \/ (lstrip_pad (b ++ t) = [] /\ lstrip_pad b = []).
Proof.
  intros Ht. induction b as [|c r IH]; cbn [app lstrip_pad].
  - right. split; [now apply lstrip_pad_all | reflexivity].
  - destruct (is_pad c); [exact IH | now left].
Qed.

Lemma strip_pad_app l b t :
  forallb is_pad l = true -> forallb is_pad t = true -> strip_pad (l ++ b ++ t) = strip_pad b.
Proof.
  intros Hl Ht. unfold strip_pad. rewrite lstrip_pad_app_pad by exact Hl.
  destruct (lstrip_pad_app b t Ht) as [-> | [-> ->]]; [|reflexivity].
  now apply rstrip_pad_app.
Qed.

(* trailing padding (blank, tab, CR, LF, NUL in any number and order) never changes the outcome; with a
   status other than 200, leading padding does not either.  For every parser oracle: the parser is
   asked about the same text. *)
Theorem padding_irrelevant parse float_of_str lower_ext cfg status b lead trail :
  forallb is_pad lead = true -> forallb is_pad trail = true ->
  (status = 200%Z -> lead = []) ->
  call parse float_of_str lower_ext cfg status (Some (lead ++ b ++ trail)) =
  call parse float_of_str lower_ext cfg status (Some b).
Proof.
  intros Hl Ht H200. unfold call. destruct (status =? 200)%Z eqn:E; cbn [negb].
  - apply Z.eqb_eq in E. rewrite (H200 E). cbn [app]. now rewrite rstrip_pad_app.
  - now rewrite strip_pad_app.
Qed.
