(* C07 — SOAP responses and faults are decoded faithfully: executable model of the anchored code.
   Definitions only.

   async_upnp_client/client.py   UpnpAction.async_call (everything after the request returned),
                                 UpnpAction.parse_response, UpnpAction._parse_response_args,
                                 UpnpAction.argument, UpnpAction.Argument.upnp_value (setter) ->
                                 UpnpStateVariable.coerce_python, _parse_fault
   async_upnp_client/const.py    NS (the two namespace URIs the queries use),
                                 STATE_VARIABLE_TYPE_MAPPING (through C08: Gen/Types.v, apply_in)
   async_upnp_client/exceptions.py  the classes raised (constructors of [err])

   What is an oracle (Section variable, never an axiom):
     parse        : XML text -> what defusedxml.ElementTree.fromstring did with it: the tree (as far as
                    the code reads it: tag, text, children in document order), xml ParseError, or some
                    other exception (defusedxml refuses entity declarations by raising);
     float_of_str : float();   lower_ext : str.lower() outside ASCII   (C08's oracles).
   What is modelled concretely: str.strip / str.rstrip over the five characters, the three ElementPath
   queries (".//{ns}a/{ns}b", ".//{ns}a", ".//{*}a", "./"), Element truthiness (`if not fault`),
   findtext's `text or ""`, int(), the argument lookup by name and direction, the dict that is returned,
   the order in which the checks happen and which exception each failing check raises. *)
From Coq Require Import List Bool NArith ZArith.
From AUC Require Import Prelude.PyStr Prelude.PyDict C08.TypesDef C08.Model Gen.Types Gen.DateMatchers.
Import ListNotations.
Local Open Scope N_scope.

(* ------------------------------------------------------------------ ElementTree, as far as it is read *)
(* tag is ElementTree's spelling: "{namespace}local" or "local" *)
Inductive xml := Elem (tag : pystr) (text : option pystr) (children : list xml).
Definition tag_of (x : xml) : pystr := match x with Elem t _ _ => t end.
Definition text_of (x : xml) : option pystr := match x with Elem _ t _ => t end.
Definition children_of (x : xml) : list xml := match x with Elem _ _ c => c end.

(* Element.iter(): the element itself, then its descendants, in document order *)
Fixpoint iter (x : xml) : list xml :=
  match x with Elem _ _ cs => x :: flat_map iter cs end.
(* ".//": every e of elem.iter() with `e is not elem` *)
Definition descend (x : xml) : list xml := flat_map iter (children_of x).

Definition has_tag (t : pystr) (x : xml) : bool := str_eqb (tag_of x) t.

(* ------------------------------------------------------------------ constants of the source *)
Definition ns_soap : pystr := [104;116;116;112;58;47;47;115;99;104;101;109;97;115;46;120;109;108;115;111;97;112;46;111;114;103;47;115;111;97;112;47;101;110;118;101;108;111;112;101;47].   (* NS["soap_envelope"] *)
Definition ns_control : pystr := [117;114;110;58;115;99;104;101;109;97;115;45;117;112;110;112;45;111;114;103;58;99;111;110;116;114;111;108;45;49;45;48].   (* NS["control"] *)
Definition s_Body : pystr := [66;111;100;121].
Definition s_Fault : pystr := [70;97;117;108;116].
Definition s_errorCode : pystr := [101;114;114;111;114;67;111;100;101].
Definition s_errorDescription : pystr := [101;114;114;111;114;68;101;115;99;114;105;112;116;105;111;110].
Definition s_Response : pystr := [82;101;115;112;111;110;115;101].
Definition s_out : pystr := [111;117;116].
Definition c_lbrace : N := 123.
Definition c_rbrace : N := 125.

(* "{ns}local" *)
Definition qname (ns local : pystr) : pystr := c_lbrace :: ns ++ c_rbrace :: local.
Definition tag_body : pystr := qname ns_soap s_Body.
Definition tag_fault : pystr := qname ns_soap s_Fault.
Definition tag_error_code : pystr := qname ns_control s_errorCode.
Definition tag_error_desc : pystr := qname ns_control s_errorDescription.

(* ------------------------------------------------------------------ str.strip(" \t\r\n\0") *)
Definition pad_chars : list N := [32; 9; 13; 10; 0].
Definition is_pad (c : N) : bool := existsb (N.eqb c) pad_chars.
Fixpoint lstrip_pad (s : pystr) : pystr :=
  match s with c :: r => if is_pad c then lstrip_pad r else s | [] => [] end.
Definition rstrip_pad (s : pystr) : pystr := rev (lstrip_pad (rev s)).
Definition strip_pad (s : pystr) : pystr := rstrip_pad (lstrip_pad s).

Definition ends_with (suffix s : pystr) : bool := starts_with (rev suffix) (rev s).

(* ------------------------------------------------------------------ what is raised / returned *)
Inductive err :=
| EUpnpError                                                   (* UpnpError itself *)
| EXmlParse                                                    (* UpnpXmlParseError *)
| EResponse (status : Z)                                       (* UpnpResponseError, not an action error *)
| EAction (code : option Z) (desc : option pystr)              (* UpnpActionError, not a response error *)
| EActionResponse (code : option Z) (desc : option pystr) (status : Z)   (* UpnpActionResponseError *)
| ERaw (e : exn).                                              (* a builtin exception that escapes *)

Inductive outcome :=
| Returned (d : dict pystr pyval)
| Raised (e : err)
| OracleMiss.                  (* the model asked the parse oracle about a text it has no answer for *)

Inductive parsed := PTree (x : xml) | PParseError | PRaised | PUnrecorded.

(* the action: declared arguments (name, direction, data type of the related state variable) *)
Record arg := mkArg { a_name : pystr; a_dir : pystr; a_type : pystr }.
Record config := mkConfig {
  c_service_type : pystr; c_action : pystr; c_args : list arg; c_non_strict : bool }.

Definition or_empty (t : option pystr) : pystr := match t with Some s => s | None => [] end.

Section Decode.
  Variable parse : pystr -> parsed.
  Variable float_of_str : pystr -> option fl.
  Variable lower_ext : N -> N.

  (* xml.find(".//soap_envelope:Body/soap_envelope:Fault", NS): Body elements among the proper
     descendants, in document order; the first Fault child of the first Body that has one *)
  Fixpoint first_fault_child (bodies : list xml) : option xml :=
    match bodies with
    | [] => None
    | b :: r =>
        if has_tag tag_body b then
          match find (has_tag tag_fault) (children_of b) with
          | Some f => Some f
          | None => first_fault_child r
          end
        else first_fault_child r
    end.
  Definition find_fault (x : xml) : option xml := first_fault_child (descend x).

  (* elem.findtext(".//tag", None, NS) *)
  Definition findtext (tag : pystr) (x : xml) : option pystr :=
    match find (has_tag tag) (descend x) with
    | Some e => Some (or_empty (text_of e))
    | None => None
    end.

  (* _parse_fault: None = returned normally *)
  Definition parse_fault (x : xml) (status : option Z) : option err :=
    match find_fault x with
    | None => None
    | Some f =>
        match children_of f with
        | [] => None                           (* `if not fault`: an element without children is falsy *)
        | _ :: _ =>
            let code :=
              match findtext tag_error_code f with
              | Some (c :: s) => match int_of_str (c :: s) with Ok z => Ok (Some z) | Raise e => Raise e end
              | _ => Ok None
              end in
            match code with
            | Raise e => Some (ERaw e)         (* int(error_code_str) is not guarded *)
            | Ok code =>
                let desc := findtext tag_error_desc f in
                Some (match status with
                      | Some st => EActionResponse code desc st
                      | None => EAction code desc
                      end)
            end
        end
    end.

  (* UpnpAction.argument(name, "out") *)
  Definition find_argument (args : list arg) (name : pystr) : option arg :=
    find (fun a => str_eqb (a_name a) name && str_eqb (a_dir a) s_out) args.

  (* Argument.upnp_value = text  ->  related_state_variable.coerce_python(text) *)
  Definition coerce (a : arg) (text : pystr) : res pyval :=
    match find_row (a_type a) type_table with
    | Some row => apply_in float_of_str lower_ext (r_in row) text
    | None => Raise OtherError               (* no such state variable can be created *)
    end.

  (* the loop over response.findall("./") *)
  Fixpoint args_loop (cfg : config) (children : list xml) (acc : dict pystr pyval) : outcome :=
    match children with
    | [] => Returned acc
    | c :: r =>
        match find_argument (c_args cfg) (tag_of c) with
        | None => if c_non_strict cfg then args_loop cfg r acc else Raised EUpnpError
        | Some a =>
            match coerce a (or_empty (text_of c)) with
            | Ok v => args_loop cfg r (dset str_eqb acc (tag_of c) v)
            | Raise e => Raised (ERaw e)
            end
        end
    end.

  Definition response_local (cfg : config) : pystr := c_action cfg ++ s_Response.
  Definition response_tag (cfg : config) : pystr := qname (c_service_type cfg) (response_local cfg).
  (* ElementPath "{*}name": the tag is name, or ends with "}name" *)
  Definition wildcard_match (local tag : pystr) : bool :=
    str_eqb tag local || ends_with (c_rbrace :: local) tag.

  Definition find_response (cfg : config) (x : xml) : option xml :=
    match find (has_tag (response_tag cfg)) (descend x) with
    | Some e => Some e
    | None =>
        if c_non_strict cfg
        then find (fun e => wildcard_match (response_local cfg) (tag_of e)) (descend x)
        else None
    end.

  Definition parse_response_args (cfg : config) (x : xml) : outcome :=
    match find_response cfg x with
    | None => Raised EUpnpError
    | Some e => args_loop cfg (children_of e) []
    end.

  (* async_call from the moment the requester returned (status, headers, body) *)
  Definition call (cfg : config) (status : Z) (body : option pystr) : outcome :=
    match body with
    | None => Raised EUpnpError                 (* not isinstance(response_body, str) *)
    | Some b =>
        if negb (status =? 200)%Z then
          match parse (strip_pad b) with
          | PParseError => Raised (EResponse status)
          | PTree x =>
              match parse_fault x (Some status) with
              | Some e => Raised e
              | None => Raised (EResponse status)
              end
          | PRaised => Raised (ERaw OtherError)
          | PUnrecorded => OracleMiss
          end
        else
          match parse (rstrip_pad b) with
          | PParseError => Raised EXmlParse
          | PTree x =>
              match parse_fault x None with
              | Some e => Raised e
              | None => parse_response_args cfg x
              end
          | PRaised => Raised (ERaw OtherError)
          | PUnrecorded => OracleMiss
          end
    end.
End Decode.
