(* C01 — executable model of the SSDP wire codec (ssdp.py): build_ssdp_packet,
   build_ssdp_search_packet, is_valid_ssdp_packet, _cached_header_parse (incl. aiohttp 3.9.5
   HeadersParser.parse_headers in non-lax mode), udn_from_usn, get_host_string, get_adjusted_url,
   _cached_decode_ssdp_packet, decode_ssdp_packet.  Header maps are C16 bodies with the value type of
   the tracker model (C03).  Definitions only. *)
From Coq Require Import List Bool NArith ZArith.
From AUC Require Import Prelude.PyStr Prelude.PyDict Prelude.Utf8 C16.Model C08.Model C03.Model Gen.Ssdp.
Import ListNotations.
Local Open Scope N_scope.

Inductive exn := EInvalidHeader | ELineTooLong | EUnicodeDecode.
Inductive res (A : Type) := Ok (a : A) | Raise (e : exn).
Arguments Ok {A}. Arguments Raise {A}.

(* ------------------------------------------------------------------ building *)
(* f"{status_line}\r\n" + "\r\n".join(f"{k}:{v}") + "\r\n\r\n", then str.encode() *)
Fixpoint join_crlf (ls : list pystr) : pystr :=
  match ls with
  | [] => []
  | [l] => l
  | l :: r => l ++ [13; 10] ++ join_crlf r
  end.
Definition build_text (start : pystr) (hs : list (pystr * pystr)) : pystr :=
  start ++ [13; 10] ++ join_crlf (map (fun kv => fst kv ++ [58] ++ snd kv) hs) ++ [13; 10; 13; 10].
Definition build_packet (start : pystr) (hs : list (pystr * pystr)) : list N :=
  utf8_encode (build_text start hs).

(* ------------------------------------------------------------------ bytes *)
Fixpoint replace_crlf (bs : list N) : list N :=
  match bs with
  | [] => []
  | b :: r => match b, r with
              | 13, 10 :: r' => 10 :: replace_crlf r'
              | _, _ => b :: replace_crlf r
              end
  end.
Fixpoint split_lf (bs cur_rev : list N) : list (list N) :=
  match bs with
  | [] => [rev cur_rev]
  | b :: r => if b =? 10 then rev cur_rev :: split_lf r [] else split_lf r (b :: cur_rev)
  end.
Definition is_bspace (b : N) : bool := ((9 <=? b) && (b <=? 13)) || (b =? 32).
Fixpoint lstrip_by (f : N -> bool) (s : list N) : list N :=
  match s with c :: r => if f c then lstrip_by f r else s | [] => [] end.
Definition strip_by (f : N -> bool) (s : list N) : list N := rev (lstrip_by f (rev (lstrip_by f s))).
Definition is_blank (b : N) : bool := (b =? 32) || (b =? 9).

Fixpoint split_colon (bs name_rev : list N) : option (list N * list N) :=
  match bs with
  | [] => None
  | b :: r => if b =? 58 then Some (rev name_rev, r) else split_colon r (b :: name_rev)
  end.

Definition is_token_char (c : N) : bool :=
  ((48 <=? c) && (c <=? 57)) || ((65 <=? c) && (c <=? 90)) || ((97 <=? c) && (c <=? 122)) ||
  existsb (N.eqb c) [33; 35; 36; 37; 38; 39; 42; 43; 45; 46; 94; 95; 96; 124; 126].
Definition is_token (s : pystr) : bool :=
  match s with [] => false | _ => forallb is_token_char s end.

Definition max_field : N := 8190.

(* one iteration of HeadersParser.parse_headers (non-lax) *)
Definition parse_line (line : list N) : res (pystr * pystr) :=
  match split_colon line [] with
  | None => Raise EInvalidHeader
  | Some (bname, bvalue) =>
      match bname with
      | [] => Raise EInvalidHeader
      | b0 :: _ =>
          if is_blank b0 || is_blank (last bname 0) then Raise EInvalidHeader else
          let bvalue := lstrip_by is_blank bvalue in
          if max_field <? N.of_nat (length bname) then Raise ELineTooLong else
          let name := dec_lenient bname in
          if negb (is_token name) then Raise EInvalidHeader else
          if max_field <? N.of_nat (length bvalue) then Raise ELineTooLong else
          let value := dec_lenient (strip_by is_blank bvalue) in
          if existsb (fun c => (c =? 10) || (c =? 13) || (c =? 0)) value then Raise EInvalidHeader
          else Ok (name, value)
      end
  end.

Fixpoint parse_lines (ls : list (list N)) (acc_rev : list (pystr * pystr)) : res (list (pystr * pystr)) :=
  match ls with
  | [] => Ok (rev acc_rev)
  | [] :: _ => Ok (rev acc_rev)
  | line :: r => match parse_line line with
                 | Ok nv => parse_lines r (nv :: acc_rev)
                 | Raise e => Raise e
                 end
  end.

(* _cached_header_parse: (headers as a multi-dict in arrival order, request line) *)
Definition header_parse (data : list N) : res (list (pystr * pystr) * pystr) :=
  let lines := split_lf (replace_crlf data) [] in
  match lines with
  | [] => Raise EInvalidHeader                       (* unreachable: split never returns [] *)
  | l0 :: rest =>
      match dec_strict (strip_by is_bspace l0) with
      | None => Raise EUnicodeDecode
      | Some request_line =>
          (* a sentinel empty line is appended when missing; parse_lines stops at the first empty one *)
          match parse_lines rest [] with
          | Ok hs => Ok (hs, request_line)
          | Raise e => Raise e
          end
      end
  end.

(* is_valid_ssdp_packet *)
Definition is_valid_packet (data : list N) : bool :=
  match data with [] => false | _ => true end && existsb (N.eqb 10) data &&
  existsb (fun p => starts_with p data) packet_prefixes.

(* CIMultiDict.get(name): first value whose name matches ignoring (ASCII) case *)
Fixpoint md_get (hs : list (pystr * pystr)) (lk : pystr) : option pystr :=
  match hs with
  | [] => None
  | (k, v) :: r => if str_eqb (lower k) lk then Some v else md_get r lk
  end.

(* ------------------------------------------------------------------ addresses, location *)
Record addr := { a_host : pystr; a_port : N; a_v6 : option (N * N) }.     (* (flow, scope) for IPv6 *)

Definition str_of_N (n : N) : pystr := C08.Model.str_of_int (Z.of_N n).

(* get_host_string *)
Definition host_string (a : addr) : pystr :=
  match a_v6 a with
  | Some (_, scope) => if scope =? 0 then a_host a else a_host a ++ [37] ++ str_of_N scope
  | None => a_host a
  end.
(* remote_addr_without_port: what the decode cache is keyed on *)
Definition addr_key (a : addr) : pystr * option (N * N) := (a_host a, a_v6 a).

(* urlsplit / ip_address are library oracles: what they answered for one URL *)
Inductive port_answer := PortNone | PortOk (p : N) | PortError.
Record url_info := {
  u_split_ok : bool;                    (* urlsplit(url) did not raise *)
  u_scheme : pystr; u_path : pystr; u_query : pystr; u_fragment : pystr;
  u_hostname : option pystr;            (* data.hostname (None or "" count as absent) *)
  u_port : port_answer;                 (* data.port *)
  u_link_local : option bool            (* ip_address(hostname) is an IPv6 address and is_link_local (after D38: an IPv4
                                           host never takes a scope id); None = ValueError *)
}.

(* urlunsplit with a non-empty netloc *)
Definition unsplit (u : url_info) (netloc : pystr) : pystr :=
  let path := match u_path u with
              | [] => []
              | c :: r => if c =? 47 then c :: r else 47 :: c :: r
              end in
  let url := [47; 47] ++ netloc ++ path in
  let url := match u_scheme u with [] => url | sc => sc ++ [58] ++ url end in
  let url := match u_query u with [] => url | q => url ++ [63] ++ q end in
  match u_fragment u with [] => url | f => url ++ [35] ++ f end.

Section WithUrlOracle.
  Variable url_of : pystr -> url_info.

  (* get_adjusted_url (as repaired: anything that cannot be split is returned unchanged; only an IPv6 link-local
     host takes the sender's scope id) *)
  Definition adjusted_url (url : pystr) (a : addr) : pystr :=
    match a_v6 a with
    | None => url
    | Some (_, scope) =>
        if scope =? 0 then url else
        let u := url_of url in
        if negb (u_split_ok u) then url else
        match u_hostname u, u_port u with
        | _, PortError => url
        | None, _ | Some [], _ => url
        | Some h, p =>
            match u_link_local u with
            | Some true =>
                let netloc := [91] ++ h ++ [37] ++ str_of_N scope ++ [93] in
                let netloc := match p with
                              | PortOk n => if n =? 0 then netloc else netloc ++ [58] ++ str_of_N n
                              | _ => netloc
                              end in
                unsplit u netloc
            | _ => url
            end
        end
    end.

  Definition k_location_original : pystr :=
    [95;108;111;99;97;116;105;111;110;95;111;114;105;103;105;110;97;108].
  Definition k_port : pystr := [95;112;111;114;116].
  Definition k_remote_addr : pystr := [95;114;101;109;111;116;101;95;97;100;100;114].
  Definition k_local_addr : pystr := [95;108;111;99;97;108;95;97;100;100;114].

  Definition is_uspace (c : N) : bool := C03.Model.is_space c.

  (* {**parsed_headers}: keys in arrival order, each with the FIRST value of its (case-folded) name;
     equal spellings collapse as in a dict *)
  Definition md_items (hs : list (pystr * pystr)) : list (pystr * hval) :=
    dmerge str_eqb []
      (map (fun kv => (fst kv, HStr (match md_get hs (lower (fst kv)) with Some v => v | None => snd kv end))) hs).

  (* _cached_decode_ssdp_packet: request line and the header map before the per-call metadata *)
  Definition cached_decode (data : list N) (a : addr) : res (pystr * hdrs) :=
    match header_parse data with
    | Raise e => Raise e
    | Ok (hs, request_line) =>
        let udn := match md_get hs k_usn with
                   | Some (c :: r) => udn_from_usn (c :: r)
                   | _ => None
                   end in
        let location := match md_get hs k_location with Some l => l | None => [] end in
        let extra :=
          [(k_host, HStr (host_string a))] ++
          match udn with Some (c :: r) => [(k_udn, HStr (c :: r))] | _ => [] end ++
          (if forallb is_uspace location then []
           else [(k_location_original, HStr location); (k_location, HStr (adjusted_url location a))]) in
        match b_init str_eqb lower (dmerge str_eqb (md_items hs) extra) with
        | Some h => Ok (request_line, h)
        | None => Raise EInvalidHeader             (* unreachable *)
        end
    end.

  (* decode_ssdp_packet: tokens stand for the address tuples; the port is its own number *)
  Definition decode (data : list N) (local_tok : N) (a : addr) (remote_tok : N) (now : Z)
    : res (pystr * hdrs) :=
    match cached_decode data a with
    | Raise e => Raise e
    | Ok (rl, h) =>
        match b_combine_lower str_eqb h
                [(k_timestamp, HTime now); (k_remote_addr, HTok remote_tok); (k_port, HTok (a_port a));
                 (k_local_addr, HTok local_tok)] with
        | Some h' => Ok (rl, h')
        | None => Raise EInvalidHeader             (* unreachable *)
        end
    end.

  (* SsdpProtocol.datagram_received up to the callback: None = dropped *)
  Definition receive (data : list N) (local_tok : N) (a : addr) (remote_tok : N) (now : Z)
    : option (pystr * hdrs) :=
    if is_valid_packet data then
      match decode data local_tok a remote_tok now with Ok r => Some r | Raise _ => None end
    else None.
End WithUrlOracle.
