(* C01 — the round trip: what build_ssdp_packet emits decodes to the same start line and, read
   case-insensitively, the same headers plus the sender metadata. *)
From Coq Require Import List Bool NArith ZArith Lia Permutation.
From AUC Require Import Prelude.PyStr Prelude.PyDict Prelude.Utf8 C16.Model C16.Spec C16.Sim C16.Proofs
  C03.Model C03.Bridge C01.Model C01.Spec C01.Wire C01.Dict.
Import ListNotations.
Local Open Scope N_scope.

Local Notation KS := str_eqb_spec.
Local Notation LWs := (LW str_eqb lower).

(* ------------------------------------------------------------------ the domain as facts *)
Record hs_dom (hs : list (pystr * pystr)) : Prop := {
  hd_props : hs_props hs;
  hd_nodup : NoDup (map (fun kv => lower (fst kv)) hs);
  hd_plain : forall kv, In kv hs -> is_meta (lower (fst kv)) = false
}.

Lemma headers_ok_dom hs : headers_ok hs = true -> kf_nul hs = false -> hs_dom hs.
Proof.
  unfold headers_ok, kf_nul. intros H Hk. apply andb_true_iff in H as [Hall Hnd].
  rewrite forallb_forall in Hall. constructor.
  - intros [k v] Hin. specialize (Hall _ Hin). cbn [fst snd] in Hall.
    apply andb_true_iff in Hall as [Hn Hv]. unfold name_ok in Hn. unfold value_ok in Hv.
    apply andb_true_iff in Hn as [Hn _]. apply andb_true_iff in Hn as [Ht Hl].
    apply andb_true_iff in Hv as [Hv Hvl]. apply andb_true_iff in Hv as [Hv He].
    apply andb_true_iff in Hv as [Hs Hc]. cbn [fst snd]. split; constructor; try assumption; try lia.
    + intros c Hc0. apply negb_true_iff in Hc.
      assert (G1 : (c =? 10) || (c =? 13) = false).
      { destruct ((c =? 10) || (c =? 13)) eqn:E; [|reflexivity].
        assert (existsb (fun c => (c =? 10) || (c =? 13)) v = true) by (apply existsb_exists; eauto). congruence. }
      assert (G2 : c <> 0).
      { intros ->. assert (existsb (fun kv => existsb (N.eqb 0) (snd kv)) hs = true).
        { apply existsb_exists. exists (k, v). split; [exact Hin|]. cbn. apply existsb_exists. exists 0. auto. }
        congruence. }
      lia.
    + destruct v as [|c r]; [exact I|]. apply andb_true_iff in He as [A B].
      now rewrite !negb_true_iff in *.
  - now apply (nodupb_NoDup str_eqb KS).
  - intros [k v] Hin. specialize (Hall _ Hin). cbn [fst snd] in *. apply andb_true_iff in Hall as [Hn _].
    unfold name_ok in Hn. apply andb_true_iff in Hn as [_ Hm]. now apply negb_true_iff in Hm.
Qed.

(* ------------------------------------------------------------------ reading the sent list *)
Lemma md_get_first : forall l lk, md_get l lk =
  match find (fun kv => str_eqb (lower (fst kv)) lk) l with Some kv => Some (snd kv) | None => None end.
Proof. induction l as [|[k v] r IH]; intros lk; cbn [md_get find fst snd]; [reflexivity|]. destruct (str_eqb (lower k) lk); [reflexivity | apply IH]. Qed.

Lemma md_get_self_gen (l : list (pystr * pystr)) k v :
  NoDup (map (fun kv => lower (fst kv)) l) -> In (k, v) l -> md_get l (lower k) = Some v.
Proof.
  induction l as [|[a w] r IH]; cbn [md_get In map fst]; [tauto|]. intros Hnd [Heq|Hin].
  - inversion Heq; subst. destruct (KS (lower k) (lower k)); congruence.
  - inversion Hnd as [|? ? Hn Hr]; subst. destruct (KS (lower a) (lower k)) as [E|_]; [|now apply IH].
    exfalso. apply Hn. rewrite E. apply in_map_iff. now exists (k, v).
Qed.

Lemma LW_map_val (l : list (pystr * pystr)) lk :
  LWs (map (fun kv => (fst kv, HStr (snd kv))) l) lk =
  match LWs l lk with Some kv => Some (fst kv, HStr (snd kv)) | None => None end.
Proof.
  unfold LW. rewrite map_map. cbn [fst].
  induction l as [|[k v] r IH]; [reflexivity|]. cbn [map dlast fst snd]. rewrite IH.
  destruct (dlast str_eqb (map (fun kv : pystr * pystr => (lower (fst kv), kv)) r) lk); [reflexivity|].
  destruct (str_eqb (lower k) lk); reflexivity.
Qed.

Lemma dget_folded_gen (f : pystr * pystr -> hval) (l : list (pystr * pystr)) lk :
  NoDup (map (fun kv => lower (fst kv)) l) ->
  dget str_eqb (map (fun kv => (lower (fst kv), f kv)) l) lk =
  match LWs l lk with Some kv => Some (f kv) | None => None end.
Proof.
  unfold LW. induction l as [|[k v] r IH]; intros Hnd; [reflexivity|].
  inversion Hnd as [|? ? Hn Hr]; subst. cbn [map dget dlast fst snd].
  destruct (KS (lower k) lk) as [<-|Hne].
  - assert (E : dlast str_eqb (map (fun kv : pystr * pystr => (lower (fst kv), kv)) r) (lower k) = None).
    { apply (dlast_None str_eqb KS). rewrite map_map. exact Hn. }
    now rewrite E.
  - rewrite (IH Hr). destruct (dlast str_eqb _ lk); reflexivity.
Qed.

Section Sent.
  Variable hs : list (pystr * pystr).
  Hypothesis D : hs_dom hs.

  Definition G : dict pystr hval := map (fun kv => (fst kv, HStr (snd kv))) hs.

  Lemma names_nodup : NoDup (map fst hs).
  Proof. pose proof (hd_nodup _ D) as H. rewrite <- map_map in H. now apply NoDup_map_inv in H. Qed.

  Lemma md_get_self k v : In (k, v) hs -> md_get hs (lower k) = Some v.
  Proof. apply md_get_self_gen. apply D. Qed.

  Lemma md_items_G : md_items hs = G.
  Proof.
    unfold md_items, G. rewrite (dmerge_dict str_eqb KS []).
    - cbn [app]. apply map_ext_in. intros [k v] Hin. cbn [fst snd]. now rewrite (md_get_self k v Hin).
    - cbn [dkeys map app]. rewrite map_map. cbn [fst]. apply names_nodup.
  Qed.

  (* the unique sent header with a given folded name *)
  Definition sent (lk : pystr) : option (pystr * pystr) := LWs hs lk.

  Lemma LW_G lk : LWs G lk = match sent lk with Some kv => Some (fst kv, HStr (snd kv)) | None => None end.
  Proof. apply LW_map_val. Qed.

  Lemma sent_Some lk k v : sent lk = Some (k, v) -> In (k, v) hs /\ lower k = lk.
  Proof. intros H. apply (LW_Some str_eqb KS) in H. exact H. Qed.

  Lemma sent_None lk : sent lk = None -> forall kv, In kv hs -> lower (fst kv) <> lk.
  Proof. intros H. exact (LW_None str_eqb KS _ _ H). Qed.

  Lemma sent_meta lk : is_meta lk = true -> sent lk = None.
  Proof.
    intros Hm. destruct (sent lk) as [[k v]|] eqn:E; [|reflexivity].
    apply sent_Some in E as [Hin <-]. pose proof (hd_plain _ D _ Hin) as Hp. cbn [fst] in Hp. congruence.
  Qed.

  Lemma md_get_sent lk : md_get hs lk = match sent lk with Some kv => Some (snd kv) | None => None end.
  Proof.
    destruct (sent lk) as [[k v]|] eqn:E.
    - apply sent_Some in E as [Hin <-]. now apply md_get_self.
    - rewrite md_get_first. destruct (find _ hs) as [[k v]|] eqn:F; [|reflexivity].
      apply find_some in F as [Hin Hk]. exfalso. apply (sent_None lk E _ Hin). cbn [fst] in *.
      destruct (KS (lower k) lk); congruence.
  Qed.

  Lemma dget_folded (f : pystr * pystr -> hval) lk :
    dget str_eqb (map (fun kv => (lower (fst kv), f kv)) hs) lk =
    match sent lk with Some kv => Some (f kv) | None => None end.
  Proof. apply dget_folded_gen. apply D. Qed.
End Sent.

(* ------------------------------------------------------------------ metadata lookups *)
Lemma lowers_unique (V : Type) (A : dict pystr V) lk k1 k2 :
  NoDup (map lower (dkeys A)) -> In k1 (lowers_to A lk) -> In k2 (lowers_to A lk) -> k1 = k2.
Proof.
  unfold lowers_to. induction (dkeys A) as [|k r IH]; cbn [map filter]; intros Hnd H1 H2; [destruct H1|].
  inversion Hnd as [|? ? Hn Hr]; subst.
  assert (G : forall x, In x (filter (fun k0 => str_eqb (lower k0) lk) r) -> lower x = lk /\ In (lower x) (map lower r)).
  { intros x Hx. apply filter_In in Hx as [Hx Hl]. split; [destruct (KS (lower x) lk); congruence | now apply in_map]. }
  destruct (KS (lower k) lk) as [E|Hne]; [|now apply IH].
  destruct H1 as [<-|H1], H2 as [<-|H2]; try reflexivity.
  - exfalso. destruct (G _ H2) as [L I]. apply Hn. now rewrite E, <- L.
  - exfalso. destruct (G _ H1) as [L I]. apply Hn. now rewrite E, <- L.
  - now apply IH.
Qed.

Definition udn_part (usn : option pystr) : list (pystr * hval) :=
  match usn with
  | Some s => match udn_from_usn s with Some u => [(k_udn, HStr u)] | None => [] end
  | None => []
  end.

Lemma udn_part_model usn :
  match (match usn with Some (c :: r) => udn_from_usn (c :: r) | _ => None end) with
  | Some (c :: r) => [(k_udn, HStr (c :: r))]
  | _ => []
  end = udn_part usn.
Proof.
  unfold udn_part. destruct usn as [[|c r]|]; try reflexivity.
  destruct (udn_from_usn (c :: r)) as [u|] eqn:E; [|reflexivity].
  apply udn_nonempty in E. destruct u; [congruence | reflexivity].
Qed.

Section Meta.
  Variables (vh vts vra vp vla vlo vlc : hval) (up : list (pystr * hval)).
  Hypothesis Hup : up = [] \/ exists u, up = [(k_udn, u)].
  Variable hl : bool.

  Definition extra_l : list (pystr * hval) :=
    [(k_host, vh)] ++ up ++ (if hl then [(k_location_original, vlo); (k_location, vlc)] else []).
  Definition meta_l : list (pystr * hval) :=
    [(k_timestamp, vts); (k_remote_addr, vra); (k_port, vp); (k_local_addr, vla)].
  Definition expected_meta : list (pystr * hval) :=
    [(k_host, vh)] ++ up ++ (if hl then [(k_location_original, vlo)] else []) ++ meta_l.

  Definition first_some (a b : option (pystr * hval)) : option hval :=
    match a with Some e => Some (snd e) | None => match b with Some e => Some (snd e) | None => None end end.

  (* for every name but "location": the model's two later-wins lookups agree with the expected list *)
  Lemma meta_lookup lk : str_eqb k_location lk = false ->
    first_some (LWs meta_l lk) (LWs extra_l lk) = dget str_eqb expected_meta lk.
  Proof.
    intros Hloc. unfold first_some, expected_meta, extra_l, meta_l, LW.
    destruct Hup as [->|[u ->]]; destruct hl; cbn [app map dlast dget fst snd];
      change (lower k_host) with k_host; change (lower k_udn) with k_udn;
      change (lower k_location_original) with k_location_original; change (lower k_location) with k_location;
      change (lower k_timestamp) with k_timestamp; change (lower k_remote_addr) with k_remote_addr;
      change (lower k_port) with k_port; change (lower k_local_addr) with k_local_addr;
      rewrite ?Hloc;
      (destruct (KS k_host lk) as [<-|?]; [reflexivity|]);
      (destruct (KS k_udn lk) as [<-|?]; [reflexivity|]);
      (destruct (KS k_location_original lk) as [<-|?]; [reflexivity|]);
      (destruct (KS k_timestamp lk) as [<-|?]; [reflexivity|]);
      (destruct (KS k_remote_addr lk) as [<-|?]; [reflexivity|]);
      (destruct (KS k_port lk) as [<-|?]; [reflexivity|]);
      (destruct (KS k_local_addr lk) as [<-|?]; [reflexivity|]); reflexivity.
  Qed.

  Lemma meta_nonmeta lk : is_meta lk = false -> LWs meta_l lk = None /\
    LWs extra_l lk = if str_eqb k_location lk && hl then Some (k_location, vlc) else None.
  Proof.
    intros Hm. unfold meta_l, extra_l, LW.
    assert (N : forall K, is_meta K = true -> str_eqb K lk = false).
    { intros K HK. destruct (KS K lk) as [<-|]; congruence. }
    destruct Hup as [->|[u ->]]; destruct hl; cbn [app map dlast fst snd];
      change (lower k_host) with k_host; change (lower k_udn) with k_udn;
      change (lower k_location_original) with k_location_original; change (lower k_location) with k_location;
      change (lower k_timestamp) with k_timestamp; change (lower k_remote_addr) with k_remote_addr;
      change (lower k_port) with k_port; change (lower k_local_addr) with k_local_addr;
      rewrite ?(N k_host eq_refl), ?(N k_udn eq_refl), ?(N k_location_original eq_refl), ?(N k_timestamp eq_refl),
        ?(N k_remote_addr eq_refl), ?(N k_port eq_refl), ?(N k_local_addr eq_refl);
      destruct (str_eqb k_location lk); split; reflexivity.
  Qed.

  Lemma expected_meta_keys : forall k, In k (dkeys expected_meta) -> is_meta k = true.
  Proof.
    unfold expected_meta, meta_l. destruct Hup as [->|[u ->]]; destruct hl; cbn [app dkeys map fst In];
      intros k Hk; repeat (destruct Hk as [<-|Hk]; [reflexivity|]); contradiction.
  Qed.

  Lemma expected_meta_nodup : NoDup (dkeys expected_meta).
  Proof.
    unfold expected_meta, meta_l. destruct Hup as [->|[u ->]]; destruct hl; cbn [app dkeys map fst];
      apply (nodupb_NoDup str_eqb KS); reflexivity.
  Qed.

  Lemma extra_lower_nodup : NoDup (map (fun kv : pystr * hval => lower (fst kv)) extra_l).
  Proof.
    unfold extra_l. destruct Hup as [->|[u ->]]; destruct hl; cbn [app map fst];
      apply (nodupb_NoDup str_eqb KS); reflexivity.
  Qed.
End Meta.

Lemma NoDup_app_intro (A : Type) (a b : list A) :
  NoDup a -> NoDup b -> (forall x, In x a -> In x b -> False) -> NoDup (a ++ b).
Proof.
  induction a as [|x a IH]; intros Ha Hb H; [exact Hb|]. inversion Ha as [|? ? Hn Hr]; subst. cbn [app].
  constructor.
  - rewrite in_app_iff. intros [Hi|Hi]; [contradiction | apply (H x); [now left | exact Hi]].
  - apply IH; auto. intros y Hy. apply H. now right.
Qed.

(* ------------------------------------------------------------------ the round trip *)
Section Main.
  Variable url_of : pystr -> url_info.
  Variables (start : pystr) (hs : list (pystr * pystr)) (local_tok : N) (a : addr) (remote_tok : N) (now : Z).
  Hypothesis Hstart : In start start_lines.
  Hypothesis D : hs_dom hs.

  Let loc : pystr := match md_get hs k_location with Some l => l | None => [] end.
  Let hl : bool := negb (forallb is_uspace loc).
  Let up : list (pystr * hval) := udn_part (md_get hs k_usn).
  Let vh := HStr (host_string a).
  Let vlo := HStr loc.
  Let vlc := HStr (adjusted_url url_of loc a).
  Let vts := HTime now.
  Let vra := HTok remote_tok.
  Let vp := HTok (a_port a).
  Let vla := HTok local_tok.

  Lemma up_shape : up = [] \/ exists u, up = [(k_udn, u)].
  Proof.
    unfold up, udn_part. destruct (md_get hs k_usn) as [s|]; [|now left].
    destruct (udn_from_usn s); [right; eauto | now left].
  Qed.

  Lemma extra_is : 
    [(k_host, HStr (host_string a))] ++
    match (match md_get hs k_usn with Some (c :: r) => udn_from_usn (c :: r) | _ => None end) with
    | Some (c :: r) => [(k_udn, HStr (c :: r))]
    | _ => []
    end ++
    (if forallb is_uspace loc then []
     else [(k_location_original, HStr loc); (k_location, HStr (adjusted_url url_of loc a))])
    = extra_l vh vlo vlc up hl.
  Proof.
    unfold extra_l, hl, up. rewrite udn_part_model. destruct (forallb is_uspace loc); reflexivity.
  Qed.

  Lemma expected_is :
    expected url_of hs local_tok a remote_tok now =
    map (fun kv => (lower (fst kv),
                    HStr (if str_eqb (lower (fst kv)) k_location && hl
                          then adjusted_url url_of (snd kv) a else snd kv))) hs ++
    expected_meta vh vts vra vp vla vlo up hl.
  Proof.
    unfold expected, expected_meta, meta_l, up, udn_part, hl, loc. f_equal. f_equal.
    destruct (md_get hs k_usn) as [s|]; [destruct (udn_from_usn s)|];
      destruct (negb (forallb is_uspace match md_get hs k_location with Some l => l | None => [] end));
      cbn [app]; repeat f_equal;
      destruct (dhas str_eqb _ k_location); reflexivity.
  Qed.

  Definition items0 : list (pystr * hval) := dmerge str_eqb (G hs) (extra_l vh vlo vlc up hl).
  Definition meta4 : list (pystr * hval) := meta_l vts vra vp vla.

  Lemma G_keys_nodup : NoDup (dkeys (G hs)).
  Proof. unfold G, dkeys. rewrite map_map. cbn [fst]. now apply names_nodup. Qed.

  Lemma G_lower_nodup : NoDup (map lower (dkeys (G hs))).
  Proof. unfold G, dkeys. rewrite !map_map. cbn [fst]. apply D. Qed.

  Lemma LW_items0 lk :
    LWs items0 lk = match LWs (extra_l vh vlo vlc up hl) lk with Some e => Some e | None => LWs (G hs) lk end.
  Proof.
    unfold items0. apply LW_dmerge.
    - apply G_keys_nodup.
    - apply extra_lower_nodup, up_shape.
    - intros kv _ k1 k2. apply lowers_unique, G_lower_nodup.
  Qed.

  Theorem decode_built_strong :
    exists h, decode url_of (build_packet start hs) local_tok a remote_tok now = Ok (start, h) /\
              C16.Proofs.Inv str_eqb lower h /\
              (forall lk, hget h lk = dget str_eqb (expected url_of hs local_tok a remote_tok now) lk) /\
              Permutation (b_as_lower str_eqb lower h) (expected url_of hs local_tok a remote_tok now).
  Proof.
    unfold decode, cached_decode. rewrite (header_parse_built start hs Hstart (hd_props _ D)).
    rewrite (md_items_G hs D). fold loc. rewrite extra_is. fold items0.
    assert (Hdict : is_dict str_eqb items0 = true).
    { apply (NoDup_nodupb str_eqb KS). unfold items0. apply (NoDup_dmerge str_eqb KS). apply G_keys_nodup. }
    pose proof (H_init_body str_eqb KS lower items0 Hdict) as R0.
    destruct (b_init str_eqb lower items0) as [b0|]; [|contradiction]. unfold Sim.opt_rel in R0. cbv beta iota in R0.
    assert (Hm4d : is_dict str_eqb meta4 = true) by reflexivity.
    assert (Hm4l : all_lower str_eqb lower meta4 = true) by reflexivity.
    pose proof (H_combine_lower_body KS meta4 R0 Hm4d Hm4l) as R1.
    fold vts vra vp vla. change [(k_timestamp, vts); (k_remote_addr, vra); (k_port, vp); (k_local_addr, vla)] with meta4.
    destruct (b_combine_lower str_eqb b0 meta4) as [h|]; [|contradiction]. unfold Sim.opt_rel in R1. cbv beta iota in R1.
    exists h. split; [reflexivity|].
    set (sF := s_writes str_eqb lower (s_writes str_eqb lower [] items0) meta4) in *.
    assert (Hpt : forall lk, dget str_eqb (s_as_lower sF) lk =
                             dget str_eqb (expected url_of hs local_tok a remote_tok now) lk).
    {
        intros lk. rewrite expected_is, (s_as_lower_get str_eqb). unfold sF.
        rewrite !(s_writes_get str_eqb KS lower). cbn [dget]. rewrite LW_items0, (LW_G hs lk).
        rewrite (dget_app str_eqb), (dget_folded hs D).
        destruct (sent hs lk) as [[k v]|] eqn:Es.
        + destruct (sent_Some hs lk k v Es) as [Hin Hlk]. pose proof (hd_plain _ D _ Hin) as Hpl.
          cbn [fst] in Hpl. rewrite Hlk in Hpl.
          destruct (meta_nonmeta vh vts vra vp vla vlo vlc up up_shape hl lk Hpl) as [M1 M2].
          unfold meta4. rewrite M1, M2. cbn [fst snd]. rewrite Hlk.
          destruct (KS k_location lk) as [<-|Hne].
          * replace (str_eqb k_location k_location) with true by (symmetry; destruct (KS k_location k_location); congruence).
            cbn [andb]. destruct hl eqn:Ehl; cbn [snd]; [|reflexivity].
            unfold vlc, loc. rewrite (md_get_sent hs D), Es. reflexivity.
          * assert (E2 : str_eqb lk k_location = false) by (destruct (KS lk k_location); congruence).
            rewrite E2. reflexivity.
        + assert (Hloc : str_eqb k_location lk = false \/ hl = false).
          { destruct (KS k_location lk) as [<-|]; [right|now left].
            unfold hl, loc. rewrite (md_get_sent hs D), Es. reflexivity. }
          destruct Hloc as [Hloc|Hhl].
          * pose proof (meta_lookup vh vts vra vp vla vlo vlc up up_shape hl lk Hloc) as ML.
            unfold first_some in ML. unfold meta4.
            destruct (LWs (meta_l vts vra vp vla) lk); [exact ML|].
            destruct (LWs (extra_l vh vlo vlc up hl) lk); exact ML.
          * destruct (KS k_location lk) as [<-|Hne].
            -- rewrite Hhl. unfold meta4, meta_l, extra_l, expected_meta, meta_l, LW.
               destruct up_shape as [->|[u ->]]; reflexivity.
            -- assert (Hloc : str_eqb k_location lk = false) by (destruct (KS k_location lk); congruence).
               pose proof (meta_lookup vh vts vra vp vla vlo vlc up up_shape hl lk Hloc) as ML.
               unfold first_some in ML. unfold meta4.
               destruct (LWs (meta_l vts vra vp vla) lk); [exact ML|].
               destruct (LWs (extra_l vh vlo vlc up hl) lk); exact ML. }
    split; [apply R1|]. split.
    { intros lk. unfold hget. rewrite (H_get_lower_body lk R1). unfold s_get_lower.
      rewrite <- Hpt, (s_as_lower_get str_eqb). reflexivity. }
    rewrite (H_as_lower_body KS R1). destruct R1 as [_ [HsF _]].
    apply perm_of_dget; [| |exact Hpt].
    - rewrite (s_as_lower_keys sF). apply HsF.
    - (* expected keys distinct *)
      rewrite expected_is. unfold dkeys. rewrite map_app, map_map. cbn [fst]. apply NoDup_app_intro.
      + apply D.
      + apply (expected_meta_nodup vh vts vra vp vla vlo up up_shape hl).
      + intros k Hk1 Hk2. apply in_map_iff in Hk1 as [kv [<- Hin]].
        apply (expected_meta_keys vh vts vra vp vla vlo up up_shape hl) in Hk2.
        rewrite (hd_plain _ D _ Hin) in Hk2. discriminate.
  Qed.

  Theorem decode_built :
    exists h, decode url_of (build_packet start hs) local_tok a remote_tok now = Ok (start, h) /\
              Permutation (b_as_lower str_eqb lower h) (expected url_of hs local_tok a remote_tok now).
  Proof. destruct decode_built_strong as [h [E [_ [_ P]]]]. now exists h. Qed.
End Main.
