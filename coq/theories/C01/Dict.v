(* C01 — from the parsed header list to the header map handed out: lookups of the final map. *)
From Coq Require Import List Bool NArith ZArith Lia Permutation.
From AUC Require Import Prelude.PyStr Prelude.PyDict Prelude.Utf8 C16.Model C16.Spec C16.Proofs
  C03.Model C01.Model C01.Spec.
Import ListNotations.
Local Open Scope N_scope.

Local Notation KS := str_eqb_spec.
Local Notation LWs := (LW str_eqb lower).

(* ------------------------------------------------------------------ later-wins lookup and dict merge *)
Definition lowers_to (V : Type) (A : dict pystr V) (lk : pystr) : list pystr :=
  filter (fun k => str_eqb (lower k) lk) (dkeys A).
Arguments lowers_to {V} A lk.

Lemma LW_cons (V : Type) k (v : V) r lk :
  LWs ((k, v) :: r) lk = match LWs r lk with Some e => Some e | None => if str_eqb (lower k) lk then Some (k, v) else None end.
Proof. reflexivity. Qed.

Lemma LW_none_iff (V : Type) (A : dict pystr V) lk : LWs A lk = None <-> lowers_to A lk = [].
Proof.
  unfold lowers_to. induction A as [|[k v] r IH]; [tauto|]. rewrite LW_cons. cbn [dkeys map filter fst].
  destruct (LWs r lk) eqn:E.
  - split; [discriminate|]. intros H. destruct (str_eqb (lower k) lk); [discriminate|].
    apply IH in H. discriminate.
  - destruct (str_eqb (lower k) lk); [split; discriminate|]. exact IH.
Qed.

(* inserting a key when at most one existing key folds to the same name *)
Lemma LW_dset (V : Type) (A : dict pystr V) k v :
  NoDup (dkeys A) -> (forall k1 k2, In k1 (lowers_to A (lower k)) -> In k2 (lowers_to A (lower k)) -> k1 = k2) ->
  forall lk, LWs (dset str_eqb A k v) lk = if str_eqb (lower k) lk then Some (k, v) else LWs A lk.
Proof.
  induction A as [|[a w] r IH]; intros Hnd Hone lk.
  - cbn [dset]. rewrite LW_cons. reflexivity.
  - inversion Hnd as [|? ? Hn Hr]; subst. cbn [dset].
    assert (Hone_r : forall k1 k2, In k1 (lowers_to r (lower k)) -> In k2 (lowers_to r (lower k)) -> k1 = k2).
    { intros k1 k2 H1 H2. apply Hone; unfold lowers_to in *; cbn [dkeys map filter fst];
        destruct (str_eqb (lower a) (lower k)); try (right; assumption); assumption. }
    destruct (KS a k) as [->|Hak].
    + rewrite !LW_cons. destruct (KS (lower k) lk) as [<-|Hlk]; [|reflexivity].
      assert (E : LWs r (lower k) = None).
      { apply LW_none_iff. destruct (lowers_to r (lower k)) as [|x t] eqn:Ex; [reflexivity|]. exfalso.
        assert (Hx : In x (lowers_to r (lower k))) by (rewrite Ex; now left).
        assert (x = k).
        { apply Hone; unfold lowers_to in *; cbn [dkeys map filter fst].
          - destruct (KS (lower k) (lower k)); [right; exact Hx | congruence].
          - destruct (KS (lower k) (lower k)); [now left | congruence]. }
        subst x. apply Hn. unfold lowers_to in Hx. apply filter_In in Hx. apply Hx. }
      now rewrite E.
    + rewrite !LW_cons, (IH Hr Hone_r lk). destruct (KS (lower k) lk) as [<-|Hlk]; reflexivity.
Qed.

Lemma lowers_to_dset_other (V : Type) (A : dict pystr V) k v lk :
  str_eqb (lower k) lk = false -> lowers_to (dset str_eqb A k v) lk = lowers_to A lk.
Proof.
  intros H. unfold lowers_to. rewrite (dkeys_dset str_eqb KS). destruct (dhas str_eqb A k); [reflexivity|].
  rewrite filter_app. cbn. rewrite H. now rewrite app_nil_r.
Qed.

(* {**A, **B}: B's entries win, provided each of B's folded names meets at most one key of A *)
Lemma LW_dmerge (V : Type) (B : list (pystr * V)) : forall (A : dict pystr V),
  NoDup (dkeys A) -> NoDup (map (fun kv => lower (fst kv)) B) ->
  (forall kv, In kv B -> forall k1 k2, In k1 (lowers_to A (lower (fst kv))) ->
                                       In k2 (lowers_to A (lower (fst kv))) -> k1 = k2) ->
  forall lk, LWs (dmerge str_eqb A B) lk = match LWs B lk with Some e => Some e | None => LWs A lk end.
Proof.
  induction B as [|[k v] B' IH]; intros A Hnd HndB Hone lk; [reflexivity|].
  change (dmerge str_eqb A ((k, v) :: B')) with (dmerge str_eqb (dset str_eqb A k v) B').
  inversion HndB as [|? ? Hn HrB]; subst. cbn [fst] in Hn.
  rewrite IH.
  - rewrite LW_cons, (LW_dset _ A k v Hnd (Hone (k, v) (or_introl eq_refl))).
    destruct (LWs B' lk); [reflexivity|]. destruct (str_eqb (lower k) lk); reflexivity.
  - now apply (NoDup_dset str_eqb KS).
  - exact HrB.
  - intros kv Hin k1 k2. rewrite lowers_to_dset_other.
    + apply Hone. now right.
    + destruct (KS (lower k) (lower (fst kv))) as [E|]; [|reflexivity]. exfalso. apply Hn.
      rewrite E. apply in_map_iff. now exists kv.
Qed.

(* two association lists with distinct keys and the same lookups are permutations of each other *)
Lemma perm_of_dget (V : Type) (x y : dict pystr V) :
  NoDup (dkeys x) -> NoDup (dkeys y) -> (forall k, dget str_eqb x k = dget str_eqb y k) -> Permutation x y.
Proof.
  intros Hx Hy H. apply NoDup_Permutation; [now apply NoDup_pairs | now apply NoDup_pairs |].
  intros [k v]. split; intros Hin.
  - apply (In_dget str_eqb KS _ _ _ Hx) in Hin. rewrite H in Hin. now apply (dget_In str_eqb KS).
  - apply (In_dget str_eqb KS _ _ _ Hy) in Hin. rewrite <- H in Hin. now apply (dget_In str_eqb KS).
Qed.
