From AUC Require Import C01.Model.
