(* C01 — SSDP messages survive the wire and decode independently of history.  Property theorems only. *)
From Coq Require Import List Bool NArith ZArith Permutation.
From AUC Require Import Prelude.PyStr Prelude.PyDict Prelude.Utf8 C16.Model C16.Indep C03.Model
  C01.Model C01.Spec C01.Wire C01.Roundtrip C01.Run C01.Clause C01.Fresh C01.Adjust.
Import ListNotations.
Local Open Scope N_scope.

(* Round trip (all three start lines; every header list whose names are tokens, distinct ignoring
   case and not decoder metadata, whose values are Unicode scalar strings without CR/LF and without
   surrounding blanks, each field at most 8190 bytes; every IPv4 / IPv6 (scoped or not) sender, port,
   receive time; whatever urlsplit / ip_address answer): the datagram build_ssdp_packet emits passes
   is_valid_ssdp_packet and decode_ssdp_packet returns the start line and a header map that, read
   case-insensitively, is exactly: every sent header with its value (LOCATION adjusted as the code's
   link-local rule says, the sent value kept under _location_original), _host, _udn (iff the USN is a
   uuid USN), _timestamp, _remote_addr, _port, _local_addr.
   Partial: under the guard kf_nul (known finding D27: a NUL inside a value), refuted below. *)
Theorem C01_roundtrip_partial :
  forall (url_of : pystr -> url_info) start hs local_tok a remote_tok now,
    In start start_lines -> headers_ok hs = true -> kf_nul hs = false ->
    is_valid_packet (build_packet start hs) = true /\
    exists h, decode url_of (build_packet start hs) local_tok a remote_tok now = Ok (start, h) /\
              Permutation (b_as_lower str_eqb lower h) (expected url_of hs local_tok a remote_tok now).
Proof.
  intros url_of start hs l a r n Hs Hh Hk. split; [now apply is_valid_built|].
  apply decode_built; [exact Hs | now apply headers_ok_dom].
Qed.
Print Assumptions C01_roundtrip_partial.

(* "the same header names and values": the one value the receiver may hand on changed is LOCATION, and only when
   the sender's address carries a non-zero scope id and the location's host is (by the ip_address oracle) an IPv6
   link-local address - never an IPv4 host, a name, or anything from an unscoped sender (D38: before the repair an
   IPv4 link-local LOCATION from a scoped sender came out as http://[169.254.1.1%3]/...). *)
Theorem C01_location_kept :
  forall (url_of : pystr -> url_info) url a,
    adjusted_url url_of url a <> url ->
    u_link_local (url_of url) = Some true /\
    exists flow scope, a_v6 a = Some (flow, scope) /\ scope <> 0.
Proof. exact adjusted_changes_only. Qed.
Print Assumptions C01_location_kept.

(* the full statement (without the guard) is false of the faithful model: D27 *)
Theorem C01_roundtrip_refuted :
  exists hs, headers_ok hs = true /\
    decode (fun _ => no_url) (build_packet [72;84;84;80;47;49;46;49;32;50;48;48;32;79;75] hs) 0
           {| a_host := [49]; a_port := 1; a_v6 := None |} 0 0%Z = Raise EInvalidHeader.
Proof. exists [([88], [97; 0; 98])]. vm_compute. split; reflexivity. Qed.
Print Assumptions C01_roundtrip_refuted.

(* the same through the clause the correspondence check evaluates on the implementation's
   observations: decode steps are judged one by one, whatever was decoded or mutated before, because the
   model's decode is a function of the datagram, the addresses and the clock alone *)
Theorem C01_clause_roundtrip :
  forall url_of ds st,
    step_in_domain ds st = true -> step_kf ds st = false ->
    c_roundtrip url_of ds st (decode_obs url_of ds st) = true.
Proof. exact clause_roundtrip. Qed.
Print Assumptions C01_clause_roundtrip.

(* the wire level alone: parsing what was built gives back the header list and the start line *)
Theorem C01_header_parse_built :
  forall start hs, In start start_lines -> hs_props hs -> header_parse (build_packet start hs) = Ok (hs, start).
Proof. exact header_parse_built. Qed.
Print Assumptions C01_header_parse_built.

(* every string of Unicode scalar values survives str.encode() / bytes.decode("utf-8","surrogateescape") *)
Theorem C01_utf8_roundtrip : forall s, forallb is_scalar s = true -> dec_lenient (utf8_encode s) = s.
Proof. exact dec_lenient_encode. Qed.
Print Assumptions C01_utf8_roundtrip.

(* later modification of an earlier result cannot change what a datagram decodes to: the result of
   combine_lower_dict(cached map, metadata) is a fresh header map, and in-place mutation through it
   never changes the cached map (any body implementation of the C16 machine) *)
Theorem C01_cache_unreachable :
  forall (K V B : Type) (I : iface K V B) (s : store B) (c v j : nat)
         (items : list (K * V)) (muts : list (C16.Model.op K V)),
    wf s -> lookup_var (env s) c = Some j -> v <> c ->
    snd (C16.Model.step I s (OCombineLower v c items)) = ObDone ->
    forallb (mutates v) muts = true ->
    body_of (exec I (fst (C16.Model.step I s (OCombineLower v c items))) muts) c = body_of s c.
Proof. exact cache_unreachable. Qed.
Print Assumptions C01_cache_unreachable.

(* Non-vacuity *)
Example C01_domain_inhabited :
  headers_ok [([76;79;67;65;84;73;79;78], [104;116;116;112;58;47;47;91;102;101;56;48;58;58;50;93;47;100]);
              ([117;115;110], [85;85;73;68;58;97;58;58;98]); ([88;45;69], [118;228;114;100;101;32;28450;32;127925])] = true.
Proof. vm_compute. reflexivity. Qed.
