(* C01 — SSDP messages survive the wire and decode independently of history.  Property theorems only. *)
From Coq Require Import List Bool NArith ZArith.
From AUC Require Import Prelude.PyStr Prelude.Utf8 C01.Model.
Import ListNotations.

(* every string of Unicode scalar values survives str.encode() / bytes.decode("utf-8","surrogateescape") *)
Theorem C01_utf8_roundtrip : forall s, forallb is_scalar s = true -> dec_lenient (utf8_encode s) = s.
Proof. exact dec_lenient_encode. Qed.
Print Assumptions C01_utf8_roundtrip.
