(* C01 — instantiation used by the correspondence check. *)
From Coq Require Import List Bool NArith ZArith.
From AUC Require Export Prelude.PyStr Prelude.PyDict Prelude.Utf8 C16.Model C16.Spec C03.Model C01.Model C01.Spec.
Import ListNotations.
Local Open Scope N_scope.

(* whole-second time stamps relative to the harness clock's base 2020-01-01T12:00:00 *)
Definition TS (n : Z) : Z := (63713476800000000 + n * 1000000)%Z.

Inductive dgram := Built (start : pystr) (hs : list (pystr * pystr)) | Raw (bs : list N).
(* decode datagram #i as received on local socket token [local] from [a] (token [remote]) at [now] *)
Record dec_step := { ds_dgram : nat; ds_local : N; ds_addr : addr; ds_remote : N; ds_now : Z }.
Definition input := (list (pystr * url_info) * list dgram * list dec_step)%type.

Inductive dec_obs :=
| DOk (request_line : pystr) (items : list (pystr * hval))     (* items with folded names *)
| DErr (e : exn)
| DInvalid.                                                    (* is_valid_ssdp_packet said no *)
Definition observation := (list (N * N) * list dec_obs)%type.   (* (length, checksum) per datagram *)

Definition no_url : url_info :=
  {| u_split_ok := false; u_scheme := []; u_path := []; u_query := []; u_fragment := [];
     u_hostname := None; u_port := PortNone; u_link_local := None |}.
Definition url_of_tab (tab : list (pystr * url_info)) (u : pystr) : url_info :=
  match find (fun p => str_eqb (fst p) u) tab with Some p => snd p | None => no_url end.

Definition bytes_of (d : dgram) : list N :=
  match d with Built s hs => build_packet s hs | Raw bs => bs end.
Definition digest (bs : list N) : N * N :=
  (N.of_nat (length bs),
   fst (fold_left (fun acc b => let '(s, i) := acc in ((s + (i mod 251 + 1) * (b + 1)) mod 2147483647, i + 1)) bs (0, 0))).

Definition decode_obs (url_of : pystr -> url_info) (ds : list dgram) (st : dec_step) : dec_obs :=
  match nth_error ds (ds_dgram st) with
  | None => DInvalid
  | Some d =>
      let bs := bytes_of d in
      if is_valid_packet bs then
        match decode url_of bs (ds_local st) (ds_addr st) (ds_remote st) (ds_now st) with
        | Ok (rl, h) => DOk rl (b_as_lower str_eqb lower h)
        | Raise e => DErr e
        end
      else DInvalid
  end.

Definition model_run (i : input) : observation :=
  let '(tab, ds, steps) := i in
  (map (fun d => digest (bytes_of d)) ds, map (decode_obs (url_of_tab tab) ds) steps).

(* ---- comparison ---- *)
Definition kv_eqb (a b : pystr * hval) : bool := str_eqb (fst a) (fst b) && hval_eqb (snd a) (snd b).
Definition exn_eqb (a b : exn) : bool :=
  match a, b with
  | EInvalidHeader, EInvalidHeader | ELineTooLong, ELineTooLong | EUnicodeDecode, EUnicodeDecode => true
  | _, _ => false
  end.
Definition dec_obs_eqb (a b : dec_obs) : bool :=
  match a, b with
  | DOk r1 i1, DOk r2 i2 => str_eqb r1 r2 && perm_eqb kv_eqb i1 i2
  | DErr x, DErr y => exn_eqb x y
  | DInvalid, DInvalid => true
  | _, _ => false
  end.
Fixpoint list_eqb {A} (eqb : A -> A -> bool) (a b : list A) : bool :=
  match a, b with
  | [], [] => true
  | x :: a', y :: b' => eqb x y && list_eqb eqb a' b'
  | _, _ => false
  end.
Definition obs_eqb (a b : observation) : bool :=
  list_eqb (fun x y => (fst x =? fst y) && (snd x =? snd y)) (fst a) (fst b) &&
  list_eqb dec_obs_eqb (snd a) (snd b).

(* ---- spec clause 1 (roundtrip + history independence): every decode of a built, in-domain
   datagram yields its start line and exactly the expected case-insensitive map, whatever was
   decoded or mutated before ---- *)
Definition step_in_domain (ds : list dgram) (st : dec_step) : bool :=
  match nth_error ds (ds_dgram st) with
  | Some (Built s hs) => existsb (str_eqb s) start_lines && headers_ok hs
  | _ => false
  end.
Definition step_kf (ds : list dgram) (st : dec_step) : bool :=
  match nth_error ds (ds_dgram st) with Some (Built _ hs) => kf_nul hs | _ => false end.
Definition c_roundtrip (url_of : pystr -> url_info) (ds : list dgram) (st : dec_step) (ob : dec_obs) : bool :=
  match nth_error ds (ds_dgram st), ob with
  | Some (Built s hs), DOk rl items =>
      str_eqb rl s &&
      perm_eqb kv_eqb items (expected url_of hs (ds_local st) (ds_addr st) (ds_remote st) (ds_now st))
  | Some (Built _ _), _ => false
  | _, _ => true
  end.

Fixpoint steps_report (url_of : pystr -> url_info) (ds : list dgram) (n : N)
         (steps : list dec_step) (obs_l : list dec_obs) : list (N * N) :=
  match steps, obs_l with
  | st :: steps', ob :: obs' =>
      (if step_in_domain ds st then
         if step_kf ds st then
           (* known finding D27, identified by what fails and how: a built datagram with a NUL inside a value is refused
              by the receiver with InvalidHeader.  Exactly that outcome is reported as clause 2 (the finding's clause)
              together with the guard; any other way of failing the round trip on such a step stays clause 1 and is
              not covered by the finding *)
           (100, n) :: match ob with
                       | DErr EInvalidHeader => [(2, n)]
                       | _ => if c_roundtrip url_of ds st ob then [] else [(1, n)]
                       end
         else (if c_roundtrip url_of ds st ob then [] else [(1, n)])
       else []) ++ steps_report url_of ds (N.succ n) steps' obs'
  | _, _ => []
  end.
Definition spec_report (i : input) (o : observation) : list (N * N) :=
  let '(tab, ds, steps) := i in steps_report (url_of_tab tab) ds 0 steps (snd o).

Fixpoint report (base : N) (cases : list (input * observation)) : list (N * N * N) :=
  match cases with
  | [] => []
  | (i, o) :: r =>
      (if obs_eqb (model_run i) o then [] else [(base, 0, 0)]) ++
      map (fun e => (base, fst e, snd e)) (spec_report i o) ++
      report (N.succ base) r
  end.

Definition replay (c : input * observation) := (model_run (fst c), spec_report (fst c) (snd c)).
