(* C01 — specification of the SSDP wire round trip: what a built message must decode to. *)
From Coq Require Import List Bool NArith ZArith.
From AUC Require Import Prelude.PyStr Prelude.PyDict Prelude.Utf8 C16.Model C16.Spec C03.Model C01.Model.
Import ListNotations.
Local Open Scope N_scope.

Definition start_lines : list pystr :=
  [[78;79;84;73;70;89;32;42;32;72;84;84;80;47;49;46;49];
   [77;45;83;69;65;82;67;72;32;42;32;72;84;84;80;47;49;46;49];
   [72;84;84;80;47;49;46;49;32;50;48;48;32;79;75]].

Definition blank (c : N) : bool := (c =? 32) || (c =? 9).
(* "values without CR/LF or surrounding blanks" *)
Definition value_ok (v : pystr) : bool :=
  forallb is_scalar v && negb (existsb (fun c => (c =? 10) || (c =? 13)) v) &&
  match v with [] => true | c :: _ => negb (blank c) && negb (blank (last v 0)) end &&
  (N.of_nat (length (utf8_encode v)) <=? 8190).
Definition name_ok (k : pystr) : bool :=
  is_token k && (N.of_nat (length k) <=? 8190) && negb (is_meta (lower k)).

(* the header map of the statement: token names distinct ignoring case *)
Definition headers_ok (hs : list (pystr * pystr)) : bool :=
  forallb (fun kv => name_ok (fst kv) && value_ok (snd kv)) hs &&
  nodupb str_eqb (map (fun kv => lower (fst kv)) hs).

(* known finding D27: a NUL inside a value is built but refused by the decoder *)
Definition kf_nul (hs : list (pystr * pystr)) : bool :=
  existsb (fun kv => existsb (N.eqb 0) (snd kv)) hs.

Section Expect.
  Variable url_of : pystr -> url_info.

  (* what the receiver must hand out, as a case-insensitive map (folded name -> value) *)
  Definition expected (hs : list (pystr * pystr)) (local_tok : N) (a : addr) (remote_tok : N) (now : Z)
    : list (pystr * hval) :=
    let loc := match md_get hs k_location with Some l => l | None => [] end in
    let has_loc := negb (forallb is_uspace loc) in
    map (fun kv => (lower (fst kv),
                    HStr (if str_eqb (lower (fst kv)) k_location && has_loc
                          then adjusted_url url_of (snd kv) a else snd kv))) hs ++
    [(k_host, HStr (host_string a))] ++
    match md_get hs k_usn with
    | Some usn => match udn_from_usn usn with Some u => [(k_udn, HStr u)] | None => [] end
    | None => []
    end ++
    (if has_loc then [(k_location_original, HStr loc)] ++
                     (if dhas str_eqb (map (fun kv => (lower (fst kv), snd kv)) hs) k_location then []
                      else [])
     else []) ++
    [(k_timestamp, HTime now); (k_remote_addr, HTok remote_tok); (k_port, HTok (a_port a));
     (k_local_addr, HTok local_tok)].
End Expect.
