(* C01 — decode_ssdp_packet hands out combine_lower_dict(cached map, metadata): a fresh header map.
   Whatever is done to a result never reaches the cached map (a frame property of the C16 machine,
   valid for every body implementation). *)
From Coq Require Import List Bool Arith Lia.
From AUC Require Import Prelude.PyDict C16.Model C16.Indep.
Import ListNotations.

(* a decode result is a fresh header map: mutating it never reaches the cached one *)
Theorem cache_unreachable (K V B : Type) (I : iface K V B) (s : store B) (c v j : nat)
        (items : list (K * V)) (muts : list (op K V)) :
  wf s -> lookup_var (env s) c = Some j -> v <> c ->
  snd (step I s (OCombineLower v c items)) = ObDone ->
  forallb (mutates v) muts = true ->
  body_of (exec I (fst (step I s (OCombineLower v c items))) muts) c = body_of s c.
Proof.
  intros Hwf Hc Hne Hdone Hm.
  destruct (@fresh K V B I s (OCombineLower v c items) v Hwf eq_refl Hdone) as [Hv Hoth].
  set (s1 := fst (step I s (OCombineLower v c items))) in *.
  assert (Hc1 : lookup_var (env s1) c = Some j /\ body_of s1 c = body_of s c).
  { assert (Hbo : body_of s c = match nth_error (bodies s) j with Some b => Some (j, b) | None => None end)
      by (unfold body_of; now rewrite Hc).
    unfold s1. cbn [step]. rewrite Hbo.
    destruct (nth_error (bodies s) j) as [bj|] eqn:Ej; [|cbn [fst]; auto].
    destruct (i_combine_lower I bj items) as [b|]; cbn [new_from fst]; [|auto].
    assert (Hl : lookup_var (env (alloc s v b)) c = Some j).
    { cbn [alloc env lookup_var]. destruct (Nat.eqb_spec v c); [congruence | exact Hc]. }
    split; [exact Hl|]. unfold body_of. rewrite Hl. cbn [alloc bodies].
    rewrite nth_error_app1, Ej; [reflexivity|]. apply nth_error_Some. congruence. }
  destruct Hc1 as [Hc1 Hb1]. rewrite <- Hb1.
  apply (@independent K V B I s1 v c j (length (bodies s)) muts Hv Hc1); [|exact Hm].
  specialize (Hwf _ _ Hc). lia.
Qed.
