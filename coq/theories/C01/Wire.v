(* C01 — the byte level: what build_ssdp_packet emits is parsed back into the same start line and
   the same header list. *)
From Coq Require Import List Bool NArith ZArith Lia ZifyBool ZifyN.
From AUC Require Import Prelude.PyStr Prelude.PyDict Prelude.Utf8 C16.Model C16.Spec C03.Model C01.Model C01.Spec.
Import ListNotations.
Local Open Scope N_scope.
Ltac Zify.zify_post_hook ::= Z.to_euclidean_division_equations.

(* ------------------------------------------------------------------ UTF-8 bytes *)
Lemma utf8_app a b : utf8_encode (a ++ b) = utf8_encode a ++ utf8_encode b.
Proof. unfold utf8_encode. now rewrite flat_map_app. Qed.

Lemma enc1_ascii c : c < 128 -> enc1 c = [c].
Proof. intros H. unfold enc1. replace (c <? 128) with true by lia. reflexivity. Qed.

Lemma utf8_ascii s : forallb (fun c => c <? 128) s = true -> utf8_encode s = s.
Proof.
  induction s as [|c s IH]; cbn; [reflexivity|]. intros H. apply andb_true_iff in H as [Hc Hs].
  rewrite enc1_ascii by lia. cbn. f_equal. now apply IH.
Qed.

(* a byte below 128 occurs in the encoding only as that very code point *)
Lemma enc1_low_byte c b : In b (enc1 c) -> b < 128 -> b = c.
Proof.
  unfold enc1. destruct (c <? 128) eqn:E1; [cbn [In]; intuition|].
  destruct (c <? 2048) eqn:E2; [cbn [In]; intros [<-|[<-|[]]] H; lia|].
  destruct (c <? 65536) eqn:E3; cbn [In]; intros H Hb;
    repeat (destruct H as [<-|H]; [lia|]); contradiction.
Qed.

Lemma utf8_low_byte s b : In b (utf8_encode s) -> b < 128 -> In b s.
Proof.
  induction s as [|c s IH]; cbn; [tauto|]. intros H Hb. apply in_app_iff in H as [H|H].
  - left. symmetry. now apply enc1_low_byte.
  - right. now apply IH.
Qed.

Lemma enc1_first c : exists b r, enc1 c = b :: r /\ (b = c \/ 128 <= b).
Proof.
  unfold enc1. destruct (c <? 128) eqn:E1; [eauto|].
  destruct (c <? 2048); [eexists; eexists; split; [reflexivity|right; lia]|].
  destruct (c <? 65536); eexists; eexists; (split; [reflexivity|right; lia]).
Qed.

Lemma enc1_last c : last (enc1 c) 0 = c \/ 128 <= last (enc1 c) 0.
Proof.
  unfold enc1. destruct (c <? 128) eqn:E1; [now left|].
  destruct (c <? 2048); [right; cbn [last]; lia|]. destruct (c <? 65536); right; cbn [last]; lia.
Qed.

(* ------------------------------------------------------------------ CRLF / LF *)
Definition no_byte (b : N) (bs : list N) : Prop := ~ In b bs.

Lemma replace_crlf_id bs : no_byte 13 bs -> replace_crlf bs = bs.
Proof.
  induction bs as [|b r IH]; cbn; [reflexivity|]. intros H.
  assert (b <> 13) by (intros ->; apply H; now left).
  assert (Hr : no_byte 13 r) by (intros Hi; apply H; now right).
  rewrite (IH Hr). destruct b as [|p]; [reflexivity|].
  destruct (N.eq_dec (N.pos p) 13); [contradiction|].
  do 4 (destruct p as [p|p|]; try reflexivity); congruence.
Qed.

Lemma replace_crlf_app x y : no_byte 13 x ->
  replace_crlf (x ++ 13 :: 10 :: y) = x ++ 10 :: replace_crlf y.
Proof.
  induction x as [|b r IH]; cbn [app]; intros H; [reflexivity|].
  assert (b <> 13) by (intros ->; apply H; now left).
  assert (Hr : no_byte 13 r) by (intros Hi; apply H; now right).
  cbn [replace_crlf]. rewrite (IH Hr). destruct b as [|p]; [reflexivity|].
  destruct (N.eq_dec (N.pos p) 13); [contradiction|].
  do 4 (destruct p as [p|p|]; try reflexivity); congruence.
Qed.

Lemma split_lf_app x y cur : no_byte 10 x ->
  split_lf (x ++ 10 :: y) cur = (rev cur ++ x) :: split_lf y [].
Proof.
  revert cur. induction x as [|b r IH]; intros cur H; cbn [app split_lf].
  - now rewrite app_nil_r.
  - assert (b <> 10) by (intros ->; apply H; now left).
    replace (b =? 10) with false by lia.
    rewrite IH by (intros Hi; apply H; now right). cbn [rev]. now rewrite <- app_assoc.
Qed.

Lemma split_lf_last x cur : no_byte 10 x -> split_lf x cur = [rev cur ++ x].
Proof.
  revert cur. induction x as [|b r IH]; intros cur H; cbn [split_lf].
  - now rewrite app_nil_r.
  - assert (b <> 10) by (intros ->; apply H; now left).
    replace (b =? 10) with false by lia.
    rewrite IH by (intros Hi; apply H; now right). cbn [rev]. now rewrite <- app_assoc.
Qed.

(* ------------------------------------------------------------------ strip *)
Lemma lstrip_by_id f s : match s with [] => True | c :: _ => f c = false end -> lstrip_by f s = s.
Proof. destruct s; cbn; [reflexivity|]. now intros ->. Qed.

Lemma strip_by_id f s :
  match s with [] => True | c :: _ => f c = false /\ f (last s 0) = false end -> strip_by f s = s.
Proof.
  intros H. unfold strip_by. destruct s as [|c r]; [reflexivity|]. destruct H as [H1 H2].
  rewrite (lstrip_by_id f (c :: r)) by exact H1.
  rewrite lstrip_by_id; [apply rev_involutive|].
  destruct (rev (c :: r)) as [|x t] eqn:E; [exact I|].
  assert (x = last (c :: r) 0).
  { rewrite <- (rev_involutive (c :: r)), E. cbn [rev]. now rewrite last_last. }
  now subst.
Qed.

(* ------------------------------------------------------------------ one header line *)
Lemma token_char_props c : is_token_char c = true ->
  c < 128 /\ c <> 58 /\ c <> 32 /\ c <> 9 /\ c <> 13 /\ c <> 10 /\ c <> 0.
Proof. unfold is_token_char. cbn [existsb]. lia. Qed.

Lemma split_colon_app k y cur : no_byte 58 k -> split_colon (k ++ 58 :: y) cur = Some (rev cur ++ k, y).
Proof.
  revert cur. induction k as [|b r IH]; intros cur H; cbn [app split_colon].
  - replace (58 =? 58) with true by lia. now rewrite app_nil_r.
  - assert (b <> 58) by (intros ->; apply H; now left).
    replace (b =? 58) with false by lia.
    rewrite IH by (intros Hi; apply H; now right). cbn [rev]. now rewrite <- app_assoc.
Qed.

Lemma last_in (l : list N) : l <> [] -> In (last l 0) l.
Proof.
  induction l as [|a r IH]; [congruence|]. intros _. destruct r as [|b r']; [now left|].
  right. apply IH. congruence.
Qed.

Lemma last_app' (a b : list N) : b <> [] -> last (a ++ b) 0 = last b 0.
Proof.
  intros Hb. induction a as [|x a IH]; [reflexivity|]. cbn [app].
  destruct (a ++ b) eqn:E; [destruct a; [cbn in E; congruence | discriminate]|]. cbn [last]. rewrite <- IH. reflexivity.
Qed.

Lemma utf8_last s : s <> [] -> last (utf8_encode s) 0 = last (enc1 (last s 0)) 0.
Proof.
  induction s as [|c r IH]; [congruence|]. intros _. destruct r as [|c' r'].
  - cbn [utf8_encode flat_map last]. now rewrite app_nil_r.
  - change (utf8_encode (c :: c' :: r')) with (enc1 c ++ utf8_encode (c' :: r')).
    assert (Hne : utf8_encode (c' :: r') <> []).
    { change (utf8_encode (c' :: r')) with (enc1 c' ++ utf8_encode r').
      destruct (enc1_first c') as [b [t [E _]]]. rewrite E. discriminate. }
    rewrite last_app' by exact Hne. rewrite IH by congruence. reflexivity.
Qed.

Record name_props (k : pystr) : Prop := {
  np_tok : is_token k = true;
  np_len : N.of_nat (length k) <= 8190
}.
Record value_props (v : pystr) : Prop := {
  vp_scalar : forallb is_scalar v = true;
  vp_clean : forall c, In c v -> c <> 10 /\ c <> 13 /\ c <> 0;
  vp_edges : match v with [] => True | c :: _ => blank c = false /\ blank (last v 0) = false end;
  vp_len : N.of_nat (length (utf8_encode v)) <= 8190
}.

Lemma token_all k : is_token k = true -> k <> [] /\ forall c, In c k -> is_token_char c = true.
Proof.
  unfold is_token. destruct k as [|c r]; [discriminate|]. intros H. split; [discriminate|].
  now apply forallb_forall.
Qed.

Lemma token_ascii k : is_token k = true -> forallb (fun c => c <? 128) k = true.
Proof.
  intros H. destruct (token_all k H) as [_ A]. apply forallb_forall. intros c Hc.
  pose proof (token_char_props c (A c Hc)). lia.
Qed.

Lemma ascii_scalar k : forallb (fun c => c <? 128) k = true -> forallb is_scalar k = true.
Proof.
  rewrite !forallb_forall. intros H c Hc. specialize (H c Hc). unfold is_scalar. lia.
Qed.

Lemma blank_is_blank c : is_blank c = blank c.
Proof. reflexivity. Qed.

Lemma parse_line_built k v : name_props k -> value_props v ->
  parse_line (utf8_encode (k ++ [58] ++ v)) = Ok (k, v).
Proof.
  intros [Ht Hl] [Hs Hc He Hvl]. destruct (token_all k Ht) as [Hne Hall].
  pose proof (token_ascii k Ht) as Hascii.
  rewrite !utf8_app, (utf8_ascii k Hascii). change (utf8_encode [58]) with [58]. cbn [app].
  unfold parse_line.
  rewrite split_colon_app by (intros Hi; destruct (token_char_props _ (Hall _ Hi)); intuition).
  cbn [rev app]. destruct k as [|b0 kr] eqn:Ek; [congruence|]. rewrite <- Ek in *.
  assert (Hb0 : is_blank b0 = false).
  { assert (In b0 k) by (rewrite Ek; now left). pose proof (token_char_props _ (Hall _ H)). unfold is_blank. lia. }
  assert (Hbl : is_blank (last k 0) = false).
  { pose proof (token_char_props _ (Hall _ (last_in k Hne))). unfold is_blank. lia. }
  rewrite Hb0, Hbl. cbn [orb].
  (* the value keeps its edges *)
  assert (Hls : lstrip_by is_blank (utf8_encode v) = utf8_encode v).
  { apply lstrip_by_id. destruct v as [|c r]; [exact I|].
    change (utf8_encode (c :: r)) with (enc1 c ++ utf8_encode r).
    destruct (enc1_first c) as [b [t [E Hb]]]. rewrite E. cbn [app].
    destruct He as [He1 _]. unfold blank in He1. unfold is_blank. destruct Hb as [->|Hb]; lia. }
  rewrite Hls.
  replace (max_field <? N.of_nat (length k)) with false by (unfold max_field; lia).
  assert (Hdk : dec_lenient k = k).
  { rewrite <- (utf8_ascii k Hascii) at 1. apply (dec_lenient_encode k (ascii_scalar k Hascii)). }
  rewrite !Hdk, Ht. cbn [negb].
  replace (max_field <? N.of_nat (length (utf8_encode v))) with false by (unfold max_field; lia).
  assert (Hst : strip_by is_blank (utf8_encode v) = utf8_encode v).
  { apply strip_by_id. destruct (utf8_encode v) as [|b t] eqn:Ev; [exact I|].
    destruct v as [|c r]; [discriminate Ev|]. destruct He as [He1 He2]. split.
    - change (utf8_encode (c :: r)) with (enc1 c ++ utf8_encode r) in Ev.
      destruct (enc1_first c) as [b' [t' [E Hb]]]. rewrite E in Ev. inversion Ev; subst.
      unfold blank in He1. unfold is_blank. destruct Hb as [->|Hb]; lia.
    - rewrite <- Ev, utf8_last by discriminate.
      unfold blank in He2. unfold is_blank. destruct (enc1_last (last (c :: r) 0)) as [->|Hb]; lia. }
  rewrite Hst, (dec_lenient_encode v Hs).
  replace (existsb (fun c => (c =? 10) || (c =? 13) || (c =? 0)) v) with false; [reflexivity|].
  symmetry. apply not_true_is_false. intros Hex. apply existsb_exists in Hex as [c [Hin Hcc]].
  destruct (Hc c Hin) as [? [? ?]]. lia.
Qed.

(* ------------------------------------------------------------------ the whole packet *)
Definition line_of (kv : pystr * pystr) : pystr := fst kv ++ [58] ++ snd kv.
Definition hs_props (hs : list (pystr * pystr)) : Prop :=
  forall kv, In kv hs -> name_props (fst kv) /\ value_props (snd kv).

Lemma line_no_crlf kv : name_props (fst kv) -> value_props (snd kv) ->
  no_byte 13 (utf8_encode (line_of kv)) /\ no_byte 10 (utf8_encode (line_of kv)) /\ utf8_encode (line_of kv) <> [].
Proof.
  intros [Ht Hl] [Hs Hc He Hvl]. destruct (token_all _ Ht) as [Hne Hall].
  assert (G : forall b, (b = 13 \/ b = 10) -> ~ In b (utf8_encode (line_of kv))).
  { intros b Hb Hin. apply utf8_low_byte in Hin; [|lia]. unfold line_of in Hin.
    apply in_app_iff in Hin as [Hin|Hin].
    - pose proof (token_char_props _ (Hall _ Hin)). lia.
    - cbn in Hin. destruct Hin as [Hin|Hin]; [lia|]. destruct (Hc _ Hin) as [? [? ?]]. lia. }
  split; [apply G; now left|]. split; [apply G; now right|].
  unfold line_of. rewrite utf8_app. destruct (fst kv) as [|c r]; [congruence|].
  change (utf8_encode (c :: r)) with (enc1 c ++ utf8_encode r).
  destruct (enc1_first c) as [b [t [E _]]]. rewrite E. discriminate.
Qed.

Fixpoint joinb (ls : list (list N)) : list N :=
  match ls with
  | [] => []
  | [l] => l
  | l :: r => l ++ [13; 10] ++ joinb r
  end.

Lemma utf8_join ls : utf8_encode (join_crlf ls) = joinb (map utf8_encode ls).
Proof.
  induction ls as [|l r IH]; [reflexivity|]. destruct r as [|l' r']; [reflexivity|].
  change (join_crlf (l :: l' :: r')) with (l ++ [13; 10] ++ join_crlf (l' :: r')).
  rewrite !utf8_app, IH. reflexivity.
Qed.

Lemma split_joined ls :
  ls <> [] -> (forall l, In l ls -> no_byte 13 l /\ no_byte 10 l) ->
  split_lf (replace_crlf (joinb ls ++ [13; 10; 13; 10])) [] = ls ++ [[]; []].
Proof.
  induction ls as [|l r IH]; [congruence|]. intros _ H.
  destruct (H l (or_introl eq_refl)) as [H13 H10].
  destruct r as [|l' r'].
  - cbn [joinb app]. rewrite replace_crlf_app by exact H13.
    change (replace_crlf [13; 10]) with [10].
    rewrite split_lf_app by exact H10. reflexivity.
  - change (joinb (l :: l' :: r')) with (l ++ [13; 10] ++ joinb (l' :: r')).
    rewrite <- !app_assoc. cbn [app]. rewrite replace_crlf_app by exact H13.
    rewrite split_lf_app by exact H10. cbn [rev app]. f_equal.
    apply IH; [discriminate|]. intros l0 Hl0. apply H. now right.
Qed.

Lemma parse_lines_built hs : hs_props hs -> forall acc,
  parse_lines (map (fun kv => utf8_encode (line_of kv)) hs ++ [[]; []]) acc = Ok (rev acc ++ hs).
Proof.
  induction hs as [|kv r IH]; intros Hp acc; cbn [map app parse_lines].
  - now rewrite app_nil_r.
  - destruct (Hp kv (or_introl eq_refl)) as [Hn Hv].
    destruct (line_no_crlf kv Hn Hv) as [_ [_ Hne]].
    destruct (utf8_encode (line_of kv)) as [|b t] eqn:E; [congruence|]. rewrite <- E.
    unfold line_of at 1. destruct kv as [k v]. cbn [fst snd] in *.
    rewrite (parse_line_built k v Hn Hv).
    assert (E' : utf8_encode (k ++ [58] ++ v) = b :: t) by exact E.
    rewrite IH by (intros kv' Hin; apply Hp; now right). cbn [rev]. now rewrite <- app_assoc.
Qed.

Lemma start_line_facts s : In s start_lines ->
  forallb (fun c => c <? 128) s = true /\ no_byte 13 s /\ no_byte 10 s /\
  strip_by is_bspace s = s /\ dec_strict s = Some s.
Proof.
  unfold start_lines. intros [<-|[<-|[<-|[]]]]; (split; [reflexivity|]);
    (split; [intros H; cbn in H; intuition discriminate|]);
    (split; [intros H; cbn in H; intuition discriminate|]); split; vm_compute; reflexivity.
Qed.

Theorem header_parse_built start hs : In start start_lines -> hs_props hs ->
  header_parse (build_packet start hs) = Ok (hs, start).
Proof.
  intros Hs Hp. destruct (start_line_facts start Hs) as [Ha [H13 [H10 [Hst Hdec]]]].
  unfold build_packet, build_text. rewrite !utf8_app, (utf8_ascii start Ha), utf8_join.
  change (utf8_encode [13; 10]) with [13; 10]. change (utf8_encode [13; 10; 13; 10]) with [13; 10; 13; 10].
  unfold header_parse. cbn [app]. rewrite replace_crlf_app by exact H13.
  rewrite split_lf_app by exact H10. cbn [rev app]. rewrite Hst, Hdec.
  rewrite map_map.
  destruct hs as [|kv r].
  - cbn. reflexivity.
  - rewrite split_joined.
    + pose proof (parse_lines_built (kv :: r) Hp []) as P. unfold line_of in P. cbn [rev app] in P.
      match goal with
      | |- match ?X with _ => _ end = _ => replace X with (@Ok (list (pystr * pystr)) (kv :: r)) by (symmetry; exact P)
      end. reflexivity.
    + discriminate.
    + intros l Hl. apply in_map_iff in Hl as [kv' [<- Hin]]. destruct (Hp kv' Hin) as [Hn Hv].
      destruct (line_no_crlf kv' Hn Hv) as [A [B _]]. split; assumption.
Qed.

Lemma is_valid_built start hs : In start start_lines -> is_valid_packet (build_packet start hs) = true.
Proof.
  intros Hs. destruct (start_line_facts start Hs) as [Ha _].
  unfold build_packet, build_text. rewrite !utf8_app, (utf8_ascii start Ha).
  change (utf8_encode [13; 10]) with [13; 10]. unfold is_valid_packet.
  assert (E1 : existsb (N.eqb 10) (start ++ [13; 10] ++ utf8_encode (join_crlf (map (fun kv => fst kv ++ [58] ++ snd kv) hs)) ++ utf8_encode [13; 10; 13; 10]) = true).
  { apply existsb_exists. exists 10. split; [|reflexivity]. apply in_app_iff. right. cbn. auto. }
  rewrite E1.
  unfold start_lines in Hs. destruct Hs as [<-|[<-|[<-|[]]]]; reflexivity.
Qed.
