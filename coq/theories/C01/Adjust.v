(* C01 — get_adjusted_url changes a location only for a scoped sender and an IPv6 link-local host (D38). *)
From Coq Require Import List Bool NArith.
From AUC Require Import Prelude.PyStr C01.Model.
Import ListNotations.
Local Open Scope N_scope.

Section Adjust.
  Variable url_of : pystr -> url_info.

  Lemma adjusted_changes_only url a :
    adjusted_url url_of url a <> url ->
    u_link_local (url_of url) = Some true /\
    exists flow scope, a_v6 a = Some (flow, scope) /\ scope <> 0.
  Proof.
    unfold adjusted_url. intros H.
    destruct (a_v6 a) as [[flow scope]|] eqn:Ea; [|contradiction].
    destruct (scope =? 0) eqn:Es; [contradiction|].
    destruct (negb (u_split_ok (url_of url))); [contradiction|].
    destruct (u_hostname (url_of url)) as [[|c h]|]; destruct (u_port (url_of url)); try contradiction;
      destruct (u_link_local (url_of url)) as [[|]|]; try contradiction;
      (split; [reflexivity | exists flow, scope; split; [reflexivity | now apply N.eqb_neq]]).
  Qed.

  (* an unscoped sender, or a host the address oracle does not report as IPv6 link-local: the location is kept *)
  Corollary adjusted_kept url a :
    u_link_local (url_of url) <> Some true -> adjusted_url url_of url a = url.
  Proof.
    intros Hn. destruct (list_eq_dec N.eq_dec (adjusted_url url_of url a) url) as [E|E]; [exact E|].
    destruct (adjusted_changes_only url a E) as [L _]. contradiction.
  Qed.
End Adjust.
