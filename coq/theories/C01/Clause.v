(* C01 — the clause evaluated by the correspondence check holds of the model; cached header maps
   are never reachable from the results handed out. *)
From Coq Require Import List Bool NArith ZArith Lia Permutation.
From AUC Require Import Prelude.PyStr Prelude.PyDict Prelude.Utf8 C16.Model C16.Spec C16.Proofs C16.Equivb
  C03.Model C01.Model C01.Spec C01.Wire C01.Dict C01.Roundtrip C01.Run.
Import ListNotations.

Local Notation KS := str_eqb_spec.

Lemma hval_eqb_spec a b : reflect (a = b) (hval_eqb a b).
Proof.
  destruct a, b; cbn; try (constructor; congruence).
  - destruct (KS s s0); constructor; congruence.
  - destruct (Z.eqb_spec t t0); constructor; congruence.
  - destruct (N.eqb_spec n n0); constructor; congruence.
Qed.

Lemma kv_eqb_spec a b : reflect (a = b) (kv_eqb a b).
Proof.
  destruct a as [k v], b as [k' v']. unfold kv_eqb. cbn [fst snd].
  destruct (KS k k'), (hval_eqb_spec v v'); cbn; constructor; congruence.
Qed.

Theorem clause_roundtrip url_of ds st :
  step_in_domain ds st = true -> step_kf ds st = false ->
  c_roundtrip url_of ds st (decode_obs url_of ds st) = true.
Proof.
  unfold step_in_domain, step_kf, c_roundtrip, decode_obs.
  destruct (nth_error ds (ds_dgram st)) as [[s hs|bs]|]; try discriminate.
  intros Hd Hk. apply andb_true_iff in Hd as [Hs Hh].
  assert (Hin : In s start_lines).
  { apply existsb_exists in Hs as [x [Hx E]]. destruct (KS s x); [now subst | discriminate]. }
  pose proof (headers_ok_dom hs Hh Hk) as D.
  cbn [bytes_of]. rewrite (is_valid_built s hs Hin).
  destruct (decode_built url_of s hs (ds_local st) (ds_addr st) (ds_remote st) (ds_now st) Hin D) as [h [E P]].
  rewrite E. apply andb_true_iff. split.
  - destruct (KS s s); congruence.
  - now apply (perm_eqb_complete _ kv_eqb_spec).
Qed.

