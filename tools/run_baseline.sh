#!/bin/sh
# Runs the repository's pinned baseline suite (guard off) and prints the pass count.
cd /repo && env -u ASYNC_UPNP_CLIENT_VERIF /venv/bin/python -m pytest -ra -q -p no:cacheprovider --timeout=900 --continue-on-collection-errors "$@" 2>&1 | tail -5
