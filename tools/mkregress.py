#!/usr/bin/env python3
"""Collect the minimised failing inputs of the seeded-change evaluations (seeded/<Cxx>-<mN>/replay.json, kind
spec-violation) into corpus/regress/<Cxx>/<mN>.json, the regression corpus every check runs first (harness/common.py:
load_regression_corpus).  A case is kept only if the CURRENT harness can drive it on the unchanged tree (run_impl does not
raise); cases above 40 kB are skipped.  Usage: PYTHONPATH=/repo /venv/bin/python tools/mkregress.py"""
import importlib
import json
import pathlib
import sys

VERIF = pathlib.Path(__file__).resolve().parent.parent
sys.path.insert(0, str(VERIF))


def main():
    kept = skipped = 0
    for d in sorted((VERIF / "seeded").iterdir()):
        rp = d / "replay.json"
        if not rp.exists() or "-m" not in d.name:
            continue
        pid, m = d.name.split("-")
        try:
            r = json.loads(rp.read_text())
        except ValueError:
            continue
        case = r.get("case")
        if r.get("kind") != "spec-violation" or case is None:
            continue
        text = json.dumps(case)
        if len(text) > 40000:
            skipped += 1
            continue
        plugin = importlib.import_module(f"harness.{pid.lower()}").Plugin()
        try:
            plugin.run_impl(case)
        except Exception as e:  # noqa: BLE001
            print(f"skip {d.name}: the current harness cannot drive it ({type(e).__name__}: {str(e)[:80]})")
            skipped += 1
            continue
        out = VERIF / "corpus" / "regress" / pid
        out.mkdir(parents=True, exist_ok=True)
        (out / f"{m}.json").write_text(text + "\n")
        kept += 1
    print(f"kept {kept}, skipped {skipped}")


if __name__ == "__main__":
    main()
