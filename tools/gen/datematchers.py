"""Gen/DateMatchers.v  <-  async_upnp_client/utils.py: _UNCOMPILED_MATCHERS, COMPILED_MATCHERS,
parse_date_time (time-zone colon fix-up and the first-match loop)."""
import ast
import re
from pathlib import Path

from gen import Refuse

NAME = "DateMatchers"


def parse_regex(rx: str) -> str:
    items = []
    i = 0
    if not rx.endswith("$"):
        raise Refuse(f"regex {rx!r} not anchored with $")
    body = rx[:-1]
    while i < len(body):
        m = re.match(r"\\d\{(\d+)\}", body[i:])
        if m:
            items.append(f"RDigits {int(m.group(1))}")
            i += m.end()
            continue
        m = re.match(r"\[([^\]\\^]+)\]", body[i:])
        if m:
            chars = m.group(1)
            if "-" in chars[1:-1]:
                raise Refuse(f"regex {rx!r}: range in class")
            items.append("RClass [" + ";".join(str(ord(c)) for c in chars) + "]%N")
            i += m.end()
            continue
        c = body[i]
        if c in "\\.^$*+?{}[]|()":
            raise Refuse(f"regex {rx!r}: unsupported token at {i}")
        items.append(f"RLit {ord(c)}%N")
        i += 1
    return "[" + "; ".join(items) + "]"


DIRECTIVES = {"Y": "FYear", "m": "FMonth", "d": "FDay", "H": "FHour", "M": "FMinute", "S": "FSecond", "z": "FTz"}


def parse_format(fmt: str) -> str:
    items = []
    i = 0
    while i < len(fmt):
        if fmt[i] == "%":
            if i + 1 >= len(fmt) or fmt[i + 1] not in DIRECTIVES:
                raise Refuse(f"format {fmt!r}: directive")
            items.append(DIRECTIVES[fmt[i + 1]])
            i += 2
        else:
            items.append(f"FLit {ord(fmt[i])}%N")
            i += 1
    return "[" + "; ".join(items) + "]"


def parse_parser(node) -> tuple[str, str]:
    """lambda value: datetime.strptime(value, FMT)[.date()|.time()|.timetz()|.replace(tzinfo=UTC)]"""
    if not (isinstance(node, ast.Lambda) and len(node.args.args) == 1):
        raise Refuse("parser is not a one-argument lambda")
    arg = node.args.args[0].arg
    b = node.body
    post = "PostNone"
    if isinstance(b, ast.Call) and isinstance(b.func, ast.Attribute) and b.func.attr in ("date", "time", "timetz", "replace"):
        if b.func.attr == "replace":
            if b.args or len(b.keywords) != 1 or b.keywords[0].arg != "tzinfo" or ast.unparse(b.keywords[0].value) != "UTC":
                raise Refuse("replace(...) shape")
            post = "PostReplaceUTC"
        else:
            if b.args or b.keywords:
                raise Refuse("post-step with arguments")
            post = {"date": "PostDate", "time": "PostTime", "timetz": "PostTimetz"}[b.func.attr]
        b = b.func.value
    if not (isinstance(b, ast.Call) and ast.unparse(b.func) == "datetime.strptime" and len(b.args) == 2 and not b.keywords
            and isinstance(b.args[0], ast.Name) and b.args[0].id == arg
            and isinstance(b.args[1], ast.Constant) and isinstance(b.args[1].value, str)):
        raise Refuse("strptime call shape: " + ast.unparse(b)[:100])
    return parse_format(b.args[1].value), post


def _generate_ast(repo: Path):
    tree = ast.parse((repo / "async_upnp_client" / "utils.py").read_text())
    table = utc = compiled = fn = None
    for node in tree.body:
        if isinstance(node, ast.AnnAssign) and isinstance(node.target, ast.Name):
            name, val = node.target.id, node.value
        elif isinstance(node, ast.Assign) and len(node.targets) == 1 and isinstance(node.targets[0], ast.Name):
            name, val = node.targets[0].id, node.value
        elif isinstance(node, ast.FunctionDef) and node.name == "parse_date_time":
            fn = node
            continue
        else:
            continue
        if name == "_UNCOMPILED_MATCHERS":
            table = val
        elif name == "UTC":
            utc = val
        elif name == "COMPILED_MATCHERS":
            compiled = val
    if utc is None or ast.unparse(utc) != "timezone(timedelta(hours=0))":
        raise Refuse("UTC definition")
    if compiled is None or ast.unparse(compiled) != (
            "{re.compile(matcher): parser for matcher, parser in _UNCOMPILED_MATCHERS.items()}"):
        raise Refuse("COMPILED_MATCHERS definition")
    if not isinstance(table, ast.Dict):
        raise Refuse("_UNCOMPILED_MATCHERS is not a dict literal")
    rows = []
    spec_rows = []
    seen = set()
    for k, v in zip(table.keys, table.values):
        if not (isinstance(k, ast.Constant) and isinstance(k.value, str)):
            raise Refuse("matcher key")
        if k.value in seen:
            raise Refuse("duplicate matcher key")
        seen.add(k.value)
        fmt, post = parse_parser(v)
        rows.append(f"  mkMatcher {parse_regex(k.value)} {fmt} {post}")
        spec_rows.append([k.value, v_format(v), post])
    # parse_date_time body
    if fn is None or [a.arg for a in fn.args.args] != ["value"]:
        raise Refuse("parse_date_time signature")
    body = [n for n in fn.body if not (isinstance(n, ast.Expr) and isinstance(n.value, ast.Constant))]
    if len(body) != 3:
        raise Refuse("parse_date_time body length")
    iff, loop, rais = body
    m = re.fullmatch(r"value\[-(\d+):-(\d+)\] in \[(.+)\] and value\[-(\d+):-(\d+)\] == '(.)'", ast.unparse(iff.test)) \
        if isinstance(iff, ast.If) else None
    if not m:
        raise Refuse("fix-up test shape: " + (ast.unparse(iff.test) if isinstance(iff, ast.If) else "?"))
    a1, a2, signs, b1, b2, colon = m.groups()
    a1, a2, b1, b2 = int(a1), int(a2), int(b1), int(b2)
    if a1 != a2 + 1 or b1 != b2 + 1:
        raise Refuse("fix-up slices are not single characters")
    try:
        sign_list = ast.literal_eval("[" + signs + "]")
    except Exception as e:  # noqa: BLE001
        raise Refuse("fix-up sign list") from e
    if not all(isinstance(s, str) and len(s) == 1 for s in sign_list):
        raise Refuse("fix-up sign list")
    if iff.orelse or len(iff.body) != 1 or ast.unparse(iff.body[0]) != f"value = value[:-{b1}] + value[-{b2}:]":
        raise Refuse("fix-up assignment shape")
    if ast.unparse(loop) != ("for pattern, parser in COMPILED_MATCHERS.items():\n    if pattern.match(value):\n"
                             "        return parser(value)"):
        raise Refuse("matcher loop shape: " + ast.unparse(loop))
    if not (isinstance(rais, ast.Raise) and isinstance(rais.exc, ast.Call) and ast.unparse(rais.exc.func) == "ValueError"):
        raise Refuse("final raise shape")
    spec = {"rows": spec_rows, "sign_pos": a1, "signs": sign_list, "colon_pos": b1, "colon": colon}
    return spec, (
        "(* GENERATED by tools/gen/datematchers.py from async_upnp_client/utils.py — do not edit. *)\n"
        "From Coq Require Import List NArith.\nFrom AUC Require Import C08.TypesDef.\nImport ListNotations.\n\n"
        f"Definition fixup_sign_pos : nat := {a1}.\n"
        f"Definition fixup_signs : list N := [{';'.join(str(ord(s)) for s in sign_list)}]%N.\n"
        f"Definition fixup_colon_pos : nat := {b1}.\n"
        f"Definition fixup_colon : N := {ord(colon)}%N.\n\n"
        "Definition matchers : list matcher := [\n" + ";\n".join(rows) + "\n].\n"
    )


def v_format(node) -> str:
    """the strptime format string of a parser lambda (already validated by parse_parser)"""
    for sub in ast.walk(node):
        if isinstance(sub, ast.Call) and ast.unparse(sub.func) == "datetime.strptime":
            return sub.args[1].value
    raise Refuse("no strptime call")


BASELINE = Path(__file__).resolve().parent / "baseline" / "DateMatchers.json"


def _emit(spec) -> str:
    rows = []
    for rx, fmt, post in spec["rows"]:
        rows.append(f"  mkMatcher {parse_regex(rx)} {parse_format(fmt)} {post}")
    return (
        "(* GENERATED by tools/gen/datematchers.py from async_upnp_client/utils.py — do not edit. *)\n"
        "From Coq Require Import List NArith.\nFrom AUC Require Import C08.TypesDef.\nImport ListNotations.\n\n"
        f"Definition fixup_sign_pos : nat := {spec['sign_pos']}.\n"
        f"Definition fixup_signs : list N := [{';'.join(str(ord(x)) for x in spec['signs'])}]%N.\n"
        f"Definition fixup_colon_pos : nat := {spec['colon_pos']}.\n"
        f"Definition fixup_colon : N := {ord(spec['colon'])}%N.\n\n"
        "Definition matchers : list matcher := [\n" + ";\n".join(rows) + "\n].\n"
    )


def _reference(spec):
    """parse_date_time as the table describes it"""
    import datetime as dt
    utc = dt.timezone(dt.timedelta(hours=0))
    rows = [(re.compile(rx), fmt, post) for rx, fmt, post in spec["rows"]]
    a1, b1 = spec["sign_pos"], spec["colon_pos"]

    def ref(value):
        if value[-a1:-(a1 - 1)] in spec["signs"] and value[-b1:-(b1 - 1)] == spec["colon"]:
            value = value[:-b1] + value[-(b1 - 1):]
        for rx, fmt, post in rows:
            if rx.match(value):
                d = dt.datetime.strptime(value, fmt)
                return {"PostNone": lambda x: x, "PostDate": lambda x: x.date(), "PostTime": lambda x: x.time(),
                        "PostTimetz": lambda x: x.timetz(), "PostReplaceUTC": lambda x: x.replace(tzinfo=utc)}[post](d)
        raise ValueError("Unknown date/time: " + value)
    return ref


def _probe_inputs():
    import random
    rng = random.Random(20260930)
    dates = ["2020-01-02", "0001-01-01", "9999-12-31", "2024-02-29", "2023-02-29", "2020-13-01", "20200102", "999-01-01"]
    times = ["03:04:05", "00:00:00", "23:59:59", "24:00:00", "3:04:05", "03:04", "030405"]
    zones = ["", "Z", "z", "+01:00", "-05:30", "+0100", "-0530", " +01:00", " +0100", "+00:00", "+2359", "+24:00", "+1:00", "UTC", "+01", ":"]
    out = ["", " ", "0", "now", "12:00", "today", "abc", "2020", "T", "Z", "\n"]
    for d in dates:
        out.append(d)
        for z in zones[:6]:
            out.append(d + z)
        for t in times:
            for sep in ("T", " ", "t", ""):
                for z in zones:
                    out.append(d + sep + t + z)
    for t in times:
        for z in zones:
            out.append(t + z)
    base = list(out)
    for _ in range(1500):
        x = rng.choice(base)
        k = rng.randrange(4)
        i = rng.randrange(len(x) + 1)
        if k == 0 and x:
            x = x[:i % len(x)] + x[i % len(x) + 1:]
        elif k == 1:
            x = x[:i] + rng.choice("0123456789-:+TZ .,\n١") + x[i:]
        elif k == 2:
            x = x + rng.choice(["\n", " ", "0", "Z"])
        else:
            x = x[:i]
        out.append(x)
    return out


def generate(repo: Path) -> str:
    import json
    try:
        spec, text = _generate_ast(repo)
    except Refuse as e:
        # The source no longer has the shape the table reader knows.  The table of the pinned tree (tools/gen/baseline)
        # is kept if - and only if - the tree's parse_date_time still behaves exactly as that table says, on a grid of
        # well-formed and damaged date/time texts; a difference is refused with the text that shows it.
        if not BASELINE.exists():
            raise
        spec = json.loads(BASELINE.read_text())
        import importlib
        import sys
        sys.path.insert(0, str(repo))
        try:
            for k in [k for k in sys.modules if k == "async_upnp_client" or k.startswith("async_upnp_client.")]:
                del sys.modules[k]
            utils = importlib.import_module("async_upnp_client.utils")
        finally:
            sys.path.pop(0)
        ref = _reference(spec)
        for x in _probe_inputs():
            try:
                want = ("ok", ref(x))
            except ValueError:
                want = ("ValueError",)
            try:
                got = ("ok", utils.parse_date_time(x))
            except ValueError:
                got = ("ValueError",)
            except Exception as ex:  # noqa: BLE001
                got = (type(ex).__name__,)
            same = got == want and (got[0] != "ok" or (type(got[1]) is type(want[1])
                                                        and getattr(got[1], "tzinfo", None) == getattr(want[1], "tzinfo", None)))
            if not same:
                raise Refuse(f"{e}; and parse_date_time({x!r}) gives {got!r} where the pinned table gives {want!r}", counterexample=True) from e
        print(f"translator:DateMatchers: note: source shape not recognised ({e}); the pinned table is kept: parse_date_time "
              "agrees with it on the probe grid")
        return _emit(spec)
    return text
