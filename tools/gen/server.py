"""Gen/Server.v  <-  async_upnp_client/server.py, ssdp.py, __init__.py (read with `ast`; property C13).

Generated content:
  header_cache_control, header_server       the two module constants (HEADER_SERVER's f-string is evaluated with
                                            __version__ read from async_upnp_client/__init__.py)
  announce_interval_ms                      SsdpAdvertisementAnnouncer.ANNOUNCE_INTERVAL = timedelta(seconds=N)
  mx_floor, mx_cap                          `delay = max(F, min(C, int(mx_header)))`
  rnd_lo, rnd_scale, rnd_off, rnd_div       `randrange(LO, (delay * SCALE) - OFF') / DIV`  (rnd_off = -OFF')
  st_all, st_rootdevice, search_line,
  response_line, notify_line                literals of the dispatch and of the builders
  slot                                      what a header value is made of
  response_tpl                              _build_response's header dict, in order: (name, slot)
  advert_tpl                                _build_advertisements' base_headers followed by the NT / USN keywords

Shapes accepted: the dict values must be one of the closed set of expressions listed in SLOT_EXPR (or a string
literal); every `advertisements.append(CaseInsensitiveDict(base_headers, NT=..., USN=...))` calls must carry
the NT and USN keywords (their value expressions are modelled by hand).  Anything else is refused (fail closed): the control flow
(3+2d+k composition, dispatch order, scheduling) is modelled by hand in C13/Model.v and tied by the correspondence."""
import ast
import re
from pathlib import Path

from gen import Refuse

NAME = "Server"


def cstr(s: str) -> str:
    return "[" + ";".join(str(ord(c)) for c in s) + "]%N" if s else "(@nil N)"


def top_assign(tree, name):
    for node in tree.body:
        if isinstance(node, ast.Assign) and len(node.targets) == 1 and isinstance(node.targets[0], ast.Name) \
                and node.targets[0].id == name:
            return node.value
        if isinstance(node, ast.AnnAssign) and isinstance(node.target, ast.Name) and node.target.id == name:
            return node.value
    raise Refuse(f"{name} not found")


def str_const(tree, name) -> str:
    v = top_assign(tree, name)
    if not (isinstance(v, ast.Constant) and isinstance(v.value, str)):
        raise Refuse(f"{name}: not a string literal")
    return v.value


def find_class(tree, name):
    for node in tree.body:
        if isinstance(node, ast.ClassDef) and node.name == name:
            return node
    raise Refuse(f"class {name} not found")


def find_func(scope, name):
    for node in scope.body:
        if isinstance(node, (ast.FunctionDef, ast.AsyncFunctionDef)) and node.name == name:
            return node
    raise Refuse(f"function {name} not found")


# value expression (ast.unparse text) -> slot constructor
RESP_SLOT_EXPR = {
    "HEADER_CACHE_CONTROL": "SCacheControl",
    "format_date_time(time.time())": "SDate",
    "HEADER_SERVER": "SServer",
    "service_type": "SType",
    "unique_service_name": "SUsn",
    "f'{self.device.base_uri}{self.device.device_url}'": "SLocation",
    "str(self.device.boot_id)": "SBootId",
    "str(self.device.config_id)": "SConfigId",
}
ADV_SLOT_EXPR = {
    "nts.value": "SNts",
    "host": "SHost",
    "HEADER_CACHE_CONTROL": "SCacheControl",
    "HEADER_SERVER": "SServer",
    "str(root_device.boot_id)": "SBootId",
    "str(root_device.config_id)": "SConfigId",
    "f'{root_device.base_uri}{root_device.device_url}'": "SLocation",
}
TOKEN_RE = re.compile(r"^[!#$%&'*+\-.^_`|~0-9A-Za-z]+$")


def dict_template(d, table, what):
    if not isinstance(d, ast.Dict):
        raise Refuse(f"{what}: not a dict display")
    out = []
    for k, v in zip(d.keys, d.values):
        if not (isinstance(k, ast.Constant) and isinstance(k.value, str) and TOKEN_RE.match(k.value)):
            raise Refuse(f"{what}: header name {ast.unparse(k) if k else k!r}")
        if k.value.startswith("_"):
            raise Refuse(f"{what}: header name {k.value!r} collides with decoder metadata")
        text = ast.unparse(v)
        if isinstance(v, ast.Constant) and isinstance(v.value, str):
            if any(ord(c) < 32 or ord(c) > 126 for c in v.value) or v.value != v.value.strip(" \t"):
                raise Refuse(f"{what}: literal value {v.value!r}")
            out.append((k.value, f"(SLit {cstr(v.value)})"))
        elif text in table:
            out.append((k.value, table[text]))
        else:
            raise Refuse(f"{what}: value expression {text!r}")
    names = [k.lower() for k, _ in out]
    if len(set(names)) != len(names):
        raise Refuse(f"{what}: header names collide ignoring case")
    return out


def generate(repo: Path) -> str:
    base = repo / "async_upnp_client"
    st = ast.parse((base / "server.py").read_text())
    sd = ast.parse((base / "ssdp.py").read_text())
    it = ast.parse((base / "__init__.py").read_text())

    version = str_const(it, "__version__")
    cache_control = str_const(st, "HEADER_CACHE_CONTROL")
    hs = top_assign(st, "HEADER_SERVER")
    if ast.unparse(hs) != "f'async-upnp-client/{version} UPnP/2.0 Server/1.0'":
        # any other f-string over `version` and literals is fine too
        if not (isinstance(hs, ast.JoinedStr) and all(
                isinstance(p, ast.Constant) or (isinstance(p, ast.FormattedValue) and ast.unparse(p.value) == "version"
                                                and p.conversion == -1 and p.format_spec is None)
                for p in hs.values)):
            raise Refuse("HEADER_SERVER shape")
    server = "".join(p.value if isinstance(p, ast.Constant) else version for p in hs.values) \
        if isinstance(hs, ast.JoinedStr) else None
    if server is None:
        raise Refuse("HEADER_SERVER shape")
    imp = [n for n in st.body if isinstance(n, ast.ImportFrom) and n.module == "async_upnp_client"]
    if not any(a.name == "__version__" and a.asname == "version" for n in imp for a in n.names):
        raise Refuse("`version` is not async_upnp_client.__version__")
    for s in (cache_control, server):
        if any(ord(c) < 32 or ord(c) > 126 for c in s) or s != s.strip(" \t"):
            raise Refuse(f"constant not wire safe: {s!r}")

    ann = find_class(st, "SsdpAdvertisementAnnouncer")
    interval = None
    for n in ann.body:
        if isinstance(n, ast.Assign) and ast.unparse(n.targets[0]) == "ANNOUNCE_INTERVAL":
            m = re.fullmatch(r"timedelta\(seconds=(\d+)\)", ast.unparse(n.value))
            if m:
                interval = int(m.group(1))
    if not interval:
        raise Refuse("ANNOUNCE_INTERVAL shape")
    an = ast.unparse(find_func(ann, "_announce_next"))
    if "self.loop.call_later(SsdpAdvertisementAnnouncer.ANNOUNCE_INTERVAL.total_seconds(), self._announce_next)" not in an \
            or "next(self._advertisements)" not in an:
        raise Refuse("_announce_next shape")

    rsp = find_class(st, "SsdpSearchResponder")
    od = ast.unparse(find_func(rsp, "_on_data"))
    # the MX clamp and the random delay: the literal shapes first; otherwise the same constants found anywhere in the
    # module with names resolved (a helper may have been extracted, a constant hoisted) - see ssdprecv._mx_constants
    m = re.search(r"delay = max\((\d+), min\((\d+), int\(mx_header\)\)\)", od)
    m2 = re.search(r"self\._loop\.call_at\(self\._loop\.time\(\) \+ randrange\((\d+), delay \* (\d+) - (\d+)\) / (\d+), "
                   r"self\._send_responses, remote_addr, responses\)", od)
    if m and m2:
        mx_floor, mx_cap = int(m.group(1)), int(m.group(2))
        rnd_lo, rnd_scale, rnd_minus, rnd_div = (int(x) for x in m2.groups())
    else:
        from gen.ssdprecv import _mx_constants
        (mx_floor, mx_cap), (rnd_lo, rnd_scale, rnd_minus, rnd_div) = _mx_constants(st)
        whole = ast.unparse(rsp)
        if "call_at(" not in whole or "_send_responses" not in whole or "self._loop.time()" not in whole:
            raise Refuse("_on_data: call_at/randrange shape")
        od = whole      # the remaining textual checks look at the whole class
    m = re.search(r"request_line != '([^']*)' or headers\.get_lower\('man'\) != SSDP_DISCOVER", od)
    if not m:
        raise Refuse("_on_data: request filter shape")
    search_line = m.group(1)
    if "except ValueError" not in od or "headers.get_lower('mx')" not in od \
            or "headers.get_lower('_remote_addr')" not in od:
        raise Refuse("_on_data: MX handling shape")

    br = find_func(rsp, "_build_response")
    ret = [n for n in ast.walk(br) if isinstance(n, ast.Return)]
    if len(ret) != 1 or not (isinstance(ret[0].value, ast.Call) and ast.unparse(ret[0].value.func) == "build_ssdp_packet"
                             and len(ret[0].value.args) == 2 and isinstance(ret[0].value.args[0], ast.Constant)):
        raise Refuse("_build_response shape")
    response_line = ret[0].value.args[0].value
    if [a.arg for a in br.args.args] != ["self", "service_type", "unique_service_name"]:
        raise Refuse("_build_response parameters")
    response_tpl = dict_template(ret[0].value.args[1], RESP_SLOT_EXPR, "_build_response")

    ba = find_func(st, "_build_advertisements")
    base_headers = None
    for n in ba.body:
        if isinstance(n, ast.Assign) and ast.unparse(n.targets[0]) == "base_headers":
            base_headers = n.value
    if base_headers is None:
        raise Refuse("_build_advertisements: base_headers")
    advert_tpl = dict_template(base_headers, ADV_SLOT_EXPR, "_build_advertisements")
    host_src = ast.unparse([n for n in ba.body if isinstance(n, ast.Assign) and ast.unparse(n.targets[0]) == "host"][0].value)
    if host_src != "f'[{target[0]}]:{target[1]}' if is_ipv6_address(target) else f'{target[0]}:{target[1]}'":
        raise Refuse("_build_advertisements: host shape")
    forms = []
    for n in ast.walk(ba):
        if isinstance(n, ast.Call) and ast.unparse(n.func) == "advertisements.append":
            c = n.args[0]
            if not (isinstance(c, ast.Call) and ast.unparse(c.func) == "CaseInsensitiveDict" and len(c.args) == 1
                    and ast.unparse(c.args[0]) == "base_headers" and [k.arg for k in c.keywords] == ["NT", "USN"]):
                raise Refuse("_build_advertisements: append shape")
            forms.append(tuple(ast.unparse(k.value) for k in c.keywords))
    if not forms:
        raise Refuse("_build_advertisements: no append site")
    if {"nt", "usn"} & {k.lower() for k, _ in advert_tpl}:
        raise Refuse("_build_advertisements: base_headers already names NT/USN")
    advert_tpl = advert_tpl + [("NT", "SType"), ("USN", "SUsn")]
    for fn, line_var in (("_announce_next", None), ("_send_byebyes", None)):
        src = ast.unparse(find_func(ann, fn))
        m = re.search(r"start_line = '([^']*)'", src)
        if not m or "build_ssdp_packet(start_line, headers)" not in src:
            raise Refuse(f"{fn}: start line shape")
        notify_line = m.group(1)

    st_all = str_const(sd, "SSDP_ST_ALL")
    st_root = str_const(sd, "SSDP_ST_ROOTDEVICE")

    def tpl(items):
        return "[" + "; ".join(f"({cstr(k)}, {s})" for k, s in items) + "]"

    lines = [
        "(* GENERATED by tools/gen/server.py from async_upnp_client/server.py, ssdp.py, __init__.py — do not edit. *)",
        "From Coq Require Import List NArith ZArith.", "Import ListNotations.", "",
        f"Definition header_cache_control : list N := {cstr(cache_control)}.",
        f"Definition header_server : list N := {cstr(server)}.",
        f"Definition announce_interval_ms : Z := {interval * 1000}%Z.",
        f"Definition mx_floor : Z := {mx_floor}%Z.",
        f"Definition mx_cap : Z := {mx_cap}%Z.",
        f"Definition rnd_lo : Z := {rnd_lo}%Z.",
        f"Definition rnd_scale : Z := {rnd_scale}%Z.",
        f"Definition rnd_off : Z := (-{rnd_minus})%Z.",
        f"Definition rnd_div : Z := {rnd_div}%Z.",
        f"Definition st_all : list N := {cstr(st_all)}.",
        f"Definition st_rootdevice : list N := {cstr(st_root)}.",
        f"Definition search_line : list N := {cstr(search_line)}.",
        f"Definition response_line : list N := {cstr(response_line)}.",
        f"Definition notify_line : list N := {cstr(notify_line)}.",
        "",
        "Inductive slot :=",
        "| SCacheControl | SDate | SServer | SType | SUsn | SLocation | SBootId | SConfigId | SNts | SHost",
        "| SLit (s : list N).",
        "",
        f"Definition response_tpl : list (list N * slot) := {tpl(response_tpl)}.",
        f"Definition advert_tpl : list (list N * slot) := {tpl(advert_tpl)}.",
        "",
    ]
    return "\n".join(lines)
