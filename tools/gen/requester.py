"""Gen/Requester.v  <-  async_upnp_client/aiohttp.py (the except ladders and the retry loop of the two HTTP
requesters, read with `ast`) + the method resolution orders of the exception classes involved (runtime
introspection of async_upnp_client.exceptions, aiohttp.client_exceptions, asyncio/builtins as installed).

Generated content (property C17):
  cls                     one constructor per exception class of the universe (closure under MRO)
  mro / subclassb         `issubclass`
  transport_classes       what a ClientSession can raise: every exception class defined in
                          aiohttp.client_exceptions + asyncio.TimeoutError + UnicodeDecodeError
  action, ladder_*        per `try`: the ordered rows (caught class, what the handler does)
  retry_silent            N of `for _ in range(N)` around the silently retried attempts

Handler shapes accepted (logging calls and `pass` in front are ignored):
  raise                              -> Reraise
  raise X(<anything without status=>) -> Wrap X
  raise X(..., status=<err>.status, ...) -> WrapStatus X
  <nothing>                           -> Swallow      (only inside the retry loop)
Anything else is refused (fail closed)."""
import ast
import asyncio
import importlib
import inspect
import sys
from pathlib import Path

from gen import Refuse

NAME = "Requester"

# classes the hand-written model/spec name explicitly (must exist)
ANCHORS = ["UpnpCommunicationError", "UpnpConnectionError", "UpnpResponseError", "ClientResponseError",
           "ClientConnectionError", "TimeoutError", "UnicodeDecodeError", "ValueError", "AttributeError",
           "TypeError", "UnboundLocalError", "BaseException"]
# exceptions outside the property's domain that the model must still propagate faithfully
EXTRA_BUILTINS = [ValueError, AttributeError, TypeError, UnboundLocalError, RuntimeError, LookupError, KeyError,
                  OSError, ConnectionResetError, AssertionError, asyncio.CancelledError, Exception, BaseException]

LOGGER_NAMES = {"_LOGGER", "_LOGGER_TRAFFIC_UPNP", "logging", "logger", "LOGGER"}


def _import_repo(repo: Path, modname: str):
    repo = Path(repo).resolve()
    if str(repo) not in sys.path:
        sys.path.insert(0, str(repo))
    mod = importlib.import_module(modname)
    f = Path(inspect.getfile(mod)).resolve()
    if repo not in f.parents:
        raise Refuse(f"{modname} imported from {f}, not from {repo}")
    return mod


def transport_class_objects():
    from aiohttp import client_exceptions as ce
    out = []
    for _, c in sorted(vars(ce).items()):
        if inspect.isclass(c) and issubclass(c, BaseException) and c.__module__ == ce.__name__:
            out.append(c)
    out += [asyncio.TimeoutError, UnicodeDecodeError]
    return out


def universe(repo: Path, extra=()):
    """-> (ordered list of class objects closed under MRO, name_of dict).  Names are __name__, required unique."""
    ue = _import_repo(repo, "async_upnp_client.exceptions")
    seeds = list(transport_class_objects())
    for _, c in sorted(vars(ue).items()):
        if inspect.isclass(c) and issubclass(c, BaseException) and c.__module__ == ue.__name__:
            seeds.append(c)
    seeds += EXTRA_BUILTINS
    seeds += list(extra)
    seen = []
    for c in seeds:
        for b in c.__mro__:
            if b is object:
                continue
            if b not in seen:
                seen.append(b)
    seen.sort(key=lambda c: (c.__name__, c.__module__))
    names = {}
    for c in seen:
        n = c.__name__
        if not n.isidentifier():
            raise Refuse(f"class name {n!r}")
        if n in names.values():
            raise Refuse(f"two exception classes named {n}")
        names[c] = n
    for a in ANCHORS:
        if a not in names.values():
            raise Refuse(f"anchor class {a} missing")
    return seen, names


# ---------------------------------------------------------------------------------------------
def _is_log_stmt(st) -> bool:
    if isinstance(st, ast.Pass):
        return True
    if isinstance(st, ast.Expr) and isinstance(st.value, ast.Constant):
        return True
    if isinstance(st, ast.Expr) and isinstance(st.value, ast.Call):
        f = st.value.func
        while isinstance(f, ast.Attribute):
            f = f.value
        return isinstance(f, ast.Name) and f.id in LOGGER_NAMES
    return False


def _resolve(node, ns):
    try:
        obj = eval(compile(ast.Expression(node), "<except>", "eval"), dict(ns))  # noqa: S307 - names of the module
    except Exception as e:  # noqa: BLE001
        raise Refuse(f"cannot resolve {ast.dump(node)[:80]}: {e}") from e
    if not (inspect.isclass(obj) and issubclass(obj, BaseException)):
        raise Refuse(f"{ast.dump(node)[:80]} is not an exception class")
    return obj


def _handler_rows(h: ast.ExceptHandler, ns, allow_swallow: bool):
    if h.type is None:
        caught = [BaseException]
    elif isinstance(h.type, ast.Tuple):
        caught = [_resolve(e, ns) for e in h.type.elts]
    else:
        caught = [_resolve(h.type, ns)]
    body = [st for st in h.body if not _is_log_stmt(st)]
    if not body:
        if not allow_swallow:
            raise Refuse(f"line {h.lineno}: handler swallows the exception outside the retry loop")
        act = ("Swallow", None)
    elif len(body) == 1 and isinstance(body[0], ast.Raise):
        r = body[0]
        if r.exc is None:
            act = ("Reraise", None)
        elif isinstance(r.exc, ast.Name) and h.name and r.exc.id == h.name:
            act = ("Reraise", None)
        elif isinstance(r.exc, ast.Call):
            target = _resolve(r.exc.func, ns)
            kws = {k.arg: k.value for k in r.exc.keywords}
            if None in kws:
                raise Refuse(f"line {h.lineno}: **kwargs in raise")
            if "status" in kws:
                v = kws["status"]
                if not (isinstance(v, ast.Attribute) and v.attr == "status" and isinstance(v.value, ast.Name)
                        and h.name and v.value.id == h.name):
                    raise Refuse(f"line {h.lineno}: status= is not <caught>.status")
                act = ("WrapStatus", target)
            else:
                act = ("Wrap", target)
        else:
            raise Refuse(f"line {h.lineno}: raise of {ast.dump(r.exc)[:80]}")
    else:
        raise Refuse(f"line {h.lineno}: handler body shape")
    return [(c, act) for c in caught]


def _ladder(t: ast.Try, ns, allow_swallow=False):
    # `else:` may only log and return names; `finally:` may only log (neither can change which exception leaves)
    for st in t.orelse:
        if _is_log_stmt(st):
            continue
        if isinstance(st, ast.Return) and (st.value is None or all(
                isinstance(e, ast.Name) for e in (st.value.elts if isinstance(st.value, ast.Tuple) else [st.value]))):
            continue
        raise Refuse(f"line {st.lineno}: statement in else: of try")
    for st in t.finalbody:
        if not _is_log_stmt(st):
            raise Refuse(f"line {st.lineno}: statement in finally: of try")
    rows = []
    for h in t.handlers:
        rows += _handler_rows(h, ns, allow_swallow)
    return rows


def _find_method(tree, cls, name):
    for n in tree.body:
        if isinstance(n, ast.ClassDef) and n.name == cls:
            for m in n.body:
                if isinstance(m, (ast.AsyncFunctionDef, ast.FunctionDef)) and m.name == name:
                    return m
    raise Refuse(f"{cls}.{name} not found")


def _single_try(fn):
    tries = [n for n in ast.walk(fn) if isinstance(n, ast.Try)]
    if len(tries) != 1:
        raise Refuse(f"{fn.name}: expected exactly one try statement, found {len(tries)}")
    return tries[0]


def _calls_inner(t: ast.Try, inner: str):
    """try body must be `return await self.<inner>(...)`"""
    if len(t.body) != 1 or not isinstance(t.body[0], ast.Return):
        return False
    v = t.body[0].value
    if isinstance(v, ast.Await):
        v = v.value
    return (isinstance(v, ast.Call) and isinstance(v.func, ast.Attribute) and v.func.attr == inner
            and isinstance(v.func.value, ast.Name) and v.func.value.id == "self")


def parse_source(repo: Path):
    """-> dict(plain=[rows], inner=[rows], loop=[rows], final=[rows], retry=int), rows = (class object, (action, target))"""
    mod = _import_repo(repo, "async_upnp_client.aiohttp")
    ns = vars(mod)
    src = (Path(repo) / "async_upnp_client" / "aiohttp.py").read_text()
    tree = ast.parse(src)
    plain = _ladder(_single_try(_find_method(tree, "AiohttpRequester", "async_http_request")), ns)
    inner = _ladder(_single_try(_find_method(tree, "AiohttpSessionRequester", "_async_http_request")), ns)
    outer = _find_method(tree, "AiohttpSessionRequester", "async_http_request")
    body = [st for st in outer.body if not _is_log_stmt(st)]
    loop_rows, retry = [], 0
    if len(body) == 2 and isinstance(body[0], ast.For):
        f = body[0]
        it = f.iter
        if not (isinstance(it, ast.Call) and isinstance(it.func, ast.Name) and it.func.id == "range"
                and len(it.args) == 1 and not it.keywords and isinstance(it.args[0], ast.Constant)
                and isinstance(it.args[0].value, int) and 0 <= it.args[0].value < 1000):
            raise Refuse(f"line {f.lineno}: retry loop is not `for _ in range(<int literal>)`")
        if f.orelse or len(f.body) != 1 or not isinstance(f.body[0], ast.Try):
            raise Refuse(f"line {f.lineno}: retry loop body shape")
        if not _calls_inner(f.body[0], "_async_http_request"):
            raise Refuse(f"line {f.lineno}: retry loop does not return await self._async_http_request(...)")
        retry = it.args[0].value
        loop_rows = _ladder(f.body[0], ns, allow_swallow=True)
        last = body[1]
    elif len(body) == 1:
        last = body[0]
    else:
        raise Refuse("AiohttpSessionRequester.async_http_request: body shape")
    if isinstance(last, ast.Try):
        if not _calls_inner(last, "_async_http_request"):
            raise Refuse(f"line {last.lineno}: final attempt does not return await self._async_http_request(...)")
        final = _ladder(last, ns)
    elif isinstance(last, ast.Return):
        t = ast.Try(body=[last], handlers=[], orelse=[], finalbody=[])
        if not _calls_inner(t, "_async_http_request"):
            raise Refuse("final attempt shape")
        final = []
    else:
        raise Refuse("AiohttpSessionRequester.async_http_request: last statement shape")
    return {"plain": plain, "inner": inner, "loop": loop_rows, "final": final, "retry": retry}


# ---------------------------------------------------------------------------------------------
def tables(repo: Path, strict: bool = True):
    """Everything the harness needs as well: (classes, names, transport, parsed).  strict=False (harness): an
    unrecognised source shape does not stop the class universe from being built (parsed = None)."""
    try:
        parsed = parse_source(repo)
    except Exception:  # noqa: BLE001
        if strict:
            raise
        parsed = None
    extra = []
    if parsed is None:
        classes, names = universe(repo, extra)
        return classes, names, list(transport_class_objects()), None
    for key in ("plain", "inner", "loop", "final"):
        for c, (_, tgt) in parsed[key]:
            extra.append(c)
            if tgt is not None:
                extra.append(tgt)
    classes, names = universe(repo, extra)
    transport = [c for c in transport_class_objects()]
    return classes, names, transport, parsed


def generate(repo: Path) -> str:
    classes, names, transport, parsed = tables(repo)
    cn = lambda c: "C_" + names[c]  # noqa: E731
    out = []
    w = out.append
    w("(* GENERATED by tools/gen/requester.py from async_upnp_client/aiohttp.py, async_upnp_client/exceptions.py")
    w("   and the installed aiohttp/asyncio exception classes.  Do not edit. *)")
    w("From Coq Require Import List Bool NArith.")
    w("Import ListNotations.")
    w("")
    w("Inductive cls : Set :=")
    for c in classes:
        w(f"| {cn(c)}")
    out[-1] += "."
    w("")
    w("Definition cls_index (c : cls) : N :=")
    w("  match c with")
    for i, c in enumerate(classes):
        w(f"  | {cn(c)} => {i}")
    w("  end%N.")
    w("Definition cls_eqb (a b : cls) : bool := N.eqb (cls_index a) (cls_index b).")
    w("")
    w("Definition all_cls : list cls :=")
    w("  [" + "; ".join(cn(c) for c in classes) + "].")
    w("")
    w("(* type(x).__mro__ without object: x itself first *)")
    w("Definition mro (c : cls) : list cls :=")
    w("  match c with")
    for c in classes:
        w(f"  | {cn(c)} => [" + "; ".join(cn(b) for b in c.__mro__ if b is not object) + "]")
    w("  end.")
    w("Definition subclassb (a b : cls) : bool := existsb (cls_eqb b) (mro a).")
    w("")
    w("(* exception classes a ClientSession can raise (aiohttp.client_exceptions, asyncio.TimeoutError, UnicodeDecodeError) *)")
    w("Definition transport_classes : list cls :=")
    w("  [" + "; ".join(cn(c) for c in transport) + "].")
    w("")
    w("Inductive action : Set := Wrap (target : cls) | WrapStatus (target : cls) | Reraise | Swallow.")
    w("Definition ladder := list (cls * action).")

    def lad(name, rows, comment):
        w("")
        w(f"(* {comment} *)")
        w(f"Definition {name} : ladder :=")
        items = []
        for c, (a, tgt) in rows:
            items.append(f"({cn(c)}, {a} {cn(tgt)})" if tgt is not None else f"({cn(c)}, {a})")
        w("  [" + ";\n   ".join(items) + "]." if items else "  [].")

    lad("ladder_plain", parsed["plain"], "AiohttpRequester.async_http_request")
    lad("ladder_session_inner", parsed["inner"], "AiohttpSessionRequester._async_http_request")
    lad("ladder_retry_loop", parsed["loop"], "AiohttpSessionRequester.async_http_request: handlers inside `for _ in range(retry_silent)`")
    lad("ladder_retry_final", parsed["final"], "AiohttpSessionRequester.async_http_request: handlers of the last attempt")
    w("")
    w(f"Definition retry_silent : nat := {parsed['retry']}.")
    w("")
    return "\n".join(out)
