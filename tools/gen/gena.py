"""Gen/Gena.v  <-  async_upnp_client/event_handler.py (read with `ast`) + the method resolution orders of the
exception classes of async_upnp_client.exceptions (runtime introspection of the module found in <repo>).

Generated content (property C09):
  exn / exn_eqb / exn_mro / subclassb   the exception classes the GENA client can see, and `issubclass`
  resub_ladder          the `except` rows of UpnpEventHandler.async_resubscribe around the call of
                        _async_do_resubscribe: (caught class, (drops the registry entry, re-raises))
  resub_after_drop      whether the code after the `try` deletes the registry entry before the fresh subscribe
  default_timeout_*     the `timedelta(seconds=N)` defaults of async_subscribe / async_resubscribe

Shapes accepted (logging calls, docstrings and `pass` are ignored everywhere):
  async_resubscribe body:  assignments only, one of them `... = self._sid_and_service(<arg>)`
                           try: return await self._async_do_resubscribe(<3 names>)
                           except <Class | (Class, ...)> [as x]:  [del self._subscriptions[<name>]] [raise]
                           [del self._subscriptions[<name>]]
                           return await self.async_subscribe(<2 names>)
Anything else is refused (fail closed)."""
import ast
import importlib
import inspect
import sys
from pathlib import Path

from gen import Refuse

NAME = "Gena"

BUILTINS = [KeyError, ValueError, OverflowError, RuntimeError]
ANCHORS = ["UpnpError", "UpnpConnectionError", "UpnpResponseError", "UpnpSIDError", "KeyError", "ValueError",
           "OverflowError", "RuntimeError"]
LOGGER_NAMES = {"_LOGGER", "logging", "logger", "LOGGER"}


def _import_repo(repo: Path, modname: str):
    repo = Path(repo).resolve()
    if str(repo) not in sys.path:
        sys.path.insert(0, str(repo))
    mod = importlib.import_module(modname)
    f = Path(inspect.getfile(mod)).resolve()
    if repo not in f.parents:
        raise Refuse(f"{modname} imported from {f}, not from {repo}")
    return mod


def _universe(repo: Path):
    ue = _import_repo(repo, "async_upnp_client.exceptions")
    classes = [c for _, c in sorted(vars(ue).items())
               if inspect.isclass(c) and issubclass(c, BaseException) and c.__module__ == ue.__name__]
    classes += BUILTINS
    names = [c.__name__ for c in classes]
    for n in names:
        if not n.isidentifier():
            raise Refuse(f"class name {n!r}")
    if len(set(names)) != len(names):
        raise Refuse("duplicate exception class names")
    for a in ANCHORS:
        if a not in names:
            raise Refuse(f"anchor class {a} missing")
    return classes


def _is_noise(st) -> bool:
    if isinstance(st, ast.Pass):
        return True
    if isinstance(st, ast.Expr) and isinstance(st.value, ast.Constant):
        return True
    if isinstance(st, ast.Expr) and isinstance(st.value, ast.Call):
        f = st.value.func
        while isinstance(f, ast.Attribute):
            f = f.value
        return isinstance(f, ast.Name) and f.id in LOGGER_NAMES
    return False


def _is_self_attr(node, attr) -> bool:
    return (isinstance(node, ast.Attribute) and node.attr == attr
            and isinstance(node.value, ast.Name) and node.value.id == "self")


def _is_registry_del(st) -> bool:
    return (isinstance(st, ast.Delete) and len(st.targets) == 1
            and isinstance(st.targets[0], ast.Subscript)
            and _is_self_attr(st.targets[0].value, "_subscriptions")
            and isinstance(st.targets[0].slice, ast.Name))


def _is_return_await_self_call(st, method, nargs) -> bool:
    if not (isinstance(st, ast.Return) and isinstance(st.value, ast.Await)):
        return False
    call = st.value.value
    return (isinstance(call, ast.Call) and _is_self_attr(call.func, method) and not call.keywords
            and len(call.args) == nargs and all(isinstance(a, ast.Name) for a in call.args))


def _func(cls: ast.ClassDef, name: str):
    for st in cls.body:
        if isinstance(st, (ast.AsyncFunctionDef, ast.FunctionDef)) and st.name == name:
            return st
    raise Refuse(f"UpnpEventHandler.{name} not found")


def _default_timeout(fn) -> int:
    args = fn.args
    pos = args.posonlyargs + args.args
    defaults = dict(zip([a.arg for a in pos][len(pos) - len(args.defaults):], args.defaults))
    for a, d in zip(args.kwonlyargs, args.kw_defaults):
        if d is not None:
            defaults[a.arg] = d
    d = defaults.get("timeout")
    if d is None:
        raise Refuse(f"{fn.name}: no default for `timeout`")
    if (isinstance(d, ast.Call) and isinstance(d.func, ast.Name) and d.func.id == "timedelta" and not d.args
            and len(d.keywords) == 1 and d.keywords[0].arg == "seconds"
            and isinstance(d.keywords[0].value, ast.Constant) and type(d.keywords[0].value.value) is int
            and d.keywords[0].value.value >= 0):
        return d.keywords[0].value.value
    raise Refuse(f"{fn.name}: default timeout is not timedelta(seconds=<int>)")


def _ladder(fn, known):
    body = [st for st in fn.body if not _is_noise(st)]
    tries = [i for i, st in enumerate(body) if isinstance(st, ast.Try)]
    if len(tries) != 1:
        raise Refuse(f"async_resubscribe: {len(tries)} try statements at top level")
    before, tr, rest = body[:tries[0]], body[tries[0]], body[tries[0] + 1:]
    # what precedes the try is straight-line code (resolving the target); it is modelled by hand and tied by the
    # correspondence check, the translator only insists that it has no control flow of its own
    for st in before:
        if not isinstance(st, (ast.Assign, ast.AnnAssign)):
            raise Refuse(f"async_resubscribe: statement before try not recognised: {ast.dump(st)[:100]}")
    if not any(isinstance(st, ast.Assign) and isinstance(st.value, ast.Call)
               and _is_self_attr(st.value.func, "_sid_and_service") for st in before):
        raise Refuse("async_resubscribe: no `... = self._sid_and_service(x)` before the try")
    if len(rest) not in (1, 2):
        raise Refuse(f"async_resubscribe: {len(rest)} statements after the try")
    if tr.orelse or tr.finalbody:
        raise Refuse("async_resubscribe: expected try/except without else/finally")
    tbody = [st for st in tr.body if not _is_noise(st)]
    if not (len(tbody) == 1 and _is_return_await_self_call(tbody[0], "_async_do_resubscribe", 3)):
        raise Refuse("async_resubscribe: try body is not `return await self._async_do_resubscribe(a, b, c)`")
    rows = []
    for h in tr.handlers:
        if h.type is None:
            raise Refuse("bare except")
        types = h.type.elts if isinstance(h.type, ast.Tuple) else [h.type]
        hb = [st for st in h.body if not _is_noise(st)]
        drop = False
        reraise = False
        if hb and _is_registry_del(hb[0]):
            drop = True
            hb = hb[1:]
        if hb and isinstance(hb[0], ast.Raise) and hb[0].exc is None and hb[0].cause is None:
            reraise = True
            hb = hb[1:]
        if hb:
            raise Refuse(f"async_resubscribe: handler statement not recognised: {ast.dump(hb[0])[:120]}")
        for t in types:
            if not (isinstance(t, ast.Name) and t.id in known):
                raise Refuse(f"async_resubscribe: caught class not recognised: {ast.dump(t)[:80]}")
            rows.append((t.id, drop, reraise))
    after_drop = False
    if len(rest) == 2:
        if not _is_registry_del(rest[0]):
            raise Refuse("async_resubscribe: statement after try not recognised")
        after_drop = True
        rest = rest[1:]
    if not _is_return_await_self_call(rest[0], "async_subscribe", 2):
        raise Refuse("async_resubscribe: does not end in `return await self.async_subscribe(a, b)`")
    return rows, after_drop


BASELINE = Path(__file__).resolve().parent / "baseline" / "Gena.json"


def _make(cls):
    for args, kw in (((), {}), (("x",), {}), ((), {"status": 500}), (("x",), {"status": 500})):
        try:
            return cls(*args, **kw)
        except Exception:  # noqa: BLE001
            continue
    return None


def _ladder_by_probe(repo, classes, err):
    """async_resubscribe no longer has the shape the reader knows: keep the pinned ladder (tools/gen/baseline) if the
    real method still treats every exception class exactly as that ladder says - registry entry dropped or kept,
    exception re-raised or a fresh subscribe attempted; otherwise refuse, naming the class."""
    import asyncio
    import json
    if not BASELINE.exists():
        raise err
    base = json.loads(BASELINE.read_text())
    rows, after_drop = [tuple(r) for r in base["rows"]], base["after_drop"]
    by_name = {c.__name__: c for c in classes}
    eh = _import_repo(repo, "async_upnp_client.event_handler")
    loop = asyncio.new_event_loop()
    try:
        for cls in classes:
            exc = _make(cls)
            if exc is None:
                continue
            seen = {"phase": "first"}

            class _Req:
                async def async_http_request(self, method, url, headers=None, body=None, _e=exc, _s=seen):
                    hs = {str(k).lower(): v for k, v in (headers or {}).items()}
                    if method == "SUBSCRIBE" and "sid" in hs and _s["phase"] == "renew":
                        raise _e
                    if method == "SUBSCRIBE" and "sid" not in hs:
                        if _s["phase"] == "renew":
                            _s["fresh"] = True
                            _s["dropped"] = _s["handler"].service_for_sid("uuid:x") is None
                            return 200, {"sid": "uuid:new", "timeout": "Second-1800"}, ""
                        return 200, {"sid": "uuid:x", "timeout": "Second-1800"}, ""
                    return 200, {}, ""
            service = type("S", (), {"event_sub_url": "http://h/e", "service_id": "s", "service_type": "t", "device": None})()
            handler = eh.UpnpEventHandler(type("N", (), {"callback_url": "http://c/"})(), _Req())
            seen["handler"] = handler
            loop.run_until_complete(handler.async_subscribe(service))
            if handler.service_for_sid("uuid:x") is not service:
                raise Refuse(f"{err}; and the probe could not establish a subscription through async_subscribe")
            seen["phase"] = "renew"
            try:
                loop.run_until_complete(handler.async_resubscribe("uuid:x"))
                got = ("fresh", seen.get("dropped")) if seen.get("fresh") else ("returned", None)
            except BaseException as ex:  # noqa: BLE001
                got = ("raised" if ex is exc else "raised-other:" + type(ex).__name__, handler.service_for_sid("uuid:x") is None)
            row = next(((d, r) for n, d, r in rows if n in by_name and isinstance(exc, by_name[n])), None)
            if row is None:
                want = ("raised", False)
            elif row[1]:
                want = ("raised", row[0])
            else:
                want = ("fresh", row[0] or after_drop)
            if got != want:
                raise Refuse(f"{err}; and async_resubscribe treats {cls.__name__} as {got} where the pinned ladder says {want}", counterexample=True)
    finally:
        loop.close()
    print(f"translator:Gena: note: source shape not recognised ({err}); the pinned except ladder is kept: async_resubscribe "
          "treats every exception class as it says")
    return rows, after_drop


def generate(repo: Path) -> str:
    classes = _universe(repo)
    names = [c.__name__ for c in classes]
    src = (Path(repo) / "async_upnp_client" / "event_handler.py").read_text()
    tree = ast.parse(src)
    handler = [st for st in tree.body if isinstance(st, ast.ClassDef) and st.name == "UpnpEventHandler"]
    if len(handler) != 1:
        raise Refuse("class UpnpEventHandler not found")
    handler = handler[0]
    try:
        rows, after_drop = _ladder(_func(handler, "async_resubscribe"), set(names))
    except Refuse as e:
        rows, after_drop = _ladder_by_probe(repo, classes, e)
    d_sub = _default_timeout(_func(handler, "async_subscribe"))
    d_resub = _default_timeout(_func(handler, "async_resubscribe"))

    b = lambda x: "true" if x else "false"  # noqa: E731
    out = []
    out.append("(* GENERATED by tools/gen/gena.py from async_upnp_client/event_handler.py and the classes of\n"
               "   async_upnp_client/exceptions.py.  Do not edit. *)")
    out.append("From Coq Require Import List Bool NArith.")
    out.append("Import ListNotations.")
    out.append("")
    out.append("Inductive exn : Set :=")
    for n in names:
        out.append(f"| E_{n}")
    out[-1] += "."
    out.append("")
    out.append("Definition exn_id (e : exn) : N :=")
    out.append("  match e with")
    for i, n in enumerate(names):
        out.append(f"  | E_{n} => {i}")
    out.append("  end%N.")
    out.append("Definition exn_eqb (a b : exn) : bool := N.eqb (exn_id a) (exn_id b).")
    out.append("Definition all_exn : list exn := [" + "; ".join(f"E_{n}" for n in names) + "].")
    out.append("")
    out.append("(* the method resolution order restricted to the classes above: issubclass(e, c) <-> In c (exn_mro e) *)")
    out.append("Definition exn_mro (e : exn) : list exn :=")
    out.append("  match e with")
    for c in classes:
        mro = [k.__name__ for k in c.__mro__ if k in classes]
        out.append(f"  | E_{c.__name__} => [" + "; ".join(f"E_{m}" for m in mro) + "]")
    out.append("  end.")
    out.append("Definition subclassb (e c : exn) : bool := existsb (exn_eqb c) (exn_mro e).")
    out.append("")
    out.append("(* UpnpEventHandler.async_resubscribe: (caught class, (deletes the registry entry, re-raises)) in source order *)")
    out.append("Definition resub_ladder : list (exn * (bool * bool)) :=")
    out.append("  [" + "; ".join(f"(E_{n}, ({b(d)}, {b(r)}))" for n, d, r in rows) + "].")
    out.append(f"Definition resub_after_drop : bool := {b(after_drop)}.")
    out.append(f"Definition default_timeout_subscribe : N := {d_sub}%N.")
    out.append(f"Definition default_timeout_resubscribe : N := {d_resub}%N.")
    return "\n".join(out) + "\n"
