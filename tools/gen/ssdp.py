"""Gen/Ssdp.v  <-  ssdp_listener.py (CACHE_CONTROL_RE, DEFAULT_MAX_AGE, IGNORED_HEADERS, valid_*_headers),
const.py (NotificationSubType, SsdpSource), ssdp.py (SSDP_DISCOVER, packet prefixes, cache sizes)."""
import ast
import re
from pathlib import Path

from gen import Refuse

NAME = "Ssdp"


def cstr(s: str) -> str:
    return "[" + ";".join(str(ord(c)) for c in s) + "]%N" if s else "(@nil N)"


def top_assign(tree, name):
    for node in tree.body:
        if isinstance(node, ast.Assign) and len(node.targets) == 1 and isinstance(node.targets[0], ast.Name) \
                and node.targets[0].id == name:
            return node.value
        if isinstance(node, ast.AnnAssign) and isinstance(node.target, ast.Name) and node.target.id == name:
            return node.value
    raise Refuse(f"{name} not found")


def func(tree, name):
    for node in tree.body:
        if isinstance(node, ast.FunctionDef) and node.name == name:
            return node
    raise Refuse(f"function {name} not found")


def body_wo_doc(fn):
    return [n for n in fn.body if not (isinstance(n, ast.Expr) and isinstance(n.value, ast.Constant))]


def enum_values(tree, cls):
    for node in tree.body:
        if isinstance(node, ast.ClassDef) and node.name == cls:
            out = {}
            for n in node.body:
                if isinstance(n, ast.Assign) and isinstance(n.value, ast.Constant) and isinstance(n.value.value, str):
                    out[n.targets[0].id] = n.value.value
            return out
    raise Refuse(f"enum {cls} not found")


VALID_TMPL = {
    "valid_search_headers": ("udn", "st", True),
    "valid_advertisement_headers": ("udn", "nt", "nts", True),
    "valid_byebye_headers": ("udn", "nt", "nts", False),
}


def check_valid(fn, keys, with_location):
    """The three validity predicates: get_lower of fixed keys, then bool(a and b and ... location tests)."""
    body = body_wo_doc(fn)
    names = []
    for stmt in body[:-1]:
        if not (isinstance(stmt, ast.Assign) and len(stmt.targets) == 1):
            raise Refuse(f"{fn.name}: statement shape")
        m = re.fullmatch(r"headers\.get_lower\('([a-z_]+)'(, '')?\)", ast.unparse(stmt.value))
        if not m:
            raise Refuse(f"{fn.name}: {ast.unparse(stmt.value)}")
        names.append((stmt.targets[0].id, m.group(1), bool(m.group(2))))
    ret = body[-1]
    if not isinstance(ret, ast.Return):
        raise Refuse(f"{fn.name}: no return")
    text = ast.unparse(ret.value)
    want_keys = ["_udn"] + [k for k in keys[1:]] + (["location"] if with_location else [])
    if [k for _, k, _ in names] != want_keys:
        raise Refuse(f"{fn.name}: keys {names}")
    if not with_location:
        if text != "bool(" + " and ".join(n for n, _, _ in names) + ")":
            raise Refuse(f"{fn.name}: {text}")
        return None
    vars_ = " and ".join(n for n, _, _ in names)
    m = re.fullmatch(re.escape(f"bool({vars_} and location.startswith(") + r"'([^']*)'" + re.escape(") and (not (")
                     + r"(.*)\)\)\)", text)
    if not m:
        raise Refuse(f"{fn.name}: {text}")
    prefix, rest = m.group(1), m.group(2)
    subs = []
    for part in rest.split(" or "):
        mm = re.fullmatch(r"'([^']*)' in location", part)
        if not mm:
            raise Refuse(f"{fn.name}: {part}")
        subs.append(mm.group(1))
    return prefix, subs


def generate(repo: Path) -> str:
    lt = ast.parse((repo / "async_upnp_client" / "ssdp_listener.py").read_text())
    ct = ast.parse((repo / "async_upnp_client" / "const.py").read_text())
    st = ast.parse((repo / "async_upnp_client" / "ssdp.py").read_text())

    rx = top_assign(lt, "CACHE_CONTROL_RE")
    if not (isinstance(rx, ast.Call) and ast.unparse(rx.func) == "re.compile" and len(rx.args) == 2
            and isinstance(rx.args[0], ast.Constant) and ast.unparse(rx.args[1]) == "re.IGNORECASE"):
        raise Refuse("CACHE_CONTROL_RE shape")
    m = re.fullmatch(r"([a-z\-]+)\\s\*=\\s\*\(\\d\+\)", rx.args[0].value)
    if not m:
        raise Refuse(f"CACHE_CONTROL_RE pattern {rx.args[0].value!r}")
    word = m.group(1)
    dm = top_assign(lt, "DEFAULT_MAX_AGE")
    mm = re.fullmatch(r"timedelta\(seconds=(\d+)\)", ast.unparse(dm))
    if not mm:
        raise Refuse("DEFAULT_MAX_AGE shape")
    default_age = int(mm.group(1))
    ig = top_assign(lt, "IGNORED_HEADERS")
    if not (isinstance(ig, ast.Set) and all(isinstance(e, ast.Constant) and isinstance(e.value, str) for e in ig.elts)):
        raise Refuse("IGNORED_HEADERS shape")
    ignored = sorted(e.value for e in ig.elts)

    # extract_uncache_after / extract_valid_to: shapes the model mirrors
    eu = ast.unparse(func(lt, "extract_uncache_after"))
    for frag in ("CACHE_CONTROL_RE.search(cache_control)", "int(match[1])", "timedelta(seconds=max_age)",
                 "except (OverflowError, ValueError)", "return timedelta.max", "return DEFAULT_MAX_AGE"):
        if frag not in eu:
            raise Refuse(f"extract_uncache_after: missing {frag}")
    ev = ast.unparse(func(lt, "extract_valid_to"))
    for frag in ("headers.get_lower('cache-control', '')", "headers.get_lower('_timestamp')", "timestamp + uncache_after",
                 "except OverflowError", "return datetime.max"):
        if frag not in ev:
            raise Refuse(f"extract_valid_to: missing {frag}")

    prefix = subs = None
    for name, spec in VALID_TMPL.items():
        got = check_valid(func(lt, name), spec[:-1], spec[-1])
        if got:
            if prefix is not None and (prefix, subs) != got:
                raise Refuse("search and advertisement location tests differ")
            prefix, subs = got

    nts = enum_values(ct, "NotificationSubType")
    src = enum_values(ct, "SsdpSource")
    for k in ("SSDP_ALIVE", "SSDP_BYEBYE", "SSDP_UPDATE"):
        if k not in nts:
            raise Refuse(f"NotificationSubType.{k}")
    for k in ("ADVERTISEMENT", "SEARCH"):
        if k not in src:
            raise Refuse(f"SsdpSource.{k}")
    disc = top_assign(st, "SSDP_DISCOVER")
    if not (isinstance(disc, ast.Constant) and isinstance(disc.value, str)):
        raise Refuse("SSDP_DISCOVER")

    # is_valid_ssdp_packet prefixes
    iv = ast.unparse(func(st, "is_valid_ssdp_packet"))
    prefixes = re.findall(r"data\.startswith\(b'([^']*)'\)", iv)
    if len(prefixes) != 3 or "b'\\n' in data" not in iv or "bool(data)" not in iv:
        raise Refuse("is_valid_ssdp_packet shape: " + iv[-200:])

    lines = [
        "(* GENERATED by tools/gen/ssdp.py from ssdp_listener.py / const.py / ssdp.py — do not edit. *)",
        "From Coq Require Import List NArith.", "Import ListNotations.", "",
        f"Definition cache_control_word : list N := {cstr(word)}.",
        f"Definition cache_control_key : list N := {cstr('cache-control')}.",
        f"Definition default_max_age : N := {default_age}%N.",
        "Definition ignored_headers : list (list N) := [" + "; ".join(cstr(s) for s in ignored) + "].",
        f"Definition loc_required_prefix : list N := {cstr(prefix)}.",
        "Definition loc_forbidden : list (list N) := [" + "; ".join(cstr(s) for s in subs) + "].",
        f"Definition nts_alive : list N := {cstr(nts['SSDP_ALIVE'])}.",
        f"Definition nts_byebye : list N := {cstr(nts['SSDP_BYEBYE'])}.",
        f"Definition nts_update : list N := {cstr(nts['SSDP_UPDATE'])}.",
        f"Definition src_advertisement : list N := {cstr(src['ADVERTISEMENT'])}.",
        f"Definition src_search : list N := {cstr(src['SEARCH'])}.",
        f"Definition ssdp_discover : list N := {cstr(disc.value)}.",
        "Definition packet_prefixes : list (list N) := [" + "; ".join(cstr(p) for p in prefixes) + "].",
        "",
    ]
    return "\n".join(lines)
