"""Gen/Ssdp.v  <-  ssdp_listener.py (CACHE_CONTROL_RE, DEFAULT_MAX_AGE, IGNORED_HEADERS, valid_*_headers),
const.py (NotificationSubType, SsdpSource), ssdp.py (SSDP_DISCOVER, packet prefixes, cache sizes)."""
import ast
import re
from pathlib import Path

from gen import Refuse

NAME = "Ssdp"


def cstr(s: str) -> str:
    return "[" + ";".join(str(ord(c)) for c in s) + "]%N" if s else "(@nil N)"


def top_assign(tree, name):
    for node in tree.body:
        if isinstance(node, ast.Assign) and len(node.targets) == 1 and isinstance(node.targets[0], ast.Name) \
                and node.targets[0].id == name:
            return node.value
        if isinstance(node, ast.AnnAssign) and isinstance(node.target, ast.Name) and node.target.id == name:
            return node.value
    raise Refuse(f"{name} not found")


def func(tree, name):
    for node in tree.body:
        if isinstance(node, ast.FunctionDef) and node.name == name:
            return node
    raise Refuse(f"function {name} not found")


def body_wo_doc(fn):
    return [n for n in fn.body if not (isinstance(n, ast.Expr) and isinstance(n.value, ast.Constant))]


def enum_values(tree, cls):
    for node in tree.body:
        if isinstance(node, ast.ClassDef) and node.name == cls:
            out = {}
            for n in node.body:
                if isinstance(n, ast.Assign) and isinstance(n.value, ast.Constant) and isinstance(n.value.value, str):
                    out[n.targets[0].id] = n.value.value
            return out
    raise Refuse(f"enum {cls} not found")


VALID_TMPL = {
    "valid_search_headers": ("udn", "st", True),
    "valid_advertisement_headers": ("udn", "nt", "nts", True),
    "valid_byebye_headers": ("udn", "nt", "nts", False),
}


def check_valid(fn, keys, with_location):
    """The three validity predicates: get_lower of fixed keys, then bool(a and b and ... location tests)."""
    body = body_wo_doc(fn)
    names = []
    for stmt in body[:-1]:
        if not (isinstance(stmt, ast.Assign) and len(stmt.targets) == 1):
            raise Refuse(f"{fn.name}: statement shape")
        m = re.fullmatch(r"headers\.get_lower\('([a-z_]+)'(, '')?\)", ast.unparse(stmt.value))
        if not m:
            raise Refuse(f"{fn.name}: {ast.unparse(stmt.value)}")
        names.append((stmt.targets[0].id, m.group(1), bool(m.group(2))))
    ret = body[-1]
    if not isinstance(ret, ast.Return):
        raise Refuse(f"{fn.name}: no return")
    text = ast.unparse(ret.value)
    want_keys = ["_udn"] + [k for k in keys[1:]] + (["location"] if with_location else [])
    if [k for _, k, _ in names] != want_keys:
        raise Refuse(f"{fn.name}: keys {names}")
    if not with_location:
        if text != "bool(" + " and ".join(n for n, _, _ in names) + ")":
            raise Refuse(f"{fn.name}: {text}")
        return None
    vars_ = " and ".join(n for n, _, _ in names)
    m = re.fullmatch(re.escape(f"bool({vars_} and location.startswith(") + r"'([^']*)'" + re.escape(") and (not (")
                     + r"(.*)\)\)\)", text)
    if not m:
        raise Refuse(f"{fn.name}: {text}")
    prefix, rest = m.group(1), m.group(2)
    subs = []
    for part in rest.split(" or "):
        mm = re.fullmatch(r"'([^']*)' in location", part)
        if not mm:
            raise Refuse(f"{fn.name}: {part}")
        subs.append(mm.group(1))
    return prefix, subs


# --------------------------------------------------------------------------- behavioural fall-back
# When the source no longer has the shape the AST reader knows (a helper was extracted, a tuple hoisted, an
# if-chain rewritten), the table is NOT refused outright: the literals are harvested from the function and from
# what it references, a reference predicate is built from them, and the real function (imported from the tree
# under test) is compared with that reference on a grid of inputs.  Agreement on the whole grid -> the table is
# emitted as before; a disagreement -> Refuse, naming the input.  A behaviour-preserving refactoring therefore does
# not raise an alarm, and a behaviour change that the harvested constants cannot explain still does.

def _load(repo: Path, name: str):
    import importlib
    import sys
    sys.path.insert(0, str(repo))
    try:
        for k in [k for k in sys.modules if k == "async_upnp_client" or k.startswith("async_upnp_client.")]:
            del sys.modules[k]
        return importlib.import_module(f"async_upnp_client.{name}")
    finally:
        sys.path.pop(0)


def _harvest(tree, fn_name, kind, depth=2):
    """str / bytes constants in function fn_name, in module-level assignments and functions it references"""
    funcs = {n.name: n for n in tree.body if isinstance(n, ast.FunctionDef)}
    assigns = {}
    for n in tree.body:
        if isinstance(n, ast.Assign):
            for t in n.targets:
                if isinstance(t, ast.Name):
                    assigns[t.id] = n.value
        elif isinstance(n, ast.AnnAssign) and isinstance(n.target, ast.Name) and n.value is not None:
            assigns[n.target.id] = n.value
    out, seen = [], set()

    def visit(node, d):
        for sub in ast.walk(node):
            if isinstance(sub, ast.Constant) and isinstance(sub.value, kind) and sub.value not in out:
                out.append(sub.value)
            elif isinstance(sub, ast.Name) and d > 0 and sub.id not in seen:
                seen.add(sub.id)
                if sub.id in assigns:
                    visit(assigns[sub.id], d - 1)
                elif sub.id in funcs and sub.id != fn_name:
                    visit(funcs[sub.id], d - 1)
    if fn_name not in funcs:
        raise Refuse(f"function {fn_name} not found")
    body = [n for n in funcs[fn_name].body if not (isinstance(n, ast.Expr) and isinstance(n.value, ast.Constant))]
    for n in body:
        visit(n, depth)
    return out


def _probe_valid(mod, utils, prefix, subs):
    """valid_search_headers / valid_advertisement_headers / valid_byebye_headers against the reference predicates"""
    CID = utils.CaseInsensitiveDict
    locs = [None, "", prefix, prefix + "://10.0.0.1/x", "ftp://10.0.0.1/x", prefix.upper() + "://h/", " " + prefix + "://h/",
            prefix + "s://h.example:8080/d.xml", "x" + prefix + "://h/"]
    for m in subs:
        locs += [prefix + m + "/x", prefix + "s" + m + ":80/", m, "x" + m, prefix + m[:-1], prefix + "://h/?u=" + m]
    vals = [None, "", "v"]

    def ref_loc(loc):
        return bool(loc and loc.startswith(prefix) and not any(m in loc for m in subs))
    for udn in (None, "", "uuid:x"):
        for a in vals:
            for b in vals:
                for loc in locs:
                    base = {k: v for k, v in (("_udn", udn), ("LOCATION", loc)) if v is not None}
                    hs = CID({**base, **({"ST": a} if a is not None else {})})
                    if bool(mod.valid_search_headers(hs)) != bool(udn and a and ref_loc(loc)):
                        raise Refuse(f"valid_search_headers differs from the reference on {dict(hs)!r}", counterexample=True)
                    ha = CID({**base, **({"NT": a} if a is not None else {}), **({"NTS": b} if b is not None else {})})
                    if bool(mod.valid_advertisement_headers(ha)) != bool(udn and a and b and ref_loc(loc)):
                        raise Refuse(f"valid_advertisement_headers differs from the reference on {dict(ha)!r}", counterexample=True)
                    if bool(mod.valid_byebye_headers(ha)) != bool(udn and a and b):
                        raise Refuse(f"valid_byebye_headers differs from the reference on {dict(ha)!r}", counterexample=True)


def _probe_packet(mod, prefixes):
    grid = [b"", b"\n", b"\r\n", b"x", b"GET / HTTP/1.1\r\n\r\n"]
    # start lines a change could plausibly add or drop, whatever literals were harvested
    for verb in (b"NOTIFY", b"M-SEARCH", b"SEARCH", b"SUBSCRIBE", b"HTTP/1.1", b"HTTP/1.0", b"HTTP/1.1 200", b"HTTP/1.1 200 OK",
                 b"HTTP/1.0 200 OK", b"HTTP/1.1 404 Not Found", b"HTTP/1.1 204 No Content"):
        for rest in (b"", b" * HTTP/1.1", b" * HTTP/1.0", b" / HTTP/1.1"):
            grid += [verb + rest + b"\r\n\r\n", (verb + rest).lower() + b"\r\n\r\n"]
    for p in prefixes:
        grid += [p, p + b"\r\n", p + b"\n", p + b"\r\nA:b\r\n\r\n", p[:-1] + b"\n", b"x" + p + b"\n", p.lower() + b"\n",
                 p + b" \r\n", b" " + p + b"\n", p[:5] + b"\n"]
    for data in grid:
        want = bool(data) and b"\n" in data and any(data.startswith(p) for p in prefixes)
        if bool(mod.is_valid_ssdp_packet(data)) != want:
            raise Refuse(f"is_valid_ssdp_packet differs from the reference on {data!r}", counterexample=True)


def _probe_max_age(mod, word, default_age):
    import datetime as dt
    rx = re.compile(re.escape(word) + r"\s*=\s*(\d+)", re.IGNORECASE)

    def ref_after(cc):
        m = rx.search(cc)
        if m:
            try:
                return dt.timedelta(seconds=int(m[1]))
            except (OverflowError, ValueError):
                return dt.timedelta.max
        return dt.timedelta(seconds=default_age)
    ccs = ["", "no-cache", f"{word}=5", f"{word.upper()} = 7", f"{word}=0", f"{word}=" + "9" * 25, f"{word}=86399999999999",
           f"{word}=86400000000000", f"{word}=-5", f"{word}", f"x, {word}=1800, y", f"{word}=\u0661\u0662", f"{word}=" + "1" * 5000]
    stamps = [dt.datetime(1, 1, 2), dt.datetime(2020, 1, 1, 12), dt.datetime(9999, 12, 30)]
    for cc in ccs:
        try:
            got = mod.extract_uncache_after(cc)
        except Exception as e:  # noqa: BLE001
            raise Refuse(f"extract_uncache_after({cc[:40]!r}) raised {type(e).__name__}", counterexample=True) from e
        if got != ref_after(cc):
            raise Refuse(f"extract_uncache_after({cc[:40]!r}) = {got!r}, reference {ref_after(cc)!r}", counterexample=True)
        for ts in stamps:
            try:
                want = ts + ref_after(cc)
            except OverflowError:
                want = dt.datetime.max
            try:
                got = mod.extract_valid_to(_utils.CaseInsensitiveDict({"CACHE-CONTROL": cc, "_timestamp": ts}))
            except Exception as e:  # noqa: BLE001
                raise Refuse(f"extract_valid_to({cc[:40]!r}, {ts}) raised {type(e).__name__}", counterexample=True) from e
            if got != want:
                raise Refuse(f"extract_valid_to({cc[:40]!r}, {ts}) = {got!r}, reference {want!r}", counterexample=True)


_utils = None


def generate(repo: Path) -> str:
    global _utils
    lt = ast.parse((repo / "async_upnp_client" / "ssdp_listener.py").read_text())
    ct = ast.parse((repo / "async_upnp_client" / "const.py").read_text())
    st = ast.parse((repo / "async_upnp_client" / "ssdp.py").read_text())
    notes = []

    def fallback(what, err):
        notes.append(f"{what}: source shape not recognised ({err}); harvested literals validated by probing the function")

    # ---- CACHE_CONTROL_RE, DEFAULT_MAX_AGE, IGNORED_HEADERS: values (AST first, the imported module otherwise)
    mod_l = None

    def listener():
        nonlocal mod_l
        global _utils
        if mod_l is None:
            mod_l = _load(repo, "ssdp_listener")
            import sys
            _utils = sys.modules["async_upnp_client.utils"]
        return mod_l
    try:
        rx = top_assign(lt, "CACHE_CONTROL_RE")
        if not (isinstance(rx, ast.Call) and ast.unparse(rx.func) == "re.compile" and len(rx.args) == 2
                and isinstance(rx.args[0], ast.Constant) and ast.unparse(rx.args[1]) == "re.IGNORECASE"):
            raise Refuse("CACHE_CONTROL_RE shape")
        pattern = rx.args[0].value
    except Refuse as e:
        cre = getattr(listener(), "CACHE_CONTROL_RE", None)
        if not isinstance(cre, re.Pattern) or not (cre.flags & re.IGNORECASE):
            raise Refuse(f"CACHE_CONTROL_RE: {e}") from e
        pattern = cre.pattern
        fallback("CACHE_CONTROL_RE", e)
    m = re.fullmatch(r"([a-z\-]+)\\s\*=\\s\*\(\\d\+\)", pattern)
    if not m:
        raise Refuse(f"CACHE_CONTROL_RE pattern {pattern!r}")
    word = m.group(1)
    try:
        mm = re.fullmatch(r"timedelta\(seconds=(\d+)\)", ast.unparse(top_assign(lt, "DEFAULT_MAX_AGE")))
        if not mm:
            raise Refuse("DEFAULT_MAX_AGE shape")
        default_age = int(mm.group(1))
    except Refuse as e:
        import datetime as dt
        v = getattr(listener(), "DEFAULT_MAX_AGE", None)
        if not isinstance(v, dt.timedelta) or v.microseconds or v.total_seconds() < 0:
            raise Refuse(f"DEFAULT_MAX_AGE: {e}") from e
        default_age = int(v.total_seconds())
        fallback("DEFAULT_MAX_AGE", e)
    try:
        ig = top_assign(lt, "IGNORED_HEADERS")
        if not (isinstance(ig, ast.Set) and all(isinstance(e, ast.Constant) and isinstance(e.value, str) for e in ig.elts)):
            raise Refuse("IGNORED_HEADERS shape")
        ignored = sorted(e.value for e in ig.elts)
    except Refuse as e:
        v = getattr(listener(), "IGNORED_HEADERS", None)
        if not isinstance(v, (set, frozenset, tuple, list)) or not all(isinstance(x, str) for x in v):
            raise Refuse(f"IGNORED_HEADERS: {e}") from e
        ignored = sorted(set(v))
        fallback("IGNORED_HEADERS", e)

    # ---- extract_uncache_after / extract_valid_to
    try:
        eu = ast.unparse(func(lt, "extract_uncache_after"))
        for frag in ("CACHE_CONTROL_RE.search(cache_control)", "int(match[1])", "timedelta(seconds=max_age)",
                     "except (OverflowError, ValueError)", "return timedelta.max", "return DEFAULT_MAX_AGE"):
            if frag not in eu:
                raise Refuse(f"extract_uncache_after: missing {frag}")
        ev = ast.unparse(func(lt, "extract_valid_to"))
        for frag in ("headers.get_lower('cache-control', '')", "headers.get_lower('_timestamp')", "timestamp + uncache_after",
                     "except OverflowError", "return datetime.max"):
            if frag not in ev:
                raise Refuse(f"extract_valid_to: missing {frag}")
    except Refuse as e:
        _probe_max_age(listener(), word, default_age)
        fallback("extract_uncache_after / extract_valid_to", e)

    # ---- the three validity predicates
    try:
        prefix = subs = None
        for name, spec in VALID_TMPL.items():
            got = check_valid(func(lt, name), spec[:-1], spec[-1])
            if got:
                if prefix is not None and (prefix, subs) != got:
                    raise Refuse("search and advertisement location tests differ")
                prefix, subs = got
    except Refuse as e:
        lits = []
        for name in VALID_TMPL:
            for x in _harvest(lt, name, str):
                if x not in lits:
                    lits.append(x)
        cand = [x for x in lits if x and "http://".startswith(x) and "://" not in x]
        subs = [x for x in lits if x.startswith("://")]
        if len(cand) != 1 or not subs:
            raise Refuse(f"valid_*_headers: {e}; harvested literals {lits!r} do not determine the location test") from e
        prefix = cand[0]
        _probe_valid(listener(), _utils, prefix, subs)
        fallback("valid_*_headers", e)

    nts = enum_values(ct, "NotificationSubType")
    src = enum_values(ct, "SsdpSource")
    for k in ("SSDP_ALIVE", "SSDP_BYEBYE", "SSDP_UPDATE"):
        if k not in nts:
            raise Refuse(f"NotificationSubType.{k}")
    for k in ("ADVERTISEMENT", "SEARCH"):
        if k not in src:
            raise Refuse(f"SsdpSource.{k}")
    disc = top_assign(st, "SSDP_DISCOVER")
    if not (isinstance(disc, ast.Constant) and isinstance(disc.value, str)):
        raise Refuse("SSDP_DISCOVER")

    # ---- is_valid_ssdp_packet prefixes
    try:
        iv = ast.unparse(func(st, "is_valid_ssdp_packet"))
        prefixes = re.findall(r"data\.startswith\(b'([^']*)'\)", iv)
        if len(prefixes) != 3 or "b'\\n' in data" not in iv or "bool(data)" not in iv:
            raise Refuse("is_valid_ssdp_packet shape: " + iv[-200:])
    except Refuse as e:
        cand = [x for x in _harvest(st, "is_valid_ssdp_packet", bytes)]
        cand += [x.encode() for x in _harvest(st, "is_valid_ssdp_packet", str) if x.isascii()]
        cand = [c for i, c in enumerate(cand) if b"HTTP/" in c and c not in cand[:i]]
        live = _load(repo, "ssdp")
        # keep the candidates the function really treats as a start line: accepted, and no shorter prefix of it is
        blits = [c for c in cand if live.is_valid_ssdp_packet(c + b"\n") and not live.is_valid_ssdp_packet(c[:-1] + b"\n")]
        if not blits:
            raise Refuse(f"is_valid_ssdp_packet: {e}; no start-line literal found") from e
        _probe_packet(live, blits)
        prefixes = [b.decode("ascii") for b in blits]
        fallback("is_valid_ssdp_packet", e)

    lines = [
        "(* GENERATED by tools/gen/ssdp.py from ssdp_listener.py / const.py / ssdp.py — do not edit. *)",
        "From Coq Require Import List NArith.", "Import ListNotations.", "",
        f"Definition cache_control_word : list N := {cstr(word)}.",
        f"Definition cache_control_key : list N := {cstr('cache-control')}.",
        f"Definition default_max_age : N := {default_age}%N.",
        "Definition ignored_headers : list (list N) := [" + "; ".join(cstr(s) for s in ignored) + "].",
        f"Definition loc_required_prefix : list N := {cstr(prefix)}.",
        "Definition loc_forbidden : list (list N) := [" + "; ".join(cstr(s) for s in subs) + "].",
        f"Definition nts_alive : list N := {cstr(nts['SSDP_ALIVE'])}.",
        f"Definition nts_byebye : list N := {cstr(nts['SSDP_BYEBYE'])}.",
        f"Definition nts_update : list N := {cstr(nts['SSDP_UPDATE'])}.",
        f"Definition src_advertisement : list N := {cstr(src['ADVERTISEMENT'])}.",
        f"Definition src_search : list N := {cstr(src['SEARCH'])}.",
        f"Definition ssdp_discover : list N := {cstr(disc.value)}.",
        "Definition packet_prefixes : list (list N) := [" + "; ".join(cstr(p) for p in prefixes) + "].",
        "",
    ]
    for n in notes:
        print(f"translator:Ssdp: note: {n}")
    return "\n".join(lines)
