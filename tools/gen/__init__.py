"""One module per generated table: each defines NAME (Gen/<NAME>.v) and generate(repo: Path) -> str,
raising Refuse on any source shape it does not recognise (fail closed)."""


class Refuse(Exception):
    """counterexample=True: a behavioural probe found an input on which the code under test differs from what the
    table says - such a refusal is final; otherwise the source merely has a shape the reader does not know."""

    def __init__(self, msg="", counterexample=False):
        super().__init__(msg)
        self.counterexample = counterexample
