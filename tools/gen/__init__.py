"""One module per generated table: each defines NAME (Gen/<NAME>.v) and generate(repo: Path) -> str,
raising Refuse on any source shape it does not recognise (fail closed)."""


class Refuse(Exception):
    pass
