"""Gen/Types.v  <-  async_upnp_client/const.py:STATE_VARIABLE_TYPE_MAPPING.

Each row: (name, python type, in-coercer, out-coercer, needs_tz).  Every callable is matched against a
closed set of shapes; anything else is refused."""
import ast
from pathlib import Path

from gen import Refuse

NAME = "Types"

PYTYPES = {"int": "TInt", "float": "TFloat", "str": "TStr", "bool": "TBool",
           "date": "TDate", "datetime": "TDateTime", "time": "TTime"}


def cstr(s: str) -> str:
    return "[" + ";".join(str(ord(c)) for c in s) + "]%N" if s else "(@nil N)"


def in_coercer(node) -> str:
    if isinstance(node, ast.Name):
        if node.id in ("int", "float", "str"):
            return {"int": "InInt", "float": "InFloat", "str": "InStr"}[node.id]
        if node.id == "parse_date_time":
            return "InDateTime"
        raise Refuse(f"in-coercer name {node.id}")
    # lambda s: s.lower() in ["1", "true", "yes"]
    if isinstance(node, ast.Lambda) and len(node.args.args) == 1:
        arg = node.args.args[0].arg
        b = node.body
        if (isinstance(b, ast.Compare) and len(b.ops) == 1 and isinstance(b.ops[0], ast.In)
                and isinstance(b.left, ast.Call) and not b.left.args and not b.left.keywords
                and isinstance(b.left.func, ast.Attribute) and b.left.func.attr == "lower"
                and isinstance(b.left.func.value, ast.Name) and b.left.func.value.id == arg
                and isinstance(b.comparators[0], (ast.List, ast.Tuple, ast.Set))
                and all(isinstance(e, ast.Constant) and isinstance(e.value, str) for e in b.comparators[0].elts)):
            lits = [e.value for e in b.comparators[0].elts]
            return "(InBoolLowerIn [" + "; ".join(cstr(s) for s in lits) + "])"
    raise Refuse("in-coercer shape " + ast.dump(node)[:200])


def out_coercer(node) -> str:
    if isinstance(node, ast.Name) and node.id == "str":
        return "OutStr"
    if isinstance(node, ast.Lambda) and len(node.args.args) == 1:
        arg = node.args.args[0].arg
        b = node.body
        # lambda b: "1" if b else "0"
        if (isinstance(b, ast.IfExp) and isinstance(b.test, ast.Name) and b.test.id == arg
                and all(isinstance(x, ast.Constant) and isinstance(x.value, str) for x in (b.body, b.orelse))):
            return f"(OutBool {cstr(b.body.value)} {cstr(b.orelse.value)})"
        # lambda d: d.isoformat(<string literals>)
        if (isinstance(b, ast.Call) and not b.keywords and isinstance(b.func, ast.Attribute)
                and b.func.attr == "isoformat" and isinstance(b.func.value, ast.Name) and b.func.value.id == arg
                and all(isinstance(a, ast.Constant) and isinstance(a.value, str) for a in b.args)):
            return "(OutIso [" + "; ".join(cstr(a.value) for a in b.args) + "])"
    raise Refuse("out-coercer shape " + ast.dump(node)[:200])


def generate(repo: Path) -> str:
    src = (repo / "async_upnp_client" / "const.py").read_text()
    tree = ast.parse(src)
    table = None
    for node in tree.body:
        tgt = None
        if isinstance(node, ast.AnnAssign) and isinstance(node.target, ast.Name):
            tgt, val = node.target.id, node.value
        elif isinstance(node, ast.Assign) and len(node.targets) == 1 and isinstance(node.targets[0], ast.Name):
            tgt, val = node.targets[0].id, node.value
        if tgt == "STATE_VARIABLE_TYPE_MAPPING":
            table = val
    if not isinstance(table, ast.Dict):
        raise Refuse("STATE_VARIABLE_TYPE_MAPPING is not a dict literal")
    rows = []
    for k, v in zip(table.keys, table.values):
        if not (isinstance(k, ast.Constant) and isinstance(k.value, str) and isinstance(v, ast.Dict)):
            raise Refuse("row shape")
        ent = {}
        for kk, vv in zip(v.keys, v.values):
            if not (isinstance(kk, ast.Constant) and isinstance(kk.value, str)):
                raise Refuse("row key")
            ent[kk.value] = vv
        if set(ent) - {"type", "in", "out", "validator"} or not {"type", "in", "out"} <= set(ent):
            raise Refuse(f"row {k.value}: keys {sorted(ent)}")
        ty = ent["type"]
        if not (isinstance(ty, ast.Name) and ty.id in PYTYPES):
            raise Refuse(f"row {k.value}: type")
        needs_tz = "false"
        if "validator" in ent:
            if not (isinstance(ent["validator"], ast.Name) and ent["validator"].id == "require_tzinfo"):
                raise Refuse(f"row {k.value}: validator")
            needs_tz = "true"
        rows.append(f"  mkRow {cstr(k.value)} {PYTYPES[ty.id]} {in_coercer(ent['in'])} {out_coercer(ent['out'])} {needs_tz}")
    # require_tzinfo itself must be the known two-liner
    usrc = ast.parse((repo / "async_upnp_client" / "utils.py").read_text())
    fn = [n for n in usrc.body if isinstance(n, ast.FunctionDef) and n.name == "require_tzinfo"]
    if len(fn) != 1:
        raise Refuse("require_tzinfo missing")
    body = [n for n in fn[0].body if not (isinstance(n, ast.Expr) and isinstance(n.value, ast.Constant))]
    ok = (len(body) == 2 and isinstance(body[0], ast.If) and isinstance(body[1], ast.Return)
          and ast.unparse(body[0].test) == "value.tzinfo is None"
          and len(body[0].body) == 1 and isinstance(body[0].body[0], ast.Raise)
          and ast.unparse(body[1].value) == "value")
    if not ok:
        raise Refuse("require_tzinfo shape")
    return (
        "(* GENERATED by tools/gen/types.py from async_upnp_client/const.py — do not edit. *)\n"
        "From Coq Require Import List NArith.\nFrom AUC Require Import C08.TypesDef.\nImport ListNotations.\n\n"
        "Definition type_table : list type_row := [\n" + ";\n".join(rows) + "\n].\n"
    )
