"""Gen/Igd.v — declarative tables of async_upnp_client/profiles/igd.py (C20), read with `ast`, fail closed.

Generated:
  device_types     IgdDevice.DEVICE_TYPES
  service_types    IgdDevice._SERVICE_TYPES      alias |-> service types, in SOURCE order (the run-time set order
                                                 is an explicit parameter of the model, never taken from here)
  ops              one row per `async def async_*` operation of IgdDevice (except the traffic aggregate):
                   (method name, uses _any_action?, default alias list, action name) read from
                   `services = services or [...]` / `self._any_action(services, "X")` / `self._action("A", "X")`
  counter_offsets  (method name, constant) from `if <v> < 0: self._offset_* = <const>` of the four counters
  kib_divisor, kib_names   from `_derive_value_per_second`: `if value_name in (A, B): delta_value = delta_value / <const>`
  gather_ops       the coroutine methods handed to asyncio.gather in async_get_traffic_and_status_data, in order
  gather_return_exceptions   the literal value of gather(..., return_exceptions=...)
  value_error_classes   which of the exception classes the harness can provoke are subclasses of ValueError
                   (run-time introspection: this is what `except ValueError` in async_get_status_info catches)
"""
from __future__ import annotations

import ast
from pathlib import Path

from . import Refuse

NAME = "Igd"

# exception classes the C20 harness can provoke / the model names (class name -> how to resolve it)
EXN_CLASSES = [
    "UpnpError", "UpnpActionError", "UpnpActionResponseError", "UpnpResponseError", "UpnpCommunicationError",
    "UpnpConnectionError", "UpnpConnectionTimeoutError", "UpnpXmlParseError", "UpnpValueError",
    "ValueError", "KeyError", "TypeError", "OverflowError", "ZeroDivisionError", "AddressValueError",
    "TimeoutError", "RuntimeError",
]


def c_str(s: str) -> str:
    if not s:
        return "(@nil N)"
    return "[" + ";".join(str(ord(ch)) for ch in s) + "]%N"


def c_list(items, ty=None):
    items = list(items)
    if not items:
        return f"(@nil {ty})" if ty else "[]"
    return "[" + "; ".join(items) + "]"


def _const_str(node, consts) -> str:
    if isinstance(node, ast.Constant) and isinstance(node.value, str):
        return node.value
    if isinstance(node, ast.Name) and isinstance(consts.get(node.id), str):
        return consts[node.id]
    raise Refuse(f"expected a string constant, got {ast.dump(node)[:80]}")


def _const_int(node, consts=None) -> int:
    """integer literal, a module/class-level integer constant, or a ** b / a * b / a + b / a - b / a << b of such"""
    consts = consts or {}
    if isinstance(node, ast.Constant) and isinstance(node.value, int) and not isinstance(node.value, bool):
        return node.value
    if isinstance(node, ast.Name) and isinstance(consts.get(node.id), int):
        return consts[node.id]
    if isinstance(node, ast.Attribute) and isinstance(node.value, ast.Name) and node.value.id in ("self", "cls", "IgdDevice") \
            and isinstance(consts.get(node.attr), int):
        return consts[node.attr]
    if isinstance(node, ast.UnaryOp) and isinstance(node.op, ast.USub):
        return -_const_int(node.operand, consts)
    if isinstance(node, ast.BinOp):
        a, b = _const_int(node.left, consts), _const_int(node.right, consts)
        if isinstance(node.op, ast.Pow) and 0 <= b <= 4096:
            return a ** b
        if isinstance(node.op, ast.Mult):
            return a * b
        if isinstance(node.op, ast.Add):
            return a + b
        if isinstance(node.op, ast.Sub):
            return a - b
        if isinstance(node.op, ast.LShift) and 0 <= b <= 4096:
            return a << b
    raise Refuse(f"expected an integer constant expression, got {ast.dump(node)[:80]}")


def _const_str_list(node, consts):
    """[...]/(...) of string constants, or the name of a module/class-level constant holding one"""
    if isinstance(node, (ast.List, ast.Tuple)):
        return [_const_str(e, consts) for e in node.elts]
    if isinstance(node, ast.Name) and isinstance(consts.get(node.id), list):
        return list(consts[node.id])
    if isinstance(node, ast.Attribute) and isinstance(node.value, ast.Name) and node.value.id in ("self", "cls", "IgdDevice") \
            and isinstance(consts.get(node.attr), list):
        return list(consts[node.attr])
    raise Refuse(f"expected a list of string constants, got {ast.dump(node)[:80]}")


def _collect_consts(body, consts):
    """simple `NAME = <str | int expr | list/tuple of str>` assignments (module or class level)"""
    for node in body:
        tgt = val = None
        if isinstance(node, ast.Assign) and len(node.targets) == 1 and isinstance(node.targets[0], ast.Name):
            tgt, val = node.targets[0].id, node.value
        elif isinstance(node, ast.AnnAssign) and isinstance(node.target, ast.Name) and node.value is not None:
            tgt, val = node.target.id, node.value
        if tgt is None:
            continue
        for f in (_const_str, _const_str_list):
            try:
                consts[tgt] = f(val, consts)
                break
            except Refuse:
                pass
        else:
            try:
                consts[tgt] = _const_int(val, consts)
            except Refuse:
                pass


def _is_self_call(node, meth):
    return (isinstance(node, ast.Call) and isinstance(node.func, ast.Attribute) and node.func.attr == meth
            and isinstance(node.func.value, ast.Name) and node.func.value.id == "self")


def _walk_no_nested(fn):
    """all nodes of the function body, not descending into nested function/class definitions"""
    stack = list(fn.body)
    while stack:
        n = stack.pop()
        yield n
        for c in ast.iter_child_nodes(n):
            if not isinstance(c, (ast.FunctionDef, ast.AsyncFunctionDef, ast.ClassDef, ast.Lambda)):
                stack.append(c)


def _op_row(fn: ast.AsyncFunctionDef, consts):
    defaults = None
    routes = []
    for n in _walk_no_nested(fn):
        if isinstance(n, ast.Assign) and len(n.targets) == 1 and isinstance(n.targets[0], ast.Name):
            tgt, val = n.targets[0].id, n.value
            if tgt == "services":
                if not (isinstance(val, ast.BoolOp) and isinstance(val.op, ast.Or) and len(val.values) == 2
                        and isinstance(val.values[0], ast.Name) and val.values[0].id == "services"):
                    raise Refuse(f"{fn.name}: unrecognised assignment to `services`")
                if defaults is not None:
                    raise Refuse(f"{fn.name}: `services` assigned twice")
                defaults = _const_str_list(val.values[1], consts)
        if _is_self_call(n, "_action"):
            if len(n.args) != 2 or n.keywords:
                raise Refuse(f"{fn.name}: _action call shape")
            routes.append(("single", [_const_str(n.args[0], consts)], _const_str(n.args[1], consts)))
        if _is_self_call(n, "_any_action"):
            if len(n.args) != 2 or n.keywords or not (isinstance(n.args[0], ast.Name) and n.args[0].id == "services"):
                raise Refuse(f"{fn.name}: _any_action call shape")
            routes.append(("any", None, _const_str(n.args[1], consts)))
    if len(routes) != 1:
        raise Refuse(f"{fn.name}: expected exactly one _action/_any_action call, found {len(routes)}")
    kind, aliases, action = routes[0]
    has_param = any(a.arg == "services" for a in fn.args.args + fn.args.kwonlyargs)
    if kind == "any":
        if defaults is None or not has_param:
            raise Refuse(f"{fn.name}: _any_action(services, ...) without `services = services or [...]`")
        aliases = defaults
    elif defaults is not None or has_param:
        raise Refuse(f"{fn.name}: `services` parameter with a fixed-alias _action call")
    return fn.name, kind == "any", aliases, action


def _counter_offset(fn: ast.AsyncFunctionDef, consts):
    """`if <v> < 0: self._offset_x = <const>` ... `return <v> + self._offset_x`"""
    found = []
    for n in _walk_no_nested(fn):
        if isinstance(n, ast.If) and isinstance(n.test, ast.Compare) and len(n.test.ops) == 1 \
                and isinstance(n.test.ops[0], ast.Lt) and isinstance(n.test.left, ast.Name) \
                and isinstance(n.test.comparators[0], ast.Constant) and n.test.comparators[0].value == 0 \
                and len(n.body) == 1 and not n.orelse and isinstance(n.body[0], ast.Assign) \
                and len(n.body[0].targets) == 1 and isinstance(n.body[0].targets[0], ast.Attribute) \
                and n.body[0].targets[0].attr.startswith("_offset_"):
            found.append((n.test.left.id, n.body[0].targets[0].attr, _const_int(n.body[0].value, consts)))
    if len(found) != 1:
        raise Refuse(f"{fn.name}: expected exactly one `if v < 0: self._offset_* = C`")
    var, attr, const = found[0]
    rets = [n for n in _walk_no_nested(fn) if isinstance(n, ast.Return) and isinstance(n.value, ast.BinOp)]
    ok = [r for r in rets if isinstance(r.value.op, ast.Add) and isinstance(r.value.left, ast.Name)
          and r.value.left.id == var and isinstance(r.value.right, ast.Attribute) and r.value.right.attr == attr]
    if len(rets) != 1 or len(ok) != 1:
        raise Refuse(f"{fn.name}: expected `return {var} + self.{attr}`")
    return const


COUNTERS = ["async_get_total_bytes_received", "async_get_total_bytes_sent",
            "async_get_total_packets_received", "async_get_total_packets_sent"]
TRAFFIC = "async_get_traffic_and_status_data"


def generate(repo: Path) -> str:
    src = (repo / "async_upnp_client" / "profiles" / "igd.py").read_text()
    tree = ast.parse(src)
    consts = {}
    derive = None
    cls = None
    _collect_consts(tree.body, consts)
    for node in tree.body:
        if isinstance(node, ast.FunctionDef) and node.name == "_derive_value_per_second":
            derive = node
        if isinstance(node, ast.ClassDef) and node.name == "IgdDevice":
            cls = node
    if cls is None or derive is None:
        raise Refuse("IgdDevice / _derive_value_per_second not found")

    device_types = service_types = None
    fns = {}
    _collect_consts(cls.body, consts)
    for node in cls.body:
        if isinstance(node, ast.Assign) and len(node.targets) == 1 and isinstance(node.targets[0], ast.Name):
            if node.targets[0].id == "DEVICE_TYPES":
                if not isinstance(node.value, (ast.List, ast.Tuple)):
                    raise Refuse("DEVICE_TYPES shape")
                device_types = [_const_str(e, consts) for e in node.value.elts]
            if node.targets[0].id == "_SERVICE_TYPES":
                if not isinstance(node.value, ast.Dict) or any(k is None for k in node.value.keys):
                    raise Refuse("_SERVICE_TYPES shape")
                service_types = []
                for k, v in zip(node.value.keys, node.value.values):
                    if not isinstance(v, (ast.Set, ast.List, ast.Tuple)):
                        raise Refuse("_SERVICE_TYPES value shape")
                    service_types.append((_const_str(k, consts), [_const_str(e, consts) for e in v.elts]))
        if isinstance(node, ast.AsyncFunctionDef) and node.name.startswith("async_"):
            fns[node.name] = node
    if device_types is None or service_types is None:
        raise Refuse("DEVICE_TYPES / _SERVICE_TYPES not found")
    if len({a for a, _ in service_types}) != len(service_types):
        raise Refuse("_SERVICE_TYPES: duplicate alias")
    for a, tys in service_types:
        if len(set(tys)) != len(tys):
            raise Refuse(f"_SERVICE_TYPES[{a}]: duplicate type")
    if TRAFFIC not in fns:
        raise Refuse(f"{TRAFFIC} not found")

    rows = [_op_row(fn, consts) for name, fn in fns.items() if name != TRAFFIC]
    offsets = []
    for c in COUNTERS:
        if c not in fns:
            raise Refuse(f"{c} not found")
        offsets.append((c, _counter_offset(fns[c], consts)))

    # _derive_value_per_second: the KiB scaling
    kib = []
    for n in _walk_no_nested(derive):
        if isinstance(n, ast.If) and isinstance(n.test, ast.Compare) and len(n.test.ops) == 1 \
                and isinstance(n.test.ops[0], ast.In) and isinstance(n.test.left, ast.Name) \
                and n.test.left.id == "value_name" and isinstance(n.test.comparators[0], (ast.Tuple, ast.List, ast.Set)) \
                and len(n.body) == 1 and isinstance(n.body[0], ast.Assign) and isinstance(n.body[0].value, ast.BinOp) \
                and isinstance(n.body[0].value.op, ast.Div) and isinstance(n.body[0].value.left, ast.Name) \
                and n.body[0].value.left.id == "delta_value":
            kib.append(([_const_str(e, consts) for e in n.test.comparators[0].elts],
                        _const_int(n.body[0].value.right, consts)))
    if len(kib) != 1 or kib[0][1] <= 0:
        raise Refuse("_derive_value_per_second: expected one `if value_name in (...): delta_value = delta_value / C`")
    kib_names, kib_div = kib[0]

    # gather(...) of the traffic aggregate
    gathers = [n for n in _walk_no_nested(fns[TRAFFIC]) if isinstance(n, ast.Call)
               and isinstance(n.func, ast.Attribute) and n.func.attr == "gather"]
    if len(gathers) != 1:
        raise Refuse("traffic aggregate: expected one asyncio.gather call")
    g = gathers[0]
    gather_ops = []
    for a in g.args:
        if not (isinstance(a, ast.Call) and isinstance(a.func, ast.Attribute) and isinstance(a.func.value, ast.Name)
                and a.func.value.id == "self" and not a.args and not a.keywords):
            raise Refuse("traffic aggregate: gather argument shape")
        gather_ops.append(a.func.attr)
    ret_exc = False
    for kw in g.keywords:
        if kw.arg == "return_exceptions" and isinstance(kw.value, ast.Constant) and isinstance(kw.value.value, bool):
            ret_exc = kw.value.value
        else:
            raise Refuse("traffic aggregate: gather keyword shape")

    # which provokable exception classes does `except ValueError` catch (run-time class hierarchy)
    import asyncio  # noqa: F401
    import builtins
    import importlib
    import ipaddress
    exc_mod = importlib.import_module("async_upnp_client.exceptions")
    value_errors = []
    for name in EXN_CLASSES:
        k = getattr(exc_mod, name, None) or getattr(builtins, name, None) or getattr(ipaddress, name, None)
        if not (isinstance(k, type) and issubclass(k, BaseException)):
            raise Refuse(f"exception class {name} not found")
        if issubclass(k, ValueError):
            value_errors.append(name)

    def row(r):
        name, is_any, aliases, action = r
        return f"({c_str(name)}, {'true' if is_any else 'false'}, {c_list(map(c_str, aliases), 'pystr')}, {c_str(action)})"

    plain = ["   " + a + " -> " + ", ".join(t.rsplit(":", 2)[-2] + ":" + t.rsplit(":", 1)[-1] for t in tys)
             for a, tys in service_types]
    plain += [f"   {n}: {'_any_action' if any_ else '_action'} {als} {act}" for n, any_, als, act in rows]
    out = [
        "(* GENERATED by tools/gen/igd.py from async_upnp_client/profiles/igd.py — do not edit.",
        *plain,
        "*)",
        "From Coq Require Import List NArith ZArith Bool.",
        "From AUC Require Import Prelude.PyStr.",
        "Import ListNotations.",
        "",
        f"Definition device_types : list pystr := {c_list(map(c_str, device_types), 'pystr')}.",
        "",
        "(* alias |-> service types, SOURCE order of the set literal *)",
        "Definition service_types : list (pystr * list pystr) :=",
        "  " + c_list((f"({c_str(a)}, {c_list(map(c_str, tys), 'pystr')})" for a, tys in service_types),
                     "(pystr * list pystr)") + ".",
        "",
        "(* (method, routed with _any_action over a `services` parameter?, default aliases, action) *)",
        "Definition ops : list (pystr * bool * list pystr * pystr) :=",
        "  " + c_list(map(row, rows), "(pystr * bool * list pystr * pystr)").replace("); (", ");\n   (") + ".",
        "",
        "Definition counter_offsets : list (pystr * Z) :=",
        "  " + c_list((f"({c_str(n)}, ({v})%Z)" for n, v in offsets), "(pystr * Z)") + ".",
        "",
        f"Definition kib_divisor : Z := ({kib_div})%Z.",
        f"Definition kib_names : list pystr := {c_list(map(c_str, kib_names), 'pystr')}.",
        "",
        f"Definition gather_ops : list pystr := {c_list(map(c_str, gather_ops), 'pystr')}.",
        f"Definition gather_return_exceptions : bool := {'true' if ret_exc else 'false'}.",
        "",
        f"Definition value_error_classes : list pystr := {c_list(map(c_str, value_errors), 'pystr')}.",
        "",
    ]
    return "\n".join(out)
