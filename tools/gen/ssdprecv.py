"""Gen/SsdpRecv.v  <-  ssdp.py:SsdpProtocol.datagram_received (the except clause around decode) and
server.py:SsdpSearchResponder._on_data (MX clamp constants).  The three exception classes the decode
model can raise are checked against the caught classes by runtime introspection of the installed
aiohttp (subclass relation), so narrowing the except clause changes the generated booleans."""
import ast
import builtins
import importlib
import re
import sys
from pathlib import Path

from gen import Refuse

NAME = "SsdpRecv"


def find_method(tree, cls, name):
    for node in tree.body:
        if isinstance(node, ast.ClassDef) and node.name == cls:
            for n in node.body:
                if isinstance(n, ast.FunctionDef) and n.name == name:
                    return n
    raise Refuse(f"{cls}.{name} not found")


def _caught_by_ast(tree):
    fn = find_method(tree, "SsdpProtocol", "datagram_received")
    tries = [n for n in ast.walk(fn) if isinstance(n, ast.Try)]
    if len(tries) != 1:
        raise Refuse("datagram_received: expected exactly one try")
    t = tries[0]
    if len(t.body) != 1 or "decode_ssdp_packet(data, self.local_addr, addr)" not in ast.unparse(t.body[0]):
        raise Refuse("datagram_received: try body shape")
    if not isinstance(fn.body[-1], ast.If) or ast.unparse(fn.body[-1].test) != "is_valid_ssdp_packet(data)":
        raise Refuse("datagram_received: gate shape")
    caught = []
    for h in t.handlers:
        if not (len(h.body) >= 1 and isinstance(h.body[-1], ast.Return) and h.body[-1].value is None):
            raise Refuse("datagram_received: handler does not just return")
        names = [h.type] if not isinstance(h.type, ast.Tuple) else list(h.type.elts)
        for n in names:
            if not isinstance(n, ast.Name):
                raise Refuse("handler class expression")
            caught.append(n.id)
    mod = importlib.import_module("async_upnp_client.ssdp")
    classes = []
    for n in caught:
        c = getattr(mod, n, None) or getattr(builtins, n, None)
        if not isinstance(c, type):
            raise Refuse(f"cannot resolve exception class {n}")
        classes.append(c)
    from aiohttp.http_exceptions import InvalidHeader, LineTooLong
    return {
        "caught_invalid_header": any(issubclass(InvalidHeader, c) for c in classes),
        "caught_line_too_long": any(issubclass(LineTooLong, c) for c in classes),
        "caught_unicode_decode": any(issubclass(UnicodeDecodeError, c) for c in classes),
    }


def _caught_by_probe():
    """Shape not recognised: hand a datagram to a real SsdpProtocol whose decoder is replaced by one that raises each
    of the three classes the decoder can raise, and see whether it escapes datagram_received."""
    import asyncio
    from unittest.mock import patch
    from aiohttp.http_exceptions import InvalidHeader, LineTooLong
    mod = importlib.import_module("async_upnp_client.ssdp")
    loop = asyncio.new_event_loop()
    try:
        flags = {}
        for key, exc in (("caught_invalid_header", InvalidHeader("x")), ("caught_line_too_long", LineTooLong("x", "1", "2")),
                         ("caught_unicode_decode", UnicodeDecodeError("utf-8", b"\xff", 0, 1, "x"))):
            def boom(*_a, _e=exc, **_k):
                raise _e
            seen = []
            proto = mod.SsdpProtocol(loop, on_data=lambda *a: seen.append(a))

            class _T:  # a transport stand-in: the protocol only looks at its socket
                def get_extra_info(self, _name):
                    return None
            proto.connection_made(_T())
            with patch.object(mod, "decode_ssdp_packet", boom), patch.object(mod, "is_valid_ssdp_packet", lambda _d: True):
                try:
                    proto.datagram_received(b"NOTIFY * HTTP/1.1\r\nA:b\r\n\r\n", ("192.0.2.1", 1900))
                    flags[key] = not seen
                except type(exc):
                    flags[key] = False
        return flags
    finally:
        loop.close()


def _const(node, consts):
    if isinstance(node, ast.Constant) and isinstance(node.value, int) and not isinstance(node.value, bool):
        return node.value
    if isinstance(node, ast.Name) and node.id in consts:
        return consts[node.id]
    if isinstance(node, ast.Attribute) and node.attr in consts:
        return consts[node.attr]
    return None


def _mx_constants(stree):
    """max(lo, min(hi, int(..))) and randrange(a, delay * b - c) / d anywhere in server.py, integer names resolved
    through module- and class-level constants (so that extracting a helper or hoisting a constant changes nothing)"""
    consts = {}
    for n in ast.walk(stree):
        if isinstance(n, ast.Assign) and len(n.targets) == 1 and isinstance(n.targets[0], ast.Name) \
                and isinstance(n.value, ast.Constant) and isinstance(n.value.value, int) and not isinstance(n.value.value, bool):
            consts[n.targets[0].id] = n.value.value
        if isinstance(n, ast.AnnAssign) and isinstance(n.target, ast.Name) and isinstance(n.value, ast.Constant) \
                and isinstance(n.value.value, int) and not isinstance(n.value.value, bool):
            consts[n.target.id] = n.value.value
    clamps, ranges = set(), set()
    for n in ast.walk(stree):
        if isinstance(n, ast.Call) and isinstance(n.func, ast.Name) and n.func.id == "max" and len(n.args) == 2:
            for lo_n, inner in (n.args, n.args[::-1]):
                if isinstance(inner, ast.Call) and isinstance(inner.func, ast.Name) and inner.func.id == "min" and len(inner.args) == 2:
                    for hi_n, conv in (inner.args, inner.args[::-1]):
                        # the clamped value: int(<header>) or a name bound to it
                        if _const(conv, consts) is None and isinstance(conv, (ast.Call, ast.Name)):
                            lo, hi = _const(lo_n, consts), _const(hi_n, consts)
                            if lo is not None and hi is not None:
                                clamps.add((lo, hi))
        if isinstance(n, ast.BinOp) and isinstance(n.op, ast.Div) and isinstance(n.left, ast.Call) \
                and ast.unparse(n.left.func).endswith("randrange") and len(n.left.args) == 2:
            a = _const(n.left.args[0], consts)
            hi = n.left.args[1]
            d = _const(n.right, consts)
            if isinstance(hi, ast.BinOp) and isinstance(hi.op, ast.Sub) and isinstance(hi.left, ast.BinOp) \
                    and isinstance(hi.left.op, ast.Mult):
                c = _const(hi.right, consts)
                b = _const(hi.left.right, consts)
                if b is None:
                    b = _const(hi.left.left, consts)
                if None not in (a, b, c, d):
                    ranges.add((a, b, c, d))
    if len(clamps) != 1:
        raise Refuse(f"server: MX clamp max(lo, min(hi, int(..))) found {sorted(clamps)}")
    if len(ranges) != 1:
        raise Refuse(f"server: randrange(a, delay * b - c) / d found {sorted(ranges)}")
    return clamps.pop(), ranges.pop()


def generate(repo: Path) -> str:
    sys.path.insert(0, str(repo))
    for k in [k for k in sys.modules if k == "async_upnp_client" or k.startswith("async_upnp_client.")]:
        del sys.modules[k]
    src = (repo / "async_upnp_client" / "ssdp.py").read_text()
    tree = ast.parse(src)
    try:
        flags = _caught_by_ast(tree)
    except Refuse as e:
        flags = _caught_by_probe()
        print(f"translator:SsdpRecv: note: datagram_received: source shape not recognised ({e}); caught classes determined "
              "by making the decoder raise each class inside a real SsdpProtocol")
    # server MX handling
    stree = ast.parse((repo / "async_upnp_client" / "server.py").read_text())
    (lo, hi), (rr_lo, rr_mul, rr_sub, rr_div) = _mx_constants(stree)
    b = lambda x: "true" if x else "false"  # noqa: E731
    return "\n".join([
        "(* GENERATED by tools/gen/ssdprecv.py from ssdp.py / server.py — do not edit. *)",
        "From Coq Require Import NArith ZArith.", "",
        f"Definition caught_invalid_header : bool := {b(flags['caught_invalid_header'])}.",
        f"Definition caught_line_too_long : bool := {b(flags['caught_line_too_long'])}.",
        f"Definition caught_unicode_decode : bool := {b(flags['caught_unicode_decode'])}.",
        f"Definition mx_lo : Z := {lo}%Z.", f"Definition mx_hi : Z := {hi}%Z.",
        f"Definition rr_lo : Z := {rr_lo}%Z.", f"Definition rr_mul : Z := {rr_mul}%Z.", f"Definition rr_sub : Z := {rr_sub}%Z.",
        "",
    ])
