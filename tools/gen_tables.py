"""Table generators used by translate.py.  Each returns the text of one Gen/<Name>.v."""
import ast
from pathlib import Path


class Refuse(Exception):
    pass


GENERATORS = {}


def generator(name):
    def deco(fn):
        GENERATORS[name] = fn
        return fn
    return deco
