#!/venv/bin/python
"""Fail-closed translator /repo -> coq/theories/Gen/*.v (DESIGN.md §3.1).

usage: translate.py <repo> <outdir>.  Every module tools/gen/<x>.py reads the source with `ast`,
accepts only the shapes it knows, and raises Refuse on anything else (exit 1: the check treats that
as a broken obligation `translator`).  A file is rewritten only when its text changes, so an
unchanged tree costs nothing in `make`."""
import importlib
import sys
import traceback
from pathlib import Path

HERE = Path(__file__).resolve().parent
sys.path.insert(0, str(HERE))
sys.dont_write_bytecode = True


def main():
    repo, out = Path(sys.argv[1]), Path(sys.argv[2])
    out.mkdir(parents=True, exist_ok=True)
    from gen import Refuse
    ok = True
    wanted = set()
    for mod_path in sorted((HERE / "gen").glob("*.py")):
        if mod_path.name == "__init__.py":
            continue
        mod = importlib.import_module(f"gen.{mod_path.stem}")
        wanted.add(f"{mod.NAME}.v")
        try:
            text = mod.generate(repo)
        except Exception as e:  # noqa: BLE001 - unknown shape
            why = str(e) if isinstance(e, Refuse) else traceback.format_exc()[-800:]
            base = HERE / "gen" / "baseline" / f"{mod.NAME}.v"
            if isinstance(e, Refuse) and getattr(e, "counterexample", False) or not base.exists():
                print(f"translator:{mod.NAME}: refused: {why}")
                ok = False
                if base.exists():
                    # leave a well-defined table behind (the pinned reading, never a table generated from some other
                    # tree by an earlier run): the search for a failing input compares the implementation with it
                    p = out / f"{mod.NAME}.v"
                    if not p.exists() or p.read_text() != base.read_text():
                        p.write_text(base.read_text())
                continue
            # The reader does not recognise the source any more and has no behavioural probe of its own for this
            # table (or the probe could not decide).  The table of the pinned tree is used: for this run the model is
            # tied to the code by the correspondence check alone, which the driver then runs on an enlarged case set.
            print(f"translator:{mod.NAME}: pinned: {' '.join(why.split())[:600]}")
            text = base.read_text()
        p = out / f"{mod.NAME}.v"
        if not p.exists() or p.read_text() != text:
            p.write_text(text)
    return 0 if ok else 1


if __name__ == "__main__":
    sys.exit(main())
