#!/venv/bin/python
"""Fail-closed translator /repo -> coq/theories/Gen/*.v (DESIGN.md §3.1).

usage: translate.py <repo> <outdir>.  Each generator reads the source with `ast`, accepts
only the shapes it knows, and aborts (exit 1) on anything else.  A file is rewritten only
when its text changes, so an unchanged tree costs nothing in `make`."""
import sys
from pathlib import Path

sys.path.insert(0, str(Path(__file__).resolve().parent))


def main():
    repo, out = Path(sys.argv[1]), Path(sys.argv[2])
    out.mkdir(parents=True, exist_ok=True)
    import gen_tables
    ok = True
    for name, fn in gen_tables.GENERATORS.items():
        try:
            text = fn(repo)
        except gen_tables.Refuse as e:
            print(f"translator:{name}: refused: {e}")
            ok = False
            continue
        p = out / f"{name}.v"
        if not p.exists() or p.read_text() != text:
            p.write_text(text)
    return 0 if ok else 1


if __name__ == "__main__":
    sys.exit(main())
