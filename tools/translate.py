#!/venv/bin/python
"""Fail-closed translator /repo -> coq/theories/Gen/*.v (DESIGN.md §3.1).

usage: translate.py <repo> <outdir>.  Every module tools/gen/<x>.py reads the source with `ast`,
accepts only the shapes it knows, and raises Refuse on anything else (exit 1: the check treats that
as a broken obligation `translator`).  A file is rewritten only when its text changes, so an
unchanged tree costs nothing in `make`."""
import importlib
import sys
import traceback
from pathlib import Path

HERE = Path(__file__).resolve().parent
sys.path.insert(0, str(HERE))
sys.dont_write_bytecode = True


def main():
    repo, out = Path(sys.argv[1]), Path(sys.argv[2])
    out.mkdir(parents=True, exist_ok=True)
    from gen import Refuse
    ok = True
    wanted = set()
    for mod_path in sorted((HERE / "gen").glob("*.py")):
        if mod_path.name == "__init__.py":
            continue
        mod = importlib.import_module(f"gen.{mod_path.stem}")
        wanted.add(f"{mod.NAME}.v")
        try:
            text = mod.generate(repo)
        except Refuse as e:
            print(f"translator:{mod.NAME}: refused: {e}")
            ok = False
            continue
        except Exception:  # noqa: BLE001 - unknown shape = refuse
            print(f"translator:{mod.NAME}: refused: {traceback.format_exc()[-800:]}")
            ok = False
            continue
        p = out / f"{mod.NAME}.v"
        if not p.exists() or p.read_text() != text:
            p.write_text(text)
    return 0 if ok else 1


if __name__ == "__main__":
    sys.exit(main())
