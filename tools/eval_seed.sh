#!/bin/sh
# Evaluate one seeded change: tools/eval_seed.sh <Cxx> <mN> [tier]
# Reads /tmp/seed-out/<Cxx>/<mN>/{patch.diff,demo.py,notes.md}; works in a scratch worktree under /tmp that is
# removed afterwards; stores the confirmed change under /verif/seeded/<Cxx>-<mN>/.
set -u
ID=$1; M=$2; TIER=${3:-quick}
# VERIF_DIR: the copy of /verif whose ./check is run (default /verif); EVAL_TAG: suffix of the scratch names, so that
# several streams can run side by side, each in its own copy; EVAL_SRC=seeded: take the patch from /verif/seeded
VERIF_DIR=${VERIF_DIR:-/verif}
TAG=${EVAL_TAG:-}
SRC=/tmp/seed-out/$ID/$M
[ "${EVAL_SRC:-}" = seeded ] && SRC=/verif/seeded/$ID-$M
WT=/tmp/wt-eval$TAG-$ID-$M
OUT=/verif/seeded/$ID-$M
LOG=/tmp/seed-eval$TAG/$ID-$M
mkdir -p "$LOG" "$OUT"
git -C /repo worktree remove --force "$WT" >/dev/null 2>&1
rm -rf "$WT"
git -C /repo worktree add --detach "$WT" HEAD >/dev/null 2>&1 || { echo "worktree failed"; exit 2; }
DEMO=$(ls "$SRC"/demo*.py 2>/dev/null | head -1)
# demo on the clean tree
( cd "$LOG" && PYTHONPATH=$WT PYTHONHASHSEED=0 timeout 300 /venv/bin/python "$DEMO" >demo_clean.out 2>&1; echo $? >demo_clean.rc )
if ! git -C "$WT" apply "$SRC/patch.diff" 2>"$LOG/apply.err"; then echo "$ID $M: patch does not apply"; cat "$LOG/apply.err"; fi
( cd "$LOG" && PYTHONPATH=$WT PYTHONHASHSEED=0 timeout 300 /venv/bin/python "$DEMO" >demo_patched.out 2>&1; echo $? >demo_patched.rc )
[ -n "${EVAL_FAST:-}" ] && echo "(suite skipped)" >"$LOG/suite.out" || ( cd "$WT" && timeout 900 /venv/bin/python -m pytest -ra -q -p no:cacheprovider --timeout=900 --continue-on-collection-errors 2>&1 | tail -1 >"$LOG/suite.out" )
( cd "$VERIF_DIR" && VERIF_REPO=$WT timeout 3000 ./check "$ID" --tier "$TIER" >"$LOG/check.out" 2>&1; echo $? >"$LOG/check.rc" )
REPLAY=$(grep -o 'replay=[^ ]*' "$LOG/check.out" | head -1 | cut -d= -f2)
[ -n "$REPLAY" ] && [ -f "$REPLAY" ] && cp "$REPLAY" "$LOG/replay.json"
git -C /repo worktree remove --force "$WT" >/dev/null 2>&1; rm -rf "$WT"
{ [ -z "$TAG" ] || [ -n "${EVAL_STORE:-}" ]; } && [ "$SRC" != "$OUT" ] && { cp "$SRC/patch.diff" "$OUT/patch.diff"; cp "$DEMO" "$OUT/demo.py"; cp "$SRC/notes.md" "$OUT/notes.md" 2>/dev/null; }
echo "$ID $M: demo clean rc=$(cat $LOG/demo_clean.rc) patched rc=$(cat $LOG/demo_patched.rc); suite: $(cat $LOG/suite.out); check rc=$(cat $LOG/check.rc): $(grep -m1 VIOLATION $LOG/check.out)"
