#!/venv/bin/python
"""Regenerates /verif/MANIFEST.json from the per-property table below (single source)."""
import json
from pathlib import Path

VERIF = Path(__file__).resolve().parent.parent

BASELINE_OFF = ("cd /repo && env -u ASYNC_UPNP_CLIENT_VERIF /venv/bin/python -m pytest -ra -q -p no:cacheprovider "
                "--timeout=900 --continue-on-collection-errors")

COMMON_NOTE = ("Trusted: Coq 8.16.1 kernel and vm_compute (no native_compute, no extraction); every property theorem "
               "is 'Closed under the global context' (Print Assumptions is captured on every run and any axiom fails the "
               "check); the hand-written executable model is tied to /repo by the differential correspondence check "
               "(implementation vs model vs spec on generated inputs, evaluated inside Coq) and by tables regenerated "
               "from the source by tools/translate.py; CPython/third-party semantics as modelled in coq/theories/Prelude.")

CHECKS = {
    "C16": dict(
        text=("Refinement theorem (Coq): for every operation sequence in the stated domain the model of "
              "CaseInsensitiveDict (two Python dicts per object, aliasing by replace) is observationally equal to a "
              "finite map keyed by folded name; invariant by induction over the operation list. The model is run "
              "against the real class on random and exhaustive small-scope operation sequences on every check."),
        technique="Coq refinement proof (lockstep simulation, induction over operation lists) + differential correspondence model/implementation evaluated with vm_compute",
        design="§4 C16",
    ),
}

NOT_YET = "check not built yet (work in progress this session; see DESIGN.md §8 for the construction order)"


def main():
    checks = []
    for pid, m in sorted(CHECKS.items()):
        checks.append({
            "property_id": pid,
            "quick_cmd": f"./check {pid} --tier quick",
            "thorough_cmd": f"./check {pid} --tier thorough",
            "evidence_file": f"/verif/evidence/{pid}.json",
            "replay_cmd_template": f"./check {pid} --replay {{path}}",
            "engine": "coq-proof+correspondence",
            "level_claimed": {"category": "proof", "text": m["text"], "design_ref": m["design"]},
            "level_note": m.get("note", COMMON_NOTE),
            "technique": m["technique"],
        })
    all_ids = [f"C{n:02d}" for n in range(1, 21)]
    man = {
        "version": 1,
        "setup_cmd": "./check --setup",
        "hooks": {
            "guard": "ASYNC_UPNP_CLIENT_VERIF",
            "enable": "none needed: the harness uses only fakes and patches inside its own process; the variable is set by ./check for uniformity",
            "baseline_off_cmd": BASELINE_OFF,
            "source_commits": [],
            "add_only": True,
        },
        "engines": [{
            "name": "coq-proof+correspondence", "path": "/verif/check",
            "serves_properties": sorted(CHECKS),
            "kind_free_text": "Coq 8.16.1 development under coq/theories (model, spec, proofs, property theorems) + python differential harness evaluating model and spec inside Coq on implementation observations",
        }],
        "checks": checks,
        "not_applicable": [{"property_id": p, "reason": NOT_YET} for p in all_ids if p not in CHECKS],
        "notes": "fix: commits in /repo and known findings are listed in /verif/known_findings.json; see DESIGN.md.",
    }
    (VERIF / "MANIFEST.json").write_text(json.dumps(man, indent=1) + "\n")


if __name__ == "__main__":
    main()
