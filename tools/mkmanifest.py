#!/venv/bin/python
"""Regenerates /verif/MANIFEST.json from the per-property table below (single source)."""
import json
from pathlib import Path

VERIF = Path(__file__).resolve().parent.parent

BASELINE_OFF = ("cd /repo && env -u ASYNC_UPNP_CLIENT_VERIF /venv/bin/python -m pytest -ra -q -p no:cacheprovider "
                "--timeout=900 --continue-on-collection-errors")

COMMON_NOTE = ("Trusted: Coq 8.16.1 kernel and vm_compute (no native_compute, no extraction); every property theorem "
               "is 'Closed under the global context' (Print Assumptions is captured on every run and any axiom fails the "
               "check); the hand-written executable model is tied to /repo by the differential correspondence check "
               "(implementation vs model vs spec on generated inputs, evaluated inside Coq) and by tables regenerated "
               "from the source by tools/translate.py; CPython/third-party semantics as modelled in coq/theories/Prelude.")

CHECKS = {
    "C01": dict(
        text=("Coq theorems over a byte-level executable model of the SSDP codec (build_ssdp_packet, CRLF/LF normalisation, "
              "aiohttp 3.9.5 HeadersParser.parse_headers, UTF-8 encode / surrogateescape decode, udn_from_usn, get_adjusted_url "
              "with urlsplit/ip_address as oracles, CaseInsensitiveDict construction via the C16 refinement): for all three "
              "start lines, every header list in the statement's domain, every sender, the datagram that is built decodes to the "
              "same start line and, read case-insensitively, exactly the sent headers plus the sender metadata (partial under the "
              "guard of known finding D27, NUL inside a value, which is proved refuted); the UTF-8 round trip for all scalar "
              "strings; decode results are fresh header maps, so mutating them never reaches the cached map. The model's decode "
              "is a pure function; history independence of the implementation (three lru_caches) is established by running "
              "decode histories with interleaved mutations of earlier results against it on every check."),
        technique="Coq proof (byte-level parse o build = id, UTF-8 arithmetic, dict lookups via the C16 refinement, frame property of the C16 machine) + differential correspondence over decode histories",
        design="§4 C01",
    ),
    "C02": dict(
        text=("Coq theorems about the whole receive path (gate, decode of the C01 byte-level model under the except clause "
              "generated from ssdp.py and the installed aiohttp class hierarchy, then the five protocol endpoints: advertisement "
              "listener, search listener, both sockets of the combined listener with the C03 tracker, the server's search "
              "responder with its MX clamp and randrange range): for every byte string, sender, clock reading, tracker state and "
              "oracle answer datagram_received returns normally; a datagram that is not a well-formed SSDP message is dropped "
              "and leaves the tracker unchanged; a decodable message handed to the combined listener that the tracker "
              "specification (C03.Spec) classifies as neither a valid sighting nor a valid byebye triggers no callback and "
              "leaves the known devices unchanged (C02_listener_inert); everything build_ssdp_packet emits is dispatched; the "
              "tracker invariant survives any datagram; the three executable clauses hold of every run. The model is run against the real "
              "datagram_received of long-lived endpoint instances on byte-, token- and header-level mutations of valid messages, "
              "plus an implementation-only volume search for escaping exceptions."),
        technique="Coq proof (exception-flow case analysis over the composed C01/C03 models, generated except clause and constants) + differential correspondence + implementation-only search for clause 1",
        design="§4 C02",
    ),
    "C03": dict(
        text=("Coq theorems by induction over arbitrary histories of the SSDP device tracker (search responses, alive / update "
              "/ byebye / other advertisements, M-SEARCH echoes, purges; arbitrary non-monotone time stamps, any devices, types, "
              "locations, CACHE-CONTROL texts; ip_version_from_location an unconstrained oracle): the bookkeeping invariant "
              "(distinct names, purge watermark below every validity, latest location carries the validity) holds in every "
              "reachable state, one step is characterised in the statement's vocabulary, and the five executable clauses "
              "(presence, purged, byebye_exact, invalid_inert, valid_to with the 900 s default pinned in the spec) hold of every "
              "run. Constants and the validity predicates' literals are regenerated from ssdp_listener.py. The model is run "
              "against a real SsdpListener fed datagrams built by build_ssdp_packet under a scripted clock."),
        technique="Coq proof (state invariant + step characterisation + induction over histories, header maps via the C16 refinement) + source-generated constants + differential correspondence",
        design="§4 C03",
    ),
    "C04": dict(
        text=("Coq theorem C04_notify_exact: for every history of the domain the tracker model's notification (device, type, "
              "source) and the combined headers handed out at notification time are exactly what the executable specification "
              "C04.Spec.expect computes from the history and the device map before the message (changed iff the device was not "
              "known and valid, the type is new for it, the location is new in a known address family, or a non-volatile header "
              "differs from the previous message of that type; snapshot = search headers overlaid by advertisement headers), proved by an "
              "invariant relating the stored header maps to the history (C04/History.v), with the ingredient theorems "
              "(header comparison exact w.r.t. the statement's volatile list tied to the generated IGNORED_HEADERS, snapshot "
              "through the C16 refinement), and C04_names_sender: on every history of the domain each message yields at most "
              "one notification, and it names the device of the message's USN and the message's own type. The same executable clauses are evaluated in Coq on the "
              "implementation's observations on every run, and the model is compared with the implementation on the same histories."),
        technique="Coq proof (invariant by induction over histories, C16 refinement for header maps) of the notification/snapshot clauses + the same clauses evaluated in Coq on implementation observations (differential correspondence)",
        design="§4 C04, §11.3",
    ),
    "C05": dict(
        text=("Nine closed Coq theorems over an executable two-stage model (ElementTree queries; everything that can raise or "
              "construct) of UpnpFactory and the getters through which the object graph is observed, run on XML trees rendered "
              "from an abstract syntax of well-formed descriptions: for every definition (any device tree, services, state "
              "variables over the generated 26-type table with default/range/allowed list/either sendEvents notation, actions, "
              "icons, both URL styles), every rendering that permutes record children, both modes, every oracle answer, device "
              "creation returns a graph that mirrors the definition one-to-one (partial: same-type sibling devices / services, "
              "D32 / D33, excluded by guards and proved refuted), strict mode refuses any corrupted service document with a "
              "library error (full), non-strict mode degrades corrupted services and mirrors the rest. The model is run against "
              "the real factory on rendered XML text, raw mutated documents and every corruption assignment of a 3-service tree, "
              "also with a second description built by the same factory before or interleaved with the one under test. Domain "
              "(Spec.wf_desc): conformant services, URLs of either style, one document per SCPD URL - services may share an SCPD "
              "URL provided they have the same state variables, actions and corruption marker; the stricter 'own SCPD URL per "
              "service' domain wf_dev is kept for C14."),
        technique="Coq proof (record-rendering/permutation lemmas, parse o render = id by nested induction, refinement to a definition-level object function, C08 reused) + generated type tables + differential correspondence",
        design="§4 C05",
    ),
    "C06": dict(
        text=("Coq proof (7 theorems, closed) that the executable model of UpnpAction.async_call / create_request / "
              "_format_request_args / validate_arguments - data types, validation and coercion taken from the C08 model over the "
              "generated table - satisfies the five spec clauses for all strict calls whose names are XML names and whose values "
              "lie in C08's round-trip domain with XML-legal strings: request line, headers, well-formed envelope with "
              "in-arguments once and in order, values decode through XML and the in-coercer, refusal with the library's error "
              "before anything is sent (unconditional). Well-formedness and decoding are by a Gallina XML reader proved on the "
              "envelope for all inputs and compared with the real expat on every body sent."),
        technique="Coq proof (executable model + Gallina XML reader, induction over strings and argument lists, C08 roundtrip/accepts_iff reused) + differential correspondence with expat-decoded observations",
        design="§4 C06",
    ),
    "C07": dict(
        text=("14 Coq theorems (closed, no axioms) about an executable model of UpnpAction.async_call / parse_response / "
              "_parse_response_args / _parse_fault over XML trees, for every parser oracle: refinement to a category decode table "
              "(fault / other status / not XML / success / strictness), padding and argument-order irrelevance, rendered success "
              "and fault rows for all integers and all typed values via C08; tied to /repo by generated type tables and a per-run "
              "differential check (exhaustive status x kind x strictness x padding scope + random rendered responses and a "
              "malformed stream), with the spec clauses evaluated on the implementation's observations against a reference parse."),
        technique="Coq proof + generated tables (C08) + differential correspondence with a recorded parser oracle",
        design="§4 C07",
    ),
    "C10": dict(
        text=("Coq proof: for all histories of NOTIFY requests over any number of services (any generated data type, allowed list, "
              "range, strictness; any header list as dict or CIMultiDict; any parsed property set without repeated tags) the model "
              "of handle_notify / notify_changed_state_variables selects the status by the 400/412/200 table, applies every "
              "property to the variable its local name denotes independently of the others (stored / reads absent / old value "
              "kept), calls on_event exactly once with exactly the replaced variables, and touches no other service; model tied to "
              "/repo by differential correspondence after every request."),
        technique="Coq proof (closed-form lemma for the update loop, induction over histories, C08 codec/validation model reused) + differential correspondence",
        design="§4 C10",
    ),
    "C11": dict(
        text=("Coq proof over an executable model of UpnpEventHandler.handle_notify / async_subscribe (backlog as repaired) and "
              "notify_changed_state_variables: for ALL schedules (lists of atomic steps Notify / SubStart / SubResp, any number of "
              "NOTIFYs, SIDs, services and subscribe calls) every early event NOTIFY is answered 200 and changes nothing; when a SID "
              "is first granted the call returns it and every variable of the service holds the outcome of the latest early NOTIFY "
              "that carried it; NOTIFYs for never-granted SIDs are non-interfering. Tied to the code by differential "
              "correspondence on the real handler stepped one event-loop iteration at a time, exhaustive for k <= 3 NOTIFYs x all "
              "variable-subset assignments x all response positions x a second service."),
        technique="Coq proof (invariant + induction over schedules, refinement of handler state to history functions, simulation for erasure) + differential correspondence on a stepped asyncio loop",
        design="§4 C11",
    ),
    "C12": dict(
        text=("Machine-checked, for every schedule of external actions over an explicit small-step model of the profile "
              "subscription machinery (profile.py and the event-handler functions it calls) on one asyncio loop in virtual time: "
              "subscribe is all-or-nothing and never touches a foreign service (C12_all_or_nothing, full strength in the domain); "
              "the renewal loop yields to the event loop unless a renewal pass starts with a deadline more than the tolerance "
              "overdue (C12_loop_yields_partial; the excluded case is the known finding D19, refutation proved); after an "
              "unsubscribe call returns nothing is routed, held or outstanding, the renewal task has ended and no request is "
              "ever sent, unless the call started during an in-flight renewal (C12_clean_shutdown_partial; D20, refutation proved). "
              "What the two findings leave is proved without any guard premise and never suppressed: with D20, once an "
              "unsubscribe call has returned every still-routed SID is the SID of a renewal SUBSCRIBE of the renewal task "
              "that was outstanding when an unsubscribe call was made or was sent in the iteration in which it started "
              "executing - read off the schedule and the observed request log - and everything else clean shutdown demands "
              "holds (C12_clean_shutdown_residual; C12_clean_shutdown_partial_obs: clause 5 outside the observation-based "
              "guard); with D19, a run stops yielding only at a loop iteration before which the renewal task was pending "
              "(C12_loop_yields_residual). "
              "kept_alive (C12_kept_alive): on every schedule of the domain satisfying lapse_premise (automatic renewal requested; no "
              "subscribe call or renewal pass waited more than the 60 s tolerance for its responses; every granted timeout "
              "exceeds the tolerance plus that longest wait) every SID the profile holds is unexpired at the publisher at "
              "every step and the publisher never accepted a renewal of a subscription it had expired. failure_reported "
              "(C12_failure_reported): the on_event(service, []) calls are always a prefix, in delivery order, of the failed "
              "renewals; the device is unavailable only if one of them was 'unreachable'; whenever the loop is idle with no "
              "unsubscribe call made every failure has been reported exactly once. The model is compared "
              "with the real coroutines after every action of every generated schedule (virtual-time loop, scripted publisher)."),
        technique="Coq proof by structural, wake and timing invariants (induction over schedules) over a hand-inlined asyncio transition system, all seven clauses (two partial outside the known-finding guards D19/D20, refutations proved, and their two residual clauses without guard) + differential correspondence in a virtual-time asyncio loop",
        design="§4 C12, §11.3",
    ),
    "C13": dict(
        text=("For every device tree and every history of M-SEARCH datagrams, clock advances and stops in the stated domain, "
              "machine-checked theorems about an executable model of the SSDP server (as repaired) show: the response table equals "
              "the UDA table (ssdp:all 1+2d+k, rootdevice, UUID, type of equal or lower version echoing the request, else nothing); "
              "each answer is sent exactly once within the MX window to the requester; the pairs advertised with ssdp:alive "
              "round-robin once per announce interval and revoked with ssdp:byebye on stop are exactly the ssdp:all pairs; every "
              "USN begins with the UUID of the described device; every emitted message, built and decoded by the C01 wire-codec model "
              "(the decoding premise is discharged in C13/Decode.v for every unscoped sender), is accepted by the C03 tracker "
              "model as that device at base_uri + device_url. Tied to "
              "/repo by tables regenerated from server.py and by differential runs of the real responder and announcer in virtual "
              "time, every emitted datagram fed to a real SsdpListener."),
        technique="Coq proof (invariant-based induction over histories tying a monitor automaton to the model's pending timers; composition with the C03 model) + generated tables + virtual-time differential correspondence",
        design="§4 C13",
    ),
    "C14": dict(
        text=("Machine-checked theorems about an executable model of server.py (as repaired by D9, D10, D34-D36) composed with the "
              "verified client models C05-C08, for every well-formed server definition, every oracle answer, every accepted keyword "
              "assignment, every handler result and every request (any header, any XML tree or non-XML): the served description and "
              "SCPD documents make the client factory build an object model mirroring the definition (C05's mirror relation, step "
              "texts included); a valid call reaches the handler with exactly the in-arguments and the caller gets exactly the "
              "handler's typed results; a handler-raised action error reaches the caller with the same code; calls the definition "
              "does not accept never leave the client; every malformed / unknown-action / unknown-, unparseable-, missing- or "
              "invalid-argument request is answered with a 4xx or a SOAP fault and no exception ever leaves the handler. The clause "
              "booleans are the same definitions the correspondence check evaluates on the real client talking to the real handlers "
              "(classes built by type(...), requests by make_mocked_request, no sockets). aiohttp's route registration is not modelled."),
        technique="Coq proof (refinement to C05's mirror relation via parse-after-serialise lemmas; composition of the C06 request and C07 decode theorems through the server model; total characterisation of the request handler) + differential correspondence with the real server handlers and client",
        design="§4 C14, §11.2",
    ),
    "C15": dict(
        text=("Coq theorems over all histories of SUBSCRIBE, renewal, UNSUBSCRIBE, variable assignments, clock advances, NOTIFY "
              "completions in any order and key jumps, for any number of variables and subscribers: no clause of the executable "
              "specification fails on the model of the (repaired) publisher code - initial event with key 0 and every evented "
              "variable, consecutive keys with the 2^32-1 -> 1 wrap in N (constants regenerated from the source), bounded "
              "staleness implying eventual consistency, moderation, renewal, silence of dead subscribers, refusal of unknown SIDs. "
              "The same clauses are evaluated in Coq on the real code's observations from a virtual-time asyncio loop, model and "
              "implementation compared step by step (exhaustive to depth 4 over a 12-operation alphabet in the thorough tier)."),
        technique="Coq proof (transition system at loop-quiescence granularity, invariant relating model state to a response-derived spec state, induction over histories) + generated constants + differential correspondence in virtual time",
        design="§4 C15",
    ),
    "C16": dict(
        text=("Refinement theorem (Coq): for every operation sequence in the stated domain the model of "
              "CaseInsensitiveDict (two Python dicts per object, aliasing by replace) is observationally equal to a "
              "finite map keyed by folded name; invariant by induction over the operation list. The model is run "
              "against the real class on random and exhaustive small-scope operation sequences on every check."),
        technique="Coq refinement proof (lockstep simulation, induction over operation lists) + differential correspondence model/implementation evaluated with vm_compute",
        design="§4 C16",
    ),
    "C08": dict(
        text=("Coq theorems over an executable model of the data-type codec driven by tables regenerated from const.py / "
              "utils.py on every run: for every row of STATE_VARIABLE_TYPE_MAPPING (26 names) and every value of its Python "
              "type (all integers via Decimal, all strings, both booleans, all floats but nan under the stated CPython "
              "repr/parse premise, all dates 0001..9999, all times/date-times at whole seconds with offsets of whole minutes) "
              "out-coercion followed by in-coercion (parse_date_time over the generated matcher table) returns the value, in "
              "the normative wire format; conversion failures are only ever ValueError; the schema accepts exactly "
              "type/tz/allowed/range; rejected values are never stored. The model is run against real UpnpStateVariable "
              "objects (built by UpnpFactory) on generated codec cases and variable histories."),
        technique="Coq proof (symbolic digit-token evaluation of the generated regex/strptime table, Decimal round trip, boolean decision rules) + source-generated tables + differential correspondence",
        design="§4 C08",
    ),
    "C09": dict(
        text=("Five Coq theorems, by induction over arbitrary call histories with a registry invariant: for every history of "
              "subscribe / renew (by service, by SID, all) / unsubscribe calls and every scripted publisher reaction sequence in "
              "the stated domain, the model of UpnpEventHandler satisfies registry_mirror, returns, renew_fallback, "
              "unsubscribe_immediate and requests_valid (executable clauses over (history, observations) defined from the "
              "publisher's exchange log; clause 1 additionally proved to mean pointwise equality of routed and publisher-side "
              "tables). The except ladder, exception hierarchy and default timeouts are regenerated from the source. The model "
              "is run against the real class after every call on every history to depth 4 over a small alphabet and random "
              "histories to depth 40, the same clauses evaluated on the implementation's observations."),
        technique="Coq proof by induction over call histories (registry invariant, per-call soundness lemmas, proofs computed over the generated except ladder) + differential correspondence",
        design="§4 C09",
    ),
    "C17": dict(
        text=("Coq theorems over an executable interpreter of the requesters' except ladders, retry loop and Host-header "
              "helper, where the ladders, the exception-class hierarchy and the retry count are regenerated from aiohttp.py / "
              "exceptions.py and the installed aiohttp on every check: for every outcome sequence over all exception classes a "
              "ClientSession can raise the result is the first successful exchange or a UpnpCommunicationError-family error "
              "(timeouts/connection failures as UpnpConnectionError, response errors with their status); at most 3 attempts, "
              "repeated only after connection-level faults (induction over the retry count, general in the tables, plus a "
              "finite forallb check of the generated tables); scoped-IPv6 URLs get a Host without the zone. Run against the "
              "real requesters with a scripted fake ClientSession, exhaustively for short outcome sequences."),
        technique="Coq proof (table interpreter, induction over the retry loop, finite forallb over the generated class list) + source-generated tables + differential correspondence",
        design="§4 C17",
    ),
    "C18": dict(
        text=("Coq 8.16.1: for ALL schedules of external actions (start / complete with any outcome / cancel / uncache / loop "
              "iteration; unbounded tasks and locations; suspending or immediately answering requester) on an executable model of "
              "the asyncio loop and of the (repaired) description cache, proved by induction with a state invariant and a "
              "per-iteration two-state summary: single flight per location and epoch, shared outcome, values and failures cached "
              "until uncache, no orphan marker, no stuck state, drain terminates within 2n+2 rounds; 12 theorems closed under the "
              "global context. The model is tied to the real DescriptionCache on the real asyncio loop, stepped one _run_once() at "
              "a time, with observations compared after every action (every depth-6 schedule over a 9-action alphabet in the "
              "thorough tier, cancel/uncache injected at every position of 14 scenarios)."),
        technique="Coq proof about an executable asyncio-kernel model (invariant + induction over schedules) + differential correspondence against the real event loop stepped per iteration",
        design="§4 C18",
    ),
    "C19": dict(
        text=("Coq theorems over an executable model of the LastChange path (content-handler fold over SAX events, "
              "error-swallowing parse, dlna_handle_notify_last_change, notify_changed_state_variables, DmrDevice._on_event with "
              "nested re-expansion): totality for every SAX event list and every history; exact expansion, one further callback, "
              "nothing without instance 0, for every well-formed Event/InstanceID*/variable* tree. Parser and coercers are oracles "
              "whose premises appear in the statements. Tied to /repo by a differential check on rendered documents, small-scope "
              "exhaustive documents and character/byte-level mutations, the same boolean clauses evaluated on the "
              "implementation's observations."),
        technique="Coq proof (induction over SAX event lists and histories, fuel bounded by a length measure) with oracle-parameterised statements + differential correspondence",
        design="§4 C19",
    ),
    "C20": dict(
        text=("Coq theorems over an executable model of IgdDevice and the profile lookup: for every gateway configuration (any "
              "device tree, services, action subsets), every alias-set order and every history of operations and traffic "
              "samples, requests reach an offered service of the right family that defines the action; 'not available' only "
              "when none does; typed results; totals >= 0 for readings >= -2^31; rates absent or exactly delta/elapsed "
              "(bytes/1024); each slot depends only on its own reading. The alias and operation tables, offset, KiB divisor and "
              "gather list are regenerated from profiles/igd.py on every run and proved equal to the standard by computation. "
              "Run against the real IgdDevice on all 32 service subsets x all operations and reading series."),
        technique="Coq proof (induction over alias/type/device lists and over histories with a state invariant; computation on regenerated tables) + differential correspondence",
        design="§4 C20",
    ),
}

NOT_YET = "check not built yet (work in progress this session; see DESIGN.md §8 for the construction order)"


def main():
    checks = []
    for pid, m in sorted(CHECKS.items()):
        checks.append({
            "property_id": pid,
            "quick_cmd": f"./check {pid} --tier quick",
            "thorough_cmd": f"./check {pid} --tier thorough",
            "evidence_file": f"/verif/evidence/{pid}.json",
            "replay_cmd_template": f"./check {pid} --replay {{path}}",
            "engine": "coq-proof+correspondence",
            "level_claimed": {"category": "proof", "text": m["text"], "design_ref": m["design"]},
            "level_note": m.get("note", COMMON_NOTE),
            "technique": m["technique"],
        })
    all_ids = [f"C{n:02d}" for n in range(1, 21)]
    man = {
        "version": 1,
        "setup_cmd": "./check --setup",
        "hooks": {
            "guard": "ASYNC_UPNP_CLIENT_VERIF",
            "enable": "none needed: the harness uses only fakes and patches inside its own process; the variable is set by ./check for uniformity",
            "baseline_off_cmd": BASELINE_OFF,
            "source_commits": [],
            "add_only": True,
        },
        "engines": [{
            "name": "coq-proof+correspondence", "path": "/verif/check",
            "serves_properties": sorted(CHECKS),
            "kind_free_text": "Coq 8.16.1 development under coq/theories (model, spec, proofs, property theorems) + python differential harness evaluating model and spec inside Coq on implementation observations",
        }],
        "checks": checks,
        "not_applicable": [{"property_id": p, "reason": NOT_YET} for p in all_ids if p not in CHECKS],
        "notes": "fix: commits in /repo and known findings are listed in /verif/known_findings.json; see DESIGN.md.",
    }
    (VERIF / "MANIFEST.json").write_text(json.dumps(man, indent=1) + "\n")


if __name__ == "__main__":
    main()
