#!/usr/bin/env python3
"""Write /verif/seeded/<Cxx>-<mN>/meta.json from the logs tools/eval_seed.sh left under /tmp/seed-eval, and print
the table that DESIGN.md (section 11.4) carries.  Usage: tools/mkseeded.py [--table]"""
import json
import pathlib
import re
import sys

VERIF = pathlib.Path(__file__).resolve().parent.parent
LOGS = pathlib.Path("/tmp/seed-eval")


def section(text, *names):
    """the body of the first markdown section whose heading contains one of names (lower-cased)"""
    lines = text.splitlines()
    for i, l in enumerate(lines):
        if l.startswith("#") and any(n in l.lower() for n in names):
            out = []
            for m in lines[i + 1:]:
                if m.startswith("#"):
                    break
                out.append(m)
            return " ".join(x.strip() for x in out if x.strip())
    return ""


def main():
    rows = []
    def natural(p):
        a, b = p.name.split("-") if "-" in p.name else (p.name, "x0")
        return (a, b[0], int(b[1:]) if b[1:].isdigit() else 0)
    for d in sorted((VERIF / "seeded").iterdir(), key=natural):
        if not d.is_dir():
            continue
        log = LOGS / d.name
        meta_p = d / "meta.json"
        meta = json.loads(meta_p.read_text()) if meta_p.exists() else {}
        pid, m = d.name.split("-")
        notes = (d / "notes.md").read_text() if (d / "notes.md").exists() else ""
        title = next((l.lstrip("# ").strip() for l in notes.splitlines() if l.startswith("#")), "")
        meta.setdefault("property", pid)
        meta["title"] = title
        meta["breaks"] = section(notes, "clause", "break")[:900]
        meta["needs_to_manifest"] = section(notes, "needed", "manifest", "trigger")[:900]
        if log.is_dir() and (log / "check.rc").exists():
            rd = lambda n: (log / n).read_text().strip() if (log / n).exists() else ""
            out = rd("check.out")
            vio = [l for l in out.splitlines() if l.startswith("VIOLATION")]
            replay = {}
            if (log / "replay.json").exists():
                try:
                    replay = json.loads((log / "replay.json").read_text())
                except Exception:  # noqa: BLE001
                    replay = {}
                (d / "replay.json").write_text(json.dumps(replay, indent=1)[:200000])
            meta["ran"] = [
                f"git -C /repo worktree add --detach /tmp/wt-eval-{d.name} HEAD; git -C /tmp/wt-eval-{d.name} apply patch.diff",
                f"PYTHONPATH=/tmp/wt-eval-{d.name} /venv/bin/python demo.py   (clean tree first, then patched)",
                "cd <worktree> && /venv/bin/python -m pytest -ra -q -p no:cacheprovider --timeout=900 --continue-on-collection-errors",
                f"VERIF_REPO=/tmp/wt-eval-{d.name} ./check {pid} --tier quick",
            ]
            meta["result"] = {
                "demo_rc_clean_tree": int(rd("demo_clean.rc") or -1),
                "demo_rc_patched": int(rd("demo_patched.rc") or -1),
                "suite_patched": rd("suite.out"),
                "check_rc": int(rd("check.rc") or -1),
                "check_violation_line": vio[0] if vio else None,
                "detected": bool(vio) and rd("check.rc") == "1",
                "how": replay.get("kind") or replay.get("reason") or (replay.get("violations") or [{}])[0].get("kind") if replay else None,
            }
        meta_p.write_text(json.dumps(meta, indent=1) + "\n")
        r = meta.get("result", {})
        rows.append((d.name, title, r.get("detected"), r.get("how"), meta.get("strengthened", "")))
    if "--table" in sys.argv:
        print("| seeded change | what it does | caught by quick check | how | note |")
        print("|---|---|---|---|---|")
        for n, t, det, how, note in rows:
            if "-h" in n:
                continue
            t = re.sub(r"^C\d\d\s*/\s*m\d+\s*[-—:]*\s*", "", t)
            moot = json.loads((VERIF / "seeded" / n / "meta.json").read_text()).get("moot")
            print(f"| {n} | {t} | {'n/a' if moot else 'yes' if det else 'NO' if det is not None else '?'} | {how or ''} | {note} |")
    if "--harmless" in sys.argv:
        print("| harmless refactoring | what it does | quick check stays silent | note |")
        print("|---|---|---|---|")
        for n, t, det, how, note in rows:
            if "-h" not in n:
                continue
            t = re.sub(r"^C\d\d\s*/\s*h\d+\s*[-—:]*\s*", "", t)
            print(f"| {n} | {t} | {'yes' if det is False else 'NO (' + str(how) + ')' if det else '?'} | {note} |")


if __name__ == "__main__":
    main()
